(* The unit-life machine (Model/UnitLife.v) REFINES the executor protocol (Model/Unit.v).
   Part 1: every projection of a life run (Model/LifeProtocol.v) is accepted by the protocol
           automaton [ustep], and the automaton ends in the phase that corresponds to the life
           machine's state ([phase_of_lstate]) -- for every pause table, every event sequence
           (environment-valid or not: the environment only restricts which runs exist).
   Part 2: the attempts the projection reports are the life machine's [l_done] = the attempts of
           the monitor's log.
   Part 3: the converse for simple protocol traces: each is the projection of a life run that the
           environment can produce. *)
From NextestModel Require Import Base.Str Base.Tac Model.Backoff Proofs.Backoff Model.Clocks
  Model.UnitTimers Model.AbsTimers Model.UnitLife Proofs.UnitLife.
From NextestModel Require Import Model.Result Model.Dispatcher Model.Unit Model.LifeProtocol.
Open Scope N_scope.

(* ------------------------------------------------------------ the protocol automaton as a fold *)
Lemma ufold_urun c t : forall h p,
  urun c t p h = match ufold c t p h with Some _ => true | None => false end.
Proof.
  induction h as [|[e hs] h IH]; intros p; [reflexivity|].
  cbn [urun ufold]. destruct (event_test e) as [t'|]; [|apply IH].
  destruct (t' =? t); [|apply IH]. destruct (ustep c t p e hs); [apply IH|reflexivity].
Qed.

Lemma ufold_app c t : forall h1 h2 p,
  ufold c t p (h1 ++ h2) =
  match ufold c t p h1 with Some p' => ufold c t p' h2 | None => None end.
Proof.
  induction h1 as [|[e hs] h1 IH]; intros h2 p; [reflexivity|].
  cbn [ufold app]. destruct (event_test e) as [t'|]; [|apply IH].
  destruct (t' =? t); [|apply IH]. destruct (ustep c t p e hs); [apply IH|reflexivity].
Qed.

(* ------------------------------------------------------------ outputs of the wait loops *)
Definition not_slow (o : uout) : Prop := match o with OSlow _ => False | _ => True end.

Lemma exec_pop_not_slow rp c o r : exec_pop rp c o = Ok r -> Forall not_slow (snd r).
Proof.
  destruct o as [k|k| | |]; cbn [exec_pop]; intros H.
  - destruct (clk_pause c k); [|discriminate]. injection H as <-. constructor.
  - destruct (clk_resume c k); [|discriminate]. injection H as <-. constructor.
  - injection H as <-. cbn [snd]. destruct rp; repeat constructor.
  - injection H as <-. cbn [snd]. destruct rp; repeat constructor.
  - injection H as <-. repeat constructor.
Qed.

Lemma exec_pops_not_slow rp : forall os c r, exec_pops rp c os = Ok r -> Forall not_slow (snd r).
Proof.
  induction os as [|o os IH]; intros c r H; cbn [exec_pops] in H.
  - injection H as <-. constructor.
  - destruct (exec_pop rp c o) as [r1|] eqn:E1; [|discriminate]. cbn [obind] in H.
    destruct (exec_pops rp (fst r1) os) as [r2|] eqn:E2; [|discriminate]. cbn [obind] in H.
    injection H as <-. cbn [snd]. apply Forall_app. split.
    + exact (exec_pop_not_slow rp c o r1 E1).
    + exact (IH (fst r1) r2 E2).
Qed.

Lemma exec_arm_not_slow rp : forall a c r, exec_arm rp c a = Ok r -> Forall not_slow (snd r).
Proof.
  induction a as [|st a IH]; intros c r H; cbn [exec_arm] in H.
  - injection H as <-. constructor.
  - match type of H with obind (exec_pops rp c ?b) _ = _ => destruct (exec_pops rp c b) as [r1|] eqn:E1 end;
      [|discriminate]. cbn [obind] in H.
    destruct (exec_arm rp (fst r1) a) as [r2|] eqn:E2; [|discriminate]. cbn [obind] in H.
    injection H as <-. cbn [snd]. apply Forall_app. split.
    + exact (exec_pops_not_slow rp _ c r1 E1).
    + exact (IH (fst r1) r2 E2).
Qed.

(* handle_delay_between_attempts never reports the test slow *)
Lemma dstep_not_slow tbl d de r : UnitTimers.dstep tbl d de = Ok r -> Forall not_slow (snd r).
Proof.
  unfold UnitTimers.dstep. destruct (d_done d); [intros H; injection H as <-; constructor|].
  destruct de as [dt| |[| |q| |]]; intros H.
  - injection H as <-. constructor.
  - destruct (slc_due (k_dsl (d_ck d))); injection H as <-; constructor.
  - destruct (exec_arm true (d_ck d) (t_delay_stop tbl)) as [x|] eqn:E; [|discriminate].
    injection H as <-. exact (exec_arm_not_slow true _ _ x E).
  - destruct (exec_arm true (d_ck d) (t_delay_cont tbl)) as [x|] eqn:E; [|discriminate].
    injection H as <-. exact (exec_arm_not_slow true _ _ x E).
  - injection H as <-. constructor.
  - injection H as <-. constructor.
  - injection H as <-. repeat constructor.
Qed.

(* ------------------------------------------------------------ Part 1: simulation *)
Section Sim.
  Variable tbl : ptable.
  Variable fd : N -> fdetail.
  Variable t : tid.
  Variable c : lcfg.
  Variable cf : cfg.
  Hypothesis Hsel : memb t (c_sel cf) = true.
  Hypothesis Htot : c_total cf t = lc_total c.

  (* attempt numbers: 0 until the Started handshake is answered, 1, 2, ... afterwards *)
  Definition kinv (s : lstate) : Prop :=
    match l_ph s with
    | LAwaitStart => l_k s = 0
    | LRefusedP => True
    | _ => 1 <= l_k s
    end.

  Lemma kinv_init : kinv (linit c).
  Proof. reflexivity. Qed.

  Lemma result_of_success k r : is_success (result_of fd k r) = ures_success r.
  Proof. destruct r; cbn [result_of]; try reflexivity. destruct (fd k); reflexivity. Qed.

  Definition pr (k : N) (done : list arec) (outs : list lout) : list (devent * handshake) :=
    map (fun d => (d, HNone)) (flat_map (project_out fd t c k done) outs).

  Lemma pr_app k done o1 o2 : pr k done (o1 ++ o2) = pr k done o1 ++ pr k done o2.
  Proof. unfold pr. rewrite flat_map_app, map_app. reflexivity. Qed.

  (* the outputs of the one-attempt machine: Slow events of attempt k, accepted while k runs *)
  Lemma ufold_running_outs k done : forall outs,
    ufold cf t (PRunning k) (pr k done (map LO outs)) = Some (PRunning k).
  Proof.
    induction outs as [|o outs IH]; [reflexivity|].
    destruct o as [sg|wt| |i]; cbn [map]; try exact IH.
    unfold pr. cbn [map flat_map project_out app ufold event_test].
    rewrite N.eqb_refl. cbn [Model.Unit.ustep]. rewrite Htot, !N.eqb_refl. cbn [andb]. exact IH.
  Qed.

  Lemma pr_not_slow k done : forall outs, Forall not_slow outs -> pr k done (map LO outs) = [].
  Proof.
    induction outs as [|o outs IH]; intros H; [reflexivity|].
    inversion H as [|? ? Ho Hr]; subst. specialize (IH Hr).
    destruct o; cbn [not_slow] in Ho; try contradiction; exact IH.
  Qed.

  (* the tail of the loop body: Finished, or AttemptFailedWillRetry and into the delay *)
  Lemma finish_attempt_sim s u r :
    finish_attempt c s u = Ok r -> 1 <= l_k s ->
    ufold cf t (PRunning (l_k s)) (pr (l_k s) (l_done (fst r)) (snd r)) = Some (phase_of_lstate (fst r))
    /\ kinv (fst r) /\ l_k (fst r) = l_k s
    /\ exists a, l_done (fst r) = a :: l_done s /\ ar_no a = l_k s.
  Proof.
    unfold finish_attempt. intros H Hk.
    destruct (ures_success (uresult u)) eqn:Es.
    - injection H as <-. cbn [fst snd l_done mkl].
      unfold pr. cbn [flat_map project_out app map ufold event_test].
      rewrite N.eqb_refl. cbn [Model.Unit.ustep attempt_of a_no a_total a_res ar_no ar_result].
      rewrite Htot, !N.eqb_refl, result_of_success, Es. cbn [andb orb].
      repeat split; [exact Hk|]. eexists. split; reflexivity.
    - destruct (l_k s <? lc_total c) eqn:Ek.
      + destruct (b_next (lc_js c (l_k s)) (l_bs s)) as [[d bs']|]; [|discriminate].
        injection H as <-. cbn [fst snd l_done mkl].
        unfold pr. cbn [flat_map project_out app map ufold event_test].
        rewrite N.eqb_refl. cbn [Model.Unit.ustep attempt_of a_no a_total a_res ar_no ar_result].
        rewrite Htot, !N.eqb_refl, result_of_success, Es, Ek. cbn [andb negb].
        repeat split; [exact Hk|]. eexists. split; reflexivity.
      + injection H as <-. cbn [fst snd l_done mkl].
        unfold pr. cbn [flat_map project_out app map ufold event_test].
        rewrite N.eqb_refl. cbn [Model.Unit.ustep attempt_of a_no a_total a_res ar_no ar_result].
        rewrite Htot, !N.eqb_refl, result_of_success, Es. cbn [andb orb].
        apply N.ltb_ge in Ek. apply N.leb_le in Ek. rewrite Ek.
        repeat split; [exact Hk|]. eexists. split; reflexivity.
  Qed.

  (* one step of the life machine is matched by the protocol automaton *)
  Ltac leaf Hp Hk :=
    unfold phase_of_lstate, kinv; cbn [l_ph l_k with_lph mkl]; try rewrite Hp;
    split; [reflexivity | first [exact Hk | exact I | lia]].

  Lemma step_sim s e s' outs :
    kinv s -> lstep tbl c s e = Ok (s', outs) ->
    ufold cf t (phase_of_lstate s) (project_step fd t c s e s' outs) = Some (phase_of_lstate s')
    /\ kinv s'.
  Proof.
    intros Hk Hl. unfold lstep in Hl. unfold project_step. unfold phase_of_lstate at 1.
    unfold kinv in Hk.
    destruct (l_ph s) as [|u|d| | |] eqn:Hp.
    - (* the Started handshake *)
      destruct e as [ue| |[]]; injection Hl as <- <-; try (leaf Hp Hk).
      + cbn [hs_of ufold event_test]. rewrite N.eqb_refl. cbn [Model.Unit.ustep]. rewrite Hsel.
        leaf Hp Hk.
      + cbn [hs_of ufold event_test]. rewrite N.eqb_refl. cbn [Model.Unit.ustep]. rewrite Hsel.
        unfold phase_of_lstate, kinv. cbn [l_ph l_k with_lph mkl ufold]. rewrite Hk.
        split; [reflexivity|exact I].
    - (* an attempt *)
      assert (Hsame : forall o, map (fun d => (d, HNone)) (flat_map (project_out fd t c (l_k s) (l_done s')) o)
                                = pr (l_k s) (l_done s') o) by reflexivity.
      destruct e as [ue| |a].
      2,3: injection Hl as <- <-; leaf Hp Hk.
      destruct (UnitTimers.ustep tbl (lc_unit c) u ue) as [[u' uo]|]; [|discriminate].
      destruct (ph u') eqn:Hph'.
      5:{ destruct (finish_attempt c s u') as [r|] eqn:Hf; cbn [obind] in Hl; [|discriminate].
          injection Hl as <- <-. rewrite Hsame, pr_app, ufold_app, ufold_running_outs.
          destruct (finish_attempt_sim s u' r Hf Hk) as (H1 & H2 & _). split; [exact H1|exact H2]. }
      all: injection Hl as <- <-; rewrite Hsame, ufold_running_outs; leaf Hp Hk.
    - (* the retry delay *)
      destruct (devent_of e) as [de|] eqn:Ede.
      2:{ injection Hl as <- <-. destruct e as [ue| |a]; leaf Hp Hk. }
      destruct (UnitTimers.dstep tbl d de) as [[d' uo]|] eqn:Ed; [|discriminate].
      pose proof (dstep_not_slow tbl d de (d', uo) Ed) as Hns. cbn [snd] in Hns.
      assert (He : forall o1, map (fun x => (x, HNone))
                     (flat_map (project_out fd t c (l_k s) (l_done s')) (map LO uo ++ o1))
                   = pr (l_k s) (l_done s') o1).
      { intros o1. change (pr (l_k s) (l_done s') (map LO uo ++ o1) = pr (l_k s) (l_done s') o1).
        rewrite pr_app, (pr_not_slow _ _ uo Hns). reflexivity. }
      assert (Hnot : forall acc, e <> LAnswer acc) by (intros acc ->; discriminate).
      destruct (d_done d'); injection Hl as <- <-.
      + destruct e as [ue| |a]; try (exfalso; eapply Hnot; reflexivity); rewrite He; leaf Hp Hk.
      + rewrite <- (app_nil_r (map LO uo)).
        destruct e as [ue| |a]; try (exfalso; eapply Hnot; reflexivity); rewrite He; leaf Hp Hk.
    - (* the RetryStarted handshake *)
      destruct e as [ue| |[]]; injection Hl as <- <-; try (leaf Hp Hk).
      + cbn [hs_of ufold event_test]. rewrite N.eqb_refl. cbn [Model.Unit.ustep].
        rewrite Htot, !N.eqb_refl. cbn [andb]. leaf Hp Hk.
      + cbn [hs_of ufold event_test]. rewrite N.eqb_refl. cbn [Model.Unit.ustep].
        rewrite Htot, !N.eqb_refl. cbn [andb].
        unfold phase_of_lstate, kinv. cbn [l_ph l_k with_lph mkl ufold].
        destruct (N.eqb_spec (l_k s) 0) as [E|_]; [lia|]. split; [reflexivity|exact I].
    - injection Hl as <- <-. destruct e as [ue| |a]; leaf Hp Hk.
    - injection Hl as <- <-. destruct e as [ue| |a]; leaf Hp Hk.
  Qed.

  (* a run: the projection is accepted and the automaton follows the life machine *)
  Lemma run_sim : forall es s sf,
    kinv s -> life_after tbl c s es = Some sf ->
    ufold cf t (phase_of_lstate s) (project_from tbl fd t c s es) = Some (phase_of_lstate sf)
    /\ kinv sf.
  Proof.
    induction es as [|e es IH]; intros s sf Hk H; cbn [life_after project_from] in *.
    - injection H as <-. split; [reflexivity|exact Hk].
    - destruct (lstep tbl c s e) as [[s' outs]|] eqn:El; [|discriminate].
      destruct (step_sim s e s' outs Hk El) as [H1 Hk'].
      rewrite ufold_app, H1. exact (IH s' sf Hk' H).
  Qed.

  (* ... and an internal failure only cuts the projection short *)
  Lemma run_accepted : forall es s,
    kinv s -> exists p, ufold cf t (phase_of_lstate s) (project_from tbl fd t c s es) = Some p.
  Proof.
    induction es as [|e es IH]; intros s Hk; cbn [project_from].
    - eexists. reflexivity.
    - destruct (lstep tbl c s e) as [[s' outs]|] eqn:El; [|eexists; reflexivity].
      destruct (step_sim s e s' outs Hk El) as [H1 Hk'].
      rewrite ufold_app, H1. exact (IH s' Hk').
  Qed.
End Sim.

(* the monitored system runs the same unit *)
Lemma lsys_run_life_after unicast tbl c : forall es y y',
  lsys_run unicast tbl c y es = LOk y' -> life_after tbl c (y_s y) es = Some (y_s y').
Proof.
  induction es as [|e es IH]; intros y y' H; cbn [lsys_run life_after] in *.
  - injection H as <-. reflexivity.
  - destruct (lsys_step unicast tbl c y e) as [y1| |] eqn:E; try discriminate.
    destruct (lsys_step_fields tbl unicast c y e y1 E) as (_ & o & Hl & _).
    rewrite Hl. exact (IH y1 y' H).
Qed.

(* Theorem (refinement, per unit). *)
Theorem life_refines_protocol tbl fd t c cf es :
  memb t (c_sel cf) = true -> c_total cf t = lc_total c ->
  urun cf t PIdle (project_life tbl fd t c es) = true.
Proof.
  intros Hsel Htot. rewrite ufold_urun. unfold project_life.
  destruct (run_accepted tbl fd t c cf Hsel Htot es (linit c) (kinv_init c)) as [p Hp].
  change (phase_of_lstate (linit c)) with PIdle in Hp. rewrite Hp. reflexivity.
Qed.

Theorem life_refines_protocol_phase unicast tbl fd t c cf es y :
  memb t (c_sel cf) = true -> c_total cf t = lc_total c ->
  lsys_run unicast tbl c (lsys0 c) es = LOk y ->
  ufold cf t PIdle (project_life tbl fd t c es) = Some (phase_of_lstate (y_s y)).
Proof.
  intros Hsel Htot H. apply lsys_run_life_after in H.
  exact (proj1 (run_sim tbl fd t c cf Hsel Htot es (linit c) (y_s y) (kinv_init c) H)).
Qed.

Lemma cfg_of_lcfg_ok t c : cfg_ok (cfg_of_lcfg t c) = true.
Proof.
  unfold cfg_ok, cfg_of_lcfg. cbn [c_sel c_unsel c_total nodupb memb existsb negb andb forallb].
  unfold lc_total. destruct (1 <=? p_count (lc_policy c) + 1) eqn:E; [reflexivity|].
  apply N.leb_gt in E. lia.
Qed.

Theorem life_refines_protocol_single tbl fd t c es :
  urun (cfg_of_lcfg t c) t PIdle (project_life tbl fd t c es) = true.
Proof.
  apply life_refines_protocol; [|reflexivity].
  cbn [cfg_of_lcfg c_sel memb existsb]. rewrite N.eqb_refl. reflexivity.
Qed.

(* ------------------------------------------------------------ Part 2: the attempts reported *)
Lemma trace_attempts_app : forall h1 h2, trace_attempts (h1 ++ h2) = trace_attempts h1 ++ trace_attempts h2.
Proof.
  induction h1 as [|[e hs] h1 IH]; intros h2; [reflexivity|].
  cbn [app trace_attempts]. destruct e; cbn [app]; rewrite IH; reflexivity.
Qed.

Section Attempts.
  Variable tbl : ptable.
  Variable fd : N -> fdetail.
  Variable t : tid.
  Variable c : lcfg.

  Lemma trace_attempts_LO k done : forall outs, trace_attempts (pr fd t c k done (map LO outs)) = [].
  Proof.
    induction outs as [|o outs IH]; [reflexivity|].
    destruct o; cbn [map]; exact IH.
  Qed.

  (* a step reports exactly the attempts it pushes on l_done (none or one), and only the step that
     ends an attempt pushes one *)
  Lemma step_attempts s e s' outs :
    lstep tbl c s e = Ok (s', outs) ->
    exists new, l_done s' = new ++ l_done s /\
                trace_attempts (project_step fd t c s e s' outs) = map (attempt_of fd c) (rev new) /\
                (new = [] \/ (exists a u, new = [a] /\ l_ph s = LAttempt u /\
                                          forall u', l_ph s' <> LAttempt u')) /\
                (new = [] -> forall u, l_ph s = LAttempt u -> exists u', l_ph s' = LAttempt u').
  Proof.
    intros Hl. unfold lstep in Hl. unfold project_step.
    destruct (l_ph s) as [|u|d| | |] eqn:Hp.
    - exists []. destruct e as [ue| |[]]; injection Hl as <- <-;
        (split; [reflexivity|split; [reflexivity|split; [left; reflexivity|intros _ u Hu; discriminate]]]).
    - destruct e as [ue| |a].
      2,3: injection Hl as <- <-; exists [];
        (split; [reflexivity|split; [reflexivity|split; [left; reflexivity|intros _ u0 _; eexists; exact Hp]]]).
      destruct (UnitTimers.ustep tbl (lc_unit c) u ue) as [[u' uo]|]; [|discriminate].
      destruct (ph u') eqn:Hph'.
      5:{ destruct (finish_attempt c s u') as [r|] eqn:Hf; cbn [obind] in Hl; [|discriminate].
          injection Hl as <- <-.
          change (map (fun d => (d, HNone)) (flat_map (project_out fd t c (l_k s) (l_done (fst r))) (map LO uo ++ snd r)))
            with (pr fd t c (l_k s) (l_done (fst r)) (map LO uo ++ snd r)).
          rewrite pr_app, trace_attempts_app, trace_attempts_LO. cbn [app].
          unfold finish_attempt in Hf.
          set (a := {| ar_no := l_k s; ar_result := uresult u'; ar_slow := slow u'; ar_time := time_taken u' |}) in *.
          exists [a].
          assert (G : l_done (fst r) = a :: l_done s /\
                      trace_attempts (pr fd t c (l_k s) (l_done (fst r)) (snd r)) = [attempt_of fd c a] /\
                      forall u0, l_ph (fst r) <> LAttempt u0).
          { destruct (ures_success (uresult u')).
            - injection Hf as <-. cbn [fst snd l_done l_ph mkl]. repeat split; intros; discriminate.
            - destruct (l_k s <? lc_total c).
              + destruct (b_next (lc_js c (l_k s)) (l_bs s)) as [[dl bs']|]; [|discriminate].
                injection Hf as <-. cbn [fst snd l_done l_ph mkl]. repeat split; intros; discriminate.
              + injection Hf as <-. cbn [fst snd l_done l_ph mkl]. repeat split; intros; discriminate. }
          destruct G as (G1 & G2 & G3).
          split; [exact G1|]. split; [exact G2|]. split.
          - right. exists a, u. split; [reflexivity|]. split; [reflexivity|exact G3].
          - discriminate. }
      all: injection Hl as <- <-; exists [];
        change (map (fun d => (d, HNone)) (flat_map (project_out fd t c (l_k s) (l_done (with_lph s (LAttempt u')))) (map LO uo)))
          with (pr fd t c (l_k s) (l_done (with_lph s (LAttempt u'))) (map LO uo));
        rewrite trace_attempts_LO;
        (split; [reflexivity|split; [reflexivity|split; [left; reflexivity|intros _ u0 _; eexists; reflexivity]]]).
    - exists [].
      assert (G : trace_attempts (project_step fd t c s e s' outs) = []).
      { unfold project_step. rewrite Hp. destruct (devent_of e) as [de|] eqn:Ede.
        2:{ injection Hl as <- <-. destruct e; reflexivity. }
        destruct (UnitTimers.dstep tbl d de) as [[d' uo]|]; [|discriminate].
        assert (Hnot : forall acc, e <> LAnswer acc) by (intros acc ->; discriminate).
        destruct (d_done d'); injection Hl as <- <-.
        - change (map (fun x => (x, HNone))
                      (flat_map (project_out fd t c (l_k s) (l_done (with_lph s LAwaitRetry)))
                                (map LO uo ++ [LRetryStarted (l_k s + 1)])))
            with (pr fd t c (l_k s) (l_done (with_lph s LAwaitRetry)) (map LO uo ++ [LRetryStarted (l_k s + 1)])).
          rewrite pr_app, trace_attempts_app, trace_attempts_LO.
          destruct e; reflexivity.
        - change (map (fun x => (x, HNone))
                      (flat_map (project_out fd t c (l_k s) (l_done (with_lph s (LDelay d')))) (map LO uo)))
            with (pr fd t c (l_k s) (l_done (with_lph s (LDelay d'))) (map LO uo)).
          rewrite trace_attempts_LO. destruct e; reflexivity. }
      unfold project_step in G. rewrite Hp in G.
      assert (Hd : l_done s' = l_done s).
      { destruct (devent_of e) as [de|]; [|injection Hl as <- _; reflexivity].
        destruct (UnitTimers.dstep tbl d de) as [[d' uo]|]; [|discriminate].
        destruct (d_done d'); injection Hl as <- _; reflexivity. }
      split; [exact Hd|]. split; [exact G|]. split; [left; reflexivity|intros _ u Hu; discriminate].
    - exists []. destruct e as [ue| |[]]; injection Hl as <- <-;
        (split; [reflexivity|split; [reflexivity|split; [left; reflexivity|intros _ u Hu; discriminate]]]).
    - exists []. injection Hl as <- <-.
      split; [reflexivity|]. split; [destruct e; reflexivity|].
      split; [left; reflexivity|intros _ u Hu; discriminate].
    - exists []. injection Hl as <- <-.
      split; [reflexivity|]. split; [destruct e; reflexivity|].
      split; [left; reflexivity|intros _ u Hu; discriminate].
  Qed.

  Lemma run_attempts : forall es s sf,
    life_after tbl c s es = Some sf ->
    map (attempt_of fd c) (rev (l_done sf)) =
    map (attempt_of fd c) (rev (l_done s)) ++ trace_attempts (project_from tbl fd t c s es).
  Proof.
    induction es as [|e es IH]; intros s sf H; cbn [life_after project_from] in *.
    - injection H as <-. rewrite app_nil_r. reflexivity.
    - destruct (lstep tbl c s e) as [[s' outs]|] eqn:El; [|discriminate].
      destruct (step_attempts s e s' outs El) as (new & Hd & Ht & _).
      rewrite (IH s' sf H), trace_attempts_app, Ht, Hd, rev_app_distr, map_app, app_assoc. reflexivity.
  Qed.
End Attempts.

(* the monitor's log has the same attempts *)
Lemma log_attempts_step unicast tbl fd c y e y' :
  lsys_step unicast tbl c y e = LOk y' ->
  log_attempts fd c (y_log y) = map (attempt_of fd c) (rev (l_done (y_s y))) ->
  log_attempts fd c (y_log y') = map (attempt_of fd c) (rev (l_done (y_s y'))).
Proof.
  intros Hs Hi.
  destruct (lsys_step_fields tbl unicast c y e y' Hs) as (_ & o & Hl & _ & _ & _ & _ & _ & Hlog).
  cbv zeta in Hlog. rewrite Hlog. clear Hlog.
  destruct (step_attempts tbl fd 0 c (y_s y) e (y_s y') o Hl) as (new & Hd & _ & Hcase & Hstay).
  unfold log_step. destruct Hcase as [->|(a & u & -> & Hp & Hp')].
  - cbn [app] in Hd. rewrite Hd.
    destruct (l_ph (y_s y)) as [|u|d| | |] eqn:Hp; try exact Hi.
    + destruct (Hstay eq_refl u eq_refl) as [u' ->]. exact Hi.
    + destruct (l_ph (y_s y')); exact Hi.
  - rewrite Hp. cbn [app] in Hd. rewrite Hd.
    destruct (l_ph (y_s y')) as [|u'|d| | |] eqn:Hq; try (exfalso; eapply Hp'; reflexivity);
      cbn [log_attempts rev]; rewrite map_app, Hi; reflexivity.
Qed.

Lemma log_attempts_run unicast tbl fd c : forall es y y',
  lsys_run unicast tbl c y es = LOk y' ->
  log_attempts fd c (y_log y) = map (attempt_of fd c) (rev (l_done (y_s y))) ->
  log_attempts fd c (y_log y') = map (attempt_of fd c) (rev (l_done (y_s y'))).
Proof.
  induction es as [|e es IH]; intros y y' H Hi; cbn [lsys_run] in H.
  - injection H as <-. exact Hi.
  - destruct (lsys_step unicast tbl c y e) as [y1| |] eqn:E; try discriminate.
    exact (IH y1 y' H (log_attempts_step unicast tbl fd c y e y1 E Hi)).
Qed.

(* Theorem: the attempts the dispatcher is told about (AttemptFailedWillRetry k, then Finished)
   are the attempts the life machine has run, as its monitor logs them, oldest first *)
Theorem projection_reports_life_log unicast tbl fd t c es y :
  lsys_run unicast tbl c (lsys0 c) es = LOk y ->
  trace_attempts (project_life tbl fd t c es) = log_attempts fd c (y_log y)
  /\ log_attempts fd c (y_log y) = map (attempt_of fd c) (rev (l_done (y_s y))).
Proof.
  intros H.
  pose proof (log_attempts_run unicast tbl fd c es (lsys0 c) y H eq_refl) as HL.
  split; [|exact HL]. rewrite HL.
  pose proof (run_attempts tbl fd t c es (linit c) (y_s y) (lsys_run_life_after unicast tbl c es _ _ H)) as HR.
  cbn [linit l_done mkl rev map app] in HR. symmetry. exact HR.
Qed.

(* ------------------------------------------------------------ Part 3: the converse *)
Definition quiet (e : levent) : Prop := match e with LU (Req _) => False | _ => True end.

Lemma lsys_step_ok unicast tbl c y e s' o :
  lenv_ok unicast (y_s y) (y_t y) e = true -> lstep tbl c (y_s y) e = Ok (s', o) ->
  exists y1, lsys_step unicast tbl c y e = LOk y1 /\ y_s y1 = s' /\ y_t y1 = lenv_next (y_t y) e.
Proof.
  intros H1 H2. unfold lsys_step. rewrite H1, H2. eexists. split; [reflexivity|split; reflexivity].
Qed.

(* a run without deliveries, before any cancel request: the environment admits it *)
Lemma quiet_run unicast tbl c : forall es y sf,
  lt_cancel (y_t y) = false -> Forall quiet es -> life_after tbl c (y_s y) es = Some sf ->
  exists y', lsys_run unicast tbl c y es = LOk y' /\ y_s y' = sf /\ y_t y' = y_t y.
Proof.
  induction es as [|e es IH]; intros y sf Hc Hq H; cbn [life_after lsys_run] in *.
  - injection H as <-. exists y. repeat split.
  - destruct (lstep tbl c (y_s y) e) as [[s' o]|] eqn:El; [|discriminate].
    inversion Hq as [|? ? Hqe Hqr]; subst.
    assert (Hok : lenv_ok unicast (y_s y) (y_t y) e = true).
    { destruct e as [[dt| | | | | |r]| |acc]; cbn [lenv_ok]; try reflexivity.
      - rewrite Hc, Bool.andb_false_r. destruct (l_ph (y_s y)); reflexivity.
      - contradiction.
      - rewrite Hc, Bool.andb_false_r. destruct (l_ph (y_s y)); reflexivity. }
    destruct (lsys_step_ok unicast tbl c y e s' o Hok El) as (y1 & E1 & Hs1 & Ht1).
    rewrite E1.
    assert (Ht1' : y_t y1 = y_t y).
    { rewrite Ht1. destruct e as [[| | | | | |r]| |]; try reflexivity. contradiction. }
    destruct (IH y1 sf) as (y' & R & Hs' & Ht').
    + rewrite Ht1'. exact Hc.
    + exact Hqr.
    + rewrite Hs1. exact H.
    + exists y'. split; [exact R|]. split; [exact Hs'|]. rewrite Ht'. exact Ht1'.
Qed.

Lemma life_after_app tbl c : forall es1 es2 s,
  life_after tbl c s (es1 ++ es2) =
  match life_after tbl c s es1 with Some s1 => life_after tbl c s1 es2 | None => None end.
Proof.
  induction es1 as [|e es1 IH]; intros es2 s; cbn [life_after app]; [reflexivity|].
  destruct (lstep tbl c s e) as [[s' o]|]; [apply IH|reflexivity].
Qed.

Lemma project_from_app tbl fd t c : forall es1 es2 s s1,
  life_after tbl c s es1 = Some s1 ->
  project_from tbl fd t c s (es1 ++ es2) = project_from tbl fd t c s es1 ++ project_from tbl fd t c s1 es2.
Proof.
  induction es1 as [|e es1 IH]; intros es2 s s1 H; cbn [life_after project_from app] in *.
  - injection H as <-. reflexivity.
  - destruct (lstep tbl c s e) as [[s' o]|]; [|discriminate].
    rewrite (IH es2 s' s1 H), app_assoc. reflexivity.
Qed.

Lemma phase_idle_inv s : phase_of_lstate s = PIdle -> l_ph s = LAwaitStart.
Proof.
  unfold phase_of_lstate. destruct (l_ph s); try discriminate; auto. destruct (l_k s =? 0); discriminate.
Qed.

Lemma phase_running_inv s k : phase_of_lstate s = PRunning k -> exists u, l_ph s = LAttempt u /\ l_k s = k.
Proof.
  unfold phase_of_lstate. destruct (l_ph s) as [|u|d| | |]; try discriminate.
  - intros H. injection H as <-. exists u. split; reflexivity.
  - destruct (l_k s =? 0); discriminate.
Qed.

Lemma phase_delay_inv s k :
  phase_of_lstate s = PDelay k -> ((exists d, l_ph s = LDelay d) \/ l_ph s = LAwaitRetry) /\ l_k s = k.
Proof.
  unfold phase_of_lstate. destruct (l_ph s) as [|u|d| | |]; try discriminate.
  - intros H. injection H as <-. split; [left; exists d; reflexivity|reflexivity].
  - intros H. injection H as <-. split; [right; reflexivity|reflexivity].
  - destruct (l_k s =? 0); discriminate.
Qed.

Lemma slc_due_after d : slc_due (slc_tick d (slc_new d)) = true.
Proof.
  unfold slc_due, slc_tick, slc_new. cbn [lpaused rem negb andb]. apply N.eqb_eq. lia.
Qed.

Section Converse.
  Variable tbl : ptable.
  Variable fd : N -> fdetail.
  Variable t : tid.
  Variable c : lcfg.
  Variable cf : cfg.
  Hypothesis Htot : c_total cf t = lc_total c.

  (* the backoff iterator has a delay left for every retry the policy allows *)
  Definition rem_inv (s : lstate) : Prop :=
    match l_ph s with
    | LAwaitStart => b_remaining (l_bs s) = p_count (lc_policy c)
    | LAttempt _ => b_remaining (l_bs s) + l_k s = p_count (lc_policy c) + 1
    | LAwaitRetry => b_remaining (l_bs s) + l_k s = p_count (lc_policy c)
    | _ => True
    end.

  (* the states the constructed runs pass through between two protocol events *)
  Definition crel (s : lstate) : Prop :=
    kinv s /\ rem_inv s /\ (forall u, l_ph s = LAttempt u -> u = uinit (lc_unit c)) /\
    (forall d, l_ph s <> LDelay d).

  Lemma crel_init : crel (linit c).
  Proof. repeat split; try discriminate. Qed.

  (* an attempt whose child exits at once and whose pipes are closed *)
  Lemma attempt_exit_steps k bs dl dn ok :
    let u1 := with_ph (with_reaped (uinit (lc_unit c)) true ok) UnitTimers.PExiting in
    let u2 := with_ph (with_fds_done u1 true) UnitTimers.PDone in
    lstep tbl c (mkl (LAttempt (uinit (lc_unit c))) k bs dl dn) (LU (ChildExit ok))
      = Ok (mkl (LAttempt u1) k bs dl dn, []) /\
    lstep tbl c (mkl (LAttempt u1) k bs dl dn) (LU FdsDone)
      = obind (finish_attempt c (mkl (LAttempt u1) k bs dl dn) u2) (fun r => Ok (fst r, snd r)) /\
    uresult u2 = (if ok then UPass else UFail) /\ slow u2 = false.
  Proof.
    cbv zeta. split; [reflexivity|]. split; [reflexivity|]. split; [destruct ok; reflexivity|reflexivity].
  Qed.

  (* ... or stay open until the leak timeout *)
  Lemma attempt_leak_steps k bs dl dn :
    let u1 := with_ph (with_reaped (uinit (lc_unit c)) true true) UnitTimers.PExiting in
    let u2 := with_lsl (with_ck u1 (unit_tick false (leak_timeout (lc_unit c)) (ck u1)))
                       (slc_tick (leak_timeout (lc_unit c)) (lsl u1)) in
    let u3 := with_ph (with_leaked u2 true) UnitTimers.PDone in
    lstep tbl c (mkl (LAttempt (uinit (lc_unit c))) k bs dl dn) (LU (ChildExit true))
      = Ok (mkl (LAttempt u1) k bs dl dn, []) /\
    lstep tbl c (mkl (LAttempt u1) k bs dl dn) (LU (Tick (leak_timeout (lc_unit c))))
      = Ok (mkl (LAttempt u2) k bs dl dn, []) /\
    lstep tbl c (mkl (LAttempt u2) k bs dl dn) (LU FireLeak)
      = obind (finish_attempt c (mkl (LAttempt u2) k bs dl dn) u3) (fun r => Ok (fst r, snd r)) /\
    uresult u3 = ULeak /\ slow u3 = false.
  Proof.
    cbv zeta. split; [reflexivity|]. split; [reflexivity|]. split; [|split; reflexivity].
    unfold lstep. cbn [l_ph mkl]. unfold UnitTimers.ustep, UnitTimers.annotate.
    cbn [ph with_lsl with_ck with_ph with_reaped mk lsl fds_done uinit].
    rewrite slc_due_after. reflexivity.
  Qed.

  (* the whole retry delay elapses: RetryStarted is sent *)
  Lemma delay_steps k bs d dn :
    lstep tbl c (mkl (LDelay (dinit d)) k bs d dn) (LU (Tick d))
      = Ok (mkl (LDelay {| d_ck := clocks_tick d (d_ck (dinit d)); d_done := false; d_cancelled := false |})
                k bs d dn, []) /\
    lstep tbl c (mkl (LDelay {| d_ck := clocks_tick d (d_ck (dinit d)); d_done := false; d_cancelled := false |})
                     k bs d dn) LDelayFire
      = Ok (mkl LAwaitRetry k bs d dn, [LRetryStarted (k + 1)]).
  Proof.
    split; [reflexivity|].
    unfold lstep. cbn [l_ph mkl devent_of]. unfold UnitTimers.dstep. cbn [d_done d_ck].
    change (k_dsl (clocks_tick d (d_ck (dinit d)))) with (slc_tick d (slc_new d)).
    rewrite slc_due_after. reflexivity.
  Qed.

  Lemma finish_fail_retry s u d bs' :
    ures_success (uresult u) = false -> (l_k s <? lc_total c) = true ->
    b_next (lc_js c (l_k s)) (l_bs s) = Some (d, bs') ->
    finish_attempt c s u =
    Ok (mkl (LDelay (dinit d)) (l_k s) bs' d
            ({| ar_no := l_k s; ar_result := uresult u; ar_slow := slow u; ar_time := time_taken u |} :: l_done s),
        [LAttemptFailedWillRetry (l_k s) d]).
  Proof. intros H1 H2 H3. unfold finish_attempt. rewrite H1, H2, H3. reflexivity. Qed.

  Lemma finish_final s u :
    ures_success (uresult u) = true \/ (l_k s <? lc_total c) = false ->
    finish_attempt c s u =
    Ok (mkl LFinishedP (l_k s) (l_bs s) (l_delay s)
            ({| ar_no := l_k s; ar_result := uresult u; ar_slow := slow u; ar_time := time_taken u |} :: l_done s),
        [LFinished (l_k s)]).
  Proof.
    intros H. unfold finish_attempt. destruct (ures_success (uresult u)); [reflexivity|].
    destruct H as [H|H]; [discriminate|]. rewrite H. reflexivity.
  Qed.

  (* a whole attempt with a given result that is not a timeout: run_test returns, the tail of the
     loop body decides *)
  Lemma attempt_run k bs dl dn (r : result) :
    r <> Timeout ->
    let s0 := mkl (LAttempt (uinit (lc_unit c))) k bs dl dn in
    exists u, uresult u = ures_of r /\ slow u = false /\ Forall quiet (attempt_events (lc_unit c) r) /\
      forall rest,
        life_after tbl c s0 (attempt_events (lc_unit c) r ++ rest) =
          match finish_attempt c s0 u with
          | Ok (s', _) => life_after tbl c s' rest
          | Clocks.Panicked => None
          end /\
        project_from tbl fd t c s0 (attempt_events (lc_unit c) r ++ rest) =
          match finish_attempt c s0 u with
          | Ok (s', outs) => pr fd t c k (l_done s') outs ++ project_from tbl fd t c s' rest
          | Clocks.Panicked => []
          end.
  Proof.
    intros Hr. cbv zeta.
    assert (Hexit : forall ok, attempt_events (lc_unit c) r = [LU (ChildExit ok); LU FdsDone] ->
              ures_of r = (if ok then UPass else UFail) ->
              exists u, uresult u = ures_of r /\ slow u = false /\ Forall quiet (attempt_events (lc_unit c) r) /\
                forall rest,
                  life_after tbl c (mkl (LAttempt (uinit (lc_unit c))) k bs dl dn) (attempt_events (lc_unit c) r ++ rest) =
                    match finish_attempt c (mkl (LAttempt (uinit (lc_unit c))) k bs dl dn) u with
                    | Ok (s', _) => life_after tbl c s' rest
                    | Clocks.Panicked => None
                    end /\
                  project_from tbl fd t c (mkl (LAttempt (uinit (lc_unit c))) k bs dl dn) (attempt_events (lc_unit c) r ++ rest) =
                    match finish_attempt c (mkl (LAttempt (uinit (lc_unit c))) k bs dl dn) u with
                    | Ok (s', outs) => pr fd t c k (l_done s') outs ++ project_from tbl fd t c s' rest
                    | Clocks.Panicked => []
                    end).
    { intros ok Hev Hur. rewrite Hev.
      pose proof (attempt_exit_steps k bs dl dn ok) as H. cbv zeta in H. destruct H as (E1 & E2 & Eres & Esl).
      eexists. split; [rewrite Hur; exact Eres|]. split; [exact Esl|].
      split; [repeat constructor|]. intros rest.
      cbn [app life_after project_from]. rewrite E1. cbn [life_after project_from]. rewrite E2.
      match goal with |- context [finish_attempt c ?s1 ?u2] =>
        change (finish_attempt c s1 u2) with (finish_attempt c (mkl (LAttempt (uinit (lc_unit c))) k bs dl dn) u2);
        destruct (finish_attempt c (mkl (LAttempt (uinit (lc_unit c))) k bs dl dn) u2) as [[s' o]|]
      end; cbn [obind fst snd]; split; reflexivity. }
    destruct r as [| |sg l| |]; try (exfalso; apply Hr; reflexivity).
    - exact (Hexit true eq_refl eq_refl).
    - pose proof (attempt_leak_steps k bs dl dn) as H. cbv zeta in H. destruct H as (E1 & E2 & E3 & Eres & Esl).
      eexists. split; [exact Eres|]. split; [exact Esl|].
      split; [repeat constructor|]. intros rest.
      cbn [attempt_events app life_after project_from]. rewrite E1. cbn [life_after project_from]. rewrite E2.
      cbn [life_after project_from]. rewrite E3.
      match goal with |- context [finish_attempt c ?s1 ?u2] =>
        change (finish_attempt c s1 u2) with (finish_attempt c (mkl (LAttempt (uinit (lc_unit c))) k bs dl dn) u2);
        destruct (finish_attempt c (mkl (LAttempt (uinit (lc_unit c))) k bs dl dn) u2) as [[s' o]|]
      end; cbn [obind fst snd]; split; reflexivity.
    - exact (Hexit false eq_refl eq_refl).
    - exact (Hexit false eq_refl eq_refl).
  Qed.

  Lemma ures_of_success r : ures_success (ures_of r) = is_success r.
  Proof. destruct r; reflexivity. Qed.

  Lemma attempt_eq a k r sl :
    a_no a = k -> a_total a = lc_total c -> a_slow a = sl -> result_of fd k r = a_res a ->
    mk_attempt (result_of fd k r) sl k (lc_total c) = a.
  Proof. destruct a as [res s0 no tot]. cbn. intros <- -> <- ->. reflexivity. Qed.

  Lemma simple_event_test e hs : simple_event t (e, hs) = true -> event_test e = Some t.
  Proof.
    destruct e; cbn [simple_event]; try discriminate; destruct hs; try discriminate; intros H.
    all: repeat match type of H with (_ && _) = true => apply andb_prop in H as [H _] end;
      apply N.eqb_eq in H; subst; reflexivity.
  Qed.

  (* one protocol event: the life machine can take steps that project to exactly that event *)
  Lemma conv_event s e hs p' :
    crel s -> simple_event t (e, hs) = true ->
    Model.Unit.ustep cf t (phase_of_lstate s) e hs = Some p' ->
    (forall a, In a (trace_attempts [(e, hs)]) -> result_of fd (a_no a) (ures_of (a_res a)) = a_res a) ->
    exists es sf, Forall quiet es /\ life_after tbl c s es = Some sf /\
                  project_from tbl fd t c s es = [(e, hs)] /\ crel sf /\ phase_of_lstate sf = p'.
  Proof.
    intros (Hk & Hr & Hu & Hnd) Hs Hst Hfd.
    destruct e as [| | |t0|t0 no tot wt|t0 a|t0 no tot|t0 a| | | | | | | |]; try discriminate Hs.
    - (* Started *)
      cbn [Model.Unit.ustep] in Hst. destruct (memb t (c_sel cf)); [|discriminate].
      destruct (phase_of_lstate s) eqn:Eph; try (destruct hs; discriminate).
      apply phase_idle_inv in Eph.
      destruct s as [ph0 k bs dl dn]. cbn [l_ph] in Eph. subst ph0.
      unfold kinv, rem_inv in Hk, Hr. cbn [l_ph l_k l_bs mkl] in Hk, Hr.
      destruct hs; try discriminate; cbn [simple_event] in Hs; apply N.eqb_eq in Hs; subst t0;
        injection Hst as <-.
      + exists [LAnswer true]. eexists. split; [repeat constructor|]. split; [reflexivity|].
        split; [reflexivity|]. split; [|reflexivity].
        unfold crel, kinv, rem_inv. cbn [l_ph l_k l_bs mkl].
        split; [lia|]. split; [lia|]. split; [intros u H; injection H as <-; reflexivity|discriminate].
      + exists [LAnswer false]. eexists. split; [repeat constructor|]. split; [reflexivity|].
        split; [reflexivity|]. split.
        * unfold crel, kinv, rem_inv. cbn [l_ph l_k l_bs mkl with_lph]. repeat split; discriminate.
        * unfold phase_of_lstate. cbn [l_ph l_k mkl with_lph]. subst k. reflexivity.
    - (* AttemptFailedWillRetry *)
      cbn [Model.Unit.ustep] in Hst. destruct (phase_of_lstate s) as [|k0|k0| | | |] eqn:Eph; try discriminate.
      destruct ((a_no a =? k0) && (a_total a =? c_total cf t) && (k0 <? c_total cf t)
                && negb (is_success (a_res a))) eqn:Ec; [|discriminate].
      injection Hst as <-.
      apply andb_prop in Ec as [Ec Hns]. apply andb_prop in Ec as [Ec Hlt]. apply andb_prop in Ec as [Hno Hto].
      apply N.eqb_eq in Hno, Hto. rewrite Htot in Hto, Hlt.
      apply Bool.negb_true_iff in Hns.
      destruct hs; try discriminate. cbn [simple_event] in Hs.
      apply andb_prop in Hs as [Hs Hnt]. apply andb_prop in Hs as [Hs Hsl]. apply N.eqb_eq in Hs. subst t0.
      apply Bool.negb_true_iff in Hsl.
      destruct (phase_running_inv s k0 Eph) as (u & Hp & Hk0).
      pose proof (Hu u Hp) as ->.
      destruct s as [ph0 k bs dl dn]. cbn [l_ph l_k] in Hp, Hk0. subst ph0 k.
      unfold kinv, rem_inv in Hk, Hr. cbn [l_ph l_k l_bs mkl] in Hk, Hr.
      assert (Hnt' : a_res a <> Timeout) by (intros E; rewrite E in Hnt; discriminate).
      destruct (attempt_run k0 bs dl dn (a_res a) Hnt') as (u & Hres & Hslow & Hq & Hrun).
      assert (Hrem : 0 < b_remaining bs) by (apply N.ltb_lt in Hlt; unfold lc_total in Hlt; lia).
      destruct (b_next_some (lc_js c k0) bs Hrem) as (bs' & Hn & _ & Hrem').
      set (d := jit (p_jitter (b_policy bs)) (fst (fst (next_delay_and_jitter bs))) (lc_js c k0)) in *.
      assert (Hfin := finish_fail_retry (mkl (LAttempt (uinit (lc_unit c))) k0 bs dl dn) u d bs').
      cbn [l_k l_bs l_done mkl] in Hfin.
      rewrite Hres, ures_of_success in Hfin. specialize (Hfin Hns Hlt Hn).
      destruct (Hrun [LU (Tick d); LDelayFire]) as [Hla Hpf]. rewrite Hfin in Hla, Hpf.
      destruct (delay_steps k0 bs' d
                  ({| ar_no := k0; ar_result := ures_of (a_res a); ar_slow := slow u; ar_time := time_taken u |} :: dn))
        as [D1 D2].
      exists (attempt_events (lc_unit c) (a_res a) ++ [LU (Tick d); LDelayFire]). eexists.
      split; [apply Forall_app; split; [exact Hq|repeat constructor]|].
      split; [etransitivity; [exact Hla|]; cbn [life_after]; rewrite D1; cbn [life_after]; rewrite D2; reflexivity|].
      split.
      + etransitivity; [exact Hpf|]. cbn [project_from]. rewrite D1. cbn [project_from]. rewrite D2.
        unfold pr. cbn [flat_map project_out l_done mkl app map project_step l_ph l_k].
        unfold attempt_of. cbn [ar_no ar_result ar_slow].
        rewrite (attempt_eq a k0 (ures_of (a_res a)) (slow u)); [reflexivity|exact Hno|exact Hto|congruence|].
        rewrite <- Hno. apply Hfd. left. reflexivity.
      + split; [|reflexivity].
        unfold crel, kinv, rem_inv. cbn [l_ph l_k l_bs mkl].
        split; [exact Hk|]. split; [lia|]. split; [discriminate|discriminate].
    - (* RetryStarted *)
      cbn [Model.Unit.ustep] in Hst. destruct (phase_of_lstate s) as [|k0|k0| | | |] eqn:Eph; try discriminate.
      destruct ((no =? k0 + 1) && (tot =? c_total cf t)) eqn:Ec; [|discriminate].
      apply andb_prop in Ec as [Hno Hto]. apply N.eqb_eq in Hno, Hto. rewrite Htot in Hto. subst no tot.
      destruct (phase_delay_inv s k0 Eph) as ([(d0 & Hp)|Hp] & Hk0); [exfalso; exact (Hnd d0 Hp)|].
      destruct s as [ph0 k bs dl dn]. cbn [l_ph l_k] in Hp, Hk0. subst ph0 k.
      unfold kinv, rem_inv in Hk, Hr. cbn [l_ph l_k l_bs mkl] in Hk, Hr.
      destruct hs; try discriminate; cbn [simple_event] in Hs; apply N.eqb_eq in Hs; subst t0;
        injection Hst as <-.
      + exists [LAnswer true]. eexists. split; [repeat constructor|]. split; [reflexivity|].
        split; [reflexivity|]. split; [|reflexivity].
        unfold crel, kinv, rem_inv. cbn [l_ph l_k l_bs mkl].
        split; [lia|]. split; [lia|]. split; [intros u H; injection H as <-; reflexivity|discriminate].
      + exists [LAnswer false]. eexists. split; [repeat constructor|]. split; [reflexivity|].
        split; [reflexivity|]. split.
        * unfold crel, kinv, rem_inv. cbn [l_ph l_k l_bs mkl with_lph]. repeat split; discriminate.
        * unfold phase_of_lstate. cbn [l_ph l_k mkl with_lph].
          destruct (N.eqb_spec k0 0) as [E|_]; [lia|reflexivity].
    - (* Finished *)
      cbn [Model.Unit.ustep] in Hst. destruct (phase_of_lstate s) as [|k0|k0| | | |] eqn:Eph; try discriminate.
      destruct ((a_no a =? k0) && (a_total a =? c_total cf t)
                && (is_success (a_res a) || (c_total cf t <=? k0))) eqn:Ec; [|discriminate].
      injection Hst as <-.
      apply andb_prop in Ec as [Ec Hfin0]. apply andb_prop in Ec as [Hno Hto].
      apply N.eqb_eq in Hno, Hto. rewrite Htot in Hto, Hfin0.
      destruct hs; try discriminate. cbn [simple_event] in Hs.
      apply andb_prop in Hs as [Hs Hnt]. apply andb_prop in Hs as [Hs Hsl]. apply N.eqb_eq in Hs. subst t0.
      apply Bool.negb_true_iff in Hsl.
      destruct (phase_running_inv s k0 Eph) as (u & Hp & Hk0).
      pose proof (Hu u Hp) as ->.
      destruct s as [ph0 k bs dl dn]. cbn [l_ph l_k] in Hp, Hk0. subst ph0 k.
      unfold kinv, rem_inv in Hk, Hr. cbn [l_ph l_k l_bs mkl] in Hk, Hr.
      assert (Hnt' : a_res a <> Timeout) by (intros E; rewrite E in Hnt; discriminate).
      destruct (attempt_run k0 bs dl dn (a_res a) Hnt') as (u & Hres & Hslow & Hq & Hrun).
      assert (Hfin := finish_final (mkl (LAttempt (uinit (lc_unit c))) k0 bs dl dn) u).
      cbn [l_k l_bs l_done l_delay mkl] in Hfin.
      rewrite Hres, ures_of_success in Hfin.
      assert (Hcond : is_success (a_res a) = true \/ (k0 <? lc_total c) = false).
      { apply Bool.orb_true_iff in Hfin0 as [H|H]; [left; exact H|right].
        apply N.leb_le in H. apply N.ltb_ge. exact H. }
      specialize (Hfin Hcond).
      destruct (Hrun []) as [Hla Hpf]. rewrite Hfin in Hla, Hpf. rewrite app_nil_r in Hla, Hpf.
      exists (attempt_events (lc_unit c) (a_res a)). eexists.
      split; [exact Hq|]. split; [etransitivity; [exact Hla|]; reflexivity|]. split.
      + etransitivity; [exact Hpf|]. cbn [project_from]. rewrite app_nil_r.
        unfold pr. cbn [flat_map project_out l_done mkl app map].
        unfold attempt_of. cbn [ar_no ar_result ar_slow].
        rewrite (attempt_eq a k0 (ures_of (a_res a)) (slow u)); [reflexivity|exact Hno|exact Hto|congruence|].
        rewrite <- Hno. apply Hfd. left. reflexivity.
      + split; [|reflexivity].
        unfold crel, kinv, rem_inv. cbn [l_ph l_k l_bs mkl].
        split; [exact Hk|]. split; [exact I|]. split; discriminate.
  Qed.

  Lemma conv_run : forall h s p,
    crel s -> forallb (simple_event t) h = true ->
    ufold cf t (phase_of_lstate s) h = Some p ->
    (forall a, In a (trace_attempts h) -> result_of fd (a_no a) (ures_of (a_res a)) = a_res a) ->
    exists es sf, Forall quiet es /\ life_after tbl c s es = Some sf /\
                  project_from tbl fd t c s es = h /\ phase_of_lstate sf = p /\ crel sf.
  Proof.
    induction h as [|[e hs] h IH]; intros s p Hc Hs Hf Hfd.
    - cbn [ufold] in Hf. injection Hf as <-. exists [], s. repeat split; try constructor; apply Hc.
    - cbn [forallb] in Hs. apply andb_prop in Hs as [Hs1 Hs2].
      cbn [ufold] in Hf. rewrite (simple_event_test e hs Hs1), N.eqb_refl in Hf.
      destruct (Model.Unit.ustep cf t (phase_of_lstate s) e hs) as [p1|] eqn:Eu; [|discriminate].
      assert (Hfd1 : forall a, In a (trace_attempts [(e, hs)]) ->
                               result_of fd (a_no a) (ures_of (a_res a)) = a_res a).
      { intros a Ha. apply Hfd. change ((e, hs) :: h) with ([(e, hs)] ++ h).
        rewrite trace_attempts_app. apply in_or_app. left. exact Ha. }
      assert (Hfd2 : forall a, In a (trace_attempts h) ->
                               result_of fd (a_no a) (ures_of (a_res a)) = a_res a).
      { intros a Ha. apply Hfd. change ((e, hs) :: h) with ([(e, hs)] ++ h).
        rewrite trace_attempts_app. apply in_or_app. right. exact Ha. }
      destruct (conv_event s e hs p1 Hc Hs1 Eu Hfd1) as (es1 & s1 & Q1 & L1 & P1 & C1 & F1).
      rewrite <- F1 in Hf.
      destruct (IH s1 p C1 Hs2 Hf Hfd2) as (es2 & s2 & Q2 & L2 & P2 & F2 & C2).
      exists (es1 ++ es2), s2.
      split; [apply Forall_app; split; assumption|].
      split; [rewrite life_after_app, L1; exact L2|].
      split; [rewrite (project_from_app tbl fd t c es1 es2 s s1 L1), P1, P2; reflexivity|].
      split; assumption.
  Qed.
End Converse.

(* the failure kinds read off an accepted trace agree with it: a protocol trace reports every
   attempt number once *)
Definition phase_min (p : phase) : N :=
  match p with PIdle => 1 | PRunning k => k | PDelay k => k + 1 | _ => 0 end.

Definition phase_terminal (p : phase) : bool :=
  match p with PFinished | PRefusedStart | PRefusedRetry _ | PSkipped => true | _ => false end.

Lemma result_of_ext fd1 fd2 k r : fd1 k = fd2 k -> result_of fd1 k r = result_of fd2 k r.
Proof. intros H. destruct r; cbn [result_of]; try reflexivity. rewrite H. reflexivity. Qed.

Lemma result_of_fdetail_of fd k r : fd k = fdetail_of r -> result_of fd k (ures_of r) = r.
Proof. intros H. destruct r; cbn [result_of ures_of]; try reflexivity; rewrite H; reflexivity. Qed.

Section FdOfTrace.
  Variable t : tid.
  Variable cf : cfg.

  Lemma terminal_no_more : forall h p p',
    phase_terminal p = true -> forallb (simple_event t) h = true -> ufold cf t p h = Some p' -> h = [].
  Proof.
    intros [|[e hs] h] p p' Hp Hs Hf; [reflexivity|exfalso].
    cbn [forallb] in Hs. apply andb_prop in Hs as [Hs1 _].
    cbn [ufold] in Hf. rewrite (simple_event_test t e hs Hs1), N.eqb_refl in Hf.
    destruct e; try discriminate Hs1; destruct p; try discriminate Hp; cbn [Model.Unit.ustep] in Hf;
      try discriminate Hf; destruct (memb t (c_sel cf)); try discriminate Hf; destruct hs; discriminate Hf.
  Qed.

  Lemma fd_of_trace_agrees : forall h p p',
    forallb (simple_event t) h = true -> ufold cf t p h = Some p' ->
    (forall a, In a (trace_attempts h) -> phase_min p <= a_no a) /\
    (forall a, In a (trace_attempts h) -> result_of (fd_of_trace h) (a_no a) (ures_of (a_res a)) = a_res a).
  Proof.
    induction h as [|[e hs] h IH]; intros p p' Hs Hf; [split; intros a []|].
    cbn [forallb] in Hs. apply andb_prop in Hs as [Hs1 Hs2].
    cbn [ufold] in Hf. rewrite (simple_event_test t e hs Hs1), N.eqb_refl in Hf.
    destruct (Model.Unit.ustep cf t p e hs) as [p1|] eqn:Eu; [|discriminate].
    destruct (IH p1 p' Hs2 Hf) as [Hmin Hag].
    assert (Hterm : phase_terminal p1 = true -> trace_attempts h = []).
    { intros Ht. rewrite (terminal_no_more h p1 p' Ht Hs2 Hf). reflexivity. }
    destruct e as [| | |t0|t0 no tot wt|t0 a|t0 no tot|t0 a| | | | | | | |]; try discriminate Hs1;
      cbn [Model.Unit.ustep] in Eu.
    - (* Started *)
      cbn [trace_attempts fd_of_trace]. split; [|exact Hag].
      destruct (memb t (c_sel cf)); [|discriminate].
      destruct p; try (destruct hs; discriminate). destruct hs; try discriminate; injection Eu as <-.
      + exact Hmin.
      + rewrite (Hterm eq_refl). intros a [].
    - (* AttemptFailedWillRetry *)
      destruct p as [|k| | | | |]; try discriminate.
      destruct ((a_no a =? k) && (a_total a =? c_total cf t) && (k <? c_total cf t)
                && negb (is_success (a_res a))) eqn:Ec; [|discriminate].
      injection Eu as <-.
      apply andb_prop in Ec as [Ec _]. apply andb_prop in Ec as [Ec _]. apply andb_prop in Ec as [Hno _].
      apply N.eqb_eq in Hno. cbn [phase_min] in *. cbn [trace_attempts]. split.
      + intros b [<-|Hb]; [lia|]. specialize (Hmin b Hb). lia.
      + intros b [<-|Hb].
        * apply result_of_fdetail_of. cbn [fd_of_trace]. rewrite N.eqb_refl. reflexivity.
        * rewrite <- (Hag b Hb) at 2. apply result_of_ext. cbn [fd_of_trace].
          specialize (Hmin b Hb). destruct (N.eqb_spec (a_no a) (a_no b)) as [E|_]; [lia|reflexivity].
    - (* RetryStarted *)
      cbn [trace_attempts fd_of_trace]. split; [|exact Hag].
      destruct p as [| |k| | | |]; try discriminate.
      destruct ((no =? k + 1) && (tot =? c_total cf t)); [|discriminate].
      destruct hs; try discriminate; injection Eu as <-.
      + exact Hmin.
      + rewrite (Hterm eq_refl). intros a [].
    - (* Finished *)
      destruct p as [|k| | | | |]; try discriminate.
      destruct ((a_no a =? k) && (a_total a =? c_total cf t)
                && (is_success (a_res a) || (c_total cf t <=? k))) eqn:Ec; [|discriminate].
      injection Eu as <-.
      apply andb_prop in Ec as [Ec _]. apply andb_prop in Ec as [Hno _]. apply N.eqb_eq in Hno.
      cbn [trace_attempts]. rewrite (Hterm eq_refl). cbn [phase_min]. split.
      + intros b [<-|[]]. lia.
      + intros b [<-|[]]. apply result_of_fdetail_of. cbn [fd_of_trace]. rewrite N.eqb_refl. reflexivity.
  Qed.
End FdOfTrace.

(* Theorem (coverage): every simple protocol trace of one test is the projection of a run of the
   unit-life machine that the environment can produce (no request is delivered; every attempt's
   child exits at once with the reported result; every retry delay elapses in full), for any
   slow-timeout configuration, any retry policy with the protocol's total, any pause table. *)
Theorem protocol_trace_is_projection unicast tbl t c cf h p :
  c_total cf t = lc_total c ->
  forallb (simple_event t) h = true -> ufold cf t PIdle h = Some p ->
  exists es y, lsys_run unicast tbl c (lsys0 c) es = LOk y /\
               project_life tbl (fd_of_trace h) t c es = h /\ phase_of_lstate (y_s y) = p.
Proof.
  intros Htot Hs Hf.
  destruct (fd_of_trace_agrees t cf h PIdle p Hs Hf) as [_ Hag].
  destruct (conv_run tbl (fd_of_trace h) t c cf Htot h (linit c) p (crel_init c) Hs Hf Hag)
    as (es & sf & Hq & Hla & Hpr & Hph & _).
  destruct (quiet_run unicast tbl c es (lsys0 c) sf eq_refl Hq Hla) as (y & Hrun & Hys & _).
  exists es, y. split; [exact Hrun|]. split; [exact Hpr|]. rewrite Hys. exact Hph.
Qed.

(* ... so on simple traces the protocol is EXACTLY the set of projections of environment-valid runs *)
Theorem simple_protocol_traces_are_the_projections unicast tbl t c cf h :
  memb t (c_sel cf) = true -> c_total cf t = lc_total c ->
  forallb (simple_event t) h = true ->
  (urun cf t PIdle h = true <->
   exists fd es y, lsys_run unicast tbl c (lsys0 c) es = LOk y /\ project_life tbl fd t c es = h).
Proof.
  intros Hsel Htot Hs. split.
  - rewrite ufold_urun. destruct (ufold cf t PIdle h) as [p|] eqn:Hf; [|discriminate]. intros _.
    destruct (protocol_trace_is_projection unicast tbl t c cf h p Htot Hs Hf) as (es & y & H1 & H2 & _).
    exists (fd_of_trace h), es, y. split; assumption.
  - intros (fd & es & y & _ & <-). apply life_refines_protocol; assumption.
Qed.
