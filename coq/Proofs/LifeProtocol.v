(* The unit-life machine (Model/UnitLife.v) REFINES the executor protocol (Model/Unit.v).
   Part 1: every projection of a life run (Model/LifeProtocol.v) is accepted by the protocol
           automaton [ustep], and the automaton ends in the phase that corresponds to the life
           machine's state ([phase_of_lstate]) -- for every pause table, every event sequence
           (environment-valid or not: the environment only restricts which runs exist).
   Part 2: the attempts the projection reports are the life machine's [l_done] = the attempts of
           the monitor's log.
   Part 3: the converse for simple protocol traces: each is the projection of a life run that the
           environment can produce. *)
From NextestModel Require Import Base.Str Base.Tac Model.Backoff Proofs.Backoff Model.Clocks
  Model.UnitTimers Model.AbsTimers Model.UnitLife Proofs.UnitLife.
From NextestModel Require Import Model.Result Model.Dispatcher Model.Unit Model.LifeProtocol.
Open Scope N_scope.

(* ------------------------------------------------------------ the protocol automaton as a fold *)
Lemma ufold_urun c t : forall h p,
  urun c t p h = match ufold c t p h with Some _ => true | None => false end.
Proof.
  induction h as [|[e hs] h IH]; intros p; [reflexivity|].
  cbn [urun ufold]. destruct (event_test e) as [t'|]; [|apply IH].
  destruct (t' =? t); [|apply IH]. destruct (ustep c t p e hs); [apply IH|reflexivity].
Qed.

Lemma ufold_app c t : forall h1 h2 p,
  ufold c t p (h1 ++ h2) =
  match ufold c t p h1 with Some p' => ufold c t p' h2 | None => None end.
Proof.
  induction h1 as [|[e hs] h1 IH]; intros h2 p; [reflexivity|].
  cbn [ufold app]. destruct (event_test e) as [t'|]; [|apply IH].
  destruct (t' =? t); [|apply IH]. destruct (ustep c t p e hs); [apply IH|reflexivity].
Qed.

(* ------------------------------------------------------------ outputs of the wait loops *)
Definition not_slow (o : uout) : Prop := match o with OSlow _ => False | _ => True end.

Lemma exec_pop_not_slow rp c o r : exec_pop rp c o = Ok r -> Forall not_slow (snd r).
Proof.
  destruct o as [k|k| | |]; cbn [exec_pop]; intros H.
  - destruct (clk_pause c k); [|discriminate]. injection H as <-. constructor.
  - destruct (clk_resume c k); [|discriminate]. injection H as <-. constructor.
  - injection H as <-. cbn [snd]. destruct rp; repeat constructor.
  - injection H as <-. cbn [snd]. destruct rp; repeat constructor.
  - injection H as <-. repeat constructor.
Qed.

Lemma exec_pops_not_slow rp : forall os c r, exec_pops rp c os = Ok r -> Forall not_slow (snd r).
Proof.
  induction os as [|o os IH]; intros c r H; cbn [exec_pops] in H.
  - injection H as <-. constructor.
  - destruct (exec_pop rp c o) as [r1|] eqn:E1; [|discriminate]. cbn [obind] in H.
    destruct (exec_pops rp (fst r1) os) as [r2|] eqn:E2; [|discriminate]. cbn [obind] in H.
    injection H as <-. cbn [snd]. apply Forall_app. split.
    + exact (exec_pop_not_slow rp c o r1 E1).
    + exact (IH (fst r1) r2 E2).
Qed.

Lemma exec_arm_not_slow rp : forall a c r, exec_arm rp c a = Ok r -> Forall not_slow (snd r).
Proof.
  induction a as [|st a IH]; intros c r H; cbn [exec_arm] in H.
  - injection H as <-. constructor.
  - match type of H with obind (exec_pops rp c ?b) _ = _ => destruct (exec_pops rp c b) as [r1|] eqn:E1 end;
      [|discriminate]. cbn [obind] in H.
    destruct (exec_arm rp (fst r1) a) as [r2|] eqn:E2; [|discriminate]. cbn [obind] in H.
    injection H as <-. cbn [snd]. apply Forall_app. split.
    + exact (exec_pops_not_slow rp _ c r1 E1).
    + exact (IH (fst r1) r2 E2).
Qed.

(* handle_delay_between_attempts never reports the test slow *)
Lemma dstep_not_slow tbl d de r : UnitTimers.dstep tbl d de = Ok r -> Forall not_slow (snd r).
Proof.
  unfold UnitTimers.dstep. destruct (d_done d); [intros H; injection H as <-; constructor|].
  destruct de as [dt| |[| |q| |]]; intros H.
  - injection H as <-. constructor.
  - destruct (slc_due (k_dsl (d_ck d))); injection H as <-; constructor.
  - destruct (exec_arm true (d_ck d) (t_delay_stop tbl)) as [x|] eqn:E; [|discriminate].
    injection H as <-. exact (exec_arm_not_slow true _ _ x E).
  - destruct (exec_arm true (d_ck d) (t_delay_cont tbl)) as [x|] eqn:E; [|discriminate].
    injection H as <-. exact (exec_arm_not_slow true _ _ x E).
  - injection H as <-. constructor.
  - injection H as <-. constructor.
  - injection H as <-. repeat constructor.
Qed.

(* ------------------------------------------------------------ Part 1: simulation *)
Section Sim.
  Variable tbl : ptable.
  Variable fd : N -> fdetail.
  Variable t : tid.
  Variable c : lcfg.
  Variable cf : cfg.
  Hypothesis Hsel : memb t (c_sel cf) = true.
  Hypothesis Htot : c_total cf t = lc_total c.

  (* attempt numbers: 0 until the Started handshake is answered, 1, 2, ... afterwards *)
  Definition kinv (s : lstate) : Prop :=
    match l_ph s with
    | LAwaitStart => l_k s = 0
    | LRefusedP => True
    | _ => 1 <= l_k s
    end.

  Lemma kinv_init : kinv (linit c).
  Proof. reflexivity. Qed.

  Lemma result_of_success k r : is_success (result_of fd k r) = ures_success r.
  Proof. destruct r; cbn [result_of]; try reflexivity. destruct (fd k); reflexivity. Qed.

  Definition pr (k : N) (done : list arec) (outs : list lout) : list (devent * handshake) :=
    map (fun d => (d, HNone)) (flat_map (project_out fd t c k done) outs).

  Lemma pr_app k done o1 o2 : pr k done (o1 ++ o2) = pr k done o1 ++ pr k done o2.
  Proof. unfold pr. rewrite flat_map_app, map_app. reflexivity. Qed.

  (* the outputs of the one-attempt machine: Slow events of attempt k, accepted while k runs *)
  Lemma ufold_running_outs k done : forall outs,
    ufold cf t (PRunning k) (pr k done (map LO outs)) = Some (PRunning k).
  Proof.
    induction outs as [|o outs IH]; [reflexivity|].
    destruct o as [sg|wt| |i]; cbn [map]; try exact IH.
    unfold pr. cbn [map flat_map project_out app ufold event_test].
    rewrite N.eqb_refl. cbn [Model.Unit.ustep]. rewrite Htot, !N.eqb_refl. cbn [andb]. exact IH.
  Qed.

  Lemma pr_not_slow k done : forall outs, Forall not_slow outs -> pr k done (map LO outs) = [].
  Proof.
    induction outs as [|o outs IH]; intros H; [reflexivity|].
    inversion H as [|? ? Ho Hr]; subst. specialize (IH Hr).
    destruct o; cbn [not_slow] in Ho; try contradiction; exact IH.
  Qed.

  (* the tail of the loop body: Finished, or AttemptFailedWillRetry and into the delay *)
  Lemma finish_attempt_sim s u r :
    finish_attempt c s u = Ok r -> 1 <= l_k s ->
    ufold cf t (PRunning (l_k s)) (pr (l_k s) (l_done (fst r)) (snd r)) = Some (phase_of_lstate (fst r))
    /\ kinv (fst r) /\ l_k (fst r) = l_k s
    /\ exists a, l_done (fst r) = a :: l_done s /\ ar_no a = l_k s.
  Proof.
    unfold finish_attempt. intros H Hk.
    destruct (ures_success (uresult u)) eqn:Es.
    - injection H as <-. cbn [fst snd l_done mkl].
      unfold pr. cbn [flat_map project_out app map ufold event_test].
      rewrite N.eqb_refl. cbn [Model.Unit.ustep attempt_of a_no a_total a_res ar_no ar_result].
      rewrite Htot, !N.eqb_refl, result_of_success, Es. cbn [andb orb].
      repeat split; [exact Hk|]. eexists. split; reflexivity.
    - destruct (l_k s <? lc_total c) eqn:Ek.
      + destruct (b_next (lc_js c (l_k s)) (l_bs s)) as [[d bs']|]; [|discriminate].
        injection H as <-. cbn [fst snd l_done mkl].
        unfold pr. cbn [flat_map project_out app map ufold event_test].
        rewrite N.eqb_refl. cbn [Model.Unit.ustep attempt_of a_no a_total a_res ar_no ar_result].
        rewrite Htot, !N.eqb_refl, result_of_success, Es, Ek. cbn [andb negb].
        repeat split; [exact Hk|]. eexists. split; reflexivity.
      + injection H as <-. cbn [fst snd l_done mkl].
        unfold pr. cbn [flat_map project_out app map ufold event_test].
        rewrite N.eqb_refl. cbn [Model.Unit.ustep attempt_of a_no a_total a_res ar_no ar_result].
        rewrite Htot, !N.eqb_refl, result_of_success, Es. cbn [andb orb].
        apply N.ltb_ge in Ek. apply N.leb_le in Ek. rewrite Ek.
        repeat split; [exact Hk|]. eexists. split; reflexivity.
  Qed.

  (* one step of the life machine is matched by the protocol automaton *)
  Ltac leaf Hp Hk :=
    unfold phase_of_lstate, kinv; cbn [l_ph l_k with_lph mkl]; try rewrite Hp;
    split; [reflexivity | first [exact Hk | exact I | lia]].

  Lemma step_sim s e s' outs :
    kinv s -> lstep tbl c s e = Ok (s', outs) ->
    ufold cf t (phase_of_lstate s) (project_step fd t c s e s' outs) = Some (phase_of_lstate s')
    /\ kinv s'.
  Proof.
    intros Hk Hl. unfold lstep in Hl. unfold project_step. unfold phase_of_lstate at 1.
    unfold kinv in Hk.
    destruct (l_ph s) as [|u|d| | |] eqn:Hp.
    - (* the Started handshake *)
      destruct e as [ue| |[]]; injection Hl as <- <-; try (leaf Hp Hk).
      + cbn [hs_of ufold event_test]. rewrite N.eqb_refl. cbn [Model.Unit.ustep]. rewrite Hsel.
        leaf Hp Hk.
      + cbn [hs_of ufold event_test]. rewrite N.eqb_refl. cbn [Model.Unit.ustep]. rewrite Hsel.
        unfold phase_of_lstate, kinv. cbn [l_ph l_k with_lph mkl ufold]. rewrite Hk.
        split; [reflexivity|exact I].
    - (* an attempt *)
      assert (Hsame : forall o, map (fun d => (d, HNone)) (flat_map (project_out fd t c (l_k s) (l_done s')) o)
                                = pr (l_k s) (l_done s') o) by reflexivity.
      destruct e as [ue| |a].
      2,3: injection Hl as <- <-; leaf Hp Hk.
      destruct (UnitTimers.ustep tbl (lc_unit c) u ue) as [[u' uo]|]; [|discriminate].
      destruct (ph u') eqn:Hph'.
      5:{ destruct (finish_attempt c s u') as [r|] eqn:Hf; cbn [obind] in Hl; [|discriminate].
          injection Hl as <- <-. rewrite Hsame, pr_app, ufold_app, ufold_running_outs.
          destruct (finish_attempt_sim s u' r Hf Hk) as (H1 & H2 & _). split; [exact H1|exact H2]. }
      all: injection Hl as <- <-; rewrite Hsame, ufold_running_outs; leaf Hp Hk.
    - (* the retry delay *)
      destruct (devent_of e) as [de|] eqn:Ede.
      2:{ injection Hl as <- <-. destruct e as [ue| |a]; leaf Hp Hk. }
      destruct (UnitTimers.dstep tbl d de) as [[d' uo]|] eqn:Ed; [|discriminate].
      pose proof (dstep_not_slow tbl d de (d', uo) Ed) as Hns. cbn [snd] in Hns.
      assert (He : forall o1, map (fun x => (x, HNone))
                     (flat_map (project_out fd t c (l_k s) (l_done s')) (map LO uo ++ o1))
                   = pr (l_k s) (l_done s') o1).
      { intros o1. change (pr (l_k s) (l_done s') (map LO uo ++ o1) = pr (l_k s) (l_done s') o1).
        rewrite pr_app, (pr_not_slow _ _ uo Hns). reflexivity. }
      assert (Hnot : forall acc, e <> LAnswer acc) by (intros acc ->; discriminate).
      destruct (d_done d'); injection Hl as <- <-.
      + destruct e as [ue| |a]; try (exfalso; eapply Hnot; reflexivity); rewrite He; leaf Hp Hk.
      + rewrite <- (app_nil_r (map LO uo)).
        destruct e as [ue| |a]; try (exfalso; eapply Hnot; reflexivity); rewrite He; leaf Hp Hk.
    - (* the RetryStarted handshake *)
      destruct e as [ue| |[]]; injection Hl as <- <-; try (leaf Hp Hk).
      + cbn [hs_of ufold event_test]. rewrite N.eqb_refl. cbn [Model.Unit.ustep].
        rewrite Htot, !N.eqb_refl. cbn [andb]. leaf Hp Hk.
      + cbn [hs_of ufold event_test]. rewrite N.eqb_refl. cbn [Model.Unit.ustep].
        rewrite Htot, !N.eqb_refl. cbn [andb].
        unfold phase_of_lstate, kinv. cbn [l_ph l_k with_lph mkl ufold].
        destruct (N.eqb_spec (l_k s) 0) as [E|_]; [lia|]. split; [reflexivity|exact I].
    - injection Hl as <- <-. destruct e as [ue| |a]; leaf Hp Hk.
    - injection Hl as <- <-. destruct e as [ue| |a]; leaf Hp Hk.
  Qed.

  (* a run: the projection is accepted and the automaton follows the life machine *)
  Lemma run_sim : forall es s sf,
    kinv s -> life_after tbl c s es = Some sf ->
    ufold cf t (phase_of_lstate s) (project_from tbl fd t c s es) = Some (phase_of_lstate sf)
    /\ kinv sf.
  Proof.
    induction es as [|e es IH]; intros s sf Hk H; cbn [life_after project_from] in *.
    - injection H as <-. split; [reflexivity|exact Hk].
    - destruct (lstep tbl c s e) as [[s' outs]|] eqn:El; [|discriminate].
      destruct (step_sim s e s' outs Hk El) as [H1 Hk'].
      rewrite ufold_app, H1. exact (IH s' sf Hk' H).
  Qed.

  (* ... and an internal failure only cuts the projection short *)
  Lemma run_accepted : forall es s,
    kinv s -> exists p, ufold cf t (phase_of_lstate s) (project_from tbl fd t c s es) = Some p.
  Proof.
    induction es as [|e es IH]; intros s Hk; cbn [project_from].
    - eexists. reflexivity.
    - destruct (lstep tbl c s e) as [[s' outs]|] eqn:El; [|eexists; reflexivity].
      destruct (step_sim s e s' outs Hk El) as [H1 Hk'].
      rewrite ufold_app, H1. exact (IH s' Hk').
  Qed.
End Sim.

(* the monitored system runs the same unit *)
Lemma lsys_run_life_after unicast tbl c : forall es y y',
  lsys_run unicast tbl c y es = LOk y' -> life_after tbl c (y_s y) es = Some (y_s y').
Proof.
  induction es as [|e es IH]; intros y y' H; cbn [lsys_run life_after] in *.
  - injection H as <-. reflexivity.
  - destruct (lsys_step unicast tbl c y e) as [y1| |] eqn:E; try discriminate.
    destruct (lsys_step_fields tbl unicast c y e y1 E) as (_ & o & Hl & _).
    rewrite Hl. exact (IH y1 y' H).
Qed.

(* Theorem (refinement, per unit). *)
Theorem life_refines_protocol tbl fd t c cf es :
  memb t (c_sel cf) = true -> c_total cf t = lc_total c ->
  urun cf t PIdle (project_life tbl fd t c es) = true.
Proof.
  intros Hsel Htot. rewrite ufold_urun. unfold project_life.
  destruct (run_accepted tbl fd t c cf Hsel Htot es (linit c) (kinv_init c)) as [p Hp].
  change (phase_of_lstate (linit c)) with PIdle in Hp. rewrite Hp. reflexivity.
Qed.

Theorem life_refines_protocol_phase unicast tbl fd t c cf es y :
  memb t (c_sel cf) = true -> c_total cf t = lc_total c ->
  lsys_run unicast tbl c (lsys0 c) es = LOk y ->
  ufold cf t PIdle (project_life tbl fd t c es) = Some (phase_of_lstate (y_s y)).
Proof.
  intros Hsel Htot H. apply lsys_run_life_after in H.
  exact (proj1 (run_sim tbl fd t c cf Hsel Htot es (linit c) (y_s y) (kinv_init c) H)).
Qed.

Lemma cfg_of_lcfg_ok t c : cfg_ok (cfg_of_lcfg t c) = true.
Proof.
  unfold cfg_ok, cfg_of_lcfg. cbn [c_sel c_unsel c_total nodupb memb existsb negb andb forallb].
  unfold lc_total. destruct (1 <=? p_count (lc_policy c) + 1) eqn:E; [reflexivity|].
  apply N.leb_gt in E. lia.
Qed.

Theorem life_refines_protocol_single tbl fd t c es :
  urun (cfg_of_lcfg t c) t PIdle (project_life tbl fd t c es) = true.
Proof.
  apply life_refines_protocol; [|reflexivity].
  cbn [cfg_of_lcfg c_sel memb existsb]. rewrite N.eqb_refl. reflexivity.
Qed.
