(* Lemmas about partitioned listing passes (C13). *)
From NextestModel Require Import Base.Str Model.Xxh64 Model.Filter Model.Partition.
From NextestModel Require Import Base.Tac.
Open Scope N_scope.

Definition mkpb (k : pkind) (m n : N) : pbuilder :=
  {| pb_kind := k; pb_shard := m; pb_total := n |}.

Definition accepted (pre : str -> bool -> option mismatch) (ign : bool) (names : list str)
  : list str :=
  filter (fun nm => match pre nm ign with None => true | Some _ => false end) names.

(* ---------------------------------------------------------------- hash *)

Definition hash_verdict (pre : str -> bool -> option mismatch) (ign : bool) (m n : N)
           (nm : str) : fmatch :=
  match pre nm ign with
  | Some r => Mismatch r
  | None => if xxh64 (utf8 nm) 0 mod n =? m - 1 then Matches else Mismatch MPartition
  end.

Lemma pass_hash_map pre ign m n names cur :
  pass (Some (mkpb PHash m n)) pre ign names cur =
  map (fun nm => (nm, (ign, hash_verdict pre ign m n nm))) names.
Proof.
  revert cur; induction names as [|nm rest IH]; intros cur; cbn [pass map]; [reflexivity|].
  unfold filter_match, hash_verdict.
  destruct (pre nm ign) as [r|]; cbn [part_match mkpb pb_kind pb_shard pb_total].
  - rewrite IH; reflexivity.
  - rewrite IH; reflexivity.
Qed.

Lemma hash_unique_shard pre ign n nm :
  1 <= n -> pre nm ign = None ->
  forall m, 1 <= m <= n ->
    (hash_verdict pre ign m n nm = Matches <-> m = xxh64 (utf8 nm) 0 mod n + 1).
Proof.
  intros Hn Hpre m Hm. unfold hash_verdict. rewrite Hpre.
  destruct (N.eqb_spec (xxh64 (utf8 nm) 0 mod n) (m - 1)) as [E|E]; split; intros H;
    try discriminate; try reflexivity; try lia; exfalso; lia.
Qed.

Lemma hash_shard_in_range n h : 1 <= n -> 1 <= h mod n + 1 <= n.
Proof.
  intros Hn. assert (h mod n < n) by (apply N.mod_lt; lia). lia.
Qed.

Lemma hash_rejected_everywhere pre ign m n nm r :
  pre nm ign = Some r -> hash_verdict pre ign m n nm = Mismatch r.
Proof. intros H; unfold hash_verdict; rewrite H; reflexivity. Qed.

(* ---------------------------------------------------------------- count *)

Definition nxt (n c : N) : N := if c + 1 =? n then 0 else c + 1.

Lemma succ_mod n i : 0 < n -> (i + 1) mod n = nxt n (i mod n).
Proof.
  intros Hn. unfold nxt.
  assert (Hlt : i mod n < n) by (apply N.mod_lt; lia).
  rewrite <- (N.add_mod_idemp_l i 1 n) by lia.
  destruct (N.eqb_spec (i mod n + 1) n) as [E|E].
  - rewrite E. apply N.mod_same; lia.
  - apply N.mod_small; lia.
Qed.

Lemma nxt_mod_small n c : 0 < n -> c < n -> (c + 1) mod n = nxt n c.
Proof.
  intros Hn Hc. rewrite <- (N.mod_small c n) at 2 by lia. apply succ_mod; lia.
Qed.

(* verdict of the count partitioner at a position whose counter value is c *)
Definition count_verdict (c m : N) : fmatch :=
  if c =? m - 1 then Matches else Mismatch MPartition.

(* the pass, described with the wrap-around counter *)
Fixpoint pass_count_spec (pre : str -> bool -> option mismatch) (ign : bool) (m n : N)
         (names : list str) (c : N) : list tcase :=
  match names with
  | [] => []
  | nm :: rest =>
      match pre nm ign with
      | Some r => (nm, (ign, Mismatch r)) :: pass_count_spec pre ign m n rest c
      | None => (nm, (ign, count_verdict c m)) :: pass_count_spec pre ign m n rest (nxt n c)
      end
  end.

Lemma pass_count_eq pre ign m n names c :
  0 < n -> c < n ->
  pass (Some (mkpb PCount m n)) pre ign names c = pass_count_spec pre ign m n names c.
Proof.
  intros Hn. revert c; induction names as [|nm rest IH]; intros c Hc;
    cbn [pass pass_count_spec]; [reflexivity|].
  unfold filter_match. destruct (pre nm ign) as [r|].
  - rewrite IH by assumption. reflexivity.
  - cbn [part_match mkpb pb_kind pb_shard pb_total].
    rewrite nxt_mod_small by assumption.
    rewrite IH. + reflexivity.
    + unfold nxt. destruct (N.eqb_spec (c + 1) n); lia.
Qed.

Lemma nxt_lt n c : 0 < n -> c < n -> nxt n c < n.
Proof. intros; unfold nxt; destruct (N.eqb_spec (c + 1) n); lia. Qed.

(* counter value reached at position i of the list: number of accepted names before it *)
Fixpoint ctr_at (pre : str -> bool -> option mismatch) (ign : bool) (n : N)
         (names : list str) (c : N) (i : nat) {struct i} : N :=
  match i, names with
  | O, _ => c
  | S i', nm :: rest =>
      match pre nm ign with
      | Some _ => ctr_at pre ign n rest c i'
      | None => ctr_at pre ign n rest (nxt n c) i'
      end
  | S _, [] => c
  end.

Lemma ctr_at_lt pre ign n names c i : 0 < n -> c < n -> ctr_at pre ign n names c i < n.
Proof.
  intros Hn. revert names c; induction i as [|i IH]; intros names c Hc; cbn [ctr_at]; [assumption|].
  destruct names as [|nm rest]; [assumption|].
  destruct (pre nm ign); apply IH; auto using nxt_lt.
Qed.

Lemma pass_count_nth pre ign m n names c i nm :
  nth_error names i = Some nm ->
  nth_error (pass_count_spec pre ign m n names c) i =
  Some (nm, (ign, match pre nm ign with
                  | Some r => Mismatch r
                  | None => count_verdict (ctr_at pre ign n names c i) m
                  end)).
Proof.
  revert names c; induction i as [|i IH]; intros names c H; destruct names as [|x rest];
    try discriminate; cbn [nth_error] in H.
  - injection H as ->. cbn [pass_count_spec ctr_at]. destruct (pre nm ign); reflexivity.
  - cbn [pass_count_spec ctr_at]. destruct (pre x ign); cbn [nth_error]; apply IH; assumption.
Qed.

(* matched names of a count pass are a stride of the accepted names *)
Fixpoint stride_c (c k n : N) (l : list str) : list str :=
  match l with
  | [] => []
  | x :: l' => if c =? k then x :: stride_c (nxt n c) k n l' else stride_c (nxt n c) k n l'
  end.

Lemma matched_pass_count pre ign m n names c :
  matched (pass_count_spec pre ign m n names c) = stride_c c (m - 1) n (accepted pre ign names).
Proof.
  revert c; induction names as [|nm rest IH]; intros c; cbn [pass_count_spec accepted filter];
    [reflexivity|].
  fold (accepted pre ign rest).
  destruct (pre nm ign) as [r|].
  - unfold matched. cbn [filter snd]. apply IH.
  - unfold matched, count_verdict. cbn [filter snd stride_c].
    destruct (c =? m - 1); cbn [map fst]; [f_equal|]; apply IH.
Qed.

Lemma stride_from_c i k n l : 0 < n -> stride_from i k n l = stride_c (i mod n) k n l.
Proof.
  intros Hn. revert i; induction l as [|x l IH]; intros i; cbn [stride_from stride_c]; [reflexivity|].
  rewrite <- succ_mod by assumption. rewrite <- IH. reflexivity.
Qed.

(* shard sizes: within one pass they differ by at most one *)
Definition dist (n c k : N) : N := if c <=? k then k - c else k + n - c.

Lemma stride_c_balance n l : 0 < n -> forall c i j, c < n -> i < n -> j < n ->
  N.of_nat (length (stride_c c i n l)) <=
  N.of_nat (length (stride_c c j n l)) + (if dist n c i <=? dist n c j then 1 else 0).
Proof.
  intros Hn. induction l as [|x l IH]; intros c i j Hc Hi Hj.
  all: destruct (N.eqb_spec i j) as [Eij|Eij];
    [subst j; destruct (N.leb_spec (dist n c i) (dist n c i)); lia|].
  - cbn [stride_c length]. destruct (dist n c i <=? dist n c j); lia.
  - cbn [stride_c].
    assert (Hnx : nxt n c < n) by (apply nxt_lt; assumption).
    pose proof (IH (nxt n c) i j Hnx Hi Hj) as IHij.
    revert IHij. unfold dist, nxt.
    destruct (N.eqb_spec c i) as [Ei|Ei]; destruct (N.eqb_spec c j) as [Ej|Ej];
      cbn [length]; rewrite ?Nat2N.inj_succ;
      destruct (N.eqb_spec (c + 1) n) as [En|En];
      repeat match goal with
             | |- context [N.leb ?a ?b] => destruct (N.leb_spec a b)
             | H : context [N.leb ?a ?b] |- _ => destruct (N.leb_spec a b)
             end; lia.
Qed.

Lemma stride_sizes_differ_by_at_most_one n l i j :
  0 < n -> i < n -> j < n ->
  N.of_nat (length (stride i n l)) <= N.of_nat (length (stride j n l)) + 1.
Proof.
  intros Hn Hi Hj. unfold stride. rewrite !stride_from_c by assumption.
  rewrite N.mod_0_l by lia.
  pose proof (stride_c_balance n l Hn 0 i j Hn Hi Hj) as H.
  destruct (_ <=? _); lia.
Qed.

(* ---------------------------------------------------------------- both kinds: per position *)

Lemma pass_rejected_everywhere k m n pre ign names i nm r :
  0 < n ->
  nth_error names i = Some nm -> pre nm ign = Some r ->
  nth_error (pass (Some (mkpb k m n)) pre ign names 0) i = Some (nm, (ign, Mismatch r)).
Proof.
  intros Hn Hnth Hpre. destruct k.
  - rewrite pass_count_eq by lia. rewrite (pass_count_nth _ _ _ _ _ _ _ _ Hnth), Hpre. reflexivity.
  - rewrite pass_hash_map. rewrite nth_error_map, Hnth. cbn.
    rewrite (hash_rejected_everywhere _ _ _ _ _ _ Hpre). reflexivity.
Qed.

(* the one shard that takes the name at position i *)
Definition owner (k : pkind) (pre : str -> bool -> option mismatch) (ign : bool) (n : N)
           (names : list str) (i : nat) (nm : str) : N :=
  match k with
  | PCount => ctr_at pre ign n names 0 i + 1
  | PHash => xxh64 (utf8 nm) 0 mod n + 1
  end.

Lemma owner_in_range k pre ign n names i nm : 1 <= n -> 1 <= owner k pre ign n names i nm <= n.
Proof.
  intros Hn. destruct k; cbn [owner].
  - pose proof (ctr_at_lt pre ign n names 0 i). lia.
  - apply hash_shard_in_range; assumption.
Qed.

Lemma pass_selected_iff_owner k m n pre ign names i nm :
  1 <= n -> 1 <= m <= n ->
  nth_error names i = Some nm -> pre nm ign = None ->
  (nth_error (pass (Some (mkpb k m n)) pre ign names 0) i = Some (nm, (ign, Matches))
   <-> m = owner k pre ign n names i nm).
Proof.
  intros Hn Hm Hnth Hpre. destruct k; cbn [owner].
  - rewrite pass_count_eq by lia. rewrite (pass_count_nth _ _ _ _ _ _ _ _ Hnth), Hpre.
    unfold count_verdict.
    destruct (N.eqb_spec (ctr_at pre ign n names 0 i) (m - 1)) as [E|E]; split; intros H;
      try reflexivity; try lia; try (injection H; discriminate).
  - rewrite pass_hash_map, nth_error_map, Hnth. cbn [option_map].
    pose proof (hash_unique_shard pre ign n nm Hn Hpre m Hm) as [H1 H2].
    split; intros H.
    + apply H1. injection H as H; exact H.
    + rewrite (H2 H). reflexivity.
Qed.
