(* Lemmas about the shell-words model: split (join ws) = Some ws for every list of words. *)
From NextestModel Require Import Base.Str Base.Tac Model.ShellWords.
Open Scope N_scope.

(* ---- characters *)

(* characters the Unquoted state appends to the word *)
Definition plain (c : N) : bool :=
  negb ((c =? c_sq) || (c =? c_dq) || (c =? c_bs) || (c =? c_tab) || (c =? c_space) || (c =? c_nl)).

Lemma not_special_plain : forall c, is_special c = false -> plain c = true /\ c <> c_hash.
Proof.
  intros c H. unfold is_special, is_special_other in H. cbn [existsb] in H.
  rewrite !orb_false_iff in H. rewrite !N.eqb_neq in H.
  unfold plain, c_sq, c_dq, c_bs, c_tab, c_space, c_nl, c_hash in *.
  split.
  - repeat match goal with
           | |- context [?x =? ?y] => replace (x =? y) with false by (symmetry; apply N.eqb_neq; lia)
           end.
    reflexivity.
  - lia.
Qed.

Lemma step_unquoted_plain : forall w a c,
  plain c = true -> sw_step Unquoted w a c = (Unquoted, w ++ [c], a).
Proof.
  intros w a c H. unfold plain in H. apply negb_true_iff in H.
  rewrite !orb_false_iff in H. destruct H as [[[[[H1 H2] H3] H4] H5] H6].
  cbn [sw_step]. rewrite H1, H2, H3, H4, H5, H6. reflexivity.
Qed.

Lemma step_delimiter_plain : forall w a c,
  plain c = true -> c <> c_hash -> sw_step Delimiter w a c = (Unquoted, w ++ [c], a).
Proof.
  intros w a c H Hh. unfold plain in H. apply negb_true_iff in H.
  rewrite !orb_false_iff in H. destruct H as [[[[[H1 H2] H3] H4] H5] H6].
  apply N.eqb_neq in Hh.
  cbn [sw_step]. rewrite H1, H2, H3, H4, H5, H6, Hh. reflexivity.
Qed.

Lemma step_single_other : forall w a c,
  c <> c_sq -> sw_step SingleQuoted w a c = (SingleQuoted, w ++ [c], a).
Proof. intros w a c H. apply N.eqb_neq in H. cbn [sw_step]. rewrite H. reflexivity. Qed.

(* ---- runs of the state machine over one quoted word *)

Lemma run_unquoted_plain : forall s w a rest,
  forallb plain s = true ->
  split_from Unquoted w a (s ++ rest) = split_from Unquoted (w ++ s) a rest.
Proof.
  induction s as [|c s IH]; intros w a rest H.
  - rewrite app_nil_r. reflexivity.
  - cbn [forallb] in H. apply andb_true_iff in H. destruct H as [Hc Hs].
    cbn [app split_from]. rewrite step_unquoted_plain by assumption.
    rewrite IH by assumption. rewrite <- app_assoc. reflexivity.
Qed.

(* '\'' inside single quotes: close, escaped quote, reopen *)
Lemma run_escaped_quote : forall w a r,
  split_from SingleQuoted w a (c_sq :: c_bs :: c_sq :: c_sq :: r)
  = split_from SingleQuoted (w ++ [c_sq]) a r.
Proof. reflexivity. Qed.

Lemma run_single_mixed : forall s w a rest,
  split_from SingleQuoted w a (mixed_body s ++ rest) = split_from SingleQuoted (w ++ s) a rest.
Proof.
  induction s as [|c s IH]; intros w a rest.
  - rewrite app_nil_r. reflexivity.
  - unfold mixed_body. cbn [flat_map]. fold (mixed_body s).
    destruct (N.eqb_spec c c_sq) as [E|E].
    + subst c. cbn [app]. rewrite run_escaped_quote. rewrite IH.
      rewrite <- app_assoc. reflexivity.
    + cbn [app split_from]. rewrite step_single_other by assumption.
      rewrite IH. rewrite <- app_assoc. reflexivity.
Qed.

Lemma mixed_body_no_sq : forall s, existsb (N.eqb c_sq) s = false -> mixed_body s = s.
Proof.
  induction s as [|c s IH]; intro H; [reflexivity|].
  cbn [existsb] in H. apply orb_false_iff in H. destruct H as [Hc Hs].
  unfold mixed_body. cbn [flat_map]. fold (mixed_body s).
  rewrite N.eqb_sym, Hc. cbn [app]. rewrite IH by assumption. reflexivity.
Qed.

(* the two shapes [quote] produces *)
Lemma quote_shapes : forall s,
  (quote s = s /\ s <> [] /\ forallb (fun c => negb (is_special c)) s = true)
  \/ quote s = [c_sq] ++ mixed_body s ++ [c_sq].
Proof.
  intro s. unfold quote, escape_style_of. destruct s as [|c s].
  - right. reflexivity.
  - destruct (existsb is_special (c :: s)) eqn:Hsp; cbn [negb].
    + destruct (existsb (N.eqb c_nl) (c :: s) && negb (existsb (N.eqb c_sq) (c :: s))) eqn:Hst.
      * right. apply andb_true_iff in Hst. destruct Hst as [_ Hq]. apply negb_true_iff in Hq.
        rewrite (mixed_body_no_sq _ Hq). reflexivity.
      * right. reflexivity.
    + left. split; [reflexivity|]. split; [discriminate|].
      apply forallb_forall. intros x Hx. apply negb_true_iff.
      destruct (is_special x) eqn:E; [|reflexivity].
      assert (existsb is_special (c :: s) = true) by (apply existsb_exists; exists x; auto).
      congruence.
Qed.

(* One quoted word read from the Delimiter state (whose word buffer is empty) leaves the
   machine in Unquoted with exactly that word in the buffer. *)
Lemma run_quote : forall w a rest,
  split_from Delimiter [] a (quote w ++ rest) = split_from Unquoted w a rest.
Proof.
  intros w a rest. destruct (quote_shapes w) as [[E [Hne Hall]]|E]; rewrite E.
  - destruct w as [|c s]; [congruence|].
    cbn [forallb] in Hall. apply andb_true_iff in Hall. destruct Hall as [Hc Hs].
    apply negb_true_iff in Hc. destruct (not_special_plain c Hc) as [Hp Hh].
    cbn [app split_from]. rewrite step_delimiter_plain by assumption.
    rewrite run_unquoted_plain; [reflexivity|].
    apply forallb_forall. intros x Hx.
    rewrite forallb_forall in Hs. specialize (Hs x Hx). apply negb_true_iff in Hs.
    apply not_special_plain in Hs. tauto.
  - rewrite <- !app_assoc. change ([c_sq] ++ mixed_body w ++ [c_sq] ++ rest)
      with (c_sq :: (mixed_body w ++ (c_sq :: rest))).
    cbn [split_from]. change (sw_step Delimiter [] a c_sq) with (SingleQuoted, @nil N, a).
    cbn iota beta. rewrite run_single_mixed. reflexivity.
Qed.

(* ---- join *)

Fixpoint join_spec (ws : list str) : str :=
  match ws with
  | [] => []
  | w :: r => match r with [] => quote w | _ :: _ => quote w ++ c_space :: join_spec r end
  end.

Lemma fold_join_acc : forall ws line,
  fold_left (fun line w => line ++ quote w ++ [c_space]) ws line
  = line ++ concat (map (fun w => quote w ++ [c_space]) ws).
Proof.
  induction ws as [|w r IH]; intro line; cbn [fold_left map concat].
  - rewrite app_nil_r. reflexivity.
  - rewrite IH. rewrite <- !app_assoc. reflexivity.
Qed.

Lemma concat_join_spec : forall w r,
  concat (map (fun w => quote w ++ [c_space]) (w :: r)) = join_spec (w :: r) ++ [c_space].
Proof.
  intros w r. revert w. induction r as [|w' r IH]; intro w.
  - cbn [map concat join_spec]. rewrite app_nil_r. reflexivity.
  - change (concat (map (fun w => quote w ++ [c_space]) (w :: w' :: r)))
      with ((quote w ++ [c_space]) ++ concat (map (fun w => quote w ++ [c_space]) (w' :: r))).
    rewrite IH. change (join_spec (w :: w' :: r)) with (quote w ++ c_space :: join_spec (w' :: r)).
    rewrite <- !app_assoc. reflexivity.
Qed.

Lemma join_eq : forall ws, join ws = join_spec ws.
Proof.
  intro ws. unfold join. rewrite fold_join_acc. cbn [app].
  destruct ws as [|w r]; [reflexivity|].
  rewrite concat_join_spec. apply removelast_last.
Qed.

Lemma split_join_spec : forall ws a, split_from Delimiter [] a (join_spec ws) = Some (a ++ ws).
Proof.
  induction ws as [|w r IH]; intro a.
  - cbn. rewrite app_nil_r. reflexivity.
  - destruct r as [|w' r].
    + cbn [join_spec]. rewrite <- (app_nil_r (quote w)). rewrite run_quote. reflexivity.
    + change (join_spec (w :: w' :: r)) with (quote w ++ c_space :: join_spec (w' :: r)).
      rewrite run_quote. cbn [split_from].
      change (sw_step Unquoted w a c_space) with (Delimiter, @nil N, a ++ [w]).
      cbn iota beta. rewrite IH. rewrite <- app_assoc. reflexivity.
Qed.

Theorem split_join : forall ws : list str, split (join ws) = Some ws.
Proof. intro ws. unfold split. rewrite join_eq. apply split_join_spec. Qed.

(* quoting a single word and splitting it gives the word back *)
Corollary split_quote : forall w : str, split (quote w) = Some [w].
Proof.
  intro w. generalize (split_join [w]). unfold join. cbn [fold_left app].
  rewrite removelast_last. trivial.
Qed.

(* join is injective: two argument vectors with the same joined line are equal *)
Corollary join_injective : forall ws ws', join ws = join ws' -> ws = ws'.
Proof.
  intros ws ws' H. generalize (split_join ws). rewrite H, split_join. congruence.
Qed.

(* a joined line never fails to parse *)
Corollary split_join_never_errors : forall ws, split (join ws) <> None.
Proof. intro ws. rewrite split_join. discriminate. Qed.
