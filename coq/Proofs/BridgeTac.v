(* The structure-agnostic tactics of the bridge lemmas (DESIGN 11.7), shared by Proofs/GlueBridge.v. (Proofs/GenBridge.v
   keeps its own copy in its preamble: the two bridge files do not depend on each other, so that a source change in the
   glue code does not touch the checks wired to the decision functions, and the other way round.)
   [bridge]: unfold every definition of both sides except arithmetic, split on every stuck [if] / [match] innermost
   first, close the leaves with lia / congruence / constructor-wise equality. *)
From Coq Require Import List NArith ZArith Bool Lia.
From NextestModel Require Import Base.Tac.
Import ListNotations.
Open Scope N_scope.

Ltac b2p :=
  repeat match goal with
  | H : N.ltb _ _ = true |- _ => apply N.ltb_lt in H
  | H : N.ltb _ _ = false |- _ => apply N.ltb_ge in H
  | H : N.leb _ _ = true |- _ => apply N.leb_le in H
  | H : N.leb _ _ = false |- _ => apply N.leb_gt in H
  | H : N.eqb _ _ = true |- _ => apply N.eqb_eq in H
  | H : N.eqb _ _ = false |- _ => apply N.eqb_neq in H
  | H : Z.ltb _ _ = true |- _ => apply Z.ltb_lt in H
  | H : Z.ltb _ _ = false |- _ => apply Z.ltb_ge in H
  | H : Z.leb _ _ = true |- _ => apply Z.leb_le in H
  | H : Z.leb _ _ = false |- _ => apply Z.leb_gt in H
  | H : Z.eqb _ _ = true |- _ => apply Z.eqb_eq in H
  | H : Z.eqb _ _ = false |- _ => apply Z.eqb_neq in H
  | H : Bool.eqb _ _ = true |- _ => apply Bool.eqb_prop in H
  | H : Bool.eqb _ _ = false |- _ => apply Bool.eqb_false_iff in H
  | H : negb _ = true |- _ => apply negb_true_iff in H
  | H : negb _ = false |- _ => apply negb_false_iff in H
  | H : andb _ _ = true |- _ => apply andb_true_iff in H; destruct H
  | H : orb _ _ = false |- _ => apply orb_false_iff in H; destruct H
  end.

(* (lists stay folded: the generated definitions over lists are compared through the list lemmas of the std-lib) *)
Ltac bridge_norm :=
  cbv -[N.add N.sub N.mul N.ltb N.leb N.eqb N.min N.max N.of_nat N.to_nat Z.add Z.mul Z.ltb Z.leb Z.eqb
        Z.of_N Z.to_N Bool.eqb List.last List.length List.removelast List.repeat List.app List.filter List.map
        List.fold_left];
  cbn [N.add N.sub N.mul N.ltb N.leb N.eqb N.compare Pos.compare Pos.compare_cont Pos.eqb Pos.add Pos.succ
       Pos.sub Pos.mul List.length List.app Bool.eqb negb andb orb].

Ltac no_match t := lazymatch t with context [match _ with _ => _ end] => fail | _ => idtac end.
Ltac bridge_case :=
  match goal with
  | |- context [match ?x with _ => _ end] => is_var x; destruct x
  | |- context [if ?c then _ else _] => no_match c; destruct c eqn:?
  | |- context [match ?x with _ => _ end] => no_match x; destruct x eqn:?
  end.

Lemma f_apply {A B : Type} (f g : A -> B) (a b : A) : f = g -> a = b -> f a = g b.
Proof. intros; subst; reflexivity. Qed.
Ltac head_of t := match t with ?f _ => head_of f | _ => t end.
Ltac ctor_eq :=
  lazymatch goal with
  | |- ?a = _ =>
      first [ reflexivity
            | lazymatch a with
              | ?f _ => let h := head_of f in is_constructor h; apply f_apply; [ctor_eq | ctor_eq]
              end
            | lia ]
  end.

Ltac bridge_leaf :=
  cbn [List.length List.app] in *; b2p; subst;
  first [ solve [ctor_eq] | solve [exfalso; lia] | congruence | solve [exfalso; congruence] ].

Ltac bridge :=
  timeout 240 (intros; bridge_norm; repeat (bridge_case; cbv beta iota); bridge_leaf).

(* the same with hypotheses about model functions: they are evaluated along with the case analysis, and a case whose
   hypothesis is absurd is closed by it *)
Ltac bridge_hyps :=
  timeout 240 (intros; bridge_norm;
               repeat (bridge_case; cbv beta iota);
               repeat match goal with H : _ = _ |- _ => progress (cbv beta iota delta -[N.add N.sub N.mul N.ltb N.leb N.eqb N.of_nat] in H) end;
               bridge_leaf).
