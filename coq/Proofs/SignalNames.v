(* Facts about the reference table Model/SignalNames.v. *)
From Coq Require Import ZArith List Strings.String Bool Lia.
From NextestModel Require Import Model.SignalNames.
Import ListNotations.
Open Scope Z_scope.

(* the table names exactly the standard signals 1..31 *)
Lemma linux_signal_name_defined :
  forall n, (exists s, linux_signal_name n = Some s) <-> 1 <= n <= 31.
Proof.
  intros n. split.
  - intros [s H]. unfold linux_signal_name, linux_signal_table in H. cbn [lookup_signal] in H.
    repeat match type of H with
           | (if Z.eqb n ?k then _ else _) = _ => destruct (Z.eqb_spec n k); [lia|]
           end.
    discriminate.
  - intros H. assert (E : n = 1 \/ n = 2 \/ n = 3 \/ n = 4 \/ n = 5 \/ n = 6 \/ n = 7 \/ n = 8 \/ n = 9 \/ n = 10 \/
                          n = 11 \/ n = 12 \/ n = 13 \/ n = 14 \/ n = 15 \/ n = 16 \/ n = 17 \/ n = 18 \/ n = 19 \/
                          n = 20 \/ n = 21 \/ n = 22 \/ n = 23 \/ n = 24 \/ n = 25 \/ n = 26 \/ n = 27 \/ n = 28 \/
                          n = 29 \/ n = 30 \/ n = 31) by lia.
    repeat (destruct E as [E|E]; [subst n; eexists; vm_compute; reflexivity|]). subst n. eexists. vm_compute. reflexivity.
Qed.

(* no two numbers share a name *)
Lemma linux_signal_names_distinct :
  NoDup (map snd linux_signal_table).
Proof.
  unfold linux_signal_table. cbn [map snd].
  repeat (constructor; [cbn [In]; intros H; repeat (destruct H as [H|H]; [discriminate H|]); exact H|]).
  constructor.
Qed.

(* the two numbers the kernel uses for user-defined signals are not BUS / SYS *)
Lemma usr_signals : linux_signal_name 10 = Some "USR1"%string /\ linux_signal_name 12 = Some "USR2"%string.
Proof. split; reflexivity. Qed.
