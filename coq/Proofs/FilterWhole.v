(* C04 x C13: "selected iff all five stages" for the whole two-pass listing
   TestList::process_output (and for the per-binary listing decision), obtained by composing the
   per-call theorem of Proofs/FilterFull.v with the whole-listing theorems of
   Proofs/PartitionWhole.v. *)
From NextestModel Require Import Base.Str Base.Tac Model.Xxh64 Model.Filter Model.NameFilter
     Model.Partition Model.FilterFull Proofs.StrFacts Proofs.Partition Proofs.FilterFull
     Proofs.PartitionWhole.
Open Scope N_scope.

(* the tests of ignored class [c] of the listing that satisfy the four clauses other than the
   partition, in name order: what the count partitioner of that class counts *)
Definition candidates (f : tfilter) (c : bool) (ni ig : list str) : list str :=
  accepted (pre_full f) c (class_names c ni ig).

(* the partition clause for a whole listing. Count: the test is the j-th (0-based) candidate
   of its class with j mod n + 1 = m; hash: xxh64(name, 0) mod n + 1 = m. *)
Definition takes (pb : option pbuilder) (cands : list str) (nm : str) : Prop :=
  match pb with
  | None => True
  | Some b =>
      match pb_kind b with
      | PCount => exists j, nth_error cands j = Some nm /\
                            N.of_nat j mod pb_total b + 1 = pb_shard b
      | PHash => hash_shard (pb_total b) nm = pb_shard b
      end
  end.

Definition valid_pb (pb : option pbuilder) : Prop :=
  match pb with
  | None => True
  | Some b => valid_shards (pb_shard b) (pb_total b) = true
  end.

Lemma accepted_In pre c names nm :
  In nm (accepted pre c names) <-> In nm names /\ pre nm c = None.
Proof.
  unfold accepted. rewrite filter_In. destruct (pre nm c); split; intros [H1 H2]; split;
    try assumption; try discriminate; reflexivity.
Qed.

Lemma candidates_In ri pb p ets dt b c ni ig nm :
  wf_patterns p ->
  (In nm (candidates (builder_new ri pb p ets dt b) c ni ig) <->
   In nm (class_names c ni ig) /\
   ignored_ok ri c /\ name_ok p nm /\ expr_ok ets nm /\ default_ok b dt nm).
Proof.
  intros Hwf. unfold candidates. rewrite accepted_In, (pre_full_none_iff ri pb p ets dt b nm c Hwf).
  reflexivity.
Qed.

Lemma whole_listing_selected_iff ri pb p ets dt b ni ig nm :
  wf_patterns p -> valid_pb pb -> NoDup ni -> NoDup ig ->
  let f := builder_new ri pb p ets dt b in
  (In nm (matched (process_output (tf_pb f) (pre_full f) ni ig)) <->
   exists c, In nm (class_names c ni ig) /\
             ignored_ok ri c /\ name_ok p nm /\ expr_ok ets nm /\ default_ok b dt nm /\
             takes pb (candidates f c ni ig) nm).
Proof.
  intros Hwf Hv H1 H2 f. cbn [tf_pb f builder_new].
  destruct pb as [[k m n]|].
  - fold (mkpb k m n). cbn [valid_pb pb_shard pb_total] in Hv.
    pose proof (proj1 (valid_shards_iff m n) Hv) as Hmn.
    destruct k; cbn [takes mkpb pb_kind pb_shard pb_total].
    + (* count *)
      rewrite matched_split_In, !(listing_count_classes _ ni ig m n _ Hv H1 H2).
      rewrite !listing_none_classes by assumption.
      change (accepted (pre_full f)) with (accepted (pre_full f)).
      fold (candidates f false ni ig). fold (candidates f true ni ig).
      assert (Hc : forall c, In nm (stride (m - 1) n (candidates f c ni ig)) <->
                             In nm (class_names c ni ig) /\
                             ignored_ok ri c /\ name_ok p nm /\ expr_ok ets nm /\ default_ok b dt nm /\
                             exists j, nth_error (candidates f c ni ig) j = Some nm /\
                                       N.of_nat j mod n + 1 = m).
      { intros c. rewrite stride_In. split.
        - intros [j [A B]].
          pose proof (nth_error_In _ _ A) as Hin. unfold f in Hin.
          apply (candidates_In ri _ p ets dt b c ni ig nm Hwf) in Hin.
          destruct Hin as (I1 & I2 & I3 & I4 & I5).
          repeat (split; [assumption|]). exists j. split; [exact A|lia].
        - intros (_ & _ & _ & _ & _ & j & A & B). exists j. split; [exact A|lia]. }
      rewrite !Hc. split.
      * intros [H|H]; [exists false|exists true]; exact H.
      * intros [[|] H]; [right|left]; exact H.
    + (* hash *)
      rewrite (listing_hash_In _ ni ig m n nm Hv), listing_none_In. split.
      * intros [[c [A B]] C]. exists c. split; [exact A|].
        apply (pre_full_none_iff ri _ p ets dt b nm c Hwf) in B. tauto.
      * intros [c (A & B1 & B2 & B3 & B4 & C)]. split; [|exact C]. exists c. split; [exact A|].
        apply (pre_full_none_iff ri _ p ets dt b nm c Hwf). tauto.
  - cbn [takes]. rewrite listing_none_In. split.
    + intros [c [A B]]. exists c. split; [exact A|].
      apply (pre_full_none_iff ri _ p ets dt b nm c Hwf) in B. tauto.
    + intros [c (A & B1 & B2 & B3 & B4 & _)]. exists c. split; [exact A|].
      apply (pre_full_none_iff ri _ p ets dt b nm c Hwf). tauto.
Qed.

(* the same for the set of tests that run from one binary, the binary-level shortcut included *)
Lemma run_set_iff ebs ets db dt ri pb p b ni ig nm :
  Forall2 kleene_sound ebs ets -> kleene_sound db dt ->
  wf_patterns p -> valid_pb pb -> NoDup ni -> NoDup ig ->
  let f := builder_new ri pb p ets dt b in
  (In nm (suite_selected (list_binary f ebs db ni ig)) <->
   exists c, In nm (class_names c ni ig) /\
             ignored_ok ri c /\ name_ok p nm /\ expr_ok ets nm /\ default_ok b dt nm /\
             takes pb (candidates f c ni ig) nm).
Proof.
  intros K1 K2 Hwf Hv H1 H2 f. unfold f.
  rewrite (prefilter_preserves_selection ebs ets db dt ri pb p b ni ig K1 K2).
  apply whole_listing_selected_iff; assumption.
Qed.

(* the per-call partition clause of C04_selected_iff without truncating subtraction *)
Lemma partition_ok_valid k m n cur name :
  valid_shards m n = true ->
  (partition_ok (Some (mkpb k m n)) cur name <->
   match k with PCount => cur + 1 = m | PHash => hash_shard n name = m end).
Proof.
  intros Hv. apply valid_shards_iff in Hv. unfold partition_ok, hash_shard.
  destruct k; cbn [mkpb pb_kind pb_shard pb_total]; lia.
Qed.
