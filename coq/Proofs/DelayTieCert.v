(* The extended delay-loop certificate for the pause table regenerated from the Rust source
   (gen/GenPauseTable.v): the three arm evaluations of [dcert] and "a Stop request reaching a
   delay loop that is already stopped panics". *)
From NextestModel Require Import Base.Str Model.Clocks Model.UnitTimers Proofs.DelayProps
  Proofs.DelayTie gen.GenPauseTable.

Lemma delay_cert2 : dcert2 pause_table = true.
Proof. vm_compute. reflexivity. Qed.
