(* The bridge between the request arms read from the Rust source (gen/GenArmTable.v, regenerated on
   every run by harness/src/bin/arm_table.rs) and the hand-written request handling of the unit model:
   for ALL states and requests the interpretation of the generated table (Model/ArmTable.v) equals
   [ucore] (running loops of tests and of setup scripts, terminate_child's grace loop, the leak-drain
   loop), [dstep] (the retry-delay loop) and, for a unit's whole life, [lstep].

   One lemma per (loop, kind of request): the file is cut into blocks at the `== block` markers so
   that the checks can tell which obligations still hold when one of them breaks
   (lib/units_e2e.py arms_gate compiles the blocks a property needs on their own).

   The proofs are case analyses closed by computation: nothing in the request handling inspects a
   number except `grace_period.is_zero()`, so after splitting on the pause flags, on whether the
   child has been reaped and on whether the grace period is zero, both sides compute to the same
   term with every number left as a variable. *)
(* == block preamble == *)
From NextestModel Require Import Base.Str Model.Backoff Model.Clocks Model.UnitTimers Model.AbsTimers
  Model.UnitLife Model.ArmTable Proofs.Timers Proofs.UnitProps gen.GenPauseTable gen.GenArmTable.
Open Scope N_scope.

Ltac split_clocks :=
  repeat match goal with
         | c : swc |- _ => destruct c as [? []]
         | c : slc |- _ => destruct c as [? []]
         end.
Ltac crunch := vm_compute; reflexivity.
Ltac wrong_kind H := cbv in H; discriminate H.

(* the statement for one loop (the phases in which it is the reader of the request channel) and one
   kind of request (0 Stop, 1 Continue, 2 Shutdown(_), 3 OtherCancel, 4 GetInfo: [req_kind]) *)
Definition unit_bridge (script : bool) (P : phase -> Prop) (k : N) : Prop :=
  forall cfg s r, P (ph s) -> req_kind r = k ->
    interp_unit arm_table script cfg s r = Some (lift_u (ucore pause_table cfg s (AReq r))).
Definition in_run (p : phase) : Prop := p = PRunning.
Definition in_term (p : phase) : Prop := exists x, p = PTerminating x.
Definition in_leak (p : phase) : Prop := p = PExiting.
Definition in_idle (p : phase) : Prop := p = PSyncWait \/ p = PDone.

(* the delay loop's states: [d_cancelled] is only ever set together with [d_done] (every step of
   [dstep] that goes on with the loop writes false; true of [dinit] and preserved: [dstep_wf]) *)
Definition dwf (d : dstate) : Prop := d_done d = false -> d_cancelled d = false.
Definition delay_bridge (k : N) : Prop :=
  forall d r, dwf d -> req_kind r = k ->
    interp_delay arm_table d r = Some (lift_d (dstep pause_table d (DReq r))).

(* job control: split on every pause flag and on whether the child has been reaped *)
Ltac job_control :=
  intros [pe ta gr lt] [p [sw isl gsl wsw dsl dwsw] l h to sl rp ok lk fd] r Hp Hk;
  unfold in_run, in_term, in_leak in Hp; cbn [ph] in Hp;
  first [ subst p | destruct Hp as [x Hp]; subst p; destruct x ];
  destruct r; try wrong_kind Hk; destruct rp; split_clocks; crunch.
(* shutdown: split on the payload, on reaped and on grace_period.is_zero() *)
Ltac shutdown_arm :=
  intros [pe ta gr lt] [p ck l h to sl rp ok lk fd] r Hp Hk;
  unfold in_run, in_term, in_leak in Hp; cbn [ph] in Hp;
  first [ subst p | destruct Hp as [x Hp]; subst p; destruct x ];
  destruct r as [| |[[]|]| |]; try wrong_kind Hk; destruct rp; destruct gr; crunch.
(* other-cancel and information requests: no case analysis at all beyond the state record *)
Ltac plain_arm :=
  intros [pe ta gr lt] [p ck l h to sl rp ok lk fd] r Hp Hk;
  unfold in_run, in_term, in_leak in Hp; cbn [ph] in Hp;
  first [ subst p | destruct Hp as [x Hp]; subst p; destruct x ];
  destruct r; try wrong_kind Hk; crunch.
Ltac delay_wf H := unfold dwf in H; cbn [d_done d_cancelled] in H; try (rewrite (H eq_refl)); clear H.
Ltac delay_job_control :=
  intros [[sw isl gsl wsw dsl dwsw] [] cn] r Hw Hk; delay_wf Hw;
  destruct r; try wrong_kind Hk; split_clocks; crunch.
Ltac delay_arm :=
  intros [ck [] cn] r Hw Hk; delay_wf Hw; destruct r as [| |[[]|]| |]; try wrong_kind Hk; crunch.

(* == block test_stop == *)
Lemma bridge_test_stop : unit_bridge false in_run 0. Proof. job_control. Qed.
(* == block test_cont == *)
Lemma bridge_test_cont : unit_bridge false in_run 1. Proof. job_control. Qed.
(* == block test_shutdown == *)
Lemma bridge_test_shutdown : unit_bridge false in_run 2. Proof. shutdown_arm. Qed.
(* == block test_cancel == *)
Lemma bridge_test_cancel : unit_bridge false in_run 3. Proof. plain_arm. Qed.
(* == block test_info == *)
Lemma bridge_test_info : unit_bridge false in_run 4. Proof. plain_arm. Qed.

(* == block script_stop == *)
Lemma bridge_script_stop : unit_bridge true in_run 0. Proof. job_control. Qed.
(* == block script_cont == *)
Lemma bridge_script_cont : unit_bridge true in_run 1. Proof. job_control. Qed.
(* == block script_shutdown == *)
Lemma bridge_script_shutdown : unit_bridge true in_run 2. Proof. shutdown_arm. Qed.
(* == block script_cancel == *)
Lemma bridge_script_cancel : unit_bridge true in_run 3. Proof. plain_arm. Qed.
(* == block script_info == *)
Lemma bridge_script_info : unit_bridge true in_run 4. Proof. plain_arm. Qed.

(* terminate_child's loop is one text for tests and scripts: the statement holds with either flag *)
(* == block term_stop == *)
Lemma bridge_term_stop script : unit_bridge script in_term 0. Proof. job_control. Qed.
(* == block term_cont == *)
Lemma bridge_term_cont script : unit_bridge script in_term 1. Proof. job_control. Qed.
(* == block term_shutdown == *)
Lemma bridge_term_shutdown script : unit_bridge script in_term 2. Proof. shutdown_arm. Qed.
(* == block term_cancel == *)
Lemma bridge_term_cancel script : unit_bridge script in_term 3. Proof. plain_arm. Qed.
(* == block term_info == *)
Lemma bridge_term_info script : unit_bridge script in_term 4. Proof. plain_arm. Qed.

(* == block leak_stop == *)
Lemma bridge_leak_stop script : unit_bridge script in_leak 0. Proof. job_control. Qed.
(* == block leak_cont == *)
Lemma bridge_leak_cont script : unit_bridge script in_leak 1. Proof. job_control. Qed.
(* == block leak_shutdown == *)
Lemma bridge_leak_shutdown script : unit_bridge script in_leak 2. Proof. shutdown_arm. Qed.
(* == block leak_cancel == *)
Lemma bridge_leak_cancel script : unit_bridge script in_leak 3. Proof. plain_arm. Qed.
(* == block leak_info == *)
Lemma bridge_leak_info script : unit_bridge script in_leak 4. Proof. plain_arm. Qed.

(* == block delay_stop == *)
Lemma bridge_delay_stop : delay_bridge 0. Proof. delay_job_control. Qed.
(* == block delay_cont == *)
Lemma bridge_delay_cont : delay_bridge 1. Proof. delay_job_control. Qed.
(* == block delay_shutdown == *)
Lemma bridge_delay_shutdown : delay_bridge 2. Proof. delay_arm. Qed.
(* == block delay_cancel == *)
Lemma bridge_delay_cancel : delay_bridge 3. Proof. delay_arm. Qed.
(* == block delay_info == *)
Lemma bridge_delay_info : delay_bridge 4. Proof. delay_arm. Qed.

(* terminate_child before its loop, for a request (reason Signal, method from
   shutdown_terminate_method) and for the slow-timeout arm (reason Timeout, method from
   timeout_terminate_method): [enter_terminate] is what the table says, followed -- for a timeout -- by
   what the interval arm does once terminate_child has returned *)
(* == block term_entry == *)
Lemma bridge_term_entry_signal cfg s q :
  entry_model cfg TSignal (run_entry arm_table cfg s TSignal (Some q)) =
  Some (let r := enter_terminate cfg s TSignal (shutdown_method cfg q) in (fst r, map sout_of (snd r))).
Proof.
  destruct cfg as [pe ta gr lt]; destruct s as [p ck l h to sl rp ok lk fd];
    destruct q as [[]|]; destruct rp; destruct gr; crunch.
Qed.
Lemma bridge_term_entry_timeout cfg s :
  entry_model cfg TTimeout (run_entry arm_table cfg s TTimeout None) =
  Some (let r := enter_terminate cfg s TTimeout (timeout_method cfg) in (fst r, map sout_of (snd r))).
Proof.
  destruct cfg as [pe ta gr lt]; destruct s as [p ck l h to sl rp ok lk fd];
    destruct rp; destruct gr; crunch.
Qed.

Lemma bridge_term_entry cfg s :
  (forall q, entry_model cfg TSignal (run_entry arm_table cfg s TSignal (Some q)) =
             Some (let r := enter_terminate cfg s TSignal (shutdown_method cfg q) in
                   (fst r, map sout_of (snd r)))) /\
  entry_model cfg TTimeout (run_entry arm_table cfg s TTimeout None) =
  Some (let r := enter_terminate cfg s TTimeout (timeout_method cfg) in (fst r, map sout_of (snd r))).
Proof. split; [exact (bridge_term_entry_signal cfg s)|exact (bridge_term_entry_timeout cfg s)]. Qed.

(* the end of the grace period *)
(* == block term_expiry == *)
Lemma bridge_term_expiry cfg s x :
  ph s = PTerminating x ->
  interp_expiry arm_table cfg s x = Some (lift_u (ucore pause_table cfg s AFireGrace)).
Proof.
  destruct cfg as [pe ta gr lt]; destruct s as [p ck l h to sl rp ok lk fd]; cbn [ph];
    intros ->; destruct x; crunch.
Qed.

(* where no loop reads the channel (the synchronous wait after a zero-grace kill, the end of the
   attempt) the model leaves requests alone *)
(* == block idle == *)
Lemma bridge_idle script k : unit_bridge script in_idle k.
Proof.
  intros cfg [p ck l h to sl rp ok lk fd] r Hp _; cbn [ph] in Hp.
  destruct Hp; subst p; destruct r; reflexivity.
Qed.

(* ---------------------------------------------------------------- what the properties say, obtained
   from the bridge lemmas above and the single-step facts about the model (Proofs/UnitProps.v) *)

(* == block c10 (needs test_cancel script_cancel term_cancel leak_cancel delay_cancel) == *)
(* the model leaves a unit alone on OtherCancel, whatever its state *)
Lemma ucore_other_cancel tbl cfg s : ucore tbl cfg s (AReq ROtherCancel) = Ok (s, []).
Proof. unfold ucore. destruct (ph s); reflexivity. Qed.

Lemma source_other_cancel_ignored script cfg s :
  ph s = PRunning \/ (exists x, ph s = PTerminating x) \/ ph s = PExiting ->
  interp_unit arm_table script cfg s ROtherCancel = Some (Ok (s, [])).
Proof.
  intros H.
  assert (Hb : interp_unit arm_table script cfg s ROtherCancel =
               Some (lift_u (ucore pause_table cfg s (AReq ROtherCancel)))).
  { destruct H as [H|[H|H]].
    - destruct script; [now apply bridge_script_cancel | now apply bridge_test_cancel].
    - now apply bridge_term_cancel.
    - now apply bridge_leak_cancel. }
  rewrite Hb, ucore_other_cancel. reflexivity.
Qed.

Lemma source_other_cancel_arms_empty :
  on_cancel (a_test arm_table) = [] /\ on_cancel (a_script arm_table) = [] /\
  on_cancel (a_term arm_table) = [] /\ on_cancel (a_leak arm_table) = [].
Proof. repeat split; reflexivity. Qed.

Lemma source_other_cancel_ends_delay d :
  dwf d -> d_done d = false ->
  interp_delay arm_table d ROtherCancel =
  Some (Ok ({| d_ck := d_ck d; d_done := true; d_cancelled := true |}, [])).
Proof.
  intros Hw Hd. rewrite (bridge_delay_cancel d ROtherCancel Hw eq_refl).
  unfold dstep. rewrite Hd. reflexivity.
Qed.

(* == block c11 (needs test_shutdown script_shutdown term_shutdown leak_shutdown delay_shutdown delay_cancel term_expiry) == *)
Lemma source_shutdown_running script cfg s q :
  ph s = PRunning -> reaped s = false ->
  exists s', interp_unit arm_table script cfg s (RShutdown q)
             = Some (Ok (s', [SKill TGroup (shutdown_method cfg q)])) /\
             (is_kill (shutdown_method cfg q) = false -> ph s' = PTerminating TSignal /\
                k_gsl (ck s') = slc_new (grace cfg)) /\
             (is_kill (shutdown_method cfg q) = true -> ph s' = PRunning).
Proof.
  intros Hp Hr.
  destruct (shutdown_running pause_table cfg s q Hp Hr) as [s' [He Hrest]].
  exists s'. split; [|exact Hrest].
  assert (Hb : interp_unit arm_table script cfg s (RShutdown q) =
               Some (lift_u (ucore pause_table cfg s (AReq (RShutdown q))))).
  { destruct script; [now apply bridge_script_shutdown | now apply bridge_test_shutdown]. }
  rewrite Hb, He. reflexivity.
Qed.

Lemma source_shutdown_grace script cfg s x q :
  ph s = PTerminating x ->
  interp_unit arm_table script cfg s (RShutdown q) = Some (Ok (leave_terminate s x, [SKill TGroup SigKill])).
Proof.
  intros Hp. rewrite (bridge_term_shutdown script cfg s (RShutdown q)); [|exists x; exact Hp|reflexivity].
  unfold ucore. rewrite Hp. reflexivity.
Qed.

Lemma source_grace_expiry cfg s x :
  ph s = PTerminating x ->
  interp_expiry arm_table cfg s x = Some (Ok (leave_terminate s x, [SKill TGroup SigKill])).
Proof.
  intros Hp. rewrite (bridge_term_expiry cfg s x Hp). unfold ucore. rewrite Hp. reflexivity.
Qed.

Lemma source_shutdown_leak script cfg s q :
  ph s = PExiting -> interp_unit arm_table script cfg s (RShutdown q) = Some (Ok (s, [])).
Proof.
  intros Hp. rewrite (bridge_leak_shutdown script cfg s (RShutdown q) Hp eq_refl).
  unfold ucore. rewrite Hp. reflexivity.
Qed.

Lemma source_shutdown_ends_delay d q :
  dwf d -> d_done d = false ->
  interp_delay arm_table d (RShutdown q) =
  Some (Ok ({| d_ck := d_ck d; d_done := true; d_cancelled := true |}, [])).
Proof.
  intros Hw Hd. rewrite (bridge_delay_shutdown d (RShutdown q) Hw eq_refl).
  unfold dstep. rewrite Hd. reflexivity.
Qed.

(* Both cancel arms of the retry-delay loop -- Shutdown(_) and OtherCancel (what the dispatcher sends a unit that reports
   a failed attempt after the run was cancelled: its shutdown request was consumed while the process was still being
   run, terminated or drained) -- break out of the loop: the wait is over at once, no clock moves, nothing is sent. *)
Lemma source_delay_cancel_arms d r :
  dwf d -> d_done d = false -> (r = ROtherCancel \/ exists q, r = RShutdown q) ->
  interp_delay arm_table d r =
  Some (Ok ({| d_ck := d_ck d; d_done := true; d_cancelled := true |}, [])).
Proof.
  intros Hw Hd [->|[q ->]].
  - rewrite (bridge_delay_cancel d ROtherCancel Hw eq_refl). unfold dstep. rewrite Hd. reflexivity.
  - rewrite (bridge_delay_shutdown d (RShutdown q) Hw eq_refl). unfold dstep. rewrite Hd. reflexivity.
Qed.

(* ... so a unit that is waiting out a retry delay leaves it at once and asks the dispatcher whether the next attempt
   may start (which a cancelled run refuses): it does not sit out the delay with no process running. In the model: *)
Lemma model_delay_cancel_leaves_delay tbl c s d r :
  l_ph s = LDelay d -> d_done d = false -> (r = ROtherCancel \/ exists q, r = RShutdown q) ->
  lstep tbl c s (LU (Req r)) = Ok (with_lph s LAwaitRetry, [LRetryStarted (l_k s + 1)]).
Proof.
  intros Hl Hd [->|[q ->]]; unfold lstep; rewrite Hl; cbn [devent_of]; unfold dstep; rewrite Hd; reflexivity.
Qed.
(* ... and with the arms as the source has them: *)
Lemma source_delay_cancel_leaves_delay c s d r :
  l_ph s = LDelay d -> dwf d -> d_done d = false -> (r = ROtherCancel \/ exists q, r = RShutdown q) ->
  lstep_src pause_table arm_table c s (LU (Req r)) =
  Some (Ok (with_lph s LAwaitRetry, [LRetryStarted (l_k s + 1)])).
Proof.
  intros Hl Hw Hd Hr. unfold lstep_src. rewrite Hl, (source_delay_cancel_arms d r Hw Hd Hr). reflexivity.
Qed.

(* == block c12 (needs test_info script_info term_info leak_info delay_info idle test_stop test_cont script_stop script_cont term_stop term_cont leak_stop leak_cont delay_stop delay_cont) == *)
Lemma source_info_once script cfg s :
  interp_unit arm_table script cfg s RGetInfo =
  Some (Ok (s, match info_tag (ph s) with Some i => [SOut (OInfo i)] | None => [] end)).
Proof.
  assert (Hb : interp_unit arm_table script cfg s RGetInfo =
               Some (lift_u (ucore pause_table cfg s (AReq RGetInfo)))).
  { destruct (ph s) as [|x| | |] eqn:Hp.
    - destruct script; [now apply bridge_script_info | now apply bridge_test_info].
    - apply bridge_term_info; [exists x; exact Hp|reflexivity].
    - apply (bridge_idle script 4); [left; exact Hp|reflexivity].
    - now apply bridge_leak_info.
    - apply (bridge_idle script 4); [right; exact Hp|reflexivity]. }
  rewrite Hb, info_once. cbn [lift_u]. destruct (info_tag (ph s)); reflexivity.
Qed.

Lemma source_info_once_delay d :
  dwf d -> d_done d = false ->
  interp_delay arm_table d RGetInfo = Some (Ok (d, [SOut (OInfo IDelay)])).
Proof.
  intros Hw Hd. rewrite (bridge_delay_info d RGetInfo Hw eq_refl).
  unfold dstep. rewrite Hd. reflexivity.
Qed.

(* the Stop / Continue arms as read by this translator are the pause table read by the other one
   (harness/src/bin/pause_table.rs): every C12 theorem about [pause_table] is about these arms *)
Lemma source_job_control_is_pause_table script cfg s r :
  r = RStop \/ r = RContinue ->
  interp_unit arm_table script cfg s r = Some (lift_u (ucore pause_table cfg s (AReq r))).
Proof.
  intros Hr. destruct (ph s) as [|x| | |] eqn:Hp.
  - destruct script; destruct Hr; subst r;
      first [ now apply bridge_script_stop | now apply bridge_script_cont
            | now apply bridge_test_stop | now apply bridge_test_cont ].
  - assert (in_term (ph s)) by (exists x; exact Hp).
    destruct Hr; subst r; [now apply bridge_term_stop | now apply bridge_term_cont].
  - apply (bridge_idle script (req_kind r)); [left; exact Hp|reflexivity].
  - destruct Hr; subst r; [now apply bridge_leak_stop | now apply bridge_leak_cont].
  - apply (bridge_idle script (req_kind r)); [right; exact Hp|reflexivity].
Qed.

Lemma source_job_control_is_pause_table_delay d r :
  dwf d -> r = RStop \/ r = RContinue ->
  interp_delay arm_table d r = Some (lift_d (dstep pause_table d (DReq r))).
Proof.
  intros Hw [Hr|Hr]; subst r; [now apply bridge_delay_stop | now apply bridge_delay_cont].
Qed.

(* == block c09 (needs term_entry term_expiry) == *)
(* a slow-timeout termination: the signal computed by timeout_terminate_method goes to the group *)
Lemma source_timeout_signal_to_group cfg s :
  reaped s = false ->
  eres_out (run_entry arm_table cfg s TTimeout None) = Some [SKill TGroup (timeout_method cfg)].
Proof.
  destruct cfg as [pe ta gr lt]; destruct s as [p ck l h to sl rp ok lk fd]; cbn [reaped].
  intros ->. destruct gr; crunch.
Qed.
Lemma source_timeout_escalation cfg s :
  ph s = PTerminating TTimeout ->
  interp_expiry arm_table cfg s TTimeout
  = Some (Ok (leave_terminate s TTimeout, [SKill TGroup SigKill])).
Proof.
  intros Hp. rewrite (bridge_term_expiry cfg s TTimeout Hp). unfold ucore. rewrite Hp. reflexivity.
Qed.

(* == block all (needs test_stop test_cont test_shutdown test_cancel test_info script_stop script_cont script_shutdown script_cancel script_info term_stop term_cont term_shutdown term_cancel term_info leak_stop leak_cont leak_shutdown leak_cancel leak_info delay_stop delay_cont delay_shutdown delay_cancel delay_info term_entry term_expiry idle) == *)
(* every state, every request, tests and setup scripts *)
Theorem arm_bridge_unit script cfg s r :
  interp_unit arm_table script cfg s r = Some (lift_u (ucore pause_table cfg s (AReq r))).
Proof.
  destruct (ph s) as [|x| | |] eqn:Hp.
  - destruct script;
      destruct r; first [ now apply bridge_test_stop | now apply bridge_test_cont
                        | now apply bridge_test_shutdown | now apply bridge_test_cancel
                        | now apply bridge_test_info | now apply bridge_script_stop
                        | now apply bridge_script_cont | now apply bridge_script_shutdown
                        | now apply bridge_script_cancel | now apply bridge_script_info ].
  - assert (in_term (ph s)) by (exists x; exact Hp).
    destruct r; first [ now apply bridge_term_stop | now apply bridge_term_cont
                      | now apply bridge_term_shutdown | now apply bridge_term_cancel
                      | now apply bridge_term_info ].
  - apply (bridge_idle script (req_kind r)); [left; exact Hp|reflexivity].
  - destruct r; first [ now apply bridge_leak_stop | now apply bridge_leak_cont
                      | now apply bridge_leak_shutdown | now apply bridge_leak_cancel
                      | now apply bridge_leak_info ].
  - apply (bridge_idle script (req_kind r)); [right; exact Hp|reflexivity].
Qed.

Theorem arm_bridge_delay d r :
  dwf d -> interp_delay arm_table d r = Some (lift_d (dstep pause_table d (DReq r))).
Proof.
  intros Hw. destruct r; first [ now apply bridge_delay_stop | now apply bridge_delay_cont
                    | now apply bridge_delay_shutdown | now apply bridge_delay_cancel
                    | now apply bridge_delay_info ].
Qed.

(* going back from the table's outputs (kill with an explicit target) to the model's *)
Lemma uouts_of_lift o : uouts_of (map sout_of o) = Some o.
Proof.
  induction o as [|x o IH]; [reflexivity|]. cbn [map uouts_of]. rewrite IH.
  destruct x; reflexivity.
Qed.
Lemma unlift_lift_u r : unlift_u (Some (lift_u r)) = Some r.
Proof. destruct r as [[s o]|]; [|reflexivity]. cbn [lift_u unlift_u]. rewrite uouts_of_lift. reflexivity. Qed.
Lemma unlift_lift_d r : unlift_d (Some (lift_d r)) = Some r.
Proof. destruct r as [[s o]|]; [|reflexivity]. cbn [lift_d unlift_d]. rewrite uouts_of_lift. reflexivity. Qed.

(* a unit's whole life (run_test_instance): a request delivered in any phase is handled as the
   source's arm for the loop that reads the channel in that phase says *)
Definition lwf (s : lstate) : Prop := match l_ph s with LDelay d => dwf d | _ => True end.

Lemma dstep_wf tbl d e r : dwf d -> dstep tbl d e = Ok r -> dwf (fst r).
Proof.
  unfold dwf, dstep. intros Hw. destruct (d_done d) eqn:Hd.
  - intros H; injection H as <-. cbn [fst]. rewrite Hd. discriminate.
  - destruct e as [dt| |[| |q| |]].
    + intros H; injection H as <-. reflexivity.
    + destruct (slc_due (k_dsl (d_ck d))); intros H; injection H as <-; cbn [fst d_done]; [discriminate|intros _; exact (Hw eq_refl)].
    + destruct (exec_arm true (d_ck d) (t_delay_stop tbl)); cbn [obind]; [|discriminate].
      intros H; injection H as <-. reflexivity.
    + destruct (exec_arm true (d_ck d) (t_delay_cont tbl)); cbn [obind]; [|discriminate].
      intros H; injection H as <-. reflexivity.
    + intros H; injection H as <-. cbn [fst d_done]. discriminate.
    + intros H; injection H as <-. cbn [fst d_done]. discriminate.
    + intros H; injection H as <-. intros _; exact (Hw eq_refl).
Qed.

(* [lwf] holds initially and along every run of the life machine *)
Lemma lwf_init c : lwf (linit c). Proof. exact I. Qed.
Lemma lstep_wf tbl c s e r : lwf s -> lstep tbl c s e = Ok r -> lwf (fst r).
Proof.
  unfold lwf, lstep. intros Hw. destruct (l_ph s) as [|u|d| | |] eqn:Hl.
  - destruct e as [ue| |[]]; intros H; injection H as <-; cbn [fst l_ph with_lph mkl]; try rewrite Hl; exact I.
  - destruct e as [ue| |acc]; try (intros H; injection H as <-; cbn [fst]; rewrite Hl; exact I).
    destruct (ustep tbl (lc_unit c) u ue) as [[u' outs]|]; [|discriminate].
    destruct (ph u'); try (intros H; injection H as <-; exact I).
    unfold finish_attempt.
    destruct (ures_success (uresult u')); [intros H; injection H as <-; exact I|].
    destruct (l_k s <? lc_total c).
    + destruct (b_next (lc_js c (l_k s)) (l_bs s)) as [[dl bs']|]; cbn [obind]; [|discriminate].
      intros H; injection H as <-. cbn [fst l_ph mkl]. unfold dwf, dinit. reflexivity.
    + intros H; injection H as <-; exact I.
  - destruct (devent_of e) as [de|]; [|intros H; injection H as <-; cbn [fst]; rewrite Hl; exact Hw].
    destruct (dstep tbl d de) as [[d' outs]|] eqn:Hd; [|discriminate].
    destruct (d_done d') eqn:Hdd; intros H; injection H as <-; cbn [fst l_ph with_lph mkl]; [exact I|].
    exact (dstep_wf tbl d de (d', outs) Hw Hd).
  - destruct e as [ue| |[]]; intros H; injection H as <-; cbn [fst l_ph with_lph mkl]; try rewrite Hl; exact I.
  - intros H; injection H as <-; cbn [fst]; rewrite Hl; exact I.
  - intros H; injection H as <-; cbn [fst]; rewrite Hl; exact I.
Qed.

Lemma life_states_well_formed c :
  lwf (linit c) /\
  forall tbl s e r, lwf s -> lstep tbl c s e = Ok r -> lwf (fst r).
Proof. split; [exact (lwf_init c)|]. intros tbl s e r. exact (lstep_wf tbl c s e r). Qed.

Theorem arm_bridge_life c s e :
  lwf s -> lstep_src pause_table arm_table c s e = Some (lstep pause_table c s e).
Proof.
  unfold lwf, lstep_src, lstep. intros Hw.
  destruct e as [[dt| | | |ok| |r]| |acc]; try reflexivity;
    destruct (l_ph s) as [|u|d| | |] eqn:Hl; try reflexivity.
  - rewrite arm_bridge_unit, unlift_lift_u.
    unfold ustep, annotate.
    destruct (ucore pause_table (lc_unit c) u (AReq r)) as [[u' outs]|]; reflexivity.
  - rewrite arm_bridge_delay by exact Hw. rewrite unlift_lift_d.
    cbn [devent_of]. destruct (dstep pause_table d (DReq r)) as [[d' outs]|]; reflexivity.
Qed.
