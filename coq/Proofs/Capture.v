(* Lemmas about Model/Capture.v (C16). *)
From NextestModel Require Import Base.Str Base.Tac Model.Capture.
Open Scope N_scope.

(* ------------------------------------------------------------------------------------------ *)
(* lists *)

Lemma take_drop : forall (A : Type) (l : list A) n, takeN n l ++ dropN n l = l.
Proof.
  induction l as [|x t IH]; intros n; cbn [takeN dropN]; [reflexivity|].
  destruct (n =? 0); cbn [app]; [reflexivity|]. f_equal. apply IH.
Qed.

Lemma takeN_cons_nonnil : forall (A : Type) (x : A) t n,
  (n =? 0) = false -> is_nil (takeN n (x :: t)) = false.
Proof. intros A x t n H. cbn [takeN]. rewrite H. reflexivity. Qed.

Lemma dropN_length : forall (A : Type) (l : list A) n, (length (dropN n l) <= length l)%nat.
Proof.
  induction l as [|x t IH]; intros n; cbn [dropN]; [apply le_n|].
  destruct (n =? 0); [apply le_n|]. cbn [length]. apply le_S. apply IH.
Qed.

Lemma dropN_cons_shorter : forall (A : Type) (x : A) t n,
  (n =? 0) = false -> (length (dropN n (x :: t)) <= length t)%nat.
Proof. intros A x t n H. cbn [dropN]. rewrite H. apply dropN_length. Qed.

(* ------------------------------------------------------------------------------------------ *)
(* one side *)

Definition total (x : side) : bytes := r_acc (sd_rd x) ++ sd_buf x.

Definition extra (x : side) (e : sev) : bytes :=
  match e with Write b => if sd_open x then b else [] | _ => [] end.

Lemma reader_fill_live : forall r x, r_done r = false ->
  fst (reader_fill r x) =
  match x with RdData b => mkReader (is_nil b) (r_acc r ++ b) | RdErr => mkReader true (r_acc r) end.
Proof. intros r x H. unfold reader_fill. rewrite H. destruct x; reflexivity. Qed.

Ltac side_fields x := destruct x as [o buf [d acc] er st].
Ltac side_crunch :=
  cbn [side_step reader_fill fst snd sd_open sd_buf sd_rd sd_err sd_stopped r_done r_acc orb
       is_nil total extra app].

Lemma side_step_total : forall cap x e, total (side_step cap x e) = total x ++ extra x e.
Proof.
  intros cap x e. side_fields x. unfold total, extra. destruct e as [b| |n| |]; side_crunch.
  - destruct o; side_crunch; [now rewrite app_assoc | now rewrite app_nil_r].
  - now rewrite app_nil_r.
  - destruct st, d; side_crunch; try now rewrite app_nil_r.
    destruct buf as [|c t].
    + destruct o; side_crunch; now rewrite ?app_nil_r.
    + destruct (N.min n cap =? 0); side_crunch; [now rewrite app_nil_r|].
      rewrite app_nil_r, <- app_assoc. now rewrite take_drop.
  - destruct st, d; side_crunch; now rewrite app_nil_r.
  - now rewrite app_nil_r.
Qed.

Lemma side_step_open : forall cap x e,
  sd_open (side_step cap x e) = match e with Close => false | _ => sd_open x end.
Proof.
  intros cap x e. side_fields x. destruct e as [b| |n| |]; side_crunch; try reflexivity.
  - destruct o; reflexivity.
  - destruct st, d; side_crunch; try reflexivity.
    destruct buf; [destruct o; reflexivity|]. destruct (N.min n cap =? 0); reflexivity.
  - destruct st, d; reflexivity.
Qed.

Lemma side_run_cons : forall cap e l x, side_run cap (e :: l) x = side_run cap l (side_step cap x e).
Proof. reflexivity. Qed.

Lemma side_run_total : forall cap l x,
  total (side_run cap l x) = total x ++ accepted (sd_open x) l.
Proof.
  intros cap l. induction l as [|e l IH]; intros x.
  - cbn. now rewrite app_nil_r.
  - rewrite side_run_cons, IH, side_step_total, side_step_open, <- app_assoc. f_equal.
    unfold extra. destruct e; cbn [accepted]; try reflexivity.
    destruct (sd_open x); reflexivity.
Qed.

(* a reader that finished without an error saw an empty pipe whose write ends were all closed *)
Definition clean (x : side) : Prop :=
  r_done (sd_rd x) = true -> sd_err x = false -> sd_buf x = [] /\ sd_open x = false.

Lemma side_step_clean : forall cap x e, clean x -> clean (side_step cap x e).
Proof.
  intros cap x e. side_fields x. unfold clean. destruct e as [b| |n| |]; side_crunch; intros H.
  - destruct o; side_crunch; [|exact H]. intros D E. destruct (H D E) as [_ C]. discriminate C.
  - intros D E. destruct (H D E) as [B _]. now split.
  - destruct st, d; side_crunch; try exact H.
    destruct buf as [|c t].
    + destruct o; side_crunch; [exact H|]. intros _ _. now split.
    + destruct (N.min n cap =? 0) eqn:K; side_crunch; [exact H|].
      rewrite takeN_cons_nonnil by exact K. intros D; discriminate D.
  - destruct st, d; side_crunch; try exact H. intros _ E; discriminate E.
  - exact H.
Qed.

Lemma side_run_clean : forall cap l x, clean x -> clean (side_run cap l x).
Proof.
  intros cap l. induction l as [|e l IH]; intros x H; [exact H|].
  rewrite side_run_cons. apply IH. now apply side_step_clean.
Qed.

Lemma clean_side0 : clean side0.
Proof. unfold clean. cbn. intros D; discriminate D. Qed.

Lemma side_complete : forall cap l,
  r_done (sd_rd (side_run cap l side0)) = true -> sd_err (side_run cap l side0) = false ->
  r_acc (sd_rd (side_run cap l side0)) = accepted true l.
Proof.
  intros cap l D E.
  pose proof (side_run_total cap l side0) as T. unfold total in T.
  destruct (side_run_clean cap l side0 clean_side0 D E) as [B _].
  rewrite B, app_nil_r in T. exact T.
Qed.

Lemma side_prefix : forall cap l,
  accepted true l = r_acc (sd_rd (side_run cap l side0)) ++ sd_buf (side_run cap l side0).
Proof. intros cap l. pose proof (side_run_total cap l side0) as T. unfold total in T. now rewrite T. Qed.

(* errors are recorded only by a failing read *)
Definition is_fail (e : sev) : bool := match e with Fail => true | _ => false end.

Lemma side_step_err : forall cap x e, is_fail e = false -> sd_err (side_step cap x e) = sd_err x.
Proof.
  intros cap x e H. side_fields x. destruct e as [b| |n| |]; side_crunch; try discriminate H;
    try reflexivity.
  - destruct o; reflexivity.
  - destruct st, d; side_crunch; try reflexivity.
    destruct buf; [destruct o; reflexivity|]. destruct (N.min n cap =? 0); reflexivity.
Qed.

Lemma side_run_no_fail : forall cap l x,
  existsb is_fail l = false -> sd_err (side_run cap l x) = sd_err x.
Proof.
  intros cap l. induction l as [|e l IH]; intros x H; [reflexivity|].
  cbn [existsb] in H. apply orb_false_iff in H. destruct H as [H1 H2].
  rewrite side_run_cons, IH by exact H2. now apply side_step_err.
Qed.

(* after the loops stopped polling the accumulator does not change *)
Lemma side_step_stopped : forall cap x e, sd_stopped x = true ->
  sd_rd (side_step cap x e) = sd_rd x /\ sd_stopped (side_step cap x e) = true.
Proof.
  intros cap x e. side_fields x. side_crunch. intros S. subst st.
  destruct e as [b| |n| |]; side_crunch; try (now split).
  destruct o; now split.
Qed.

Lemma side_run_stopped : forall cap l x, sd_stopped x = true -> sd_rd (side_run cap l x) = sd_rd x.
Proof.
  intros cap l. induction l as [|e l IH]; intros x S; [reflexivity|].
  rewrite side_run_cons. destruct (side_step_stopped cap x e S) as [R S'].
  rewrite IH by exact S'. exact R.
Qed.

Lemma side_run_app : forall cap l1 l2 x, side_run cap (l1 ++ l2) x = side_run cap l2 (side_run cap l1 x).
Proof. intros. unfold side_run. apply fold_left_app. Qed.

(* polling a finished reader does nothing *)
Lemma side_run_polls_done : forall cap ns x, r_done (sd_rd x) = true ->
  side_run cap (map Poll ns) x = x.
Proof.
  intros cap ns. induction ns as [|n ns IH]; intros x D; [reflexivity|].
  cbn [map]. rewrite side_run_cons. cbn [side_step]. rewrite D, orb_true_r. now apply IH.
Qed.

(* liveness of draining: once every write end is closed, |buf| + 1 further polls (each read
   returning at least one byte) reach EOF with everything that was in the pipe *)
Lemma drain_reaches_eof : forall cap, 0 < cap -> forall ns x,
  Forall (fun n => 1 <= n) ns -> (length (sd_buf x) < length ns)%nat ->
  sd_open x = false -> sd_stopped x = false -> r_done (sd_rd x) = false ->
  let y := side_run cap (map Poll ns) x in
  r_done (sd_rd y) = true /\ r_acc (sd_rd y) = r_acc (sd_rd x) ++ sd_buf x /\ sd_err y = sd_err x
  /\ sd_buf y = [].
Proof.
  intros cap Hcap ns. induction ns as [|n ns IH]; intros x F L O S D; cbn zeta.
  - cbn [length] in L. inversion L.
  - inversion F as [|n' ns' Hn F']; subst. cbn [map]. rewrite side_run_cons.
    cbn [side_step]. rewrite S, D. cbn [orb].
    destruct (sd_buf x) as [|c t] eqn:B.
    + rewrite O. rewrite side_run_polls_done.
      * cbn [sd_rd sd_err sd_buf]. rewrite reader_fill_live by exact D. cbn [r_done r_acc is_nil].
        now rewrite app_nil_r.
      * cbn [sd_rd]. rewrite reader_fill_live by exact D. reflexivity.
    + assert (K : (N.min n cap =? 0) = false) by (apply N.eqb_neq; lia).
      rewrite K.
      match goal with |- context [side_run cap (map Poll ns) ?z] => set (x' := z) end.
      assert (D' : r_done (sd_rd x') = false).
      { unfold x'. cbn [sd_rd]. rewrite reader_fill_live by exact D. cbn [r_done].
        now apply takeN_cons_nonnil. }
      assert (L' : (length (sd_buf x') < length ns)%nat).
      { unfold x'. cbn [sd_buf]. pose proof (dropN_cons_shorter N c t (N.min n cap) K) as Q.
        cbn [length] in L. lia. }
      specialize (IH x' F' L' O eq_refl D'). cbn zeta in IH.
      destruct IH as [I1 [I2 [I3 I4]]]. repeat split; try assumption.
      rewrite I2. unfold x'. cbn [sd_rd sd_buf]. rewrite reader_fill_live by exact D. cbn [r_acc].
      rewrite <- app_assoc. now rewrite take_drop.
Qed.

(* ------------------------------------------------------------------------------------------ *)
(* split mode *)

Lemma srun_cons : forall cap e evs x, srun cap (e :: evs) x = srun cap evs (sstep cap x e).
Proof. reflexivity. Qed.

Lemma side_of_sstep : forall cap s x e,
  side_of s (sstep cap x e) = opt_step cap (side_of s x) (proj s e).
Proof. intros cap s x e. destruct s; reflexivity. Qed.

Lemma side_of_srun : forall cap s evs x,
  side_of s (srun cap evs x) = side_run cap (proj_list s evs) (side_of s x).
Proof.
  intros cap s evs. induction evs as [|e evs IH]; intros x; [reflexivity|].
  rewrite srun_cons, IH, side_of_sstep. cbn [proj_list].
  destruct (proj s e); reflexivity.
Qed.

Lemma complete_in_order : forall cap evs s,
  r_done (sd_rd (side_of s (srun cap evs sst0))) = true ->
  sd_err (side_of s (srun cap evs sst0)) = false ->
  captured s (srun cap evs sst0) = written s evs.
Proof.
  intros cap evs s. unfold captured, written. rewrite side_of_srun.
  replace (side_of s sst0) with side0 by (destruct s; reflexivity).
  apply side_complete.
Qed.

Lemma prefix_always : forall cap evs s,
  written s evs = captured s (srun cap evs sst0) ++ sd_buf (side_of s (srun cap evs sst0)).
Proof.
  intros cap evs s. unfold captured, written. rewrite side_of_srun.
  replace (side_of s sst0) with side0 by (destruct s; reflexivity).
  apply side_prefix.
Qed.

Lemma prefix_on_leak : forall cap evs s,
  exists rest, written s evs = captured s (srun cap evs sst0) ++ rest.
Proof. intros. eexists. apply prefix_always. Qed.

Lemma proj_list_app : forall s l1 l2, proj_list s (l1 ++ l2) = proj_list s l1 ++ proj_list s l2.
Proof.
  intros s l1 l2. induction l1 as [|e l1 IH]; [reflexivity|].
  cbn [app proj_list]. destruct (proj s e); [cbn [app]; now rewrite IH | exact IH].
Qed.

Lemma frozen_after_stop : forall cap evs1 evs2 s,
  captured s (srun cap (evs1 ++ EStop :: evs2) sst0) = captured s (srun cap (evs1 ++ [EStop]) sst0).
Proof.
  intros cap evs1 evs2 s. unfold captured. rewrite !side_of_srun.
  replace (evs1 ++ EStop :: evs2) with ((evs1 ++ [EStop]) ++ evs2)
    by (rewrite <- app_assoc; reflexivity).
  rewrite (proj_list_app s (evs1 ++ [EStop]) evs2), side_run_app.
  rewrite side_run_stopped; [reflexivity|].
  rewrite proj_list_app, side_run_app. cbn [proj_list proj]. cbn. reflexivity.
Qed.

Lemma stop_keeps : forall cap evs s,
  captured s (srun cap (evs ++ [EStop]) sst0) = captured s (srun cap evs sst0).
Proof.
  intros cap evs s. unfold captured. rewrite !side_of_srun, proj_list_app, side_run_app.
  cbn [proj_list proj]. cbn. reflexivity.
Qed.

Lemma streams_independent : forall cap evs evs' s,
  proj_list s evs = proj_list s evs' ->
  side_of s (srun cap evs sst0) = side_of s (srun cap evs' sst0).
Proof. intros cap evs evs' s H. rewrite !side_of_srun, H. reflexivity. Qed.

(* events of the other stream and [EOther] do not show in the projection *)
Definition concerns (s : stream) (e : ev) : bool :=
  match proj s e with Some _ => true | None => false end.

Lemma proj_list_filter : forall s evs, proj_list s (filter (concerns s) evs) = proj_list s evs.
Proof.
  intros s evs. induction evs as [|e evs IH]; [reflexivity|].
  cbn [filter]. unfold concerns at 1. destruct (proj s e) eqn:P.
  - cbn [proj_list]. rewrite P. now rewrite IH.
  - cbn [proj_list]. rewrite P. exact IH.
Qed.

Lemma error_free : forall cap evs s,
  existsb (fun e => match e with EFail s' => stream_eqb s s' | _ => false end) evs = false ->
  sd_err (side_of s (srun cap evs sst0)) = false.
Proof.
  intros cap evs s H. rewrite side_of_srun.
  replace (side_of s sst0) with side0 by (destruct s; reflexivity).
  rewrite side_run_no_fail; [reflexivity|].
  induction evs as [|e evs IH]; [reflexivity|].
  cbn [existsb] in H. apply orb_false_iff in H. destruct H as [H1 H2].
  cbn [proj_list]. destruct e as [s' b|s'|s' n|s'| |]; cbn [proj];
    try (destruct (stream_eqb s s'); cbn [existsb is_fail orb]; now apply IH);
    try (cbn [existsb is_fail orb]; now apply IH).
  rewrite H1. now apply IH.
Qed.

(* under the physical constraint "no write through a closed descriptor" the pipe accepted every
   write *)
Definition holder (s : stream) (oo oe : bool) : bool := match s with SOut => oo | SErrS => oe end.

Lemma all_writes_cons : forall s e evs,
  all_writes s (e :: evs) =
  (match e with EWrite s' b => if stream_eqb s s' then b else [] | _ => [] end) ++ all_writes s evs.
Proof. reflexivity. Qed.

Lemma accepted_all_writes : forall s evs oo oe, wf_writes oo oe evs = true ->
  accepted (holder s oo oe) (proj_list s evs) = all_writes s evs.
Proof.
  intros s evs.
  induction evs as [|e evs IH]; intros oo oe W; [reflexivity|].
  rewrite all_writes_cons.
  destruct e as [s' b|s'|s' n|s'| |].
  - destruct s'; cbn [wf_writes] in W; apply andb_true_iff in W; destruct W as [W1 W2]; subst;
      destruct s; cbn [proj_list proj stream_eqb holder accepted app];
      rewrite <- (IH _ _ W2); reflexivity.
  - destruct s'; cbn [wf_writes] in W; destruct s;
      cbn [proj_list proj stream_eqb holder accepted app];
      rewrite <- (IH _ _ W); reflexivity.
  - cbn [wf_writes] in W. destruct s, s';
      cbn [proj_list proj stream_eqb holder accepted app];
      rewrite <- (IH _ _ W); reflexivity.
  - cbn [wf_writes] in W. destruct s, s';
      cbn [proj_list proj stream_eqb holder accepted app];
      rewrite <- (IH _ _ W); reflexivity.
  - cbn [wf_writes] in W. cbn [proj_list proj app]. rewrite <- (IH _ _ W); reflexivity.
  - cbn [wf_writes] in W. cbn [proj_list proj accepted app].
    rewrite <- (IH _ _ W); reflexivity.
Qed.

Lemma written_all_writes : forall s evs, wf_writes true true evs = true ->
  written s evs = all_writes s evs.
Proof.
  intros s evs W. unfold written.
  replace true with (holder s true true) at 1 by (destruct s; reflexivity).
  now apply accepted_all_writes.
Qed.

(* ------------------------------------------------------------------------------------------ *)
(* combined mode *)

Definition cinv (x : cst) : Prop := sd_open (c_side x) = c_oo x || c_oe x.

Lemma crun_cons : forall cap e evs x, crun cap (e :: evs) x = crun cap evs (cstep cap x e).
Proof. reflexivity. Qed.

Ltac cst_fields x := destruct x as [oo oe sd].

Lemma cstep_inv : forall cap x e, cinv x -> cinv (cstep cap x e).
Proof.
  intros cap x e. cst_fields x. unfold cinv. cbn [c_oo c_oe c_side]. intros H.
  destruct e as [s b|s|s n|s| |]; cbn [cstep c_oo c_oe c_side];
    try (rewrite side_step_open; exact H); try exact H.
  - destruct s; [destruct oo | destruct oe]; cbn [c_oo c_oe c_side];
      try (rewrite side_step_open); exact H.
  - destruct s; [destruct oe | destruct oo]; cbn [c_oo c_oe c_side orb];
      rewrite ?side_step_open; try reflexivity; rewrite H; cbn [orb]; rewrite ?orb_true_r; reflexivity.
Qed.

Lemma map_snd_pair : forall (s : stream) (b : bytes), map snd (map (pair s) b) = b.
Proof. intros s b. induction b as [|c b IH]; [reflexivity|]. cbn [map snd]. now rewrite IH. Qed.

Definition flag_out (e : ev) (oo : bool) : bool := match e with EClose SOut => false | _ => oo end.
Definition flag_err (e : ev) (oe : bool) : bool := match e with EClose SErrS => false | _ => oe end.

Lemma cstep_flags : forall cap x e,
  c_oo (cstep cap x e) = flag_out e (c_oo x) /\ c_oe (cstep cap x e) = flag_err e (c_oe x).
Proof.
  intros cap x e. cst_fields x.
  destruct e as [s b|s|s n|s| |]; cbn [cstep c_oo c_oe flag_out flag_err]; try (split; reflexivity).
  - destruct s; [destruct oo | destruct oe]; split; reflexivity.
  - destruct s; split; reflexivity.
Qed.

Lemma tagged_step : forall oo oe e evs,
  tagged oo oe (e :: evs) = tagged oo oe [e] ++ tagged (flag_out e oo) (flag_err e oe) evs.
Proof.
  intros oo oe e evs.
  destruct e as [s b|s|s n|s| |]; [destruct s|destruct s| | | |];
    cbn [tagged flag_out flag_err app]; rewrite ?app_nil_r; reflexivity.
Qed.

Lemma cstep_total : forall cap x e, cinv x ->
  total (c_side (cstep cap x e)) = total (c_side x) ++ map snd (tagged (c_oo x) (c_oe x) [e]).
Proof.
  intros cap x e. cst_fields x. unfold cinv. cbn [c_oo c_oe c_side]. intros H.
  destruct e as [s b|s|s n|s| |]; cbn [cstep c_side c_oo c_oe tagged].
  - destruct s; [destruct oo | destruct oe]; cbn [cstep tagged c_side c_oo c_oe app map]; rewrite ?app_nil_r;
      try reflexivity; rewrite side_step_total; unfold extra; rewrite H; cbn [orb];
      rewrite ?orb_true_r, ?map_snd_pair; reflexivity.
  - destruct s; [destruct oe | destruct oo]; cbn [cstep tagged c_side c_oo c_oe app map]; rewrite ?app_nil_r;
      try reflexivity; rewrite side_step_total; cbn [extra]; now rewrite app_nil_r.
  - cbn [map]. rewrite side_step_total. cbn [extra]. reflexivity.
  - cbn [map]. rewrite side_step_total. cbn [extra]. reflexivity.
  - cbn [map]. now rewrite app_nil_r.
  - cbn [map]. rewrite side_step_total. cbn [extra]. reflexivity.
Qed.

Lemma crun_total : forall cap evs x, cinv x ->
  total (c_side (crun cap evs x)) = total (c_side x) ++ map snd (tagged (c_oo x) (c_oe x) evs).
Proof.
  intros cap evs. induction evs as [|e evs IH]; intros x H.
  - cbn. now rewrite app_nil_r.
  - rewrite crun_cons, IH by (now apply cstep_inv).
    destruct (cstep_flags cap x e) as [Fo Fe]. rewrite Fo, Fe.
    rewrite cstep_total by exact H. rewrite (tagged_step (c_oo x) (c_oe x) e evs).
    rewrite map_app, app_assoc. reflexivity.
Qed.

Lemma cstep_clean : forall cap x e, clean (c_side x) -> clean (c_side (cstep cap x e)).
Proof.
  intros cap x e. cst_fields x. cbn [c_side]. intros H.
  destruct e as [s b|s|s n|s| |]; cbn [cstep c_side c_oo c_oe];
    try (now apply side_step_clean); try exact H.
  - destruct s; [destruct oo | destruct oe]; cbn [c_side];
      try (now apply side_step_clean); exact H.
  - destruct s; [destruct oe | destruct oo]; cbn [c_side];
      try (now apply side_step_clean); exact H.
Qed.

Lemma crun_clean : forall cap evs x, clean (c_side x) -> clean (c_side (crun cap evs x)).
Proof.
  intros cap evs. induction evs as [|e evs IH]; intros x H; [exact H|].
  rewrite crun_cons. apply IH. now apply cstep_clean.
Qed.

Lemma only_map_pair : forall s s' (b : bytes),
  only s (map (pair s') b) = if stream_eqb s s' then b else [].
Proof.
  intros s s' b. unfold only. destruct (stream_eqb s s') eqn:E;
    induction b as [|c b IH]; try reflexivity; cbn [map filter fst]; rewrite E.
  - cbn [map snd]. now rewrite IH.
  - exact IH.
Qed.

Lemma only_app : forall s l1 l2, only s (l1 ++ l2) = only s l1 ++ only s l2.
Proof. intros. unfold only. now rewrite filter_app, map_app. Qed.

Lemma only_tagged : forall s evs oo oe,
  only s (tagged oo oe evs) = accepted (holder s oo oe) (proj_list s evs).
Proof.
  intros s evs. induction evs as [|e evs IH]; intros oo oe; [reflexivity|].
  destruct e as [s' b|s'|s' n|s'| |]; cbn [tagged proj_list proj].
  - destruct s'; rewrite only_app.
    + destruct oo; [rewrite only_map_pair|]; destruct s; cbn [stream_eqb holder accepted app];
        rewrite ?IH; reflexivity.
    + destruct oe; [rewrite only_map_pair|]; destruct s; cbn [stream_eqb holder accepted app];
        rewrite ?IH; reflexivity.
  - destruct s'; destruct s; cbn [stream_eqb holder accepted]; rewrite IH; reflexivity.
  - destruct (stream_eqb s s'); cbn [accepted]; apply IH.
  - destruct (stream_eqb s s'); cbn [accepted]; apply IH.
  - apply IH.
  - cbn [accepted]. apply IH.
Qed.

Lemma cinv0 : cinv cst0.
Proof. reflexivity. Qed.

Lemma combined_prefix : forall cap evs,
  map snd (tagged true true evs) =
  r_acc (sd_rd (c_side (crun cap evs cst0))) ++ sd_buf (c_side (crun cap evs cst0)).
Proof.
  intros cap evs. pose proof (crun_total cap evs cst0 cinv0) as T. unfold total in T.
  cbn [cst0 c_side c_oo c_oe side0 sd_rd sd_buf reader0 r_acc app] in T. now rewrite T.
Qed.

Lemma combined_complete : forall cap evs,
  r_done (sd_rd (c_side (crun cap evs cst0))) = true ->
  sd_err (c_side (crun cap evs cst0)) = false ->
  r_acc (sd_rd (c_side (crun cap evs cst0))) = map snd (tagged true true evs).
Proof.
  intros cap evs D E. rewrite (combined_prefix cap evs).
  destruct (crun_clean cap evs cst0 clean_side0 D E) as [B _]. rewrite B. now rewrite app_nil_r.
Qed.

Lemma combined_interleaving : forall evs s, only s (tagged true true evs) = written s evs.
Proof.
  intros evs s. rewrite only_tagged. unfold written. now destruct s.
Qed.

(* ------------------------------------------------------------------------------------------ *)
(* many attempts *)

Lemma key_eqb_eq : forall a b, key_eqb a b = true <-> a = b.
Proof.
  intros [a1 a2] [b1 b2]. unfold key_eqb. cbn [fst snd]. rewrite andb_true_iff, !N.eqb_eq.
  split; [intros [H1 H2]; now subst | intros H; inversion H; now split].
Qed.

Lemma key_eqb_refl : forall a, key_eqb a a = true.
Proof. intros a. now apply key_eqb_eq. Qed.

Lemma gget_gset_same : forall k x g, gget k (gset k x g) = x.
Proof.
  intros k x g. induction g as [|[k' y] g IH]; cbn [gset gget].
  - now rewrite key_eqb_refl.
  - destruct (key_eqb k k') eqn:E; cbn [gget]; rewrite E; [reflexivity | exact IH].
Qed.

Lemma gget_gset_other : forall k k' x g, key_eqb k k' = false -> gget k (gset k' x g) = gget k g.
Proof.
  intros k k' x g N. induction g as [|[k2 y] g IH]; cbn [gset gget].
  - now rewrite N.
  - destruct (key_eqb k' k2) eqn:E; cbn [gget].
    + apply key_eqb_eq in E. subst k2. now rewrite N.
    + destruct (key_eqb k k2); [reflexivity | exact IH].
Qed.

Lemma grun_gget : forall cap evs k g,
  gget k (fold_left (gstep cap) evs g) = srun cap (events_of k evs) (gget k g).
Proof.
  intros cap evs k. induction evs as [|[k' e] evs IH]; intros g; [reflexivity|].
  cbn [fold_left]. rewrite IH. unfold events_of. cbn [filter fst]. unfold gstep. cbn [fst snd].
  destruct (key_eqb k k') eqn:E.
  - apply key_eqb_eq in E. subst k'. rewrite gget_gset_same. reflexivity.
  - rewrite gget_gset_other by exact E. reflexivity.
Qed.

Lemma attribution : forall cap evs k,
  gget k (grun cap evs) = srun cap (events_of k evs) sst0.
Proof. intros. unfold grun. now rewrite grun_gget. Qed.

(* ------------------------------------------------------------------------------------------ *)
(* the scripted reader (corr:fused-reader): what FusedBufReader accumulates is a prefix of what
   the reader offers before its first zero-length read or error, and all of it once done without
   an error *)

Lemma script_data_push : forall b t, script_data (push_chunk b t) = b ++ script_data t.
Proof. intros b t. destruct b; reflexivity. Qed.

Lemma fused_call_spec : forall cap, 0 < cap -> forall s r, r_done r = false ->
  let '(r', e, s') := fused_call cap s r in
  exists d, r_acc r' = r_acc r ++ d /\
            (r_done r' = false -> script_data s = d ++ script_data s') /\
            (r_done r' = true -> e = false -> script_data s = d) /\
            (e = true -> d = []).
Proof.
  intros cap Hcap s. induction s as [|o t IH]; intros r D; cbn [fused_call]; rewrite D.
  - rewrite reader_fill_live by exact D. exists []. cbn [r_acc r_done is_nil]. rewrite app_nil_r.
    repeat split; try reflexivity; try (intros X; discriminate X); try (intros X Y; discriminate X).
  - destruct o as [b| | |].
    + rewrite reader_fill_live by exact D. exists (takeN cap b). cbn [r_acc r_done].
      split; [reflexivity|]. split; [|split].
      * intros Hn. rewrite script_data_push.
        destruct b as [|c b']; [discriminate Hn|]. cbn [script_data].
        rewrite app_assoc. now rewrite take_drop.
      * intros Hd _. destruct b as [|c b']; [reflexivity|].
        rewrite takeN_cons_nonnil in Hd by (apply N.eqb_neq; lia). discriminate Hd.
      * intros X; discriminate X.
    + specialize (IH r D). destruct (fused_call cap t r) as [[r' e] s']. exact IH.
    + rewrite reader_fill_live by exact D. exists []. cbn [r_acc r_done is_nil script_data].
      rewrite app_nil_r. repeat split; try reflexivity; try (intros X; discriminate X); try (intros X Y; discriminate X).
    + rewrite reader_fill_live by exact D. exists []. cbn [r_acc r_done script_data].
      rewrite app_nil_r. repeat split; try reflexivity; try (intros X; discriminate X); try (intros X Y; discriminate Y).
Qed.

Lemma fused_call_done : forall cap s r, r_done r = true -> fused_call cap s r = (r, false, s).
Proof. intros cap s r D. destruct s as [|o t]; cbn [fused_call]; now rewrite D. Qed.

Lemma fused_trace_done : forall cap calls s r, r_done r = true ->
  snd (fused_trace cap calls s r) = r.
Proof.
  intros cap calls. induction calls as [|k IH]; intros s r D; [reflexivity|].
  cbn [fused_trace]. rewrite fused_call_done by exact D.
  specialize (IH s r D). destruct (fused_trace cap k s r) as [tr rf]. exact IH.
Qed.

(* whatever the number of calls: a prefix; and everything once done without a failed call *)
Lemma fused_prefix : forall cap, 0 < cap -> forall calls s r, r_done r = false ->
  exists d rest, r_acc (snd (fused_trace cap calls s r)) = r_acc r ++ d /\ script_data s = d ++ rest.
Proof.
  intros cap Hcap calls. induction calls as [|k IH]; intros s r D.
  - exists [], (script_data s). cbn. now rewrite app_nil_r.
  - cbn [fused_trace]. pose proof (fused_call_spec cap Hcap s r D) as C.
    destruct (fused_call cap s r) as [[r' e] s'] eqn:FC.
    destruct C as [d [A [Live [Dn Er]]]].
    destruct (r_done r') eqn:D'.
    + pose proof (fused_trace_done cap k s' r' D') as T.
      destruct (fused_trace cap k s' r') as [tr rf]. cbn [snd] in *. subst rf.
      destruct e.
      * exists [], (script_data s). rewrite (Er eq_refl) in A. split; [exact A | reflexivity].
      * exists d, []. split; [exact A|]. rewrite app_nil_r. now apply Dn.
    + specialize (IH s' r' D'). destruct IH as [d2 [rest [A2 S2]]].
      destruct (fused_trace cap k s' r') as [tr rf]. cbn [snd] in *.
      exists (d ++ d2), rest. split.
      * rewrite A2, A. now rewrite app_assoc.
      * rewrite (Live eq_refl), S2. now rewrite app_assoc.
Qed.

Lemma fused_complete : forall cap, 0 < cap -> forall calls s,
  let '(tr, r) := fused_trace cap calls s reader0 in
  r_done r = true -> existsb (fun o => snd o) tr = false -> r_acc r = script_data s.
Proof.
  intros cap Hcap calls.
  assert (G : forall s r0, r_done r0 = false ->
    let '(tr, r) := fused_trace cap calls s r0 in
    r_done r = true -> existsb (fun o => snd o) tr = false -> r_acc r = r_acc r0 ++ script_data s).
  { induction calls as [|k IH]; intros s r0 D.
    - cbn [fused_trace]. intros X. rewrite X in D. discriminate D.
    - cbn [fused_trace]. pose proof (fused_call_spec cap Hcap s r0 D) as C.
      destruct (fused_call cap s r0) as [[r' e] s'] eqn:FC.
      destruct C as [d [A [Live [Dn Er]]]].
      destruct (r_done r') eqn:D'.
      + pose proof (fused_trace_done cap k s' r' D') as T.
        destruct (fused_trace cap k s' r') as [tr rf]. cbn [snd] in T. subst rf.
        intros _ X. cbn [existsb snd] in X. apply orb_false_iff in X. destruct X as [X _].
        subst e. rewrite A. f_equal. symmetry. now apply Dn.
      + specialize (IH s' r' D'). destruct (fused_trace cap k s' r') as [tr rf].
        intros Df X. cbn [existsb snd] in X. apply orb_false_iff in X. destruct X as [_ X].
        rewrite (IH Df X), A, (Live eq_refl). now rewrite app_assoc. }
  intros s. specialize (G s reader0 eq_refl).
  destruct (fused_trace cap calls s reader0) as [tr r]. exact G.
Qed.

(* ------------------------------------------------------------------------------------------ *)
(* corollaries used by Properties/C16.v *)

Lemma other_events_irrelevant : forall cap evs s,
  side_of s (srun cap (filter (concerns s) evs) sst0) = side_of s (srun cap evs sst0).
Proof. intros cap evs s. apply streams_independent. apply proj_list_filter. Qed.

Lemma attribution_complete : forall cap evs k s,
  r_done (sd_rd (side_of s (gget k (grun cap evs)))) = true ->
  sd_err (side_of s (gget k (grun cap evs))) = false ->
  captured s (gget k (grun cap evs)) = written s (events_of k evs).
Proof. intros cap evs k s. rewrite attribution. apply complete_in_order. Qed.

Lemma attribution_prefix : forall cap evs k s,
  exists rest, written s (events_of k evs) = captured s (gget k (grun cap evs)) ++ rest.
Proof. intros cap evs k s. rewrite attribution. apply prefix_on_leak. Qed.

Lemma drained_after_exit : forall cap, 0 < cap -> forall evs s ns,
  let x := side_of s (srun cap evs sst0) in
  sd_open x = false -> sd_stopped x = false -> r_done (sd_rd x) = false ->
  Forall (fun n => 1 <= n) ns -> (length (sd_buf x) < length ns)%nat ->
  let y := side_of s (srun cap (evs ++ map (EPoll s) ns) sst0) in
  r_done (sd_rd y) = true /\ captured s (srun cap (evs ++ map (EPoll s) ns) sst0) = written s evs
  /\ sd_err y = sd_err x.
Proof.
  intros cap Hcap evs s ns x O S D F L. cbn zeta. unfold captured.
  rewrite side_of_srun, proj_list_app, side_run_app, <- side_of_srun. fold x.
  assert (P : proj_list s (map (EPoll s) ns) = map Poll ns).
  { clear. induction ns as [|n ns IH]; [reflexivity|]. cbn [map proj_list proj].
    replace (stream_eqb s s) with true by (destruct s; reflexivity). now rewrite IH. }
  rewrite P. destruct (drain_reaches_eof cap Hcap ns x F L O S D) as [I1 [I2 [I3 _]]].
  repeat split; try assumption. rewrite I2. unfold x.
  pose proof (prefix_always cap evs s) as Q. unfold captured in Q. now rewrite Q.
Qed.

Lemma frozen_after_verdict : forall cap evs1 evs2 s,
  captured s (srun cap (evs1 ++ EStop :: evs2) sst0) = captured s (srun cap evs1 sst0).
Proof. intros cap evs1 evs2 s. rewrite frozen_after_stop. apply stop_keeps. Qed.

Lemma combined_order : forall cap evs,
  let x := c_side (crun cap evs cst0) in
  let tg := tagged true true evs in
  map snd tg = r_acc (sd_rd x) ++ sd_buf x /\
  (r_done (sd_rd x) = true -> sd_err x = false -> r_acc (sd_rd x) = map snd tg) /\
  (forall s, only s tg = written s evs).
Proof.
  intros cap evs. cbn zeta. split; [apply combined_prefix|]. split.
  - apply combined_complete.
  - intros s. apply combined_interleaving.
Qed.

(* ------------------------------------------------------------------------------------------ *)
(* the drain after the child's exit, on every result path *)

Lemma proj_list_sched : forall s sched, proj_list s (sched_polls sched) = map Poll (polls_for s sched).
Proof.
  intros s sched. unfold sched_polls, polls_for.
  induction sched as [|[s' n] t IH]; [reflexivity|].
  cbn [map proj_list proj filter fst snd]. destruct (stream_eqb s s'); cbn [map snd]; now rewrite IH.
Qed.

Lemma drained_on_every_path : forall cap, 0 < cap -> forall (t : tentative) evs sched s,
  let x := side_of s (srun cap evs sst0) in
  sd_open x = false -> sd_stopped x = false -> r_done (sd_rd x) = false ->
  Forall (fun n => 1 <= n) (polls_for s sched) ->
  (length (sd_buf x) < length (polls_for s sched))%nat ->
  let y := side_of s (srun cap (evs ++ leak_phase t sched) sst0) in
  r_done (sd_rd y) = true /\
  captured s (srun cap (evs ++ leak_phase t sched) sst0) = written s evs /\
  sd_err y = sd_err x.
Proof.
  intros cap Hcap t evs sched s x O S D F L. cbn zeta. unfold captured, leak_phase.
  rewrite side_of_srun, proj_list_app, side_run_app, <- side_of_srun. fold x.
  rewrite proj_list_sched.
  destruct (drain_reaches_eof cap Hcap (polls_for s sched) x F L O S D) as [I1 [I2 [I3 _]]].
  repeat split; try assumption. rewrite I2. unfold x.
  pose proof (prefix_always cap evs s) as Q. unfold captured in Q. now rewrite Q.
Qed.
