(* The requests the dispatcher sends to a unit obey the environment the unit theorems assume
   ([AbsTimers.env_ok]): Stop and Continue alternate (the debounce on the dispatcher's own
   stopwatch, [d_paused]), shutdown requests come as Once then Twice (the third signal makes the
   dispatcher itself fail). Proved on Model/Dispatcher.v for every input history, for a unit that is
   registered from a state in which no shutdown signal has been received (a unit can only be
   registered -- Started accepted -- while the run is not being cancelled). "In the orders the
   dispatcher can produce" is thereby a theorem about the dispatcher model, not an assumption. *)
From NextestModel Require Import Base.Str Base.Tac Model.Clocks Model.UnitTimers Model.AbsTimers
  Proofs.Timers.
From NextestModel Require Model.Result Model.Dispatcher.
Open Scope N_scope.

Module D := NextestModel.Model.Dispatcher.

Definition shut_of (e : D.shutdown_event) : shut :=
  match e with D.Hangup => SHup | D.Term => STerm | D.Quit => SQuit | D.SInterrupt => SInt end.

Definition req_of_broadcast (b : D.broadcast) : ureq :=
  match b with
  | D.BOtherCancel => ROtherCancel
  | D.BShutdown (D.Once e) => RShutdown (Once (shut_of e))
  | D.BShutdown D.Twice => RShutdown Twice
  | D.BStop => RStop
  | D.BContinue => RContinue
  | D.BGetInfo => RGetInfo
  end.

(* what unit [t], registered throughout, finds in its request channel for one dispatcher step:
   the broadcast DispatcherContext::run makes for the response, then the unicast handle_event
   itself makes (the repeated OtherCancel of the AttemptFailedWillRetry arm) *)
Definition unit_reqs (t : D.tid) (rsp : D.response) : list ureq :=
  (match D.broadcast_of (D.r_resp rsp) with Some b => [req_of_broadcast b] | None => [] end) ++
  (match D.r_unit rsp with Some t' => if t' =? t then [ROtherCancel] else [] | None => [] end).

Definition reqs_of (t : D.tid) (s : D.dst) (h : list D.devent) : list ureq :=
  flat_map (fun x => unit_reqs t (D.step_resp x)) (D.trace s h).

(* the unit-side tracker that corresponds to a dispatcher state *)
Definition dinvT (d : D.dstate) (tr : tracker) : Prop :=
  (t_jc tr = JStop -> D.d_paused d = true) /\
  (t_jc tr = JCont -> D.d_paused d = false) /\
  match t_sh tr with
  | Sh0 => D.d_sig d = None /\ D.opt_rank (D.d_cancel d) <= 3
  | Sh1 => D.d_sig d = Some D.SOnce
  | Sh2 => D.d_sig d = Some D.STwice
  end.

Lemma env_trace_app : forall a b tr,
  env_trace tr (a ++ b) = env_trace tr a && env_trace (env_after tr a) b.
Proof.
  induction a as [|e a IH]; intros b tr; cbn [app env_trace env_after]; [reflexivity|].
  rewrite IH. rewrite Bool.andb_assoc. reflexivity.
Qed.

Lemma env_after_app : forall a b tr, env_after tr (a ++ b) = env_after (env_after tr a) b.
Proof. induction a as [|e a IH]; intros b tr; cbn [app env_after]; [reflexivity|apply IH]. Qed.

Lemma begin_cancel_facts d reason ev d' evs r :
  D.begin_cancel d reason ev = (d', evs, r) ->
  D.d_paused d' = D.d_paused d /\ D.d_sig d' = D.d_sig d /\
  (r = D.RNone \/ r = D.RCancel ev) /\
  (ev = D.CeSignal D.Twice -> r = D.RCancel ev /\ D.d_cancel d' = D.d_cancel d) /\
  (ev <> D.CeSignal D.Twice ->
     (D.cancel_lt (D.d_cancel d) reason = true -> r = D.RCancel ev /\ D.d_cancel d' = Some reason) /\
     (D.cancel_lt (D.d_cancel d) reason = false -> r = D.RNone /\ d' = d)).
Proof.
  unfold D.begin_cancel. intros H.
  destruct ev as [| |[e|]].
  - destruct (D.cancel_lt (D.d_cancel d) reason) eqn:E; injection H as <- <- <-; cbn;
      repeat split; auto; try discriminate; intros; try discriminate; auto.
  - destruct (D.cancel_lt (D.d_cancel d) reason) eqn:E; injection H as <- <- <-; cbn;
      repeat split; auto; try discriminate; intros; try discriminate; auto.
  - destruct (D.cancel_lt (D.d_cancel d) reason) eqn:E; injection H as <- <- <-; cbn;
      repeat split; auto; try discriminate; intros; try discriminate; auto.
  - injection H as <- <- <-. repeat split; auto;
      match goal with X : D.CeSignal D.Twice <> D.CeSignal D.Twice |- _ => exfalso; apply X; reflexivity end.
Qed.

Lemma dinvT_keep d d' tr :
  dinvT d tr -> D.d_paused d' = D.d_paused d -> D.d_sig d' = D.d_sig d ->
  (D.opt_rank (D.d_cancel d') <= 3 \/ D.d_cancel d' = D.d_cancel d) -> dinvT d' tr.
Proof.
  intros (H1 & H2 & H3) Hp Hs Hc. unfold dinvT. rewrite Hp, Hs. split; [exact H1|]. split; [exact H2|].
  destruct (t_sh tr); try exact H3. destruct H3 as [H3 H4]. split; [exact H3|].
  destruct Hc as [Hc|Hc]; [exact Hc|rewrite Hc; exact H4].
Qed.

Lemma rank_le_3 r : r = D.SetupScriptFailure \/ r = D.TestFailure \/ r = D.ReportError ->
  D.opt_rank (Some r) <= 3.
Proof. intros [->|[->| ->]]; cbn; lia. Qed.

(* requests that never disturb the tracker *)
Definition benign (r : ureq) : Prop := r = ROtherCancel \/ r = RGetInfo.

Lemma benign_trace : forall rs tr, (forall r, In r rs -> benign r) ->
  env_trace tr (map Req rs) = true /\ env_after tr (map Req rs) = tr.
Proof.
  induction rs as [|r rs IH]; intros tr H; cbn [map env_trace env_after]; [split; reflexivity|].
  destruct (H r (or_introl eq_refl)) as [-> | ->]; cbn [creq env_ok env_next andb];
    apply IH; intros x Hx; apply H; right; exact Hx.
Qed.

(* a step that ends in [finish_with_cancel] with a non-signal reason *)
Lemma finish_with_cancel_env t d tr pre c reason s' evs rsp :
  dinvT d tr -> reason = D.SetupScriptFailure \/ reason = D.TestFailure ->
  D.finish_with_cancel d pre c reason D.CeTestFailure = (s', evs, rsp) ->
  env_trace tr (map Req (unit_reqs t rsp)) = true /\
  match s' with D.Live d' => dinvT d' (env_after tr (map Req (unit_reqs t rsp))) | D.Panicked => True end.
Proof.
  intros Hi Hr H. unfold D.finish_with_cancel in H. destruct c.
  - destruct (D.begin_cancel d reason D.CeTestFailure) as [[d1 evs1] r1] eqn:Eb.
    injection H as <- <- <-.
    destruct (begin_cancel_facts _ _ _ _ _ _ Eb) as (Bp & Bs & Br & _ & Bn).
    destruct (Bn ltac:(discriminate)) as [Bt Bf].
    assert (Hb : forall r, In r (unit_reqs t (D.mk_resp D.HNone r1)) -> benign r).
    { intros r Hin. unfold unit_reqs in Hin. cbn [D.mk_resp D.r_resp D.r_unit] in Hin. rewrite app_nil_r in Hin.
      destruct Br as [-> | ->]; cbn in Hin; [destruct Hin|destruct Hin as [<-|[]]; left; reflexivity]. }
    destruct (benign_trace _ tr Hb) as [E1 E2]. split; [exact E1|]. rewrite E2.
    apply (dinvT_keep d d1 tr Hi Bp Bs).
    destruct (D.cancel_lt (D.d_cancel d) reason) eqn:El.
    + destruct (Bt eq_refl) as [_ ->]. left. apply rank_le_3. destruct Hr as [-> | ->]; auto.
    + destruct (Bf eq_refl) as [_ ->]. right. reflexivity.
  - injection H as <- <- <-. cbn. split; [reflexivity|exact Hi].
Qed.

Lemma step_env t d tr e s' evs rsp :
  dinvT d tr -> D.dstep_live d e = (s', evs, rsp) ->
  env_trace tr (map Req (unit_reqs t rsp)) = true /\
  match s' with D.Live d' => dinvT d' (env_after tr (map Req (unit_reqs t rsp))) | D.Panicked => True end.
Proof.
  intros Hi H. pose proof Hi as (J1 & J2 & J3).
  destruct e; cbn [D.dstep_live] in H.
  - (* ScriptStarted *)
    destruct (D.is_some (D.d_cancel d)); [injection H as <- <- <-; cbn; split; [reflexivity|exact Hi]|].
    destruct (D.is_some (D.d_script d) && D.d_dbg d); injection H as <- <- <-; cbn; split; try reflexivity; try exact I.
    apply (dinvT_keep d _ tr Hi); try reflexivity. right; reflexivity.
  - injection H as <- <- <-. cbn. split; [reflexivity|exact Hi].
  - (* ScriptFinished *)
    destruct (negb (D.is_some (D.d_script d)) && D.d_dbg d); [injection H as <- <- <-; cbn; split; [reflexivity|exact I]|].
    eapply finish_with_cancel_env; [|left; reflexivity|exact H].
    apply (dinvT_keep d _ tr Hi); try reflexivity. right; reflexivity.
  - (* Started *)
    destruct (D.is_some (D.d_cancel d)); [injection H as <- <- <-; cbn; split; [reflexivity|exact Hi]|].
    destruct (D.lookup t0 (D.d_running d)); injection H as <- <- <-; cbn; split; try reflexivity; try exact I.
    apply (dinvT_keep d _ tr Hi); try reflexivity. right; reflexivity.
  - injection H as <- <- <-. cbn. split; [reflexivity|exact Hi].
  - (* AttemptFailedWillRetry: the unicast *)
    destruct (D.lookup t0 (D.d_running d)); [|injection H as <- <- <-; cbn; split; [reflexivity|exact I]].
    injection H as <- <- <-.
    assert (Hb : forall r, In r (unit_reqs t (D.mk_response D.HNone D.RNone (if D.is_some (D.d_cancel d) then Some t0 else None))) -> benign r).
    { intros r Hin. unfold unit_reqs in Hin. cbn [D.r_resp D.r_unit D.broadcast_of app] in Hin.
      destruct (D.is_some (D.d_cancel d)); [|destruct Hin]. destruct (t0 =? t); [|destruct Hin].
      destruct Hin as [<-|[]]. left; reflexivity. }
    destruct (benign_trace _ tr Hb) as [E1 E2]. split; [exact E1|]. rewrite E2.
    apply (dinvT_keep d _ tr Hi); try reflexivity. right; reflexivity.
  - (* RetryStarted *)
    destruct (D.is_some (D.d_cancel d)); injection H as <- <- <-; cbn; split; try reflexivity; exact Hi.
  - (* Finished *)
    destruct (D.lookup t0 (D.d_running d)); [|injection H as <- <- <-; cbn; split; [reflexivity|exact I]].
    eapply finish_with_cancel_env; [|right; reflexivity|exact H].
    apply (dinvT_keep d _ tr Hi); try reflexivity. right; reflexivity.
  - injection H as <- <- <-. cbn. split; [reflexivity|].
    apply (dinvT_keep d _ tr Hi); try reflexivity. right; reflexivity.
  - (* a shutdown signal *)
    destruct (D.d_sig d) as [[|]|] eqn:Es.
    + (* the second one *)
      destruct (D.begin_cancel (D.set_sig d (Some D.STwice)) (D.event_to_cancel_reason e)
                  (D.CeSignal (D.to_request D.STwice e))) as [[d2 evs2] r2] eqn:Eb.
      injection H as <- <- <-.
      destruct (begin_cancel_facts _ _ _ _ _ _ Eb) as (Bp & Bs & _ & Bt & _).
      destruct (Bt eq_refl) as [-> Bc]. unfold unit_reqs. cbn.
      destruct (t_sh tr) eqn:Et; [destruct J3 as [X _]; discriminate X| |discriminate J3].
      split; [reflexivity|]. unfold dinvT. cbn. rewrite Bp, Bs. cbn.
      split; [exact J1|]. split; [exact J2|reflexivity].
    + injection H as <- <- <-. cbn. split; [reflexivity|exact I].
    + (* the first one *)
      destruct (D.begin_cancel (D.set_sig d (Some D.SOnce)) (D.event_to_cancel_reason e)
                  (D.CeSignal (D.to_request D.SOnce e))) as [[d2 evs2] r2] eqn:Eb.
      injection H as <- <- <-.
      destruct (begin_cancel_facts _ _ _ _ _ _ Eb) as (Bp & Bs & _ & _ & Bn).
      destruct (Bn ltac:(cbn; discriminate)) as [Bt _].
      destruct (t_sh tr) eqn:Et; [|discriminate J3|discriminate J3]. destruct J3 as [_ J3].
      assert (Hlt : D.cancel_lt (D.d_cancel (D.set_sig d (Some D.SOnce))) (D.event_to_cancel_reason e) = true).
      { unfold D.cancel_lt. cbn [D.set_sig D.d_cancel]. apply N.ltb_lt.
        destruct e; cbn; lia. }
      destruct (Bt Hlt) as [-> Bc]. unfold unit_reqs. cbn. rewrite Et. cbn.
      split; [reflexivity|]. unfold dinvT. cbn. rewrite Bp, Bs. cbn.
      split; [exact J1|]. split; [exact J2|reflexivity].
  - (* SIGTSTP *)
    destruct (D.d_paused d) eqn:Ep; injection H as <- <- <-; unfold unit_reqs; cbn.
    + split; [reflexivity|exact Hi].
    + destruct (t_jc tr) eqn:Ej.
      * split; [reflexivity|]. unfold dinvT. cbn. split; [reflexivity|]. split; [discriminate|exact J3].
      * discriminate (J1 eq_refl).
      * split; [reflexivity|]. unfold dinvT. cbn. split; [reflexivity|]. split; [discriminate|exact J3].
  - (* SIGCONT *)
    destruct (D.d_paused d) eqn:Ep; injection H as <- <- <-; unfold unit_reqs; cbn.
    + destruct (t_jc tr) eqn:Ej.
      * split; [reflexivity|]. unfold dinvT. cbn. split; [discriminate|]. split; [reflexivity|exact J3].
      * split; [reflexivity|]. unfold dinvT. cbn. split; [discriminate|]. split; [reflexivity|exact J3].
      * discriminate (J2 eq_refl).
    + split; [reflexivity|exact Hi].
  - injection H as <- <- <-. unfold unit_reqs. cbn. split; [reflexivity|exact Hi].
  - injection H as <- <- <-. unfold unit_reqs. cbn. split; [reflexivity|exact Hi].
  - injection H as <- <- <-. unfold unit_reqs. cbn. split; [reflexivity|exact Hi].
  - (* the reporter failed *)
    destruct (D.begin_cancel d D.ReportError D.CeReport) as [[d1 evs1] r1] eqn:Eb.
    injection H as <- <- <-.
    destruct (begin_cancel_facts _ _ _ _ _ _ Eb) as (Bp & Bs & Br & _ & Bn).
    destruct (Bn ltac:(discriminate)) as [Bt Bf].
    assert (Hb : forall r, In r (unit_reqs t (D.mk_resp D.HNone r1)) -> benign r).
    { intros r Hin. unfold unit_reqs in Hin. cbn [D.mk_resp D.r_resp D.r_unit] in Hin. rewrite app_nil_r in Hin.
      destruct Br as [-> | ->]; cbn in Hin; [destruct Hin|destruct Hin as [<-|[]]; left; reflexivity]. }
    destruct (benign_trace _ tr Hb) as [E1 E2]. split; [exact E1|]. rewrite E2.
    apply (dinvT_keep d d1 tr Hi Bp Bs).
    destruct (D.cancel_lt (D.d_cancel d) D.ReportError) eqn:El.
    + destruct (Bt eq_refl) as [_ ->]. left. cbn. lia.
    + destruct (Bf eq_refl) as [_ ->]. right. reflexivity.
Qed.

(* a dispatcher that has failed handles nothing any more: nothing is sent *)
Lemma reqs_of_panicked t : forall h, reqs_of t D.Panicked h = [].
Proof.
  induction h as [|e h IH]; [reflexivity|]. unfold reqs_of in *. cbn [D.trace D.dstep flat_map].
  rewrite IH. reflexivity.
Qed.

Lemma reqs_env t : forall h d tr, dinvT d tr ->
  env_trace tr (map Req (reqs_of t (D.Live d) h)) = true.
Proof.
  induction h as [|e h IH]; intros d tr Hi; [reflexivity|].
  unfold reqs_of. cbn [D.trace D.dstep].
  destruct (D.dstep_live d e) as [[s' evs] rsp] eqn:E.
  cbn [flat_map D.step_resp snd]. rewrite map_app, env_trace_app.
  destruct (step_env t d tr e s' evs rsp Hi E) as [H1 H2]. rewrite H1. cbn [andb].
  destruct s' as [d'|].
  - apply (IH d' _ H2).
  - change (flat_map (fun x => unit_reqs t (D.step_resp x)) (D.trace D.Panicked h)) with (reqs_of t D.Panicked h).
    rewrite reqs_of_panicked. reflexivity.
Qed.

(* For every input history: the requests a unit receives from a dispatcher state in which no
   shutdown signal has been counted and the run is not being cancelled (the only states in which a
   unit is registered) obey [env_ok], starting from the unit's initial tracker. *)
Theorem dispatcher_requests_obey_env t d h :
  D.d_sig d = None -> D.d_cancel d = None ->
  env_trace t0 (map Req (reqs_of t (D.Live d) h)) = true.
Proof.
  intros Hs Hc. apply reqs_env. unfold dinvT, t0. cbn.
  split; [discriminate|]. split; [discriminate|]. split; [exact Hs|]. rewrite Hc. cbn. lia.
Qed.

(* reachable states: a shutdown signal has been counted only if the run is being cancelled *)
Lemma sig_implies_cancel_step d e s' evs rsp :
  (D.d_cancel d = None -> D.d_sig d = None) -> D.dstep_live d e = (s', evs, rsp) ->
  match s' with D.Live d' => D.d_cancel d' = None -> D.d_sig d' = None | D.Panicked => True end.
Proof.
  intros Hi H.
  assert (Hfc : forall d0 pre c reason, (D.d_cancel d0 = None -> D.d_sig d0 = None) ->
            D.finish_with_cancel d0 pre c reason D.CeTestFailure = (s', evs, rsp) ->
            match s' with D.Live d' => D.d_cancel d' = None -> D.d_sig d' = None | D.Panicked => True end).
  { intros d0 pre c reason Hi0 H0. unfold D.finish_with_cancel in H0. destruct c.
    - destruct (D.begin_cancel d0 reason D.CeTestFailure) as [[d1 evs1] r1] eqn:Eb. injection H0 as <- <- <-.
      destruct (begin_cancel_facts _ _ _ _ _ _ Eb) as (_ & Bs & _ & _ & Bn).
      destruct (Bn ltac:(discriminate)) as [Bt Bf]. rewrite Bs.
      destruct (D.cancel_lt (D.d_cancel d0) reason).
      + destruct (Bt eq_refl) as [_ ->]. discriminate.
      + destruct (Bf eq_refl) as [_ ->]. exact Hi0.
    - injection H0 as <- <- <-. exact Hi0. }
  destruct e; cbn [D.dstep_live] in H.
  - destruct (D.is_some (D.d_cancel d)); [injection H as <- <- <-; exact Hi|].
    destruct (D.is_some (D.d_script d) && D.d_dbg d); injection H as <- <- <-; [exact I|exact Hi].
  - injection H as <- <- <-. exact Hi.
  - destruct (negb (D.is_some (D.d_script d)) && D.d_dbg d); [injection H as <- <- <-; exact I|].
    eapply Hfc; [|exact H]. exact Hi.
  - destruct (D.is_some (D.d_cancel d)); [injection H as <- <- <-; exact Hi|].
    destruct (D.lookup t (D.d_running d)); injection H as <- <- <-; [exact I|exact Hi].
  - injection H as <- <- <-. exact Hi.
  - destruct (D.lookup t (D.d_running d)); injection H as <- <- <-; [exact Hi|exact I].
  - destruct (D.is_some (D.d_cancel d)); injection H as <- <- <-; exact Hi.
  - destruct (D.lookup t (D.d_running d)); [|injection H as <- <- <-; exact I].
    eapply Hfc; [|exact H]. exact Hi.
  - injection H as <- <- <-. exact Hi.
  - destruct (D.d_sig d) as [[|]|] eqn:Es.
    + destruct (D.begin_cancel (D.set_sig d (Some D.STwice)) (D.event_to_cancel_reason e)
                  (D.CeSignal (D.to_request D.STwice e))) as [[d2 evs2] r2] eqn:Eb.
      injection H as <- <- <-.
      destruct (begin_cancel_facts _ _ _ _ _ _ Eb) as (_ & _ & _ & Bt & _).
      destruct (Bt eq_refl) as [_ Bc]. rewrite Bc. cbn [D.set_sig D.d_cancel].
      intros X. specialize (Hi X). discriminate.
    + injection H as <- <- <-. exact I.
    + destruct (D.begin_cancel (D.set_sig d (Some D.SOnce)) (D.event_to_cancel_reason e)
                  (D.CeSignal (D.to_request D.SOnce e))) as [[d2 evs2] r2] eqn:Eb.
      injection H as <- <- <-.
      destruct (begin_cancel_facts _ _ _ _ _ _ Eb) as (_ & _ & _ & _ & Bn).
      destruct (Bn ltac:(cbn; discriminate)) as [Bt Bf].
      destruct (D.cancel_lt (D.d_cancel (D.set_sig d (Some D.SOnce))) (D.event_to_cancel_reason e)) eqn:El.
      * destruct (Bt eq_refl) as [_ ->]. discriminate.
      * (* not below the reason: the run was already being cancelled *)
        destruct (Bf eq_refl) as [_ ->]. cbn [D.set_sig D.d_cancel D.d_sig] in *.
        intros X. rewrite X in El. destruct e; discriminate El.
  - destruct (D.d_paused d); injection H as <- <- <-; exact Hi.
  - destruct (D.d_paused d); injection H as <- <- <-; exact Hi.
  - injection H as <- <- <-. exact Hi.
  - injection H as <- <- <-. exact Hi.
  - injection H as <- <- <-. exact Hi.
  - destruct (D.begin_cancel d D.ReportError D.CeReport) as [[d1 evs1] r1] eqn:Eb. injection H as <- <- <-.
    destruct (begin_cancel_facts _ _ _ _ _ _ Eb) as (_ & Bs & _ & _ & Bn).
    destruct (Bn ltac:(discriminate)) as [Bt Bf]. rewrite Bs.
    destruct (D.cancel_lt (D.d_cancel d) D.ReportError).
    + destruct (Bt eq_refl) as [_ ->]. discriminate.
    + destruct (Bf eq_refl) as [_ ->]. exact Hi.
Qed.

Lemma sig_implies_cancel : forall h d d',
  (D.d_cancel d = None -> D.d_sig d = None) ->
  D.final_state (D.Live d) h = D.Live d' -> D.d_cancel d' = None -> D.d_sig d' = None.
Proof.
  induction h as [|e h IH]; intros d d' Hi H.
  - cbn in H. injection H as <-. exact Hi.
  - cbn [D.final_state fold_left] in H. unfold D.next_state at 2 in H. cbn [D.dstep] in H.
    destruct (D.dstep_live d e) as [[s' evs] rsp] eqn:E. cbn [fst] in H.
    pose proof (sig_implies_cancel_step d e s' evs rsp Hi E) as Hs.
    destruct s' as [d1|].
    + apply (IH d1 d' Hs H).
    + exfalso. clear -H. induction h as [|x h IHh]; cbn in H; [discriminate|]. apply IHh. exact H.
Qed.

(* ... hence for every run: from the moment a unit is registered (its Started handshake is accepted),
   whatever happens afterwards, the requests it receives obey the environment *)
Theorem dispatcher_requests_obey_env_from_registration n mf dbg h1 t h2 d1 :
  D.final_state (D.Live (D.init n mf dbg)) h1 = D.Live d1 ->
  D.r_hs (snd (D.dstep (D.Live d1) (D.Started t))) = D.HAccepted ->
  env_trace t0 (map Req (reqs_of t (D.next_state (D.Live d1) (D.Started t)) h2)) = true.
Proof.
  intros Hreach Hacc.
  assert (Hc : D.d_cancel d1 = None).
  { cbn [D.dstep D.dstep_live] in Hacc. destruct (D.d_cancel d1); [cbn in Hacc; discriminate|reflexivity]. }
  assert (Hs : D.d_sig d1 = None).
  { apply (sig_implies_cancel h1 (D.init n mf dbg) d1); [intros _; reflexivity|exact Hreach|exact Hc]. }
  unfold D.next_state. cbn [D.dstep D.dstep_live] in *. rewrite Hc in *. cbn [D.is_some] in *.
  destruct (D.lookup t (D.d_running d1)); cbn [fst snd].
  - rewrite reqs_of_panicked. reflexivity.
  - apply dispatcher_requests_obey_env; cbn; assumption.
Qed.
