(* The stable sort used for dispatch order: sorted, a permutation, and stable (C08). *)
From NextestModel Require Import Base.Str Model.Priority.
From NextestModel Require Import Base.Tac.
From Coq Require Import Permutation Sorted.
Open Scope N_scope.

Section StableSort.
  Variable A : Type.
  Variable leb : A -> A -> bool.
  Hypothesis leb_total : forall a b, leb a b = true \/ leb b a = true.
  Hypothesis leb_trans : forall a b c, leb a b = true -> leb b c = true -> leb a c = true.

  Let le (a b : A) : Prop := leb a b = true.

  Lemma insert_perm x l : Permutation (insert_stable leb x l) (x :: l).
  Proof.
    induction l as [|y r IH]; cbn [insert_stable]; [reflexivity|].
    destruct (leb y x); [|reflexivity].
    rewrite IH. apply perm_swap.
  Qed.

  Lemma insert_in x y l : In y (insert_stable leb x l) -> y = x \/ In y l.
  Proof.
    intros H. apply (Permutation_in _ (insert_perm x l)) in H. destruct H as [<-|H]; auto.
  Qed.

  Lemma insert_sorted x l : StronglySorted le l -> StronglySorted le (insert_stable leb x l).
  Proof.
    induction 1 as [|y r Hr IH Hy]; cbn [insert_stable]; [constructor; constructor|].
    destruct (leb y x) eqn:E.
    - constructor; [exact IH|]. apply Forall_forall. intros z Hz. apply insert_in in Hz.
      destruct Hz as [->|Hz]; [exact E | exact (proj1 (Forall_forall _ _) Hy z Hz)].
    - assert (Hxy : le x y) by (destruct (leb_total x y) as [H|H]; [exact H | congruence]).
      constructor; [constructor; assumption|]. constructor; [exact Hxy|].
      apply Forall_forall. intros z Hz. apply (leb_trans x y z Hxy).
      exact (proj1 (Forall_forall _ _) Hy z Hz).
  Qed.

  (* elements of a class of mutually tied keys keep their relative order *)
  Variable f : A -> bool.
  Hypothesis f_tied : forall a b, f a = true -> f b = true -> leb a b = true.

  Lemma insert_filter x l : StronglySorted le l ->
    filter f (insert_stable leb x l) = filter f l ++ (if f x then [x] else []).
  Proof.
    induction 1 as [|y r Hr IH Hy]; cbn [insert_stable filter].
    - destruct (f x); reflexivity.
    - destruct (leb y x) eqn:E; cbn [filter].
      + rewrite IH. destruct (f y); reflexivity.
      + destruct (f x) eqn:Fx; [|rewrite app_nil_r; reflexivity].
        assert (Hnone : forall z, In z (y :: r) -> f z = false).
        { intros z Hz. destruct (f z) eqn:Fz; [|reflexivity]. exfalso.
          assert (le y z).
          { destruct Hz as [<-|Hz]; [destruct (leb_total y y); assumption|].
            exact (proj1 (Forall_forall _ _) Hy z Hz). }
          pose proof (leb_trans y z x H (f_tied z x Fz Fx)). congruence. }
        assert (Hnil : filter f (y :: r) = []).
        { clear -Hnone. induction (y :: r) as [|z l IHl]; [reflexivity|]. cbn [filter].
          rewrite (Hnone z (or_introl eq_refl)). apply IHl. intros w Hw. apply Hnone. right; exact Hw. }
        cbn [filter] in Hnil. rewrite Hnil. reflexivity.
  Qed.

  Lemma fold_insert_spec l : forall acc, StronglySorted le acc ->
    StronglySorted le (fold_left (fun a x => insert_stable leb x a) l acc) /\
    Permutation (fold_left (fun a x => insert_stable leb x a) l acc) (acc ++ l) /\
    filter f (fold_left (fun a x => insert_stable leb x a) l acc) = filter f acc ++ filter f l.
  Proof.
    induction l as [|x l IH]; intros acc Hacc; cbn [fold_left].
    - rewrite !app_nil_r. auto.
    - destruct (IH _ (insert_sorted x acc Hacc)) as (H1 & H2 & H3).
      split; [exact H1|split].
      + rewrite H2. rewrite insert_perm. cbn [app]. apply Permutation_middle.
      + rewrite H3, insert_filter by exact Hacc. cbn [filter]. rewrite <- app_assoc.
        destruct (f x); reflexivity.
  Qed.

  Lemma sort_stable_spec l :
    StronglySorted le (sort_stable leb l) /\ Permutation (sort_stable leb l) l /\
    filter f (sort_stable leb l) = filter f l.
  Proof. exact (fold_insert_spec l [] (SSorted_nil _)). Qed.
End StableSort.

Lemma prio_leb_le a b : prio_leb a b = true <-> (pt_prio b <= pt_prio a)%Z.
Proof.
  unfold prio_leb, prio_cmp. destruct (Z.compare_spec (pt_prio b) (pt_prio a)); split; intros; try lia; try reflexivity; discriminate.
Qed.

(* priority_sort: sorted by priority descending, a permutation of its input, and within one
   priority the input order is kept (stability) *)
Lemma priority_sort_correct l :
  StronglySorted (fun a b => (pt_prio b <= pt_prio a)%Z) (priority_sort l) /\
  Permutation (priority_sort l) l /\
  forall p, filter (fun t => (pt_prio t =? p)%Z) (priority_sort l) =
            filter (fun t => (pt_prio t =? p)%Z) l.
Proof.
  assert (Htot : forall a b, prio_leb a b = true \/ prio_leb b a = true).
  { intros a b. rewrite !prio_leb_le. lia. }
  assert (Htr : forall a b c, prio_leb a b = true -> prio_leb b c = true -> prio_leb a c = true).
  { intros a b c. rewrite !prio_leb_le. lia. }
  split; [|split].
  - destruct (sort_stable_spec ptest prio_leb Htot Htr (fun _ => false) ltac:(discriminate) l) as (H & _ & _).
    clear -H. unfold priority_sort. induction H as [|x r Hr IH Hx]; constructor; [exact IH|].
    eapply Forall_impl; [|exact Hx]. intros y Hy. apply prio_leb_le. exact Hy.
  - destruct (sort_stable_spec ptest prio_leb Htot Htr (fun _ => false) ltac:(discriminate) l) as (_ & H & _).
    exact H.
  - intros p.
    refine (proj2 (proj2 (sort_stable_spec ptest prio_leb Htot Htr (fun t => (pt_prio t =? p)%Z) _ l))).
    intros a b Ha Hb. apply prio_leb_le. lia.
Qed.
