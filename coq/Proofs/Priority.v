(* The stable sort used for dispatch order: sorted, a permutation, and stable (C08). *)
From NextestModel Require Import Base.Str Model.Priority.
From NextestModel Require Import Base.Tac.
From Coq Require Import Permutation Sorted.
Open Scope N_scope.

Section StableSort.
  Variable A : Type.
  Variable leb : A -> A -> bool.
  Hypothesis leb_total : forall a b, leb a b = true \/ leb b a = true.
  Hypothesis leb_trans : forall a b c, leb a b = true -> leb b c = true -> leb a c = true.

  Let le (a b : A) : Prop := leb a b = true.

  Lemma insert_perm x l : Permutation (insert_stable leb x l) (x :: l).
  Proof.
    induction l as [|y r IH]; cbn [insert_stable]; [reflexivity|].
    destruct (leb y x); [|reflexivity].
    rewrite IH. apply perm_swap.
  Qed.

  Lemma insert_in x y l : In y (insert_stable leb x l) -> y = x \/ In y l.
  Proof.
    intros H. apply (Permutation_in _ (insert_perm x l)) in H. destruct H as [<-|H]; auto.
  Qed.

  Lemma insert_sorted x l : StronglySorted le l -> StronglySorted le (insert_stable leb x l).
  Proof.
    induction 1 as [|y r Hr IH Hy]; cbn [insert_stable]; [constructor; constructor|].
    destruct (leb y x) eqn:E.
    - constructor; [exact IH|]. apply Forall_forall. intros z Hz. apply insert_in in Hz.
      destruct Hz as [->|Hz]; [exact E | exact (proj1 (Forall_forall _ _) Hy z Hz)].
    - assert (Hxy : le x y) by (destruct (leb_total x y) as [H|H]; [exact H | congruence]).
      constructor; [constructor; assumption|]. constructor; [exact Hxy|].
      apply Forall_forall. intros z Hz. apply (leb_trans x y z Hxy).
      exact (proj1 (Forall_forall _ _) Hy z Hz).
  Qed.

  (* elements of a class of mutually tied keys keep their relative order *)
  Variable f : A -> bool.
  Hypothesis f_tied : forall a b, f a = true -> f b = true -> leb a b = true.

  Lemma insert_filter x l : StronglySorted le l ->
    filter f (insert_stable leb x l) = filter f l ++ (if f x then [x] else []).
  Proof.
    induction 1 as [|y r Hr IH Hy]; cbn [insert_stable filter].
    - destruct (f x); reflexivity.
    - destruct (leb y x) eqn:E; cbn [filter].
      + rewrite IH. destruct (f y); reflexivity.
      + destruct (f x) eqn:Fx; [|rewrite app_nil_r; reflexivity].
        assert (Hnone : forall z, In z (y :: r) -> f z = false).
        { intros z Hz. destruct (f z) eqn:Fz; [|reflexivity]. exfalso.
          assert (le y z).
          { destruct Hz as [<-|Hz]; [destruct (leb_total y y); assumption|].
            exact (proj1 (Forall_forall _ _) Hy z Hz). }
          pose proof (leb_trans y z x H (f_tied z x Fz Fx)). congruence. }
        assert (Hnil : filter f (y :: r) = []).
        { clear -Hnone. induction (y :: r) as [|z l IHl]; [reflexivity|]. cbn [filter].
          rewrite (Hnone z (or_introl eq_refl)). apply IHl. intros w Hw. apply Hnone. right; exact Hw. }
        cbn [filter] in Hnil. rewrite Hnil. reflexivity.
  Qed.

  Lemma fold_insert_spec l : forall acc, StronglySorted le acc ->
    StronglySorted le (fold_left (fun a x => insert_stable leb x a) l acc) /\
    Permutation (fold_left (fun a x => insert_stable leb x a) l acc) (acc ++ l) /\
    filter f (fold_left (fun a x => insert_stable leb x a) l acc) = filter f acc ++ filter f l.
  Proof.
    induction l as [|x l IH]; intros acc Hacc; cbn [fold_left].
    - rewrite !app_nil_r. auto.
    - destruct (IH _ (insert_sorted x acc Hacc)) as (H1 & H2 & H3).
      split; [exact H1|split].
      + rewrite H2. rewrite insert_perm. cbn [app]. apply Permutation_middle.
      + rewrite H3, insert_filter by exact Hacc. cbn [filter]. rewrite <- app_assoc.
        destruct (f x); reflexivity.
  Qed.

  Lemma sort_stable_spec l :
    StronglySorted le (sort_stable leb l) /\ Permutation (sort_stable leb l) l /\
    filter f (sort_stable leb l) = filter f l.
  Proof. exact (fold_insert_spec l [] (SSorted_nil _)). Qed.
End StableSort.

Lemma prio_leb_le a b : prio_leb a b = true <-> (pt_prio b <= pt_prio a)%Z.
Proof.
  unfold prio_leb, prio_cmp. destruct (Z.compare_spec (pt_prio b) (pt_prio a)); split; intros; try lia; try reflexivity; discriminate.
Qed.

(* priority_sort: sorted by priority descending, a permutation of its input, and within one
   priority the input order is kept (stability) *)
Lemma priority_sort_correct l :
  StronglySorted (fun a b => (pt_prio b <= pt_prio a)%Z) (priority_sort l) /\
  Permutation (priority_sort l) l /\
  forall p, filter (fun t => (pt_prio t =? p)%Z) (priority_sort l) =
            filter (fun t => (pt_prio t =? p)%Z) l.
Proof.
  assert (Htot : forall a b, prio_leb a b = true \/ prio_leb b a = true).
  { intros a b. rewrite !prio_leb_le. lia. }
  assert (Htr : forall a b c, prio_leb a b = true -> prio_leb b c = true -> prio_leb a c = true).
  { intros a b c. rewrite !prio_leb_le. lia. }
  split; [|split].
  - destruct (sort_stable_spec ptest prio_leb Htot Htr (fun _ => false) ltac:(discriminate) l) as (H & _ & _).
    clear -H. unfold priority_sort. induction H as [|x r Hr IH Hx]; constructor; [exact IH|].
    eapply Forall_impl; [|exact Hx]. intros y Hy. apply prio_leb_le. exact Hy.
  - destruct (sort_stable_spec ptest prio_leb Htot Htr (fun _ => false) ltac:(discriminate) l) as (_ & H & _).
    exact H.
  - intros p.
    refine (proj2 (proj2 (sort_stable_spec ptest prio_leb Htot Htr (fun t => (pt_prio t =? p)%Z) _ l))).
    intros a b Ha Hb. apply prio_leb_le. lia.
Qed.

(* ------------------------------------------------------------------ the comparisons are orders *)

Definition ord_ok {A} (c : A -> A -> comparison) : Prop :=
  (forall a b, c b a = CompOpp (c a b)) /\
  (forall a b x, c a b = Eq -> c b x = c a x) /\
  (forall a b x, c a b = Lt -> c b x = Lt -> c a x = Lt).

Lemma lex_ok {A B C} (f : C -> A) (g : C -> B) c1 c2 :
  ord_ok c1 -> ord_ok c2 -> ord_ok (fun x y : C => lex (c1 (f x) (f y)) (c2 (g x) (g y))).
Proof.
  intros (S1 & E1 & T1) (S2 & E2 & T2). unfold lex. split; [|split].
  - intros a b. rewrite (S1 (f a) (f b)), (S2 (g a) (g b)).
    destruct (c1 (f a) (f b)); reflexivity.
  - intros a b x. destruct (c1 (f a) (f b)) eqn:E; try discriminate. intros H2.
    rewrite (E1 _ _ (f x) E), (E2 _ _ (g x) H2). reflexivity.
  - intros a b x. destruct (c1 (f a) (f b)) eqn:Eab; try discriminate.
    + intros H2. rewrite (E1 _ _ (f x) Eab). destruct (c1 (f a) (f x)); try discriminate; [|reflexivity].
      intros H3. exact (T2 _ _ _ H2 H3).
    + intros _. destruct (c1 (f b) (f x)) eqn:Ebx; try discriminate.
      * intros _. assert (c1 (f a) (f x) = Lt); [|rewrite H; reflexivity].
        (* b = x for c1: c1 x a = c1 b a = Gt *)
        pose proof (S1 (f b) (f x)) as Hs. rewrite Ebx in Hs. cbn in Hs.
        pose proof (E1 _ _ (f a) Hs) as He. rewrite (S1 (f a) (f b)), Eab in He. cbn in He.
        rewrite (S1 (f x) (f a)), <- He. reflexivity.
      * intros _. rewrite (T1 _ _ _ Eab Ebx). reflexivity.
Qed.

Lemma ord_ok_key {A B} (k : B -> A) c : ord_ok c -> ord_ok (fun x y => c (k x) (k y)).
Proof.
  intros (S & E & T). split; [|split].
  - intros a b. apply S.
  - intros a b x. apply E.
  - intros a b x. apply T.
Qed.

Lemma N_compare_ok : ord_ok N.compare.
Proof.
  split; [|split].
  - intros a b. apply N.compare_antisym.
  - intros a b x H. apply N.compare_eq in H. subst. reflexivity.
  - intros a b x H1 H2. rewrite N.compare_lt_iff in *. lia.
Qed.

Lemma str_cmp_eq a : forall b, str_cmp a b = Eq -> a = b.
Proof.
  induction a as [|x a IH]; intros [|y b]; cbn [str_cmp]; try discriminate; [reflexivity|].
  destruct (x ?= y) eqn:E; try discriminate. intros H. apply N.compare_eq in E. subst.
  f_equal. apply IH; exact H.
Qed.

Lemma str_cmp_ok : ord_ok str_cmp.
Proof.
  split; [|split].
  - intros a. induction a as [|x a IH]; intros [|y b]; cbn [str_cmp]; try reflexivity.
    rewrite (N.compare_antisym x y). destruct (x ?= y); cbn [CompOpp]; [apply IH | reflexivity | reflexivity].
  - intros a b x H. apply str_cmp_eq in H. subst. reflexivity.
  - intros a. induction a as [|x a IH]; intros [|y b] [|z c]; cbn [str_cmp]; try discriminate; try reflexivity.
    destruct (x ?= y) eqn:Exy; try discriminate.
    + apply N.compare_eq in Exy. subst. destruct (y ?= z); try discriminate; [apply IH | reflexivity].
    + intros _. destruct (y ?= z) eqn:Eyz; try discriminate.
      * apply N.compare_eq in Eyz. subst. rewrite Exy. reflexivity.
      * intros _. rewrite N.compare_lt_iff in *. assert (x < z) by lia.
        apply N.compare_lt_iff in H. rewrite H. reflexivity.
Qed.

(* the enum's derived Ord as a lexicographic order on (variant index, kind, name) *)
Definition nk_tag (a : bin_nk) : N :=
  match a with BkNone => 0 | BkNameOnly _ => 1 | BkNameAndKind _ _ => 2 end.
Definition nk_kind (a : bin_nk) : str := match a with BkNameAndKind k _ => k | _ => [] end.
Definition nk_name (a : bin_nk) : str :=
  match a with BkNone => [] | BkNameOnly n => n | BkNameAndKind _ n => n end.

Lemma nk_cmp_lex a b :
  nk_cmp a b = lex (nk_tag a ?= nk_tag b) (lex (str_cmp (nk_kind a) (nk_kind b)) (str_cmp (nk_name a) (nk_name b))).
Proof. destruct a, b; reflexivity. Qed.

Lemma ord_ok_ext {A} (c c' : A -> A -> comparison) :
  (forall a b, c a b = c' a b) -> ord_ok c' -> ord_ok c.
Proof.
  intros Hext (S & E & T). split; [|split].
  - intros a b. rewrite !Hext. apply S.
  - intros a b x. rewrite !Hext. apply E.
  - intros a b x. rewrite !Hext. apply T.
Qed.

Lemma nk_cmp_ok : ord_ok nk_cmp.
Proof.
  eapply ord_ok_ext; [exact nk_cmp_lex|].
  apply (lex_ok nk_tag (fun a => a) N.compare
           (fun a b => lex (str_cmp (nk_kind a) (nk_kind b)) (str_cmp (nk_name a) (nk_name b))));
    [exact N_compare_ok|].
  apply (lex_ok nk_kind nk_name str_cmp str_cmp); exact str_cmp_ok.
Qed.

Lemma binary_id_cmp_ok : ord_ok binary_id_cmp.
Proof.
  unfold binary_id_cmp. apply ord_ok_key. unfold comp_cmp.
  apply (lex_ok bc_pkg bc_nk str_cmp nk_cmp); [exact str_cmp_ok | exact nk_cmp_ok].
Qed.

Definition iter_cmp (a b : ptest) : comparison :=
  lex (binary_id_cmp (pt_bin a) (pt_bin b)) (str_cmp (pt_name a) (pt_name b)).

Lemma iter_cmp_ok : ord_ok iter_cmp.
Proof. apply (lex_ok pt_bin pt_name binary_id_cmp str_cmp); [exact binary_id_cmp_ok | exact str_cmp_ok]. Qed.

Lemma leb_of_ord {A} (c : A -> A -> comparison) :
  ord_ok c ->
  let leb a b := match c a b with Gt => false | _ => true end in
  (forall a b, leb a b = true \/ leb b a = true) /\
  (forall a b x, leb a b = true -> leb b x = true -> leb a x = true).
Proof.
  intros (S & E & T) leb. split.
  - intros a b. unfold leb. rewrite (S a b). destruct (c a b); cbn; auto.
  - intros a b x. unfold leb. destruct (c a b) eqn:Eab; try discriminate; intros _.
    + rewrite (E _ _ x Eab). auto.
    + destruct (c b x) eqn:Ebx; try discriminate; intros _.
      * pose proof (S b x) as Hs. rewrite Ebx in Hs. cbn in Hs.
        pose proof (E _ _ a Hs) as He. rewrite (S a b), Eab in He. cbn in He.
        rewrite (S x a), <- He. reflexivity.
      * rewrite (T _ _ _ Eab Ebx). reflexivity.
Qed.

(* iter_tests() order is sorted by (binary id, name) *)
Lemma iter_order_sorted l :
  StronglySorted (fun a b => iter_leb a b = true) (iter_order l) /\ Permutation (iter_order l) l.
Proof.
  destruct (leb_of_ord iter_cmp iter_cmp_ok) as [Htot Htr].
  destruct (sort_stable_spec ptest iter_leb Htot Htr (fun _ => false) ltac:(discriminate) l) as (H1 & H2 & _).
  split; assumption.
Qed.

Lemma filter_sorted {A} (R : A -> A -> Prop) f l : StronglySorted R l -> StronglySorted R (filter f l).
Proof.
  induction 1 as [|x l Hl IH Hx]; cbn [filter]; [constructor|].
  destruct (f x); [|exact IH]. constructor; [exact IH|].
  apply Forall_forall. intros y Hy. apply filter_In in Hy.
  exact (proj1 (Forall_forall _ _) Hx y (proj1 Hy)).
Qed.

(* the order of the queue handed to the scheduler *)
Definition queue_le (a b : ptest) : Prop :=
  (pt_prio b < pt_prio a)%Z \/ (pt_prio a = pt_prio b /\ iter_leb a b = true).

Lemma sorted_combine l :
  StronglySorted (fun a b => (pt_prio b <= pt_prio a)%Z) l ->
  (forall p, StronglySorted (fun a b => iter_leb a b = true) (filter (fun t => (pt_prio t =? p)%Z) l)) ->
  StronglySorted queue_le l.
Proof.
  induction 1 as [|x l Hl IH Hx]; intros Hf; [constructor|].
  constructor.
  - apply IH. intros p. specialize (Hf p). cbn [filter] in Hf.
    destruct (pt_prio x =? p)%Z; [inversion Hf; assumption | exact Hf].
  - apply Forall_forall. intros y Hy.
    pose proof (proj1 (Forall_forall _ _) Hx y Hy) as Hle. cbn beta in Hle. unfold queue_le.
    destruct (Z.eq_dec (pt_prio x) (pt_prio y)) as [E|E]; [right|left; lia].
    split; [exact E|]. specialize (Hf (pt_prio x)). cbn [filter] in Hf. rewrite Z.eqb_refl in Hf.
    inversion Hf as [|? ? _ Hall]; subst.
    apply (proj1 (Forall_forall _ _) Hall y). apply filter_In. split; [exact Hy|].
    apply Z.eqb_eq. symmetry; exact E.
Qed.

(* descending priority, then binary id (RustBinaryId's Ord), then test name *)
Lemma priority_queue_sorted l :
  StronglySorted queue_le (priority_queue l) /\ Permutation (priority_queue l) l.
Proof.
  unfold priority_queue.
  destruct (priority_sort_correct (iter_order l)) as (H1 & H2 & H3).
  destruct (iter_order_sorted l) as [I1 I2]. split.
  - apply sorted_combine; [exact H1|]. intros p. rewrite H3. apply filter_sorted. exact I1.
  - rewrite H2. exact I2.
Qed.
