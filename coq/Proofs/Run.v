(* Proofs about the composed run model (Model/Run.v): scheduler x executor protocol x dispatcher.
   A1  complete_if_not_cancelled : an uncancelled run in which the scheduler's part is a
       [complete_run] satisfying [all_started] reports every selected test started once and
       finished once, every unselected one skipped once, finished_count = initial_run_count, and
       exits 0 iff every final attempt passed.
   A2  all_units : a cancel request broadcast by the run loop reaches the channel of every unit
       that is registered at that moment and the running setup script. *)
From Coq Require Import List NArith ZArith Bool Lia.
From NextestModel Require Import Base.Tac Base.Str.
From NextestModel Require Import Model.Result Model.Dispatcher Model.Unit Model.FutureQueue Model.Run.
From NextestModel Require Import Proofs.Result Proofs.Dispatcher Proofs.Unit Proofs.FutureQueue.
Import ListNotations.
Open Scope N_scope.

(* ------------------------------------------------------------------ the run, step by step *)

Lemma rrun_cons r s x xs :
  rrun r s (x :: xs) = match rstep r s x with Some s' => rrun r s' xs | None => None end.
Proof. reflexivity. Qed.

Lemma rstep_sched r s o s' :
  rstep r s (RSched o) = Some s' ->
  sched_guard (rc_cfg r) s o = true /\
  s' = mk_rstate (fst (fq_step (r_q s) o)) (r_polled s || polls (r_q s) o) (r_d s) (r_ps s) (r_nskip s).
Proof.
  cbn [rstep]. destruct (sched_guard (rc_cfg r) s o); [|discriminate].
  intros H; inversion H; auto.
Qed.

Lemma rstep_event r s e s' :
  rstep r s (REvent e) = Some s' ->
  event_guard r s e = true /\
  exists d' evs rsp ps',
    dstep (r_d s) e = (d', evs, rsp) /\ pstep (rc_cfg r) (r_ps s) e (r_hs rsp) = Some ps' /\
    s' = mk_rstate (r_q s) (r_polled s) d' ps'
                   (match e with Skipped _ => S (r_nskip s) | _ => r_nskip s end).
Proof.
  cbn [rstep]. destruct (event_guard r s e); [|discriminate].
  destruct (dstep (r_d s) e) as [[d' evs] rsp] eqn:E.
  destruct (pstep (rc_cfg r) (r_ps s) e (r_hs rsp)) as [ps'|] eqn:Ep; [|discriminate].
  intros H; inversion H; subst. split; auto. exists d', evs, rsp, ps'. auto.
Qed.

(* the dispatcher's part of a run is a history well-formed from where it starts *)
Lemma rrun_wf r : forall xs s s',
  rrun r s xs = Some s' ->
  wf_from (rc_cfg r) (r_d s) (r_ps s) (events_of xs) = true /\
  r_d s' = final_state (r_d s) (events_of xs).
Proof.
  induction xs as [|x xs IH]; intros s s' H.
  - inversion H; subst. split; reflexivity.
  - rewrite rrun_cons in H. destruct (rstep r s x) as [s1|] eqn:E; [|discriminate].
    destruct x as [o|e]; cbn [events_of].
    + apply rstep_sched in E. destruct E as [_ ->]. exact (IH _ _ H).
    + apply rstep_event in E. destruct E as (_ & d' & evs & rsp & ps' & Ed & Ep & ->).
      destruct (IH _ _ H) as [A B]. cbn [r_d r_ps] in A, B.
      rewrite wf_from_cons, final_state_cons. unfold next_state. rewrite Ed. cbn [fst snd].
      rewrite Ep. split; assumption.
Qed.

(* ... and the scheduler's part is an [fq_run] *)
Lemma rrun_sched r : forall xs s s',
  rrun r s xs = Some s' -> r_q s' = fst (fq_run (r_q s) (ops_of xs)).
Proof.
  induction xs as [|x xs IH]; intros s s' H.
  - inversion H; subst. reflexivity.
  - rewrite rrun_cons in H. destruct (rstep r s x) as [s1|] eqn:E; [|discriminate].
    destruct x as [o|e]; cbn [ops_of].
    + apply rstep_sched in E. destruct E as [_ ->]. rewrite fq_run_cons. cbn [fst].
      exact (IH _ _ H).
    + apply rstep_event in E. destruct E as (_ & d' & evs & rsp & ps' & _ & _ & ->).
      exact (IH _ _ H).
Qed.

(* the simulation between protocol and dispatcher along a composed run, with the run's own final
   protocol state (Proofs/Unit.sim_run only says that one exists) *)
Lemma rrun_sim r : cfg_ok (rc_cfg r) = true -> forall xs s s' d,
  rrun r s xs = Some s' -> r_d s = Live d -> sim (rc_cfg r) d (r_ps s) ->
  (sig_n (d_sig d) + shutdown_count (events_of xs) <= 2)%nat ->
  exists d', r_d s' = Live d' /\ sim (rc_cfg r) d' (r_ps s') /\
    forall t, ocheck (c_total (rc_cfg r) t) t (o_of_phase (ps_phase (r_ps s) t))
                     (out (Live d) (events_of xs))
              = Some (o_of_phase (ps_phase (r_ps s') t)).
Proof.
  intros Hok. induction xs as [|x xs IH]; intros s s' d H Hd Hsim Hsig.
  - inversion H; subst. exists d. split; [exact Hd|]. split; [exact Hsim|]. intros t. reflexivity.
  - rewrite rrun_cons in H. destruct (rstep r s x) as [s1|] eqn:E; [|discriminate].
    destruct x as [o|e]; cbn [events_of] in *.
    + apply rstep_sched in E. destruct E as [_ ->]. exact (IH _ _ _ H Hd Hsim Hsig).
    + apply rstep_event in E. destruct E as (_ & s1' & evs & rsp & ps' & Ed & Ep & ->).
      rewrite Hd in Ed. cbn [dstep] in Ed.
      rewrite shutdown_count_cons in Hsig.
      assert (Hs2 : ev_shutdown e = 1%nat -> d_sig d <> Some STwice).
      { intros E1 E2. rewrite E1, E2 in Hsig. cbn in Hsig. lia. }
      destruct (sim_step _ _ _ _ _ _ _ _ Hok Hsim Ed Ep Hs2) as (d1 & -> & Hsim1 & Hoc1).
      assert (Hsig1 : (sig_n (d_sig d1) + shutdown_count (events_of xs) <= 2)%nat).
      { rewrite (step_sig_count _ _ _ _ _ Ed). lia. }
      destruct (IH _ _ d1 H eq_refl Hsim1 Hsig1) as (d' & Hd' & Hsim' & Hoc').
      exists d'. split; [exact Hd'|]. split; [exact Hsim'|].
      intros t. rewrite out_cons. cbn [dstep]. rewrite Ed. cbn [fst snd].
      rewrite ocheck_app, Hoc1. unfold next_state. cbn [dstep]. rewrite Ed. cbn [fst].
      cbn [r_ps] in Hoc'. apply Hoc'.
Qed.

(* ------------------------------------------------------------------ runs that are never cancelled *)

(* the dispatcher is alive and cancel_state is None *)
Definition live_uncancelled (s : dst) : Prop := exists d, s = Live d /\ d_cancel d = None.

Lemma uncancelled_prefix h : forall s, live_uncancelled (final_state s h) -> live_uncancelled s.
Proof.
  intros s (d' & Hf & Hc). destruct (final_state_live_prefix _ _ _ Hf) as [d ->].
  exists d. split; [reflexivity|]. pose proof (run_cancel_monotone _ _ _ Hf) as Hm.
  rewrite Hc in Hm. cbn [opt_rank] in Hm. apply opt_rank_none_iff. lia.
Qed.

(* an uncancelled dispatcher refuses nothing *)
Lemma uncancelled_accepts d e s' evs rsp :
  dstep_live d e = (s', evs, rsp) -> d_cancel d = None -> r_hs rsp <> HRefused.
Proof.
  intros H Hc. destruct e; step_inv H; kill_some; proj_simpl; try discriminate; congruence.
Qed.

Lemma script_failure_cancels d s r d' evs rsp :
  dstep_live d (ScriptFinished s r) = (Live d', evs, rsp) -> is_success r = false ->
  d_cancel d' <> None.
Proof.
  intros H Hr. step_inv H; kill_some; proj_simpl; try discriminate.
  - rewrite Hr in *. discriminate.
  - intros E. rewrite E in *. cbn [opt_rank rank] in *. lia.
Qed.

(* a shutdown signal always leaves cancel_state set, or the signal count above zero *)
Lemma uncancelled_no_signals n mf dbg h d :
  final_state (Live (init n mf dbg)) h = Live d -> d_cancel d = None -> shutdown_count h = 0%nat.
Proof.
  intros Hf Hc. pose proof (reachable_sig_inv n mf dbg h) as Hi. rewrite Hf in Hi. cbn in Hi.
  pose proof (run_sig_count _ _ _ Hf) as Hn. cbn [init d_sig sig_n] in Hn.
  destruct (d_sig d) as [x|] eqn:Es.
  - exfalso. apply Hi; [discriminate|exact Hc].
  - cbn in Hn. lia.
Qed.

Lemma uncancelled_scripts_ok h : forall d0 d,
  final_state (Live d0) h = Live d -> d_cancel d = None ->
  forall r, In r (script_results h) -> is_success r = true.
Proof.
  induction h as [|e h IH]; intros d0 d Hf Hc r Hin; [destruct Hin|].
  rewrite final_state_cons in Hf.
  assert (Hu : live_uncancelled (next_state (Live d0) e)).
  { apply (uncancelled_prefix h). rewrite Hf. exists d. auto. }
  destruct Hu as (d1 & E1 & Hc1). rewrite E1 in Hf.
  unfold next_state in E1. cbn [dstep] in E1.
  destruct (dstep_live d0 e) as [[s1 evs] rsp] eqn:E. cbn [fst] in E1. subst s1.
  destruct e; cbn [script_results] in Hin; try exact (IH _ _ Hf Hc r Hin).
  destruct Hin as [<-|Hin]; [|exact (IH _ _ Hf Hc r Hin)].
  destruct (is_success r0) eqn:Er; [reflexivity|].
  exfalso. exact (script_failure_cancels _ _ _ _ _ _ E Er Hc1).
Qed.

(* ------------------------------------------------------------------ the scheduler loses no item *)

Definition ritems (q : fq) : list item := map r_item (running q).

(* the queue holds the item: not yet pulled, parked in a group's queue, or in progress *)
Definition holds (q : fq) (it : item) : Prop :=
  In it (pending q) \/ In it (queued_items q) \/ In it (ritems q).

Definition gq (kg : N * grp) : list item := g_queue (snd kg).

Lemma queued_items_eq q : queued_items q = flat_map gq (groups q).
Proof. reflexivity. Qed.

Lemma queued_gupdate_old k g g' gs x :
  glookup k gs = Some g -> In x (flat_map gq gs) ->
  In x (g_queue g) \/ In x (flat_map gq (gupdate k g' gs)).
Proof.
  induction gs as [|[k1 g1] gs IH]; cbn [glookup gupdate flat_map]; [discriminate|].
  destruct (N.eqb_spec k k1) as [->|Hne]; cbn [flat_map].
  - intros H; injection H as <-. intros Hin. apply in_app_or in Hin. destruct Hin as [Hin|Hin].
    + left; exact Hin.
    + right. apply in_or_app. right; exact Hin.
  - intros H Hin. apply in_app_or in Hin. destruct Hin as [Hin|Hin].
    + right. apply in_or_app. left; exact Hin.
    + destruct (IH H Hin) as [A|A]; [left; exact A|]. right. apply in_or_app. right; exact A.
Qed.

Lemma queued_gupdate_new k g g' gs x :
  glookup k gs = Some g -> In x (g_queue g') -> In x (flat_map gq (gupdate k g' gs)).
Proof.
  induction gs as [|[k1 g1] gs IH]; cbn [glookup gupdate flat_map]; [discriminate|].
  destruct (N.eqb_spec k k1) as [->|Hne]; cbn [flat_map].
  - intros _ Hin. apply in_or_app. left. exact Hin.
  - intros H Hin. apply in_or_app. right. exact (IH H Hin).
Qed.

(* replacing group k's record by one whose queue contains the old one keeps every queued item *)
Lemma queued_gupdate_mono k g g' gs x :
  glookup k gs = Some g -> (forall y, In y (g_queue g) -> In y (g_queue g')) ->
  In x (flat_map gq gs) -> In x (flat_map gq (gupdate k g' gs)).
Proof.
  intros Hk Hsub Hin. destruct (queued_gupdate_old k g g' gs x Hk Hin) as [A|A]; [|exact A].
  apply (queued_gupdate_new k g g' gs x Hk). apply Hsub; exact A.
Qed.

Lemma fill_loop_holds l : forall q it,
  panicked (fst (fill_loop l q)) = false ->
  In it l \/ In it (queued_items q) \/ In it (ritems q) ->
  holds (fst (fill_loop l q)) it.
Proof.
  induction l as [|it0 rest IH]; intros q it Hp H; cbn [fill_loop] in *.
  - cbn [fst]. unfold holds, set_pending, queued_items, ritems; cbn [pending groups running].
    destruct H as [[]|H]; right; exact H.
  - destruct (has_space (gcur q) (gmax q) (it_w it0)) eqn:Hs.
    + destruct (it_grp it0) as [k|] eqn:Eg.
      * destruct (glookup k (groups q)) as [g|] eqn:Hk.
        2:{ cbn [fst] in Hp. unfold set_panicked in Hp; cbn [panicked] in Hp. discriminate. }
        destruct (has_space (g_cur g) (g_max g) (it_w it0)) eqn:Hg; cbn [fst] in *.
        -- apply IH; [exact Hp|].
           unfold start_in_group, queued_items, ritems; cbn [fst groups running].
           rewrite map_app. cbn [map r_item].
           destruct H as [[<-|H]|[H|H]].
           ++ right; right. apply in_or_app. right. left. reflexivity.
           ++ left; exact H.
           ++ right; left. eapply queued_gupdate_mono; [exact Hk| |exact H]. cbn [g_queue]. auto.
           ++ right; right. apply in_or_app. left; exact H.
        -- apply IH; [exact Hp|].
           unfold enqueue, set_groups, queued_items, ritems; cbn [groups running].
           destruct H as [[<-|H]|[H|H]].
           ++ right; left. eapply queued_gupdate_new; [exact Hk|]. cbn [g_queue].
              apply in_or_app. right. left. reflexivity.
           ++ left; exact H.
           ++ right; left. eapply queued_gupdate_mono; [exact Hk| |exact H]. cbn [g_queue].
              intros y Hy. apply in_or_app. left; exact Hy.
           ++ right; right; exact H.
      * cbn [fst] in *. apply IH; [exact Hp|].
        unfold start_global, queued_items, ritems; cbn [fst groups running].
        rewrite map_app. cbn [map r_item].
        destruct H as [[<-|H]|[H|H]].
        -- right; right. apply in_or_app. right. left. reflexivity.
        -- left; exact H.
        -- right; left; exact H.
        -- right; right. apply in_or_app. left; exact H.
    + cbn [fst]. unfold holds, set_pending, queued_items, ritems; cbn [pending groups running].
      exact H.
Qed.

Lemma fq_fill_holds q it :
  panicked (fst (fq_fill q)) = false -> holds q it -> holds (fst (fq_fill q)) it.
Proof.
  unfold fq_fill. destruct (panicked q) eqn:E; cbn [fst]; [intros _ H; exact H|].
  intros Hp H. apply fill_loop_holds; [exact Hp | exact H].
Qed.

Lemma set_queue_queued q k l g x :
  glookup k (groups q) = Some g -> In x (queued_items q) ->
  In x (g_queue g) \/ In x (queued_items (set_queue q k l)).
Proof.
  intros Hk Hin. unfold set_queue. rewrite Hk. unfold set_groups, queued_items; cbn [groups].
  eapply queued_gupdate_old; [exact Hk | exact Hin].
Qed.

Lemma set_queue_queued_new q k l g x :
  glookup k (groups q) = Some g -> In x l -> In x (queued_items (set_queue q k l)).
Proof.
  intros Hk Hin. unfold set_queue. rewrite Hk. unfold set_groups, queued_items; cbn [groups].
  eapply queued_gupdate_new; [exact Hk | cbn [g_queue]; exact Hin].
Qed.

(* [queue] is the group's queue as read before the loop; the stored copy goes stale during it *)
Lemma drain_loop_holds k queue : forall q it,
  (forall g x, glookup k (groups q) = Some g -> In x (g_queue g) -> In x queue \/ In x (ritems q)) ->
  In it (pending q) \/ In it (queued_items q) \/ In it (ritems q) ->
  holds (fst (drain_loop k queue q)) it.
Proof.
  induction queue as [|it0 rest IH]; intros q it Hst H; cbn [drain_loop].
  - cbn [fst]. unfold holds, ritems in *. rewrite set_queue_pending, set_queue_running.
    destruct H as [H|[H|H]]; [left; exact H | | right; right; exact H].
    destruct (glookup k (groups q)) as [g|] eqn:Hk.
    + destruct (set_queue_queued q k [] g it Hk H) as [A|A]; [|right; left; exact A].
      destruct (Hst g it eq_refl A) as [[]|B]. right; right; exact B.
    + right; left. unfold set_queue. rewrite Hk. exact H.
  - destruct (glookup k (groups q)) as [g|] eqn:Hk; [|cbn [fst]; exact H].
    destruct (has_space (gcur q) (gmax q) (it_w it0) && has_space (g_cur g) (g_max g) (it_w it0)).
    + cbn [fst]. apply IH.
      * intros g1 x Hk1 Hx. unfold start_in_group in Hk1; cbn [fst groups] in Hk1.
        rewrite (glookup_gupdate_same _ _ _ _ Hk) in Hk1. injection Hk1 as <-. cbn [g_queue] in Hx.
        unfold start_in_group, ritems; cbn [fst running]. rewrite map_app. cbn [map r_item].
        destruct (Hst g x eq_refl Hx) as [[<-|A]|A].
        -- right. apply in_or_app. right. left. reflexivity.
        -- left; exact A.
        -- right. apply in_or_app. left; exact A.
      * unfold start_in_group, queued_items, ritems; cbn [fst pending groups running].
        rewrite map_app. destruct H as [H|[H|H]].
        -- left; exact H.
        -- right; left. eapply queued_gupdate_mono; [exact Hk| |exact H]. cbn [g_queue]. auto.
        -- right; right. apply in_or_app. left; exact H.
    + cbn [fst]. unfold holds, ritems in *. rewrite set_queue_pending, set_queue_running.
      destruct H as [H|[H|H]]; [left; exact H | | right; right; exact H].
      destruct (set_queue_queued q k (it0 :: rest) g it Hk H) as [A|A]; [|right; left; exact A].
      destruct (Hst g it eq_refl A) as [B|B]; [|right; right; exact B].
      right; left. eapply set_queue_queued_new; [exact Hk | exact B].
Qed.

Lemma fq_pop_holds q id res it :
  fq_pop q id = Some res -> holds q it ->
  holds (fst res) it \/
  exists r rest, take_running id (running q) = Some (r, rest) /\ it = r_item r.
Proof.
  unfold fq_pop. destruct (panicked q); [discriminate|].
  destruct (take_running id (running q)) as [[r rest]|] eqn:Et; [|discriminate].
  destruct (take_running_spec _ _ _ _ Et) as (l1 & l2 & Hrun & Hrest & Hid).
  intros Hres Hh.
  (* after the release: same pending, queues as sets, running without r *)
  assert (Hrel : it = r_item r \/
                 (In it (pending (release q r rest)) \/ In it (queued_items (release q r rest))
                  \/ In it (ritems (release q r rest)))).
  { destruct Hh as [H|[H|H]].
    - right; left. exact H.
    - right; right; left. unfold release, queued_items; cbn [groups].
      destruct (r_grp r) as [[k t]|]; [|exact H].
      destruct (glookup k (groups q)) as [g|] eqn:Hk; [|exact H].
      eapply queued_gupdate_mono; [exact Hk| |exact H]. cbn [g_queue]. auto.
    - unfold ritems in H. rewrite Hrun, map_app in H. cbn [map] in H.
      apply in_app_or in H. destruct H as [H|[H|H]].
      + right; right; right. unfold release, ritems; cbn [running]. rewrite Hrest, map_app.
        apply in_or_app. left; exact H.
      + left. symmetry; exact H.
      + right; right; right. unfold release, ritems; cbn [running]. rewrite Hrest, map_app.
        apply in_or_app. right; exact H. }
  destruct Hrel as [->|Hrel]; [right; exists r, rest; auto|]. left.
  destruct (r_grp r) as [[k t]|]; [|injection Hres as <-; exact Hrel].
  destruct (glookup k (groups (release q r rest))) as [g|] eqn:Hk;
    [|injection Hres as <-; exact Hrel].
  injection Hres as <-. cbn [fst]. apply drain_loop_holds; [|exact Hrel].
  intros g1 x Hk1 Hx. rewrite Hk in Hk1. injection Hk1 as <-. left; exact Hx.
Qed.

Lemma fq_step_holds q o it :
  panicked (fst (fq_step q o)) = false -> holds q it ->
  holds (fst (fq_step q o)) it \/
  exists id r rest, (o = OpComplete id \/ o = OpCompleteNoFill id) /\
                    take_running id (running q) = Some (r, rest) /\ it = r_item r.
Proof.
  intros Hp Hh. destruct o as [|id|id]; cbn [fq_step] in *.
  - left. apply fq_fill_holds; assumption.
  - destruct (fq_pop q id) as [res|] eqn:E; [|left; exact Hh]. cbn [fst] in *.
    destruct (fq_pop_holds _ _ _ _ E Hh) as [A|(r & rest & A & B)].
    + left. apply fq_fill_holds; assumption.
    + right. exists id, r, rest. auto.
  - destruct (fq_pop q id) as [res|] eqn:E; [|left; exact Hh].
    destruct (fq_pop_holds _ _ _ _ E Hh) as [A|(r & rest & A & B)].
    + left. exact A.
    + right. exists id, r, rest. auto.
Qed.

(* ------------------------------------------------------------------ protocol facts *)

Definition not_refused (p : phase) : Prop :=
  match p with PRefusedStart | PRefusedRetry _ => False | _ => True end.

Ltac pstep_cases Hp hs :=
  cbn [pstep] in Hp;
  repeat match type of Hp with
  | context [if ?b then _ else _] => destruct b eqn:?; try discriminate
  | context [match ps_phase ?ps ?t with _ => _ end] => destruct (ps_phase ps t) eqn:?; try discriminate
  | context [match hs with _ => _ end] => destruct hs; try discriminate
  end; inversion Hp; subst; clear Hp.

Lemma pstep_skipped_stable c ps e hs ps' x :
  pstep c ps e hs = Some ps' -> ps_phase ps x = PSkipped -> ps_phase ps' x = PSkipped.
Proof.
  intros Hp Hx.
  destruct e; pstep_cases Hp hs; cbn [set_phase ps_phase]; auto;
    (destruct (N.eq_dec x t) as [->|Hne]; [congruence | rewrite upd_neq; auto]).
Qed.

Lemma pstep_skipped_new c ps t hs ps' :
  pstep c ps (Skipped t) hs = Some ps' -> ps_phase ps' t = PSkipped.
Proof. intros Hp. pstep_cases Hp hs. cbn [set_phase ps_phase]. apply upd_eq. Qed.

Lemma pstep_no_refusal c ps e hs ps' :
  pstep c ps e hs = Some ps' -> hs <> HRefused ->
  (forall t, not_refused (ps_phase ps t)) -> forall t, not_refused (ps_phase ps' t).
Proof.
  intros Hp Hhs Hall x.
  destruct e; pstep_cases Hp hs; cbn [set_phase ps_phase]; try apply Hall; try congruence;
    (destruct (N.eq_dec x t) as [->|Hne]; [rewrite upd_eq; exact I | rewrite upd_neq; auto]).
Qed.

Lemma phase_done_finished p : phase_done p = true -> not_refused p -> p = PFinished.
Proof. destruct p; cbn; try discriminate; auto; intros _ []. Qed.

(* ------------------------------------------------------------------ the Skipped notifications *)

Lemma skips_upto_prefix l : forall k, exists rest, src_unsel l = skips_upto l k ++ rest.
Proof.
  induction l as [|[it|t] l IH]; intros k; cbn [src_unsel skips_upto].
  - exists []. reflexivity.
  - destruct k as [|k]; [eexists; reflexivity | apply IH].
  - destruct k as [|k]; [eexists; reflexivity|]. destruct (IH (S k)) as [rest E].
    exists rest. cbn [app]. rewrite <- E. reflexivity.
Qed.

Lemma skips_upto_nth l k i t :
  nth_error (skips_upto l k) i = Some t -> nth_error (src_unsel l) i = Some t.
Proof.
  intros H. destruct (skips_upto_prefix l k) as [rest E]. rewrite E.
  rewrite nth_error_app1; [exact H|]. apply nth_error_Some. congruence.
Qed.

Lemma skips_upto_all l : forall k, (length (src_items l) < k)%nat -> skips_upto l k = src_unsel l.
Proof.
  induction l as [|[it|t] l IH]; intros k Hk; cbn [src_unsel skips_upto src_items length] in *.
  - reflexivity.
  - destruct k as [|k]; [lia|]. apply IH. lia.
  - destruct k as [|k]; [lia|]. f_equal. apply IH. lia.
Qed.

(* ------------------------------------------------------------------ the invariant of uncancelled runs *)

Definition RInv (r : rcfg) (s : rstate) : Prop :=
  (forall t, not_refused (ps_phase (r_ps s) t)) /\
  (panicked (r_q s) = true \/
   forall it, In it (rc_items r) ->
     holds (r_q s) it \/ ps_phase (r_ps s) (it_id it) = PFinished) /\
  (r_nskip s <= length (src_unsel (rc_src r)))%nat /\
  (forall i t, (i < r_nskip s)%nat -> nth_error (src_unsel (rc_src r)) i = Some t ->
     ps_phase (r_ps s) t = PSkipped).

Lemma rinv_init r mf dbg : RInv r (rinit r mf dbg).
Proof.
  unfold RInv, rinit; cbn [r_ps r_q r_nskip pstate0 ps_phase].
  split; [intros t; exact I|]. split; [|split; [lia | intros i t Hi; lia]].
  right. intros it Hin. left. left. exact Hin.
Qed.

Lemma is_running_taken q id r0 rest :
  take_running id (running q) = Some (r0, rest) -> is_running q id = true /\ it_id (r_item r0) = id.
Proof.
  intros Ht. destruct (take_running_spec _ _ _ _ Ht) as (l1 & l2 & Hrun & _ & Hid).
  split; [|exact Hid]. unfold is_running. apply existsb_exists. exists r0. split.
  - rewrite Hrun. apply in_or_app. right. left. reflexivity.
  - apply N.eqb_eq. exact Hid.
Qed.

Lemma rinv_step r s x s' :
  RInv r s -> live_uncancelled (r_d s) -> rstep r s x = Some s' -> RInv r s'.
Proof.
  intros (Hnr & Hcons & Hle & Hsk) (d & Hd & Hc) Hstep. destruct x as [o|e].
  - apply rstep_sched in Hstep. destruct Hstep as [Hg ->].
    unfold RInv; cbn [r_ps r_q r_nskip].
    split; [exact Hnr|]. split; [|split; assumption].
    destruct (panicked (fst (fq_step (r_q s) o))) eqn:Hp'; [left; reflexivity|]. right.
    destruct Hcons as [Hp|Hcons].
    { rewrite (fq_step_panicked _ o Hp) in Hp'. cbn [fst] in Hp'. congruence. }
    intros it Hin. destruct (Hcons it Hin) as [Hh|Hf]; [|right; exact Hf].
    destruct (fq_step_holds _ o it Hp' Hh) as [A|(id & r0 & rest & Ho & Ht & ->)]; [left; exact A|].
    right. destruct (is_running_taken _ _ _ _ Ht) as [Hrun Hid]. rewrite Hid.
    unfold sched_guard in Hg. apply andb_true_iff in Hg. destruct Hg as [_ Hg].
    assert (Hdone : phase_done (ps_phase (r_ps s) id) = true).
    { destruct Ho as [-> | ->]; rewrite Hrun in Hg; cbn [negb orb] in Hg; exact Hg. }
    apply phase_done_finished; [exact Hdone | apply Hnr].
  - apply rstep_event in Hstep. destruct Hstep as (Hg & d' & evs & rsp & ps' & Ed & Ep & ->).
    rewrite Hd in Ed. cbn [dstep] in Ed.
    pose proof (uncancelled_accepts _ _ _ _ _ Ed Hc) as Hacc.
    unfold RInv; cbn [r_ps r_q r_nskip].
    split; [exact (pstep_no_refusal _ _ _ _ _ Ep Hacc Hnr)|]. split.
    { destruct Hcons as [Hp|Hcons]; [left; exact Hp|]. right. intros it Hin.
      destruct (Hcons it Hin) as [Hh|Hf]; [left; exact Hh|]. right.
      eapply pstep_finished_stable; eauto. }
    destruct e; try (split; [exact Hle|]; intros i t' Hi Hn;
                     eapply pstep_skipped_stable; [exact Ep | eapply Hsk; eauto]).
    (* Skipped t: the next notification in the order sent *)
    cbn [event_guard] in Hg.
    destruct (nth_error (skips_sent r (r_polled s) (r_q s)) (r_nskip s)) as [t'|] eqn:En; [|discriminate].
    apply N.eqb_eq in Hg. subst t'.
    assert (Hn : nth_error (src_unsel (rc_src r)) (r_nskip s) = Some t).
    { unfold skips_sent in En. destruct (r_polled s); [|destruct (r_nskip s); discriminate].
      eapply skips_upto_nth; exact En. }
    split.
    + assert (Hlt : (r_nskip s < length (src_unsel (rc_src r)))%nat)
        by (apply nth_error_Some; congruence). lia.
    + intros i t' Hi Hn'. destruct (Nat.eq_dec i (r_nskip s)) as [->|Hne].
      * rewrite Hn in Hn'. injection Hn' as <-. eapply pstep_skipped_new; exact Ep.
      * eapply pstep_skipped_stable; [exact Ep|]. eapply Hsk; [|exact Hn']. lia.
Qed.

Lemma rinv_run r : forall xs s s',
  rrun r s xs = Some s' -> live_uncancelled (r_d s') -> RInv r s -> RInv r s'.
Proof.
  induction xs as [|x xs IH]; intros s s' H Hu Hinv.
  - inversion H; subst. exact Hinv.
  - rewrite rrun_cons in H. destruct (rstep r s x) as [s1|] eqn:E; [|discriminate].
    assert (Hu1 : live_uncancelled (r_d s1)).
    { destruct (rrun_wf r _ _ _ H) as [_ Hf]. apply (uncancelled_prefix (events_of xs)).
      rewrite <- Hf. exact Hu. }
    assert (Hu0 : live_uncancelled (r_d s)).
    { destruct x as [o|e].
      - apply rstep_sched in E. destruct E as [_ ->]. exact Hu1.
      - apply rstep_event in E. destruct E as (_ & d' & evs & rsp & ps' & Ed & _ & ->).
        cbn [r_d] in Hu1. apply (uncancelled_prefix [e]). cbn [final_state fold_left].
        unfold next_state. rewrite Ed. exact Hu1. }
    apply (IH _ _ H Hu). eapply rinv_step; eauto.
Qed.

(* ------------------------------------------------------------------ a finished unit sent Finished *)

Lemma pstep_finished_origin c ps e hs ps' x :
  pstep c ps e hs = Some ps' -> ps_phase ps' x = PFinished ->
  ps_phase ps x = PFinished \/ exists a, e = Finished x a.
Proof.
  intros Hp Hx.
  destruct e; pstep_cases Hp hs; cbn [set_phase ps_phase] in Hx; auto;
    (destruct (N.eq_dec x t) as [->|Hne];
     [rewrite upd_eq in Hx; try discriminate; right; eexists; reflexivity
     | rewrite upd_neq in Hx by auto; left; exact Hx]).
Qed.

Lemma rrun_finished_in_history r t : forall xs s s',
  rrun r s xs = Some s' -> ps_phase (r_ps s') t = PFinished ->
  ps_phase (r_ps s) t = PFinished \/ In t (finished_tests (events_of xs)).
Proof.
  induction xs as [|x xs IH]; intros s s' H Hf.
  - inversion H; subst. left; exact Hf.
  - rewrite rrun_cons in H. destruct (rstep r s x) as [s1|] eqn:E; [|discriminate].
    destruct (IH _ _ H Hf) as [A|A].
    + destruct x as [o|e]; cbn [events_of].
      * apply rstep_sched in E. destruct E as [_ ->]. left; exact A.
      * apply rstep_event in E. destruct E as (_ & d' & evs & rsp & ps' & _ & Ep & ->).
        cbn [r_ps] in A. destruct (pstep_finished_origin _ _ _ _ _ _ Ep A) as [B|[a ->]].
        -- left; exact B.
        -- right. rewrite finished_tests_cons. left; reflexivity.
    + right. destruct x as [o|e]; cbn [events_of]; [exact A|].
      rewrite finished_tests_cons. destruct e; try exact A. right; exact A.
Qed.

Lemma cfg_ok_nodup c : cfg_ok c = true -> NoDup (c_sel c).
Proof.
  unfold cfg_ok. intros Hok. apply andb_true_iff in Hok. destruct Hok as [Hok _].
  apply andb_true_iff in Hok. destruct Hok as [Hok _]. apply nodupb_NoDup; auto.
Qed.

(* ------------------------------------------------------------------ A1 *)

Theorem complete_if_not_cancelled r mf dbg xs s ids d :
  cfg_ok (rc_cfg r) = true ->
  rrun r (rinit r mf dbg) xs = Some s ->
  ops_of xs = OpFill :: map OpComplete ids ->
  all_started (rc_gm r) (rc_grps r) (rc_items r) ids ->
  running (r_q s) = [] -> panicked (r_q s) = false ->
  r_nskip s = length (src_unsel (rc_src r)) ->
  r_d s = Live d -> d_cancel d = None ->
  let c := rc_cfg r in
  let h := events_of xs in
  let o := out (Live (init_for c mf dbg)) h in
  wf_history c mf dbg h = true /\
  (forall t, In t (c_sel c) ->
     count_if (is_started_of t) o = 1%nat /\ count_if (is_finished_of t) o = 1%nat /\
     count_if (is_skipped_of t) o = 0%nat) /\
  (forall t, In t (c_unsel c) ->
     count_if (is_skipped_of t) o = 1%nat /\ count_if (is_started_of t) o = 0%nat /\
     count_if (is_finished_of t) o = 0%nat) /\
  finished_count (d_stats d) = initial_run_count (d_stats d) /\
  initial_run_count (d_stats d) = N.of_nat (length (c_sel c)) /\
  (forall p, run_exit c mf dbg h p = Some 0%Z <->
     (forall t a, In t (c_sel c) -> final_of h t = Some a -> is_success (a_res a) = true) /\
     (c_sel c <> [] \/ p = Some NtPass \/ p = Some NtWarn)).
Proof.
  intros Hok Hrun Hops Hall Hnorun Hnopanic Hskips Hd Hc c h o.
  destruct (rrun_wf r _ _ _ Hrun) as [Hwf0 Hfin]. cbn [rinit r_d r_ps] in Hwf0, Hfin.
  fold c h in Hwf0, Hfin. rewrite Hd in Hfin. symmetry in Hfin.
  assert (Hwf : wf_history c mf dbg h = true).
  { unfold wf_history, wf_protocol. apply andb_true_iff. split; [exact Hok | exact Hwf0]. }
  assert (Hsig0 : shutdown_count h = 0%nat).
  { unfold init_for in Hfin. eapply uncancelled_no_signals; eauto. }
  assert (Hsig : (shutdown_count h <= 2)%nat) by lia.
  (* final phases *)
  assert (Hu : live_uncancelled (r_d s)) by (exists d; auto).
  pose proof (rinv_run r _ _ _ Hrun Hu (rinv_init r mf dbg)) as (Hnr & Hcons & _ & Hsk).
  assert (Hq : r_q s = complete_run (rc_gm r) (rc_grps r) (rc_items r) ids).
  { rewrite (rrun_sched r _ _ _ Hrun), Hops. reflexivity. }
  assert (Hun : unstarted (r_q s) = []).
  { rewrite Hq. apply Hall; rewrite <- Hq; assumption. }
  unfold unstarted in Hun. apply app_eq_nil in Hun. destruct Hun as [Hpend Hqueued].
  assert (Hsel : forall t, In t (c_sel c) -> ps_phase (r_ps s) t = PFinished).
  { intros t Ht. unfold c, rc_cfg in Ht; cbn [c_sel] in Ht. apply in_map_iff in Ht.
    destruct Ht as (it & <- & Hit).
    destruct Hcons as [Hp|Hcons]; [congruence|].
    destruct (Hcons it Hit) as [[A|[A|A]]|A]; [| | |exact A]; exfalso.
    - rewrite Hpend in A. exact A.
    - rewrite Hqueued in A. exact A.
    - unfold ritems in A. rewrite Hnorun in A. exact A. }
  assert (Hunsel : forall t, In t (c_unsel c) -> ps_phase (r_ps s) t = PSkipped).
  { intros t Ht. unfold c, rc_cfg in Ht; cbn [c_unsel] in Ht.
    destruct (In_nth_error _ _ Ht) as [i Hi]. apply (Hsk i t); [|exact Hi].
    rewrite Hskips. apply nth_error_Some. congruence. }
  (* the emitted stream *)
  assert (Hsg : (sig_n (d_sig (init_for c mf dbg)) + shutdown_count h <= 2)%nat) by (cbn; lia).
  destruct (rrun_sim r Hok _ _ _ (init_for c mf dbg) Hrun eq_refl (sim_init c mf dbg) Hsg)
    as (d' & Hd' & _ & Hoc).
  cbn [rinit r_ps pstate0 ps_phase o_of_phase] in Hoc. fold h in Hoc. fold o in Hoc.
  split; [exact Hwf|]. split; [|split].
  - intros t Ht. specialize (Hoc t). rewrite (Hsel t Ht) in Hoc. cbn [o_of_phase] in Hoc.
    destruct (ocheck_counts _ _ _ _ _ Hoc) as (A & B & C).
    cbn [started_flag finished_flag skipped_flag] in A, B, C. lia.
  - intros t Ht. specialize (Hoc t). rewrite (Hunsel t Ht) in Hoc. cbn [o_of_phase] in Hoc.
    destruct (ocheck_counts _ _ _ _ _ Hoc) as (A & B & C).
    cbn [started_flag finished_flag skipped_flag] in A, B, C. lia.
  - (* statistics and exit code *)
    destruct (wf_run _ _ _ _ Hwf Hsig) as (d2 & ps2 & Hfin2 & _ & (Hnd & _ & Hincl) & _).
    assert (Hndsel : NoDup (c_sel c)) by exact (cfg_ok_nodup _ Hok).
    assert (Hfinished : forall t, In t (c_sel c) -> In t (finished_tests h)).
    { intros t Ht. destruct (rrun_finished_in_history r t _ _ _ Hrun (Hsel t Ht)) as [A|A]; [|exact A].
      cbn in A. discriminate. }
    pose proof (run_counts _ _ _ Hfin) as P. cbv zeta in P. rewrite init_for_stats in P.
    destruct P as (Pfin & _ & _ & Pinit & _).
    cbn [stats0 finished_count initial_run_count] in Pfin, Pinit.
    assert (Hlen : length (finished_events h) = length (c_sel c)).
    { pose proof (NoDup_incl_length Hnd Hincl) as L1.
      pose proof (NoDup_incl_length Hndsel Hfinished) as L2.
      unfold finished_tests in L1, L2. rewrite map_length in L1, L2. lia. }
    split; [|split].
    + rewrite Pfin, Pinit, tally_fin_len, Hlen. lia.
    + exact Pinit.
    + intros p. rewrite (exit_zero_iff c mf dbg h p Hwf Hsig). split.
      * intros (_ & Hall2 & Hne). split; [|exact Hne].
        intros t a Ht Hfa. destruct (Hall2 t Ht) as (a' & Ha' & Hs). congruence.
      * intros (Hall2 & Hne). split; [|split; [|exact Hne]].
        -- exact (uncancelled_scripts_ok h _ _ Hfin Hc).
        -- intros t Ht. destruct (final_of h t) as [a|] eqn:Ef.
           ++ exists a. split; [reflexivity|]. eapply Hall2; eauto.
           ++ exfalso. apply final_of_none in Ef. apply Ef. apply Hfinished; exact Ht.
Qed.

(* ... outside the class of finding F7 the scheduler premise is a theorem *)
Corollary complete_outside_known r mf dbg xs s ids d :
  cfg_ok (rc_cfg r) = true ->
  NoDup (map fst (rc_grps r)) -> uniform_b (rc_items r) = true ->
  rrun r (rinit r mf dbg) xs = Some s ->
  ops_of xs = OpFill :: map OpComplete ids ->
  running (r_q s) = [] -> panicked (r_q s) = false ->
  r_nskip s = length (src_unsel (rc_src r)) ->
  r_d s = Live d -> d_cancel d = None ->
  let c := rc_cfg r in
  let h := events_of xs in
  let o := out (Live (init_for c mf dbg)) h in
  (forall t, In t (c_sel c) ->
     count_if (is_started_of t) o = 1%nat /\ count_if (is_finished_of t) o = 1%nat) /\
  (forall t, In t (c_unsel c) -> count_if (is_skipped_of t) o = 1%nat) /\
  finished_count (d_stats d) = initial_run_count (d_stats d) /\
  (forall p, run_exit c mf dbg h p = Some 0%Z <->
     (forall t a, In t (c_sel c) -> final_of h t = Some a -> is_success (a_res a) = true) /\
     (c_sel c <> [] \/ p = Some NtPass \/ p = Some NtWarn)).
Proof.
  intros Hok Hnd Hu Hrun Hops Hnorun Hnopanic Hskips Hd Hc c h o.
  pose proof (all_started_uniform (rc_items r) Hu (rc_gm r) (rc_grps r) ids Hnd) as Hall.
  destruct (complete_if_not_cancelled r mf dbg xs s ids d Hok Hrun Hops Hall Hnorun Hnopanic
              Hskips Hd Hc) as (_ & A & B & C & _ & E).
  split; [|split; [|split]].
  - intros t Ht. destruct (A t Ht) as (A1 & A2 & _). auto.
  - intros t Ht. destruct (B t Ht) as (B1 & _). exact B1.
  - exact C.
  - exact E.
Qed.

(* ------------------------------------------------------------------ A2: a cancel request reaches every unit *)

(* before the first shutdown signal cancel_state is at most ReportError, so that the first signal
   always escalates it (and is therefore always broadcast) *)
Definition sig_rank_inv (d : dstate) : Prop := d_sig d = None -> opt_rank (d_cancel d) <= 3.

Lemma step_sig_rank d e d' evs rsp :
  dstep_live d e = (Live d', evs, rsp) -> sig_rank_inv d -> sig_rank_inv d'.
Proof.
  unfold sig_rank_inv. intros H Hinv.
  destruct e; step_inv H; kill_some; proj_simpl; intros Hs; try discriminate;
    try (specialize (Hinv Hs)); cbn [opt_rank rank] in *; try lia.
Qed.

Lemma run_sig_rank h : forall d d',
  final_state (Live d) h = Live d' -> sig_rank_inv d -> sig_rank_inv d'.
Proof.
  induction h as [|e h IH]; intros d d' H Hinv.
  - cbn in H. inversion H; subst. exact Hinv.
  - rewrite final_state_cons in H.
    destruct (final_state_live_prefix _ _ _ H) as [d1 E1]. rewrite E1 in H.
    unfold next_state in E1. cbn [dstep] in E1.
    destruct (dstep_live d e) as [[s1 evs] rsp] eqn:E. cbn [fst] in E1. subst s1.
    apply (IH _ _ H). eapply step_sig_rank; eauto.
Qed.

(* a shutdown signal that handle_event survives is always handed on to the units *)
Lemma signal_broadcasts d ev d' evs rsp :
  dstep_live d (SigShutdown ev) = (Live d', evs, rsp) -> sig_rank_inv d ->
  broadcast_of (r_resp rsp) =
  Some (BShutdown (match d_sig d with None => Once ev | Some _ => Twice end)).
Proof.
  unfold sig_rank_inv. intros H Hinv.
  step_inv H; kill_some; proj_simpl; cbn [broadcast_of to_request]; try reflexivity.
  all: try (specialize (Hinv eq_refl); destruct ev; cbn [event_to_cancel_reason opt_rank rank] in *; lia).
  all: try (exfalso; cbn [to_request] in *; congruence).
Qed.

(* a step that announces (RunBeginCancel / RunBeginKill) makes the run loop broadcast a cancel request *)
Lemma step_ann_broadcasts d e s' evs rsp :
  dstep_live d e = (s', evs, rsp) -> existsb is_ann evs = true ->
  cancel_request (broadcast_of (r_resp rsp)) = true.
Proof.
  intros H. destruct e; step_inv H; kill_some; proj_simpl;
    cbn [existsb is_ann is_begin_cancel is_begin_kill cancel_reason_of is_some app orb
         broadcast_of cancel_request];
    try discriminate; try reflexivity.
  all: try (match goal with e : shutdown_event |- _ => destruct e end; reflexivity).
Qed.

(* a step whose response is broadcast is not one in which handle_event addresses a single unit,
   and it is not the start of a setup script *)
Lemma step_broadcast_no_unicast d e s' evs rsp :
  dstep_live d e = (s', evs, rsp) -> cancel_request (broadcast_of (r_resp rsp)) = true ->
  r_unit rsp = None /\ (forall s, e <> ScriptStarted s).
Proof.
  intros H. destruct e; step_inv H; kill_some; proj_simpl;
    cbn [broadcast_of cancel_request]; try discriminate; intros _; split; try reflexivity;
    intros s0 Hs; discriminate.
Qed.

Lemma xsys_run_sys c : forall ls x x',
  xsys_run c x ls = Some x' -> sys_run true c (x_sys x) ls = Some (x_sys x').
Proof.
  induction ls as [|l ls IH]; intros x x' H; cbn [xsys_run sys_run] in *.
  - inversion H; subst. reflexivity.
  - unfold xsys_step in H. destruct (sys_step true c (x_sys x) l) as [y1|] eqn:E; [|discriminate].
    apply (IH _ _ H).
Qed.

Lemma sys_run_state u c : forall ls y y',
  sys_run u c y ls = Some y' -> y_d y' = final_state (y_d y) (sevents_of ls).
Proof.
  induction ls as [|l ls IH]; intros y y' H; cbn [sys_run] in H.
  - inversion H; subst. reflexivity.
  - destruct (sys_step u c y l) as [y1|] eqn:E; [|discriminate].
    rewrite (IH _ _ H). destruct l as [e|t]; cbn [sevents_of sys_step] in *.
    + rewrite final_state_cons. unfold next_state.
      destruct (dstep (y_d y) e) as [[s1 evs] rsp].
      destruct (pstep c (y_ps y) e (r_hs rsp)); [|discriminate]. inversion E; subst. reflexivity.
    + destruct (ps_phase (y_ps y) t); try discriminate.
      destruct (0 <? y_mail y t); [|discriminate]. inversion E; subst. reflexivity.
Qed.

Theorem all_units c mf dbg ls x e x' d d' evs rsp :
  cfg_ok c = true ->
  xsys_run c (xsys0 c mf dbg) ls = Some x ->
  xsys_step c x (SEvent e) = Some x' ->
  y_d (x_sys x) = Live d -> dstep_live d e = (Live d', evs, rsp) ->
  (exists ev, e = SigShutdown ev) \/ existsb is_ann evs = true ->
  cancel_request (broadcast_of (r_resp rsp)) = true /\
  (forall ev, e = SigShutdown ev ->
     broadcast_of (r_resp rsp) =
     Some (BShutdown (match d_sig d with None => Once ev | Some _ => Twice end))) /\
  (forall t, unit_live (ps_phase (y_ps (x_sys x')) t) = true ->
     y_mail (x_sys x') t = y_mail (x_sys x) t + 1) /\
  (forall t, unit_gone (ps_phase (y_ps (x_sys x')) t) = true ->
     y_mail (x_sys x') t = y_mail (x_sys x) t) /\
  x_smail x' = x_smail x + (if ps_srun (y_ps (x_sys x')) then 1 else 0).
Proof.
  intros Hok Hrun Hstep Hd E Hcause.
  pose proof (xsys_run_sys c _ _ _ Hrun) as Hsys. cbn [xsys0 x_sys] in Hsys.
  pose proof (prompt_inv_run c ls Hok _ _ (prompt_inv_init c mf dbg) Hsys) as Hinv.
  (* reachable: the signal-rank invariant *)
  assert (Hrank : sig_rank_inv d).
  { pose proof (sys_run_state _ _ _ _ _ Hsys) as Hst. cbn [sys0 y_d] in Hst. rewrite Hd in Hst.
    symmetry in Hst. apply (run_sig_rank _ _ _ Hst). intros _. cbn. lia. }
  assert (Hsigb : forall ev, e = SigShutdown ev ->
            broadcast_of (r_resp rsp) =
            Some (BShutdown (match d_sig d with None => Once ev | Some _ => Twice end))).
  { intros ev ->. eapply signal_broadcasts; eauto. }
  assert (Hb : cancel_request (broadcast_of (r_resp rsp)) = true).
  { destruct Hcause as [[ev ->]|Hann].
    - rewrite (Hsigb ev eq_refl). reflexivity.
    - eapply step_ann_broadcasts; eauto. }
  destruct (step_broadcast_no_unicast _ _ _ _ _ E Hb) as [Hnu Hnss].
  (* the step of the system *)
  unfold xsys_step in Hstep.
  destruct (sys_step true c (x_sys x) (SEvent e)) as [y'|] eqn:Es; [|discriminate].
  pose proof (prompt_inv_step c _ _ _ Hok Hinv Es) as Hinv'.
  inversion Hstep; subst x'; clear Hstep. cbn [x_sys x_smail].
  cbn [sys_step] in Es. rewrite Hd in Es |- *. cbn [dstep] in Es |- *. rewrite E in Es |- *.
  destruct (pstep c (y_ps (x_sys x)) e (r_hs rsp)) as [ps'|] eqn:Ep; [|discriminate].
  inversion Es; subst y'; clear Es. cbn [y_mail y_ps y_d] in *.
  unfold prompt_inv in Hinv'. cbn [y_d y_ps] in Hinv'. destruct Hinv' as [Hsim' _].
  split; [exact Hb|]. split; [exact Hsigb|]. split; [|split].
  - intros t Hl. unfold deliver. rewrite Hb, Hnu. cbn [andb].
    pose proof (sim_phase _ _ _ Hsim' t) as Hrel.
    destruct (ps_phase ps' t); cbn [unit_live] in Hl; try discriminate; cbn [phase_rel] in Hrel;
      destruct Hrel as ((past & Hl' & _) & _); rewrite Hl'; cbn [is_some]; lia.
  - intros t Hg. unfold deliver. rewrite Hb, Hnu. cbn [andb].
    pose proof (sim_phase _ _ _ Hsim' t) as Hrel.
    assert (Hno : lookup t (d_running d') = None).
    { destruct (ps_phase ps' t); cbn [unit_gone] in Hg; try discriminate; cbn [phase_rel] in Hrel;
        tauto. }
    rewrite Hno. cbn [is_some]. lia.
  - unfold script_deliver. rewrite Hb. cbn [andb]. rewrite (sim_script _ _ _ Hsim').
    destruct e; try (destruct (ps_srun ps'); reflexivity).
    exfalso. eapply Hnss; reflexivity.
Qed.

(* ------------------------------------------------------------------ example runs (for Properties/Run.v) *)

(* three selected tests (0 ungrouped; 1 and 2 in group 0 with max-threads 1; test 1 has a retry) and
   two unselected ones, test-threads = 2 *)
Definition ex_rcfg : rcfg :=
  mk_rcfg [SrcSel (mkitem 0 1 None); SrcUnsel 3; SrcSel (mkitem 1 1 (Some 0));
           SrcSel (mkitem 2 1 (Some 0)); SrcUnsel 4]
          (fun t => if t =? 1 then 2 else 1) 0 2 [(0, 1)].

Definition ex_schedule : list rlabel :=
  [RSched OpFill; REvent (Skipped 3); REvent (Started 0); REvent (Started 1);
   REvent (Finished 0 (p_att 1 1)); RSched (OpComplete 0);
   REvent (AttemptFailedWillRetry 1 (f_att 1 2)); REvent (RetryStarted 1 2 2);
   REvent (Finished 1 (p_att 2 2)); RSched (OpComplete 1);
   REvent (Started 2); REvent (Skipped 4); REvent (Finished 2 (l_att 1 1)); RSched (OpComplete 2)].

(* finding F7 in the composed model: test-threads 3, group 0 max-threads 2, a = 0 (group 0,
   weight 1), b = 1 (group 0, weight 2), c = 2 (no group, weight 2); a finishes before c *)
Definition f7_rcfg : rcfg :=
  mk_rcfg [SrcSel (mkitem 0 1 (Some 0)); SrcSel (mkitem 1 2 (Some 0)); SrcSel (mkitem 2 2 None)]
          (fun _ => 1) 0 3 [(0, 2)].

Definition f7_schedule : list rlabel :=
  [RSched OpFill; REvent (Started 0); REvent (Started 2); REvent (Finished 0 (p_att 1 1));
   RSched (OpComplete 0); REvent (Finished 2 (p_att 1 1)); RSched (OpComplete 2)].

(* what a closed example looks at *)
Definition run_summary (o : option rstate) : option (nat * nat * nat * bool * option (option cancel_reason)) :=
  match o with
  | None => None
  | Some s => Some (length (running (r_q s)), length (unstarted (r_q s)), r_nskip s, panicked (r_q s),
                    match r_d s with Live d => Some (d_cancel d) | Panicked => None end)
  end.

Definition ex_sys_cfg : cfg := mk_cfg [0; 1; 2] [] (fun t => if t =? 2 then 2 else 1) 1.

Definition ex_sys_schedule : list sevent :=
  [SEvent (ScriptStarted 0); SEvent (ScriptFinished 0 Pass); SEvent (Started 0); SEvent (Started 1);
   SEvent (Started 2); SEvent (AttemptFailedWillRetry 2 (f_att 1 2)); SEvent (Finished 1 (p_att 1 1))].

Definition mail_summary (o : option xsys) (ts : list tid) : option (list N * N) :=
  match o with Some x => Some (map (y_mail (x_sys x)) ts, x_smail x) | None => None end.

(* ------------------------------------------------------------------ the two projections of a run *)

Lemma rrun_projections r mf dbg xs s :
  cfg_ok (rc_cfg r) = true ->
  rrun r (rinit r mf dbg) xs = Some s ->
  wf_history (rc_cfg r) mf dbg (events_of xs) = true /\
  r_d s = final_state (Live (init_for (rc_cfg r) mf dbg)) (events_of xs) /\
  r_q s = fst (fq_run (fq_new (rc_gm r) (rc_grps r) (rc_items r)) (ops_of xs)).
Proof.
  intros Hok Hrun. destruct (rrun_wf r _ _ _ Hrun) as [Hwf Hfin]. cbn [rinit r_d r_ps] in Hwf, Hfin.
  split; [|split; [exact Hfin | exact (rrun_sched r _ _ _ Hrun)]].
  unfold wf_history, wf_protocol. apply andb_true_iff. split; [exact Hok | exact Hwf].
Qed.
