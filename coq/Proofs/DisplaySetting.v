(* Facts about Model/DisplaySetting.v. *)
From Coq Require Import Bool.
From NextestModel Require Import Model.DisplaySetting.

(* a forced value governs every event kind *)
Lemma forced_wins :
  forall k fs ff s f v,
    (if governs_success k then fs else ff) = Some v -> setting_for k fs ff s f = v.
Proof.
  intros k fs ff s f v H. unfold setting_for. destruct (governs_success k); rewrite H; reflexivity.
Qed.

(* without a forced value the per-test resolved one governs *)
Lemma resolved_when_not_forced :
  forall k fs ff s f,
    (if governs_success k then fs else ff) = None ->
    setting_for k fs ff s f = if governs_success k then s else f.
Proof.
  intros k fs ff s f H. unfold setting_for. destruct (governs_success k); rewrite H; reflexivity.
Qed.

(* a retried attempt and a finished failing test are governed by the same pair *)
Lemma retry_like_failure :
  forall fs ff s f, setting_for EkAttemptWillRetry fs ff s f = setting_for (EkFinished false) fs ff s f.
Proof. reflexivity. Qed.
