(* Facts about Model/EarlyReturn.v *)
From Coq Require Import NArith Bool.
From NextestModel Require Import Base.Tac Base.Str Model.CliRun Model.EarlyReturn.
Open Scope N_scope.

(* an empty test list does not short-circuit the run *)
Lemma empty_list_does_not_short_circuit :
  forall o, o_no_run o = false -> returns_before_running o 0 = false.
Proof. intros o H. exact H. Qed.

(* the size of the list is irrelevant *)
Lemma early_return_independent_of_list :
  forall o n m, returns_before_running o n = returns_before_running o m.
Proof. reflexivity. Qed.

(* a runner is built (Model/CliRun.v [runner_of]) exactly when the run does not leave early *)
Lemma runner_built_iff_no_early_return :
  forall o nc f pt pm ncpus n,
    runner_of o nc f pt pm ncpus = None <-> returns_before_running o n = true.
Proof.
  intros o nc f pt pm ncpus n. unfold runner_of, returns_before_running.
  destruct (o_no_run o); split; intros H; try reflexivity; discriminate.
Qed.
