(* C11: a unit can always finish. Whatever state it is in (any phase, any clocks paused or not,
   any pause table), once its process group is dead -- the environment's part: the kernel
   delivers the exit of a killed group -- and the leak timeout has passed or the pipes have closed,
   the unit reaches its final state after at most four more events, none of them a request. *)
From NextestModel Require Import Base.Str Base.Tac Model.Clocks Model.UnitTimers.
Open Scope N_scope.

Definition finishing (s : ustate) : list uevent :=
  [ChildExit false; ChildExit false; Tick (rem (lsl s)); FireLeak].

Lemma tick_all_rem r : r - N.min r r = 0.
Proof. rewrite N.min_id. apply N.sub_diag. Qed.

Lemma unit_can_always_finish tbl cfg s :
  lpaused (lsl s) = false -> (ph s = PExiting -> fds_done s = false) ->
  exists r, urun tbl cfg s (finishing s) = Ok r /\ ph (fst r) = PDone /\ snd r = [].
Proof.
  destruct s as [p c [rl bl] h to sl rp ex lk fd].
  unfold finishing. cbn [lsl rem lpaused mk ph fds_done]. intros -> Hwf.
  destruct p as [|[]| | |]; destruct fd; try (specialize (Hwf eq_refl); discriminate).
  all: cbn -[N.sub N.min N.eqb]; rewrite ?tick_all_rem; cbn -[N.sub N.min];
    eexists; split; [reflexivity|split; reflexivity].
Qed.

(* the two side conditions hold in every reachable state *)
Definition live_wf (s : ustate) : Prop :=
  lpaused (lsl s) = false /\ (ph s = PExiting -> fds_done s = false).

Lemma live_wf_init cfg : live_wf (uinit cfg).
Proof. split; [reflexivity|discriminate]. Qed.

Lemma wf_enter cfg s r m :
  lpaused (lsl s) = false -> ph s = PRunning ->
  live_wf (fst (enter_terminate cfg s r m)).
Proof.
  intros Hl Hp. unfold enter_terminate.
  destruct (reaped s).
  - destruct r; split; cbn [fst with_timed_out mk lsl ph]; try exact Hl; rewrite Hp; discriminate.
  - destruct (is_kill m).
    + destruct r; [destruct (grace cfg =? 0)|]; split;
        cbn [fst with_timed_out with_ph mk lsl ph]; try exact Hl; try rewrite Hp; discriminate.
    + split; cbn [fst with_ph with_ck mk lsl ph]; [exact Hl|discriminate].
Qed.

Lemma live_wf_step tbl cfg s e r : live_wf s -> ustep tbl cfg s e = Ok r -> live_wf (fst r).
Proof.
  intros [Hl Hx] H. unfold ustep in H.
  destruct (annotate cfg s e) as [ae|] eqn:Ha; [|injection H as <-; split; assumption].
  unfold ucore in H.
  destruct ae as [dt|w| | |ok| |q].
  - injection H as <-. unfold live_wf.
    cbn [fst with_lsl with_ck mk lsl ph fds_done].
    split; [|exact Hx]. destruct (ph s); try exact Hl.
    unfold slc_tick. rewrite Hl. reflexivity.
  - destruct (ph s) as [|x| | |] eqn:Hp; try (injection H as <-; split; [exact Hl|cbn [fst]; intros HH; apply Hx; congruence]).
    destruct w.
    + pose proof (wf_enter cfg (with_hits (with_slow s true) (hits s + 1)) TTimeout (timeout_method cfg)
                    Hl Hp) as Hw.
      destruct (enter_terminate cfg (with_hits (with_slow s true) (hits s + 1)) TTimeout
                  (timeout_method cfg)) as [s2 o2].
      injection H as <-. exact Hw.
    + injection H as <-. split; [exact Hl|cbn; rewrite Hp; discriminate].
  - destruct (ph s) as [|x| | |] eqn:Hp; try (injection H as <-; split; [exact Hl|cbn [fst]; intros HH; apply Hx; congruence]).
    all: try (injection H as <-; split; [destruct x; exact Hl|destruct x; discriminate]).
  - destruct (ph s) as [|x| | |] eqn:Hp; try (injection H as <-; split; [exact Hl|cbn [fst]; intros HH; apply Hx; congruence]).
    all: try (injection H as <-; split; [exact Hl|discriminate]).
  - destruct (ph s) as [|x| | |] eqn:Hp; try (injection H as <-; split; [exact Hl|cbn [fst]; intros HH; apply Hx; congruence]).
    all: try (injection H as <-; split; [exact Hl|]; unfold after_exit;
              cbn [fst with_ph with_reaped mk ph fds_done]; destruct (fds_done s); [discriminate|reflexivity]).
    all: try (injection H as <-; split; [destruct x; exact Hl|destruct x; discriminate]).
  - destruct (ph s) as [|x| | |] eqn:Hp; try (injection H as <-; split; [exact Hl|cbn [fst]; intros HH; apply Hx; congruence]).
    all: try (injection H as <-; split; [exact Hl|cbn; rewrite ?Hp; discriminate]).
  - destruct (ph s) as [|x| | |] eqn:Hp; destruct q as [| |sr| |]; try (injection H as <-; split; [exact Hl|cbn [fst]; intros HH; apply Hx; congruence]);
      try (match type of H with obind (exec_arm ?rp ?c ?a) _ = _ =>
              destruct (exec_arm rp c a) as [x1|]; cbn [obind] in H; [|discriminate];
              injection H as <-; split; [exact Hl|cbn [fst with_ck mk ph fds_done]; rewrite Hp; discriminate]
            end);
      try (match type of H with obind (exec_arm ?rp ?c ?a) _ = _ =>
              destruct (exec_arm rp c a) as [x1|]; cbn [obind] in H; [|discriminate];
              injection H as <-; split; [exact Hl|cbn [fst with_ck mk ph fds_done]; intros _; apply Hx; reflexivity]
            end).
    all: try (injection H as <-; apply wf_enter; assumption).
    all: try (injection H as <-; split; [destruct x; exact Hl|destruct x; discriminate]).
Qed.

Lemma live_wf_run tbl cfg : forall es s r, live_wf s -> urun tbl cfg s es = Ok r -> live_wf (fst r).
Proof.
  induction es as [|e es IH]; intros s r Hw H; cbn [urun] in H.
  - injection H as <-. exact Hw.
  - destruct (ustep tbl cfg s e) as [r1|] eqn:E1; cbn [obind] in H; [|discriminate].
    destruct (urun tbl cfg (fst r1) es) as [r2|] eqn:E2; cbn [obind] in H; [|discriminate].
    injection H as <-. cbn [fst]. eapply IH; [|exact E2]. eapply live_wf_step; eassumption.
Qed.

(* from every state reachable by any event sequence the unit can finish *)
Theorem reachable_can_finish tbl cfg es r :
  urun tbl cfg (uinit cfg) es = Ok r ->
  exists r', urun tbl cfg (fst r) (finishing (fst r)) = Ok r' /\ ph (fst r') = PDone /\ snd r' = [].
Proof.
  intros H. destruct (live_wf_run tbl cfg es (uinit cfg) r (live_wf_init cfg) H) as [Hl Hx].
  apply unit_can_always_finish; assumption.
Qed.
