(* Facts about Model/EnvOrder.v: with user / build sources applied before nextest's own, nextest's value wins. *)
From Coq Require Import List NArith Bool Lia.
From NextestModel Require Import Model.EnvOrder.
Import ListNotations.
Open Scope N_scope.

Lemma winner_in : forall k ws s, winner k ws = Some s -> In (k, s) ws.
Proof.
  induction ws as [|[k' s'] r IH]; intros s H; [discriminate|]. cbn [winner] in H.
  destruct (winner k r) as [x|] eqn:W.
  - inversion H; subst. right. apply IH. reflexivity.
  - destruct (k =? k') eqn:E; [|discriminate]. apply N.eqb_eq in E. inversion H; subst. left. reflexivity.
Qed.

Lemma user_before_nextest_tail : forall s l, user_before_nextest (s :: l) = true -> user_before_nextest l = true.
Proof. intros [] l H; cbn [user_before_nextest] in H; try exact H. apply andb_true_iff in H. exact (proj2 H). Qed.

Lemma no_user_after :
  forall (k : N) (ws : list write), existsb is_user (map snd ws) = false -> In (k, SrcUser) ws -> False.
Proof.
  intros k ws H Hin. assert (existsb is_user (map snd ws) = true); [|congruence].
  apply existsb_exists. exists SrcUser. split; [|reflexivity]. apply in_map_iff. exists (k, SrcUser). split; [reflexivity | exact Hin].
Qed.

(* a variable nextest provides has nextest's value in the process, although a user / build source wrote it too *)
Theorem nextest_value_wins :
  forall k ws,
    user_before_nextest (map snd ws) = true ->
    In (k, SrcNextest) ws ->
    (forall s, In (k, s) ws -> s = SrcUser \/ s = SrcNextest) ->
    winner k ws = Some SrcNextest.
Proof.
  induction ws as [|[k' s'] r IH]; intros Hord Hin Hsrc; [destruct Hin|].
  cbn [winner]. cbn [map snd] in Hord.
  assert (Hr : forall s, In (k, s) r -> s = SrcUser \/ s = SrcNextest) by (intros s Hs; apply Hsrc; right; exact Hs).
  destruct (winner k r) as [x|] eqn:W.
  - destruct Hin as [Hhd|Hin].
    + inversion Hhd; subst. cbn [user_before_nextest] in Hord. apply andb_true_iff in Hord. destruct Hord as [Hnu _].
      apply negb_true_iff in Hnu. pose proof (winner_in _ _ _ W) as Hx.
      destruct (Hr x Hx) as [->| ->]; [exfalso; exact (no_user_after k r Hnu Hx) | reflexivity].
    + exact (IH (user_before_nextest_tail _ _ Hord) Hin Hr).
  - destruct Hin as [Hhd|Hin].
    + inversion Hhd; subst. rewrite N.eqb_refl. reflexivity.
    + pose proof (IH (user_before_nextest_tail _ _ Hord) Hin Hr) as H0. discriminate H0.
Qed.

(* the order matters: with a build source after nextest's own, the build's value wins *)
Example build_after_nextest_loses :
  user_before_nextest [SrcNextest; SrcUser] = false /\ winner 7 [(7, SrcNextest); (7, SrcUser)] = Some SrcUser.
Proof. split; reflexivity. Qed.
