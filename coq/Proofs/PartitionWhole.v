(* C13: the whole two-pass listing TestList::process_output (per-binary sort, skip of the names of
   the ignored listing in the first pass, BTreeMap inserts) -- not a single pass. *)
From Coq Require Import Sorting.Sorted.
From NextestModel Require Import Base.Str Model.Xxh64 Model.Filter Model.Partition.
From NextestModel Require Import Base.Tac Proofs.StrFacts Proofs.Partition.
Open Scope N_scope.

(* ------------------------------------------------------------------ the order on names *)

Definition slt (a b : str) : Prop := str_cmp a b = Lt.

Lemma str_cmp_refl a : str_cmp a a = Eq.
Proof. induction a as [|x a IH]; cbn [str_cmp]; [reflexivity|]. rewrite N.compare_refl. exact IH. Qed.

Lemma str_cmp_eq a b : str_cmp a b = Eq -> a = b.
Proof.
  revert b; induction a as [|x a IH]; intros [|y b]; cbn [str_cmp]; try discriminate; [reflexivity|].
  destruct (N.compare_spec x y) as [E|E|E]; try discriminate.
  intros H. subst y. f_equal. apply IH, H.
Qed.

Lemma str_cmp_opp a b : str_cmp b a = CompOpp (str_cmp a b).
Proof.
  revert b; induction a as [|x a IH]; intros [|y b]; cbn [str_cmp CompOpp]; try reflexivity.
  rewrite (N.compare_antisym x y).
  destruct (x ?= y); cbn [CompOpp]; [apply IH|reflexivity|reflexivity].
Qed.

Lemma slt_trans a b c : slt a b -> slt b c -> slt a c.
Proof.
  unfold slt. revert b c; induction a as [|x a IH]; intros [|y b] [|z c]; cbn [str_cmp];
    try discriminate; try reflexivity.
  destruct (N.compare_spec x y) as [E1|E1|E1]; try discriminate;
    destruct (N.compare_spec y z) as [E2|E2|E2]; try discriminate; intros H1 H2.
  - subst. rewrite N.compare_refl. eapply IH; eassumption.
  - subst. destruct (N.compare_spec y z); try lia; reflexivity.
  - subst. destruct (N.compare_spec x z); try lia; reflexivity.
  - destruct (N.compare_spec x z); try lia; reflexivity.
Qed.

Lemma slt_irrefl a : ~ slt a a.
Proof. unfold slt. rewrite str_cmp_refl. discriminate. Qed.

Lemma slt_asym a b : slt a b -> ~ slt b a.
Proof. intros H1 H2. exact (slt_irrefl a (slt_trans _ _ _ H1 H2)). Qed.

Lemma str_leb_false_slt x y : str_leb x y = false -> slt y x.
Proof.
  unfold str_leb, slt. rewrite (str_cmp_opp x y).
  destruct (str_cmp x y); cbn [CompOpp]; try discriminate. reflexivity.
Qed.

Lemma str_leb_true_slt x y : str_leb x y = true -> x <> y -> slt x y.
Proof.
  unfold str_leb, slt. destruct (str_cmp x y) eqn:E; try discriminate; [|reflexivity].
  intros _ H. exfalso. apply H, str_cmp_eq, E.
Qed.

Definition str_eq_dec (a b : str) : {a = b} + {a <> b} := list_eq_dec N.eq_dec a b.

(* strictly increasing lists of names *)
Definition ssorted (l : list str) : Prop := StronglySorted slt l.

Lemma ssorted_cons x l : ssorted (x :: l) <-> ssorted l /\ Forall (slt x) l.
Proof.
  split.
  - intros H. inversion H; subst. split; assumption.
  - intros [H1 H2]. constructor; assumption.
Qed.

Lemma ssorted_NoDup l : ssorted l -> NoDup l.
Proof.
  induction l as [|x l IH]; intros H; [constructor|].
  apply ssorted_cons in H. destruct H as [H1 H2]. constructor; [|apply IH, H1].
  intros Hin. rewrite Forall_forall in H2. exact (slt_irrefl x (H2 x Hin)).
Qed.

Lemma ssorted_filter (P : str -> bool) l : ssorted l -> ssorted (filter P l).
Proof.
  induction l as [|x l IH]; intros H; cbn [filter]; [constructor|].
  apply ssorted_cons in H. destruct H as [H1 H2].
  destruct (P x); [|apply IH, H1].
  apply ssorted_cons. split; [apply IH, H1|].
  rewrite Forall_forall in *. intros y Hy. apply filter_In in Hy. apply H2, Hy.
Qed.

(* a strictly increasing list is determined by its elements *)
Lemma ssorted_unique l1 : forall l2,
  ssorted l1 -> ssorted l2 -> (forall x, In x l1 <-> In x l2) -> l1 = l2.
Proof.
  induction l1 as [|a l1 IH]; intros [|b l2] H1 H2 Hin.
  - reflexivity.
  - exfalso. apply (proj2 (Hin b)). left; reflexivity.
  - exfalso. apply (proj1 (Hin a)). left; reflexivity.
  - apply ssorted_cons in H1. apply ssorted_cons in H2.
    destruct H1 as [S1 F1], H2 as [S2 F2]. rewrite Forall_forall in F1, F2.
    assert (Eab : a = b).
    { destruct (proj1 (Hin a) (or_introl eq_refl)) as [E|Ha]; [symmetry; exact E|].
      destruct (proj2 (Hin b) (or_introl eq_refl)) as [E|Hb]; [exact E|].
      exfalso. exact (slt_asym _ _ (F1 b Hb) (F2 a Ha)). }
    subst b. f_equal. apply IH; try assumption.
    intros x. split; intros Hx.
    + destruct (proj1 (Hin x) (or_intror Hx)) as [E|H]; [|exact H].
      subst x. exfalso. exact (slt_irrefl a (F1 a Hx)).
    + destruct (proj2 (Hin x) (or_intror Hx)) as [E|H]; [|exact H].
      subst x. exfalso. exact (slt_irrefl a (F2 a Hx)).
Qed.

(* ------------------------------------------------------------------ sort_str *)

Lemma insert_str_In x y l : In x (insert_str y l) <-> x = y \/ In x l.
Proof.
  induction l as [|z l IH]; cbn [insert_str In]; [intuition congruence|].
  destruct (str_leb y z); cbn [In]; [intuition congruence|]. rewrite IH. intuition congruence.
Qed.

Lemma sort_str_In x l : In x (sort_str l) <-> In x l.
Proof.
  unfold sort_str. induction l as [|y l IH]; cbn [fold_right In]; [tauto|].
  rewrite insert_str_In, IH. split; (intros [H|H]; [left; symmetry; exact H|right; exact H]).
Qed.

Lemma insert_str_ssorted y l : ssorted l -> ~ In y l -> ssorted (insert_str y l).
Proof.
  induction l as [|z l IH]; intros Hs Hn; cbn [insert_str].
  - repeat constructor.
  - apply ssorted_cons in Hs. destruct Hs as [S F].
    destruct (str_leb y z) eqn:E.
    + assert (Hyz : slt y z).
      { apply str_leb_true_slt; [exact E|]. intros ->. apply Hn. left; reflexivity. }
      apply ssorted_cons. split; [apply ssorted_cons; split; assumption|].
      constructor; [exact Hyz|].
      rewrite Forall_forall in *. intros w Hw. eapply slt_trans; [exact Hyz|apply F, Hw].
    + apply ssorted_cons. split.
      * apply IH; [exact S|]. intros H. apply Hn. right; exact H.
      * rewrite Forall_forall in *. intros w Hw. apply insert_str_In in Hw.
        destruct Hw as [->|Hw]; [apply str_leb_false_slt, E|apply F, Hw].
Qed.

Lemma sort_str_ssorted l : NoDup l -> ssorted (sort_str l).
Proof.
  unfold sort_str. induction l as [|y l IH]; intros H; cbn [fold_right]; [constructor|].
  inversion H; subst. apply insert_str_ssorted; [apply IH; assumption|].
  fold (sort_str l). rewrite sort_str_In. assumption.
Qed.

(* the two name lists process_output walks, described without reference to the implementation *)
Lemma first_pass_names_In nm ni ig :
  In nm (first_pass_names ni ig) <-> In nm ni /\ ~ In nm ig.
Proof.
  unfold first_pass_names. rewrite filter_In, sort_str_In, negb_true_iff.
  rewrite <- (sort_str_In nm ig), <- (mem_str_In nm (sort_str ig)).
  destruct (mem_str nm (sort_str ig)).
  - split; intros [_ H]; [discriminate H|exfalso; apply H; reflexivity].
  - split; intros [H _]; (split; [exact H|]); [discriminate|reflexivity].
Qed.

Lemma class_names_In nm c ni ig :
  In nm (class_names c ni ig) <-> if c then In nm ig else In nm ni /\ ~ In nm ig.
Proof.
  destruct c; cbn [class_names]; [apply sort_str_In|apply first_pass_names_In].
Qed.

Lemma class_names_ssorted c ni ig : NoDup ni -> NoDup ig -> ssorted (class_names c ni ig).
Proof.
  intros H1 H2. destruct c; cbn [class_names]; [apply sort_str_ssorted, H2|].
  apply ssorted_filter, sort_str_ssorted, H1.
Qed.

Lemma class_names_disjoint nm ni ig :
  In nm (class_names false ni ig) -> In nm (class_names true ni ig) -> False.
Proof. rewrite !class_names_In. tauto. Qed.

(* ------------------------------------------------------------------ BTreeMap::insert *)

Definition keys (l : list tcase) : list str := map fst l.
Definition ksorted (l : list tcase) : Prop := ssorted (keys l).

Lemma upsert_keys_In k m e : In k (keys (upsert m e)) <-> k = fst e \/ In k (keys m).
Proof.
  unfold keys. induction m as [|[k' v] m IH]; cbn [upsert map In]; [intuition congruence|].
  destruct (str_cmp (fst e) k') eqn:E; cbn [map In fst].
  - apply str_cmp_eq in E. subst k'. intuition congruence.
  - intuition congruence.
  - rewrite IH. intuition congruence.
Qed.

Lemma upsert_ksorted m e : ksorted m -> ksorted (upsert m e).
Proof.
  unfold ksorted. induction m as [|[k v] m IH]; intros H; cbn [upsert].
  - repeat constructor.
  - cbn [keys map fst] in H. apply ssorted_cons in H. destruct H as [S F].
    destruct (str_cmp (fst e) k) eqn:E.
    + apply str_cmp_eq in E. cbn [keys map fst]. rewrite E. apply ssorted_cons. split; assumption.
    + cbn [keys map fst]. apply ssorted_cons. split; [apply ssorted_cons; split; assumption|].
      constructor; [exact E|]. rewrite Forall_forall in *. intros w Hw.
      eapply slt_trans; [exact E|apply F, Hw].
    + cbn [keys map fst]. apply ssorted_cons. split; [apply IH, S|].
      rewrite Forall_forall in *. intros w Hw. apply upsert_keys_In in Hw.
      destruct Hw as [->|Hw]; [|apply F, Hw].
      unfold slt. rewrite (str_cmp_opp (fst e) k), E. reflexivity.
Qed.

(* the new entry replaces an entry with the same key and nothing else changes *)
Lemma upsert_In m e x :
  ksorted m -> (In x (upsert m e) <-> x = e \/ (In x m /\ fst x <> fst e)).
Proof.
  unfold ksorted. induction m as [|[k v] m IH]; intros H; cbn [upsert In].
  - intuition congruence.
  - cbn [keys map fst] in H. apply ssorted_cons in H. destruct H as [S F].
    rewrite Forall_forall in F.
    assert (Hkm : forall y, In y m -> slt k (fst y)).
    { intros y Hy. apply F. unfold keys. apply in_map, Hy. }
    destruct (str_cmp (fst e) k) eqn:E.
    + apply str_cmp_eq in E. cbn [In]. split.
      * intros [H|H]; [left; congruence|]. right. split; [right; exact H|].
        intros Hx. pose proof (Hkm x H) as Hl. rewrite Hx, E in Hl. exact (slt_irrefl _ Hl).
      * intros [H|[[H|H] Hne]]; [left; congruence| |right; exact H].
        exfalso. apply Hne. subst x. cbn [fst]. congruence.
    + cbn [In]. split.
      * intros [H|[H|H]]; [left; congruence| |].
        -- right. split; [left; exact H|]. subst x. cbn [fst]. intros Hx.
           rewrite <- Hx in E. exact (slt_irrefl _ E).
        -- right. split; [right; exact H|]. intros Hx.
           pose proof (Hkm x H) as Hl. rewrite Hx in Hl. exact (slt_asym _ _ E Hl).
      * intros [H|[[H|H] _]]; [left; congruence|right; left; exact H|right; right; exact H].
    + cbn [In]. rewrite (IH S). split.
      * intros [H|[H|[H Hne]]]; [|left; exact H|right; split; [right; exact H|exact Hne]].
        right. split; [left; exact H|]. subst x. cbn [fst]. intros Hx.
        rewrite <- Hx, str_cmp_refl in E. discriminate E.
      * intros [H|[[H|H] Hne]]; [right; left; exact H|left; exact H|right; right; split; assumption].
Qed.

(* a sequence of inserts: for each key the last insert wins, older entries survive only under
   keys that are not inserted *)
Fixpoint last_occ (x : tcase) (l : list tcase) : Prop :=
  match l with
  | [] => False
  | e :: l' => last_occ x l' \/ (x = e /\ ~ In (fst x) (keys l'))
  end.

Lemma fold_upsert_ksorted l : forall m, ksorted m -> ksorted (fold_left upsert l m).
Proof.
  induction l as [|e l IH]; intros m H; cbn [fold_left]; [exact H|]. apply IH, upsert_ksorted, H.
Qed.

Lemma fold_upsert_In l x : forall m,
  ksorted m ->
  (In x (fold_left upsert l m) <-> last_occ x l \/ (In x m /\ ~ In (fst x) (keys l))).
Proof.
  induction l as [|e l IH]; intros m H; cbn [fold_left last_occ keys map In].
  - tauto.
  - rewrite (IH (upsert m e) (upsert_ksorted m e H)), (upsert_In m e x H).
    fold (keys l). split.
    + intros [H1|[[H1|[H1 H2]] H3]]; [left; left; exact H1|left; right; split; assumption|].
      right. split; [exact H1|]. intros [H4|H4]; [apply H2; symmetry; exact H4|exact (H3 H4)].
    + intros [[H1|[H1 H2]]|[H1 H2]]; [left; exact H1|right; split; [left; exact H1|exact H2]|].
      right. split; [right; split; [exact H1|]|].
      * intros H3. apply H2. left. symmetry. exact H3.
      * intros H3. apply H2. right. exact H3.
Qed.

(* when equal keys carry equal entries, "last occurrence" is plain membership *)
Definition functional (l : list tcase) : Prop :=
  forall x y, In x l -> In y l -> fst x = fst y -> x = y.

Lemma last_occ_In x l : last_occ x l -> In x l.
Proof.
  induction l as [|e l IH]; cbn [last_occ In]; [tauto|].
  intros [H|[H _]]; [right; apply IH, H|left; symmetry; exact H].
Qed.

Lemma functional_last_occ x l : functional l -> (last_occ x l <-> In x l).
Proof.
  intros Hf. split; [apply last_occ_In|].
  induction l as [|e l IH]; cbn [last_occ In]; [tauto|].
  assert (Hf' : functional l).
  { intros a b Ha Hb. apply Hf; right; assumption. }
  intros Hin.
  destruct (in_dec str_eq_dec (fst x) (keys l)) as [Hk|Hk].
  - left. apply (IH Hf'). unfold keys in Hk. apply in_map_iff in Hk. destruct Hk as [y [Hy1 Hy2]].
    assert (y = x).
    { apply Hf; [right; exact Hy2|exact Hin|exact Hy1]. }
    subst y. exact Hy2.
  - destruct Hin as [Hin|Hin].
    + right. split; [symmetry; exact Hin|exact Hk].
    + exfalso. apply Hk. unfold keys. apply in_map, Hin.
Qed.

Lemma NoDup_keys_functional l : NoDup (keys l) -> functional l.
Proof.
  unfold keys. induction l as [|e l IH]; intros H x y Hx Hy Hxy; [destruct Hx|].
  inversion H as [|? ? Hn Hd]; subst.
  destruct Hx as [Hx|Hx], Hy as [Hy|Hy].
  - congruence.
  - subst x. exfalso. apply Hn. rewrite Hxy. apply in_map, Hy.
  - subst y. exfalso. apply Hn. rewrite <- Hxy. apply in_map, Hx.
  - apply IH; assumption.
Qed.

(* ------------------------------------------------------------------ one pass *)

Lemma pass_keys pb pre ign names : forall cur, keys (pass pb pre ign names cur) = names.
Proof.
  unfold keys. induction names as [|nm rest IH]; intros cur; cbn [pass map]; [reflexivity|].
  destruct (filter_match (pre nm ign) pb cur nm) as [fm cur']. cbn [map fst]. rewrite IH. reflexivity.
Qed.

Lemma pass_class pb pre ign names : forall cur x,
  In x (pass pb pre ign names cur) -> fst (snd x) = ign.
Proof.
  induction names as [|nm rest IH]; intros cur x; cbn [pass In]; [tauto|].
  destruct (filter_match (pre nm ign) pb cur nm) as [fm cur']. cbn [In].
  intros [H|H]; [subst x; reflexivity|eapply IH, H].
Qed.

(* ------------------------------------------------------------------ selections of a listing *)

Lemma matched_In nm l : In nm (matched l) <-> exists c, In (nm, (c, Matches)) l.
Proof.
  unfold matched. rewrite in_map_iff. split.
  - intros [[k [c fm]] [H1 H2]]. apply filter_In in H2. destruct H2 as [H2 H3].
    cbn [fst snd] in *. subst k. destruct fm; [|discriminate]. exists c. exact H2.
  - intros [c H]. exists (nm, (c, Matches)). split; [reflexivity|].
    apply filter_In. split; [exact H|reflexivity].
Qed.

Lemma matched_class_In nm c l : In nm (matched_class c l) <-> In (nm, (c, Matches)) l.
Proof.
  unfold matched_class. rewrite in_map_iff. split.
  - intros [[k [c' fm]] [H1 H2]]. apply filter_In in H2. destruct H2 as [H2 H3].
    cbn [fst snd] in *. subst k. destruct fm; [|discriminate].
    apply Bool.eqb_prop in H3. subst c'. exact H2.
  - intros H. exists (nm, (c, Matches)). split; [reflexivity|].
    apply filter_In. split; [exact H|]. cbn [fst snd]. apply Bool.eqb_reflx.
Qed.

Lemma matched_split_In nm l :
  In nm (matched l) <-> In nm (matched_class false l) \/ In nm (matched_class true l).
Proof.
  rewrite matched_In, !matched_class_In. split.
  - intros [[|] H]; [right|left]; exact H.
  - intros [H|H]; eexists; exact H.
Qed.

Lemma matched_split_length l :
  length (matched l) = (length (matched_class false l) + length (matched_class true l))%nat.
Proof.
  unfold matched, matched_class. rewrite !map_length.
  induction l as [|[k [c fm]] l IH]; cbn [filter snd fst]; [reflexivity|].
  destruct fm; [|exact IH]. destruct c; cbn [Bool.eqb length]; lia.
Qed.

Lemma keys_filter_ssorted (P : tcase -> bool) l : ksorted l -> ssorted (keys (filter P l)).
Proof.
  unfold ksorted, keys. induction l as [|e l IH]; intros H; cbn [filter map]; [constructor|].
  cbn [map] in H. apply ssorted_cons in H. destruct H as [S F].
  destruct (P e); [|apply IH, S].
  cbn [map]. apply ssorted_cons. split; [apply IH, S|].
  rewrite Forall_forall in *. intros w Hw. apply F.
  apply in_map_iff in Hw. destruct Hw as [y [Hy1 Hy2]]. apply filter_In in Hy2.
  apply in_map_iff. exists y. tauto.
Qed.

Lemma matched_ssorted l : ksorted l -> ssorted (matched l).
Proof. apply keys_filter_ssorted. Qed.

Lemma matched_class_ssorted c l : ksorted l -> ssorted (matched_class c l).
Proof. apply keys_filter_ssorted. Qed.

(* ------------------------------------------------------------------ process_output *)

Section Whole.
  Variable pb : option pbuilder.
  Variable pre : str -> bool -> option mismatch.
  Variables ni ig : list str.

  Let p1 := pass pb pre false (class_names false ni ig) 0.
  Let p2 := pass pb pre true (class_names true ni ig) 0.

  Lemma process_output_unfold :
    process_output pb pre ni ig = fold_left upsert p2 (fold_left upsert p1 []).
  Proof. reflexivity. Qed.

  Lemma nil_ksorted : ksorted [].
  Proof. constructor. Qed.

  (* the result is a map: names strictly increasing *)
  Lemma process_output_ksorted : ksorted (process_output pb pre ni ig).
  Proof.
    rewrite process_output_unfold. apply fold_upsert_ksorted, fold_upsert_ksorted, nil_ksorted.
  Qed.

  (* its entries: the last call of either pass on that name (no name is seen by both passes) *)
  Lemma process_output_In x :
    In x (process_output pb pre ni ig) <-> last_occ x p1 \/ last_occ x p2.
  Proof.
    rewrite process_output_unfold.
    rewrite (fold_upsert_In p2 x _ (fold_upsert_ksorted p1 [] nil_ksorted)).
    rewrite (fold_upsert_In p1 x [] nil_ksorted). cbn [In].
    split.
    - intros [H|[[H|[[] _]] _]]; [right|left]; exact H.
    - intros [H|H]; [|left; exact H]. right. split; [left; exact H|].
      apply last_occ_In in H. intros Hk.
      assert (H1 : In (fst x) (class_names false ni ig)).
      { rewrite <- (pass_keys pb pre false (class_names false ni ig) 0). unfold keys.
        apply in_map, H. }
      unfold p2 in Hk. rewrite pass_keys in Hk.
      exact (class_names_disjoint _ _ _ H1 Hk).
  Qed.

  Hypothesis Hni : NoDup ni.
  Hypothesis Hig : NoDup ig.

  Lemma pass_functional c : functional (pass pb pre c (class_names c ni ig) 0).
  Proof.
    apply NoDup_keys_functional. rewrite pass_keys.
    apply ssorted_NoDup, class_names_ssorted; assumption.
  Qed.

  Lemma process_output_In_nodup x :
    In x (process_output pb pre ni ig) <-> In x p1 \/ In x p2.
  Proof.
    rewrite process_output_In.
    rewrite (functional_last_occ x p1 (pass_functional false)).
    rewrite (functional_last_occ x p2 (pass_functional true)). tauto.
  Qed.

  (* the selected names of each ignored class are exactly the names selected by the pass of that
     class, as lists (both sides in name order) *)
  Lemma process_output_classes c :
    matched_class c (process_output pb pre ni ig) =
    matched (pass pb pre c (class_names c ni ig) 0).
  Proof.
    apply ssorted_unique.
    - apply matched_class_ssorted, process_output_ksorted.
    - apply matched_ssorted. unfold ksorted. rewrite pass_keys.
      apply class_names_ssorted; assumption.
    - intros nm. rewrite matched_class_In, matched_In, process_output_In_nodup. split.
      + intros [H|H].
        * pose proof (pass_class _ _ _ _ _ _ H) as Hc. cbn [fst snd] in Hc. subst c.
          exists false. exact H.
        * pose proof (pass_class _ _ _ _ _ _ H) as Hc. cbn [fst snd] in Hc. subst c.
          exists true. exact H.
      + intros [c' H]. pose proof (pass_class _ _ _ _ _ _ H) as Hc. cbn [fst snd] in Hc. subst c'.
        destruct c; [right|left]; exact H.
  Qed.
End Whole.

(* ------------------------------------------------------------------ strides *)

Lemma stride_from_In i k n l x :
  In x (stride_from i k n l) <->
  exists j, nth_error l j = Some x /\ (i + N.of_nat j) mod n = k.
Proof.
  revert i; induction l as [|y l IH]; intros i; cbn [stride_from].
  - split; [intros []|]. intros [[|j] [H _]]; discriminate H.
  - assert (Hrec : In x (stride_from (i + 1) k n l) <->
                   exists j, nth_error (y :: l) (S j) = Some x /\ (i + N.of_nat (S j)) mod n = k).
    { rewrite IH. split; intros [j [H1 H2]]; exists j; (split; [exact H1|]);
        rewrite Nat2N.inj_succ in *; rewrite <- H2; f_equal; lia. }
    destruct (N.eqb_spec (i mod n) k) as [E|E].
    + cbn [In]. rewrite Hrec. split.
      * intros [H|[j H]]; [|exists (S j); exact H].
        exists O. cbn [nth_error]. split; [congruence|]. rewrite N.add_0_r. exact E.
      * intros [[|j] [H1 H2]]; [left; cbn [nth_error] in H1; congruence|].
        right. exists j. split; assumption.
    + rewrite Hrec. split.
      * intros [j H]. exists (S j). exact H.
      * intros [[|j] [H1 H2]]; [|exists j; split; assumption].
        exfalso. apply E. rewrite <- H2. f_equal. cbn. lia.
Qed.

Lemma stride_In k n l x :
  In x (stride k n l) <-> exists j, nth_error l j = Some x /\ N.of_nat j mod n = k.
Proof. unfold stride. rewrite stride_from_In. reflexivity. Qed.

Lemma stride_incl k n l x : In x (stride k n l) -> In x l.
Proof. rewrite stride_In. intros [j [H _]]. eapply nth_error_In, H. Qed.

Lemma stride_from_ssorted i k n l : ssorted l -> ssorted (stride_from i k n l).
Proof.
  revert i; induction l as [|y l IH]; intros i H; cbn [stride_from]; [constructor|].
  apply ssorted_cons in H. destruct H as [S F].
  destruct (i mod n =? k); [|apply IH, S].
  apply ssorted_cons. split; [apply IH, S|].
  rewrite Forall_forall in *. intros w Hw. apply F.
  apply stride_from_In in Hw. destruct Hw as [j [H _]]. eapply nth_error_In, H.
Qed.

(* each element of a duplicate-free list lies in exactly one of the n strides *)
Lemma stride_cover n l x :
  0 < n -> In x l -> exists k, k < n /\ In x (stride k n l).
Proof.
  intros Hn Hx. apply In_nth_error in Hx. destruct Hx as [j Hj].
  exists (N.of_nat j mod n). split; [apply N.mod_lt; lia|].
  apply stride_In. exists j. split; [exact Hj|reflexivity].
Qed.

Lemma stride_disjoint k1 k2 n l x :
  NoDup l -> In x (stride k1 n l) -> In x (stride k2 n l) -> k1 = k2.
Proof.
  intros Hd H1 H2. apply stride_In in H1. apply stride_In in H2.
  destruct H1 as [j1 [A1 B1]], H2 as [j2 [A2 B2]].
  assert (j1 = j2).
  { apply (proj1 (NoDup_nth_error l) Hd).
    - apply nth_error_Some. rewrite A1. discriminate.
    - congruence. }
  subst j2. congruence.
Qed.

Lemma stride_from_snoc i k n l x :
  stride_from i k n (l ++ [x]) =
  stride_from i k n l ++ (if (i + N.of_nat (length l)) mod n =? k then [x] else []).
Proof.
  revert i; induction l as [|y l IH]; intros i; cbn [app stride_from length].
  - rewrite N.add_0_r. destruct (i mod n =? k); reflexivity.
  - rewrite IH. replace (i + 1 + N.of_nat (length l)) with (i + N.of_nat (S (length l))) by lia.
    destruct (i mod n =? k); reflexivity.
Qed.

Lemma div_mod_step s n :
  0 < n ->
  (s mod n + 1 = n -> (s + 1) / n = s / n + 1 /\ (s + 1) mod n = 0) /\
  (s mod n + 1 <> n -> (s + 1) / n = s / n /\ (s + 1) mod n = s mod n + 1).
Proof.
  intros Hn.
  pose proof (N.div_mod s n ltac:(lia)) as Hs.
  pose proof (N.mod_lt s n ltac:(lia)) as Hr.
  remember (s / n) as q. remember (s mod n) as r.
  split; intros H.
  - assert (E : s + 1 = n * (q + 1) + 0) by (rewrite N.mul_add_distr_l; lia).
    split.
    + symmetry. apply (N.div_unique (s + 1) n (q + 1) 0); [lia|exact E].
    + symmetry. apply (N.mod_unique (s + 1) n (q + 1) 0); [lia|exact E].
  - assert (E : s + 1 = n * q + (r + 1)) by lia.
    split.
    + symmetry. apply (N.div_unique (s + 1) n q (r + 1)); [lia|exact E].
    + symmetry. apply (N.mod_unique (s + 1) n q (r + 1)); [lia|exact E].
Qed.

(* exact shard sizes: floor(len / n), plus one for the first (len mod n) shards *)
Lemma stride_length k n l :
  0 < n -> k < n ->
  N.of_nat (length (stride k n l)) =
  N.of_nat (length l) / n + (if k <? N.of_nat (length l) mod n then 1 else 0).
Proof.
  intros Hn Hk. unfold stride. induction l as [|x l IH] using rev_ind.
  - cbn [stride_from length]. rewrite N.div_0_l, N.mod_0_l by lia.
    destruct (N.ltb_spec k 0); lia.
  - rewrite stride_from_snoc, !app_length, !Nat2N.inj_add, IH. cbn [length]. rewrite N.add_0_l.
    set (s := N.of_nat (length l)).
    replace (s + N.of_nat 1) with (s + 1) by lia.
    destruct (div_mod_step s n Hn) as [D1 D2].
    pose proof (N.mod_lt s n ltac:(lia)) as Hr.
    destruct (N.eq_dec (s mod n + 1) n) as [E|E].
    + destruct (D1 E) as [-> ->].
      destruct (N.eqb_spec (s mod n) k); destruct (N.ltb_spec k (s mod n));
        destruct (N.ltb_spec k 0); cbn [length]; lia.
    + destruct (D2 E) as [-> ->].
      destruct (N.eqb_spec (s mod n) k); destruct (N.ltb_spec k (s mod n));
        destruct (N.ltb_spec k (s mod n + 1)); cbn [length]; lia.
Qed.

(* ------------------------------------------------------------------ the three kinds of pass *)

Lemma valid_shards_iff m n : valid_shards m n = true <-> 1 <= m <= n.
Proof. unfold valid_shards. rewrite andb_true_iff, !N.leb_le. tauto. Qed.

Lemma matched_pass_count_stride pre ign m n names :
  0 < n ->
  matched (pass (Some (mkpb PCount m n)) pre ign names 0) =
  stride (m - 1) n (accepted pre ign names).
Proof.
  intros Hn. rewrite pass_count_eq by assumption. rewrite matched_pass_count.
  unfold stride. rewrite stride_from_c by assumption. rewrite N.mod_0_l by lia. reflexivity.
Qed.

Definition none_verdict (pre : str -> bool -> option mismatch) (ign : bool) (nm : str) : fmatch :=
  match pre nm ign with Some r => Mismatch r | None => Matches end.

Lemma pass_none_map pre ign names cur :
  pass None pre ign names cur = map (fun nm => (nm, (ign, none_verdict pre ign nm))) names.
Proof.
  revert cur; induction names as [|nm rest IH]; intros cur; cbn [pass map]; [reflexivity|].
  unfold filter_match, none_verdict. destruct (pre nm ign); rewrite IH; reflexivity.
Qed.

Lemma matched_map_verdict (v : str -> fmatch) ign names :
  matched (map (fun nm => (nm, (ign, v nm))) names) =
  filter (fun nm => match v nm with Matches => true | _ => false end) names.
Proof.
  unfold matched. induction names as [|nm rest IH]; cbn [map filter snd]; [reflexivity|].
  destruct (v nm); cbn [map fst]; [f_equal|]; exact IH.
Qed.

Lemma matched_pass_none pre ign names cur :
  matched (pass None pre ign names cur) = accepted pre ign names.
Proof.
  rewrite pass_none_map, matched_map_verdict. unfold accepted, none_verdict.
  apply filter_ext. intros nm. destruct (pre nm ign); reflexivity.
Qed.

(* hash shard of a name, 1-based: no subtraction *)
Definition hash_shard (n : N) (nm : str) : N := xxh64 (utf8 nm) 0 mod n + 1.

Lemma hash_verdict_valid pre ign m n nm :
  1 <= m ->
  hash_verdict pre ign m n nm =
  match pre nm ign with
  | Some r => Mismatch r
  | None => if hash_shard n nm =? m then Matches else Mismatch MPartition
  end.
Proof.
  intros Hm. unfold hash_verdict, hash_shard. destruct (pre nm ign); [reflexivity|].
  destruct (N.eqb_spec (xxh64 (utf8 nm) 0 mod n) (m - 1));
    destruct (N.eqb_spec (xxh64 (utf8 nm) 0 mod n + 1) m); try reflexivity; lia.
Qed.

Lemma matched_pass_hash pre ign m n names cur :
  1 <= m ->
  matched (pass (Some (mkpb PHash m n)) pre ign names cur) =
  filter (fun nm => hash_shard n nm =? m) (accepted pre ign names).
Proof.
  intros Hm. rewrite pass_hash_map, matched_map_verdict. unfold accepted.
  induction names as [|nm rest IH]; cbn [filter]; [reflexivity|].
  rewrite (hash_verdict_valid pre ign m n nm Hm).
  destruct (pre nm ign); [exact IH|]. cbn [filter].
  destruct (hash_shard n nm =? m); [f_equal|]; exact IH.
Qed.

(* ------------------------------------------------------------------ the whole listing *)

(* no partition: the selection is, per class, the names passing the other filters *)
Lemma listing_none_classes pre ni ig c :
  NoDup ni -> NoDup ig ->
  matched_class c (process_output None pre ni ig) = accepted pre c (class_names c ni ig).
Proof. intros H1 H2. rewrite process_output_classes by assumption. apply matched_pass_none. Qed.

(* count: per class, every n-th of those, beginning with the m-th *)
Lemma listing_count_classes pre ni ig m n c :
  valid_shards m n = true -> NoDup ni -> NoDup ig ->
  matched_class c (process_output (Some (mkpb PCount m n)) pre ni ig) =
  stride (m - 1) n (matched_class c (process_output None pre ni ig)).
Proof.
  intros Hv H1 H2. apply valid_shards_iff in Hv.
  rewrite listing_none_classes, process_output_classes by assumption.
  apply matched_pass_count_stride. lia.
Qed.

(* hash: per class, those whose hash shard is m *)
Lemma listing_hash_classes pre ni ig m n c :
  valid_shards m n = true -> NoDup ni -> NoDup ig ->
  matched_class c (process_output (Some (mkpb PHash m n)) pre ni ig) =
  filter (fun nm => hash_shard n nm =? m) (matched_class c (process_output None pre ni ig)).
Proof.
  intros Hv H1 H2. apply valid_shards_iff in Hv.
  rewrite listing_none_classes, process_output_classes by assumption.
  apply matched_pass_hash. lia.
Qed.

(* stateless passes (no partition, hash): no assumption on duplicates is needed *)
Lemma map_pass_functional (v : str -> fmatch) ign names :
  functional (map (fun nm => (nm, (ign, v nm))) names).
Proof.
  intros x y Hx Hy Hxy. apply in_map_iff in Hx. apply in_map_iff in Hy.
  destruct Hx as [a [<- _]], Hy as [b [<- _]]. cbn [fst] in Hxy. subst b. reflexivity.
Qed.

Lemma process_output_stateless pb pre ni ig (v : bool -> str -> fmatch) :
  (forall ign names cur,
      pass pb pre ign names cur = map (fun nm => (nm, (ign, v ign nm))) names) ->
  forall nm c fm,
    In (nm, (c, fm)) (process_output pb pre ni ig) <->
    In nm (class_names c ni ig) /\ fm = v c nm.
Proof.
  intros Hp nm c fm. rewrite process_output_In, !Hp.
  rewrite !(functional_last_occ _ _ (map_pass_functional _ _ _)), !in_map_iff.
  split.
  - intros [[a [E H]]|[a [E H]]]; injection E as <- <- <-; split; try exact H; reflexivity.
  - intros [H ->]. destruct c; [right|left]; exists nm; split; try exact H; reflexivity.
Qed.

Lemma listing_none_In pre ni ig nm :
  In nm (matched (process_output None pre ni ig)) <->
  exists c, In nm (class_names c ni ig) /\ pre nm c = None.
Proof.
  rewrite matched_In. split; intros [c H]; exists c.
  - apply (process_output_stateless None pre ni ig (none_verdict pre) (pass_none_map pre)) in H.
    destruct H as [H1 H2]. split; [exact H1|]. unfold none_verdict in H2.
    destruct (pre nm c); [discriminate H2|reflexivity].
  - apply (process_output_stateless None pre ni ig (none_verdict pre) (pass_none_map pre)).
    destruct H as [H1 H2]. split; [exact H1|]. unfold none_verdict. rewrite H2. reflexivity.
Qed.

Lemma listing_hash_In pre ni ig m n nm :
  valid_shards m n = true ->
  (In nm (matched (process_output (Some (mkpb PHash m n)) pre ni ig)) <->
   In nm (matched (process_output None pre ni ig)) /\ hash_shard n nm = m).
Proof.
  intros Hv. apply valid_shards_iff in Hv. rewrite listing_none_In, matched_In.
  pose proof (process_output_stateless (Some (mkpb PHash m n)) pre ni ig
                (fun ign nm => hash_verdict pre ign m n nm)
                (fun ign names cur => pass_hash_map pre ign m n names cur)) as Hs.
  split.
  - intros [c H]. apply Hs in H. destruct H as [H1 H2].
    rewrite hash_verdict_valid in H2 by lia. destruct (pre nm c) eqn:E; [discriminate H2|].
    destruct (N.eqb_spec (hash_shard n nm) m) as [E2|E2]; [|discriminate H2].
    split; [exists c; split; [exact H1|exact E]|exact E2].
  - intros [[c [H1 H2]] H3]. exists c. apply Hs. split; [exact H1|].
    rewrite hash_verdict_valid by lia. rewrite H2, H3, N.eqb_refl. reflexivity.
Qed.

(* as lists, too: both sides are in name order *)
Lemma listing_hash_eq pre ni ig m n :
  valid_shards m n = true ->
  matched (process_output (Some (mkpb PHash m n)) pre ni ig) =
  filter (fun nm => hash_shard n nm =? m) (matched (process_output None pre ni ig)).
Proof.
  intros Hv. apply ssorted_unique.
  - apply matched_ssorted, process_output_ksorted.
  - apply ssorted_filter, matched_ssorted, process_output_ksorted.
  - intros nm. rewrite filter_In, (listing_hash_In pre ni ig m n nm Hv), N.eqb_eq. tauto.
Qed.

Lemma hash_shard_range n nm : 1 <= n -> 1 <= hash_shard n nm <= n.
Proof. intros Hn. unfold hash_shard. pose proof (N.mod_lt (xxh64 (utf8 nm) 0) n). lia. Qed.

(* ---- shards 1..n of the two-pass listing: pairwise disjoint, union = the unpartitioned
   selection *)
Lemma listing_shard_sub k pre ni ig m n nm :
  valid_shards m n = true -> NoDup ni -> NoDup ig ->
  In nm (matched (process_output (Some (mkpb k m n)) pre ni ig)) ->
  In nm (matched (process_output None pre ni ig)).
Proof.
  intros Hv H1 H2. destruct k.
  - rewrite !matched_split_In, !(listing_count_classes pre ni ig m n _ Hv H1 H2).
    intros [H|H]; [left|right]; eapply stride_incl, H.
  - rewrite (listing_hash_In pre ni ig m n nm Hv). tauto.
Qed.

Lemma listing_shard_cover k pre ni ig n nm :
  1 <= n -> NoDup ni -> NoDup ig ->
  In nm (matched (process_output None pre ni ig)) ->
  exists m, 1 <= m <= n /\ In nm (matched (process_output (Some (mkpb k m n)) pre ni ig)).
Proof.
  intros Hn H1 H2 Hin. destruct k.
  - apply matched_split_In in Hin.
    assert (Hc : exists c, In nm (matched_class c (process_output None pre ni ig))).
    { destruct Hin as [H|H]; [exists false|exists true]; exact H. }
    destruct Hc as [c Hc].
    destruct (stride_cover n _ nm ltac:(lia) Hc) as [j [Hj1 Hj2]].
    exists (j + 1). split; [lia|].
    assert (Hv : valid_shards (j + 1) n = true) by (apply valid_shards_iff; lia).
    apply matched_split_In.
    replace j with (j + 1 - 1) in Hj2 by lia.
    rewrite <- (listing_count_classes pre ni ig (j + 1) n c Hv H1 H2) in Hj2.
    destruct c; [right|left]; exact Hj2.
  - exists (hash_shard n nm). pose proof (hash_shard_range n nm Hn) as Hr. split; [exact Hr|].
    apply listing_hash_In; [apply valid_shards_iff; exact Hr|]. split; [exact Hin|reflexivity].
Qed.

Lemma matched_class_names pb pre ni ig c nm :
  NoDup ni -> NoDup ig ->
  In nm (matched_class c (process_output pb pre ni ig)) -> In nm (class_names c ni ig).
Proof.
  intros H1 H2. rewrite process_output_classes by assumption. rewrite matched_In.
  intros [c' H]. rewrite <- (pass_keys pb pre c (class_names c ni ig) 0).
  unfold keys. change nm with (fst (nm, (c', Matches))). apply in_map, H.
Qed.

Lemma listing_shard_disjoint k pre ni ig m1 m2 n nm :
  valid_shards m1 n = true -> valid_shards m2 n = true -> NoDup ni -> NoDup ig ->
  In nm (matched (process_output (Some (mkpb k m1 n)) pre ni ig)) ->
  In nm (matched (process_output (Some (mkpb k m2 n)) pre ni ig)) ->
  m1 = m2.
Proof.
  intros V1 V2 H1 H2. destruct k.
  - rewrite !matched_split_In. intros A B.
    assert (Hsame : exists c,
               In nm (matched_class c (process_output (Some (mkpb PCount m1 n)) pre ni ig)) /\
               In nm (matched_class c (process_output (Some (mkpb PCount m2 n)) pre ni ig))).
    { destruct A as [A|A], B as [B|B]; try (eexists; split; eassumption); exfalso;
        eapply (class_names_disjoint nm ni ig); eapply matched_class_names; eassumption. }
    destruct Hsame as [c [A' B']].
    rewrite (listing_count_classes pre ni ig m1 n c) in A' by assumption.
    rewrite (listing_count_classes pre ni ig m2 n c) in B' by assumption.
    assert (Hd : NoDup (matched_class c (process_output None pre ni ig))).
    { apply ssorted_NoDup, matched_class_ssorted, process_output_ksorted. }
    pose proof (stride_disjoint _ _ _ _ _ Hd A' B') as E.
    apply valid_shards_iff in V1. apply valid_shards_iff in V2. lia.
  - rewrite (listing_hash_In pre ni ig m1 n nm V1), (listing_hash_In pre ni ig m2 n nm V2).
    intros [_ A] [_ B]. congruence.
Qed.

(* ---- sizes of count shards *)
Definition class_total (pre : str -> bool -> option mismatch) (ni ig : list str) (c : bool) : N :=
  N.of_nat (length (accepted pre c (class_names c ni ig))).

Lemma listing_count_class_size pre ni ig m n c :
  valid_shards m n = true -> NoDup ni -> NoDup ig ->
  N.of_nat (length (matched_class c (process_output (Some (mkpb PCount m n)) pre ni ig))) =
  class_total pre ni ig c / n + (if m <=? class_total pre ni ig c mod n then 1 else 0).
Proof.
  intros Hv H1 H2. rewrite (listing_count_classes pre ni ig m n c Hv H1 H2).
  apply valid_shards_iff in Hv. rewrite stride_length by lia.
  rewrite listing_none_classes by assumption. fold (class_total pre ni ig c).
  destruct (N.ltb_spec (m - 1) (class_total pre ni ig c mod n));
    destruct (N.leb_spec m (class_total pre ni ig c mod n)); lia.
Qed.

Lemma listing_count_size pre ni ig m n :
  valid_shards m n = true -> NoDup ni -> NoDup ig ->
  N.of_nat (length (matched (process_output (Some (mkpb PCount m n)) pre ni ig))) =
  class_total pre ni ig false / n + (if m <=? class_total pre ni ig false mod n then 1 else 0) +
  (class_total pre ni ig true / n + (if m <=? class_total pre ni ig true mod n then 1 else 0)).
Proof.
  intros Hv H1 H2. rewrite matched_split_length, Nat2N.inj_add.
  rewrite !(listing_count_class_size pre ni ig m n _ Hv H1 H2). reflexivity.
Qed.

Lemma listing_count_class_balance pre ni ig m1 m2 n c :
  valid_shards m1 n = true -> valid_shards m2 n = true -> NoDup ni -> NoDup ig ->
  N.of_nat (length (matched_class c (process_output (Some (mkpb PCount m1 n)) pre ni ig))) <=
  N.of_nat (length (matched_class c (process_output (Some (mkpb PCount m2 n)) pre ni ig))) + 1.
Proof.
  intros V1 V2 H1 H2. rewrite !listing_count_class_size by assumption.
  repeat match goal with |- context [N.leb ?a ?b] => destruct (N.leb_spec a b) end; lia.
Qed.

Lemma listing_count_binary_balance2 pre ni ig m1 m2 n :
  valid_shards m1 n = true -> valid_shards m2 n = true -> NoDup ni -> NoDup ig ->
  N.of_nat (length (matched (process_output (Some (mkpb PCount m1 n)) pre ni ig))) <=
  N.of_nat (length (matched (process_output (Some (mkpb PCount m2 n)) pre ni ig))) + 2.
Proof.
  intros V1 V2 H1 H2. rewrite !listing_count_size by assumption.
  repeat match goal with |- context [N.leb ?a ?b] => destruct (N.leb_spec a b) end; lia.
Qed.

(* F21: the class of inputs on which the sizes of the count shards of one binary differ by two:
   both ignored classes have a remainder *)
Definition f21_class (pre : str -> bool -> option mismatch) (ni ig : list str) (n : N) : bool :=
  (1 <=? class_total pre ni ig false mod n) && (1 <=? class_total pre ni ig true mod n).

Lemma listing_count_binary_outside_known pre ni ig m1 m2 n :
  f21_class pre ni ig n = false ->
  valid_shards m1 n = true -> valid_shards m2 n = true -> NoDup ni -> NoDup ig ->
  N.of_nat (length (matched (process_output (Some (mkpb PCount m1 n)) pre ni ig))) <=
  N.of_nat (length (matched (process_output (Some (mkpb PCount m2 n)) pre ni ig))) + 1.
Proof.
  intros Hk V1 V2 H1 H2. rewrite !listing_count_size by assumption.
  unfold f21_class in Hk. apply andb_false_iff in Hk.
  apply valid_shards_iff in V1. apply valid_shards_iff in V2.
  rewrite !N.leb_gt in Hk.
  repeat match goal with |- context [N.leb ?a ?b] => destruct (N.leb_spec a b) end; lia.
Qed.

Lemma listing_count_binary_known pre ni ig n :
  1 <= n -> f21_class pre ni ig n = true -> NoDup ni -> NoDup ig ->
  valid_shards 1 n = true /\ valid_shards n n = true /\
  N.of_nat (length (matched (process_output (Some (mkpb PCount 1 n)) pre ni ig))) =
  N.of_nat (length (matched (process_output (Some (mkpb PCount n n)) pre ni ig))) + 2.
Proof.
  intros Hn Hk H1 H2. unfold f21_class in Hk. apply andb_true_iff in Hk.
  rewrite !N.leb_le in Hk. destruct Hk as [Ka Kb].
  assert (V1 : valid_shards 1 n = true) by (apply valid_shards_iff; lia).
  assert (Vn : valid_shards n n = true) by (apply valid_shards_iff; lia).
  split; [exact V1|]. split; [exact Vn|].
  rewrite !listing_count_size by assumption.
  pose proof (N.mod_lt (class_total pre ni ig false) n ltac:(lia)).
  pose proof (N.mod_lt (class_total pre ni ig true) n ltac:(lia)).
  repeat match goal with |- context [N.leb ?a ?b] => destruct (N.leb_spec a b) end; lia.
Qed.

(* when the other filters reject one ignored class altogether (--run-ignored default / only),
   the input is outside the class *)
Lemma accepted_none pre c names : (forall nm, pre nm c <> None) -> accepted pre c names = [].
Proof.
  intros H. unfold accepted. induction names as [|nm rest IH]; cbn [filter]; [reflexivity|].
  destruct (pre nm c) eqn:E; [exact IH|]. exfalso. exact (H nm E).
Qed.

Lemma f21_single_class pre ni ig n c0 :
  (forall nm, pre nm c0 <> None) -> f21_class pre ni ig n = false.
Proof.
  intros H. unfold f21_class, class_total. apply andb_false_iff.
  assert (Z : 1 <=? 0 mod n = false).
  { destruct n; [reflexivity|]. rewrite N.mod_0_l by discriminate. reflexivity. }
  destruct c0; [right|left]; rewrite (accepted_none pre _ _ H); exact Z.
Qed.

(* hash sharding never moves a test: its shard in any two listings that both select it when
   unpartitioned is the same *)
Lemma listing_hash_never_moves pre ni ig pre' ni' ig' m n nm :
  valid_shards m n = true ->
  In nm (matched (process_output None pre ni ig)) ->
  In nm (matched (process_output None pre' ni' ig')) ->
  (In nm (matched (process_output (Some (mkpb PHash m n)) pre ni ig)) <->
   In nm (matched (process_output (Some (mkpb PHash m n)) pre' ni' ig'))).
Proof. intros Hv H1 H2. rewrite !listing_hash_In by assumption. tauto. Qed.

(* ------------------------------------------------------------------ parse_shards *)

Lemma parse_u64_bound s v : parse_u64 s = Some v -> v < M64.
Proof.
  unfold parse_u64.
  destruct (match s with 43 :: r => r | _ => s end) as [|c body]; [discriminate|].
  destruct (parse_digits (c :: body) 0) as [w|]; [|discriminate].
  destruct (N.ltb_spec w M64) as [Hlt|Hge]; [|discriminate]. intros E. injection E as <-. exact Hlt.
Qed.

Lemma parse_shards_valid s m n :
  parse_shards s = Some (m, n) -> valid_shards m n = true /\ m < M64 /\ n < M64.
Proof.
  unfold parse_shards. destruct (split_slash s) as [[a b]|]; [|discriminate].
  destruct (parse_u64 a) as [x|] eqn:Ea; [|discriminate].
  destruct (parse_u64 b) as [y|] eqn:Eb; [|discriminate].
  destruct (valid_shards x y) eqn:Ev; [|discriminate].
  intros H. injection H as <- <-. split; [exact Ev|].
  split; eapply parse_u64_bound; eassumption.
Qed.

Lemma parse_partition_valid s pb :
  parse_partition s = Some pb ->
  valid_shards (pb_shard pb) (pb_total pb) = true /\ pb_shard pb < M64 /\ pb_total pb < M64.
Proof.
  unfold parse_partition. destruct (strip_prefix s_hash_colon s) as [r|].
  - destruct (parse_shards r) as [[m n]|] eqn:E; [|discriminate].
    intros H. injection H as <-. cbn [pb_shard pb_total]. apply (parse_shards_valid r), E.
  - destruct (strip_prefix s_count_colon s) as [r|]; [|discriminate].
    destruct (parse_shards r) as [[m n]|] eqn:E; [|discriminate].
    intros H. injection H as <-. cbn [pb_shard pb_total]. apply (parse_shards_valid r), E.
Qed.

Lemma parse_partition_total_nonzero s pb :
  parse_partition s = Some pb -> 1 <= pb_shard pb <= pb_total pb /\ pb_total pb <> 0.
Proof.
  intros H. apply parse_partition_valid in H. destruct H as [H _].
  apply valid_shards_iff in H. lia.
Qed.

(* ------------------------------------------------------------------ statements as exported *)

Lemma pass_hash_valid pre ign m n names cur :
  valid_shards m n = true ->
  pass (Some (mkpb PHash m n)) pre ign names cur =
  map (fun nm => (nm, (ign, match pre nm ign with
                            | Some r => Mismatch r
                            | None => if hash_shard n nm =? m then Matches
                                      else Mismatch MPartition
                            end))) names.
Proof.
  intros Hv. apply valid_shards_iff in Hv. rewrite pass_hash_map. apply map_ext. intros nm.
  rewrite hash_verdict_valid by lia. reflexivity.
Qed.

Lemma pass_count_stride_valid pre ign m n names :
  valid_shards m n = true ->
  matched (pass (Some (mkpb PCount m n)) pre ign names 0) =
  stride (m - 1) n (accepted pre ign names).
Proof. intros Hv. apply valid_shards_iff in Hv. apply matched_pass_count_stride. lia. Qed.

Lemma listing_shard_union k pre ni ig n nm :
  1 <= n -> NoDup ni -> NoDup ig ->
  (In nm (matched (process_output None pre ni ig)) <->
   exists m, 1 <= m <= n /\ In nm (matched (process_output (Some (mkpb k m n)) pre ni ig))).
Proof.
  intros Hn H1 H2. split.
  - apply listing_shard_cover; assumption.
  - intros [m [Hm H]]. eapply listing_shard_sub; [apply valid_shards_iff; exact Hm| | |exact H];
      assumption.
Qed.

Lemma class_names_spec c ni ig :
  (forall nm, In nm (class_names c ni ig) <-> if c then In nm ig else In nm ni /\ ~ In nm ig) /\
  (NoDup ni -> NoDup ig -> StronglySorted slt (class_names c ni ig)).
Proof. split; [intros nm; apply class_names_In|apply class_names_ssorted]. Qed.

Lemma matched_split l :
  (forall nm, In nm (matched l) <-> In nm (matched_class false l) \/ In nm (matched_class true l)) /\
  length (matched l) = (length (matched_class false l) + length (matched_class true l))%nat.
Proof. split; [intros nm; apply matched_split_In|apply matched_split_length]. Qed.
