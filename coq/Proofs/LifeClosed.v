(* The product closed over the request channels (Model/LifeClosed.v) refines the open product
   (Model/LifeProtocol.v, [yrun true]): every delivery the closed machine makes passes the
   environment check [lenv_ok] of Model/UnitLife.v, which is thereby DERIVED from the dispatcher
   model for units that run inside a system:
   * requests reach a unit in an order [env_ok] admits (Stop / Continue alternate, Once before
     Twice) -- Proofs/DispatcherEnv.v's step lemma, applied to the contents of the channel;
   * after a cancel request has been delivered to a unit, the RetryStarted handshake is refused:
     a cancel request is only ever sent when cancel_state is set, and cancel_state is never reset;
   * after a cancel request has been delivered to a unit no time passes in its retry delay: when
     the failed attempt is reported the dispatcher repeats OtherCancel to that unit (F10 repair), so
     the channel is not empty when the delay begins. *)
From NextestModel Require Import Base.Str Base.Tac Model.Backoff Proofs.Backoff Model.Clocks
  Model.UnitTimers Model.AbsTimers Model.UnitLife Proofs.Timers Proofs.UnitLife Proofs.DispatcherEnv.
From NextestModel Require Import Model.Result Model.Dispatcher Model.Unit Model.LifeProtocol
  Model.LifeClosed Proofs.Result Proofs.Dispatcher Proofs.Unit Proofs.LifeProtocol Proofs.LifeSystem.
Open Scope N_scope.

(* ------------------------------------------------------------ what a dispatcher step sends *)
Lemma req_of_bcast_eq b : req_of_bcast b = req_of_broadcast b.
Proof. destruct b as [|[e|]| | |]; reflexivity. Qed.

Lemma reqs_for_registered t d' rsp past :
  lookup t (d_running d') = Some past -> reqs_for t d' rsp = unit_reqs t rsp.
Proof.
  intros H. unfold reqs_for, unit_reqs. rewrite H. cbn [is_some].
  destruct (broadcast_of (r_resp rsp)) as [b|]; [rewrite req_of_bcast_eq|]; reflexivity.
Qed.

(* "a shutdown signal has been counted only if cancellation has begun" *)
Definition ginv (d : dstate) : Prop := d_cancel d = None -> d_sig d = None.

Lemma ginv_step d e d' evs rsp : ginv d -> dstep_live d e = (Live d', evs, rsp) -> ginv d'.
Proof. intros G H. exact (sig_implies_cancel_step d e (Live d') evs rsp G H). Qed.

Lemma cancel_stays d e d' evs rsp :
  dstep_live d e = (Live d', evs, rsp) -> d_cancel d <> None -> d_cancel d' <> None.
Proof.
  intros H Hc Hn. pose proof (step_cancel_monotone d e d' evs rsp H) as Hm.
  rewrite Hn in Hm. destruct (d_cancel d); [cbn in Hm; lia|apply Hc; reflexivity].
Qed.

(* a cancel request is only sent by a step after which cancel_state is set *)
Lemma cancel_req_sent t d e d' evs rsp :
  ginv d -> dstep_live d e = (Live d', evs, rsp) ->
  has_cancel (unit_reqs t rsp) = true -> d_cancel d' <> None.
Proof.
  intros G H Hc.
  assert (Hcases : (exists c, r_resp rsp = RCancel c) \/ (exists u, r_unit rsp = Some u)).
  { unfold unit_reqs, has_cancel in Hc. rewrite existsb_app in Hc. apply Bool.orb_true_iff in Hc as [Hc|Hc].
    - left. destruct (r_resp rsp) as [| | |i|c0]; cbn in Hc; try discriminate. eexists. reflexivity.
    - right. destruct (r_unit rsp) as [u|]; [eexists; reflexivity|discriminate]. }
  destruct Hcases as [[c0 Hr]|[u Hu]].
  - (* a cancel broadcast: begin_cancel has set the state, or it is the second signal *)
    assert (Hbc : forall d1 reason ev d2 evs2 r2,
              begin_cancel d1 reason ev = (d2, evs2, r2) -> r2 = RCancel c0 ->
              (ev = CeSignal Dispatcher.Twice -> d_cancel d1 <> None) -> d_cancel d2 <> None).
    { intros d1 reason ev d2 evs2 r2 Hb Hr2 Hs. unfold begin_cancel in Hb.
      destruct ev as [| |[q|]].
      1,2,3: destruct (cancel_lt (d_cancel d1) reason); injection Hb as <- _ <-;
        [cbn [d_cancel set_cancel]; discriminate|discriminate Hr2].
      injection Hb as <- _ _. apply Hs. reflexivity. }
    assert (Hfc : forall d1 pre cnd reason,
              finish_with_cancel d1 pre cnd reason CeTestFailure = (Live d', evs, rsp) ->
              d_cancel d' <> None).
    { intros d1 pre cnd reason Hf. unfold finish_with_cancel in Hf. destruct cnd.
      - destruct (begin_cancel d1 reason CeTestFailure) as [[d2 evs2] r2] eqn:Eb. injection Hf as <- _ <-.
        cbn [r_resp mk_resp] in Hr. apply (Hbc _ _ _ _ _ _ Eb Hr). discriminate.
      - injection Hf as _ _ <-. discriminate. }
    assert (Gs : d_sig d <> None -> d_cancel d <> None).
    { intros Hs Hn. apply Hs. exact (G Hn). }
    destruct e; cbn [dstep_live] in H.
    + destruct (is_some (d_cancel d)); [injection H as _ _ <-; discriminate|].
      destruct (is_some (d_script d) && d_dbg d); [discriminate|injection H as _ _ <-; discriminate].
    + injection H as _ _ <-. discriminate.
    + destruct (negb (is_some (d_script d)) && d_dbg d); [discriminate|]. exact (Hfc _ _ _ _ H).
    + destruct (is_some (d_cancel d)); [injection H as _ _ <-; discriminate|].
      destruct (lookup t0 (d_running d)); [discriminate|injection H as _ _ <-; discriminate].
    + injection H as _ _ <-. discriminate.
    + destruct (lookup t0 (d_running d)); [injection H as _ _ <-; discriminate|discriminate].
    + destruct (is_some (d_cancel d)); injection H as _ _ <-; discriminate.
    + destruct (lookup t0 (d_running d)); [|discriminate]. exact (Hfc _ _ _ _ H).
    + injection H as _ _ <-. discriminate.
    + destruct (d_sig d) as [[|]|] eqn:Es.
      * destruct (begin_cancel (set_sig d (Some STwice)) (event_to_cancel_reason e) (CeSignal (to_request STwice e)))
          as [[d2 evs2] r2] eqn:Eb. injection H as <- _ <-. cbn [r_resp mk_resp] in Hr.
        apply (Hbc _ _ _ _ _ _ Eb Hr). intros _. cbn [d_cancel set_sig]. apply Gs; try rewrite Es; discriminate.
      * discriminate.
      * destruct (begin_cancel (set_sig d (Some SOnce)) (event_to_cancel_reason e) (CeSignal (to_request SOnce e)))
          as [[d2 evs2] r2] eqn:Eb. injection H as <- _ <-. cbn [r_resp mk_resp] in Hr.
        apply (Hbc _ _ _ _ _ _ Eb Hr). cbn [to_request]. discriminate.
    + destruct (d_paused d); injection H as _ _ <-; discriminate.
    + destruct (d_paused d); injection H as _ _ <-; discriminate.
    + injection H as _ _ <-. discriminate.
    + injection H as _ _ <-. discriminate.
    + injection H as _ _ <-. discriminate.
    + destruct (begin_cancel d ReportError CeReport) as [[d2 evs2] r2] eqn:Eb.
      injection H as <- _ <-. cbn [r_resp mk_resp] in Hr. apply (Hbc _ _ _ _ _ _ Eb Hr). discriminate.
  - (* the unicast: only while the run is being cancelled *)
    apply (step_unicast_iff d e (Live d') evs rsp u H) in Hu. destruct Hu as (a & _ & Hcd & _).
    exact (cancel_stays d e d' evs rsp H Hcd).
Qed.

(* the unicast goes to the unit that reported the failed attempt *)
Lemma unicast_own d e d' evs rsp u :
  dstep_live d e = (Live d', evs, rsp) -> r_unit rsp = Some u -> event_test e = Some u.
Proof.
  intros H Hu. apply (step_unicast_iff d e (Live d') evs rsp u H) in Hu.
  destruct Hu as (a & -> & _). reflexivity.
Qed.

(* ------------------------------------------------------------ one unit seen from the dispatcher *)
Definition pactive (p : phase) : bool := match p with PRunning _ | PDelay _ => true | _ => false end.

(* unit t in protocol phase p, with delivery tracker T and channel contents m, facing dispatcher d:
   running_tests[t] is as the phase says; nothing is sent to a unit that has not started; what is
   in the channel can be delivered in order ([env_trace]) and the dispatcher's own state agrees
   with the tracker the unit will have once the channel is drained ([dinvT]); a cancel request
   delivered or in the channel means cancel_state is set *)
Record pinv (d : dstate) (t : tid) (p : phase) (T : ltracker) (m : list ureq) : Prop := {
  pi_past : exists A, past_inv (Live d) t p A;
  pi_idle : p = PIdle -> m = [];
  pi_env : pactive p = true ->
           env_trace (tr_of T) (map Req m) = true /\ dinvT d (env_after (tr_of T) (map Req m));
  pi_cancel : pactive p = true -> lt_cancel T = true \/ has_cancel m = true -> d_cancel d <> None }.

Lemma has_cancel_app a b : has_cancel (a ++ b) = has_cancel a || has_cancel b.
Proof. unfold has_cancel. apply existsb_app. Qed.

Lemma ustep_not_idle c t p e hs : event_test e = Some t -> Model.Unit.ustep c t p e hs <> Some PIdle.
Proof.
  intros He. destruct e; cbn [event_test] in He; try discriminate; cbn [Model.Unit.ustep];
    repeat match goal with
    | |- context [if ?b then _ else _] => destruct b
    | |- context [match p with _ => _ end] => destruct p
    | |- context [match hs with _ => _ end] => destruct hs
    end; discriminate.
Qed.

(* where t's phase goes when the dispatcher handles e *)
Definition next_phase (c : cfg) (t : tid) (p : phase) (e : devent) (hs : handshake) : option phase :=
  match event_test e with
  | Some t' => if t' =? t then Model.Unit.ustep c t p e hs else Some p
  | None => Some p
  end.

Lemma pinv_step c t d e d' evs rsp p p' T m :
  ginv d -> dstep_live d e = (Live d', evs, rsp) -> pinv d t p T m ->
  next_phase c t p e (r_hs rsp) = Some p' -> (p = PIdle -> T = lt0) ->
  pinv d' t p' T (m ++ reqs_for t d' rsp) /\ (p' = PIdle -> p = PIdle) /\
  (forall a, e = AttemptFailedWillRetry t a -> pactive p = true ->
             lt_cancel T = true \/ has_cancel m = true -> has_cancel (m ++ reqs_for t d' rsp) = true).
Proof.
  intros G Hd [(A & Hpast) Hidle Henv Hcan] Hnp HT.
  pose proof (past_step c t d e (Live d') evs rsp p A Hd Hpast) as Hps.
  unfold next_phase in Hnp.
  (* the running map after the step, in the new phase *)
  assert (Hpast' : exists A', past_inv (Live d') t p' A').
  { destruct (event_test e) as [t'|]; [destruct (t' =? t)|].
    - destruct (Hps p' Hnp) as [H _]. eexists. exact H.
    - injection Hnp as <-. destruct Hps as [H _]. eexists. exact H.
    - injection Hnp as <-. destruct Hps as [H _]. eexists. exact H. }
  assert (Hidle' : p' = PIdle -> p = PIdle).
  { intros ->. destruct (event_test e) as [t'|] eqn:Ee; [destruct (N.eqb_spec t' t) as [->|]|].
    - exfalso. exact (ustep_not_idle c t p e (r_hs rsp) Ee Hnp).
    - injection Hnp as ->. reflexivity.
    - injection Hnp as ->. reflexivity. }
  assert (Hreg : pactive p' = true -> exists A', lookup t (d_running d') = Some A').
  { intros Ha. destruct Hpast' as [A' H']. exists A'. destruct p'; try discriminate; exact H'. }
  assert (Hown : pactive p = false -> pactive p' = true ->
                 p = PIdle /\ reqs_for t d' rsp = [] /\ d_cancel d = None /\ d_cancel d' = None /\
                 d_sig d' = d_sig d /\ d_paused d' = d_paused d).
  { intros Hp Hp'. destruct (event_test e) as [t'|] eqn:Ee; [destruct (N.eqb_spec t' t) as [->|]|].
    2,3: injection Hnp as <-; congruence.
    destruct e; cbn [event_test] in Ee; try discriminate; injection Ee as ->;
      cbn [Model.Unit.ustep] in Hnp.
    2-6: destruct p; try discriminate;
      repeat match type of Hnp with context [if ?b then _ else _] => destruct b end; try discriminate;
      try (destruct (r_hs rsp); discriminate); try (injection Hnp as <-; discriminate).
    destruct (memb t (c_sel c)); [|discriminate].
    destruct p; try (destruct (r_hs rsp); discriminate).
    split; [reflexivity|].
    cbn [dstep_live] in Hd. destruct (is_some (d_cancel d)) eqn:Ec.
    - injection Hd as _ _ <-. cbn [r_hs mk_resp] in Hnp. injection Hnp as <-. discriminate.
    - destruct (lookup t (d_running d)); [discriminate|]. injection Hd as <- _ <-.
      cbn [d_cancel d_sig d_paused set_running].
      destruct (d_cancel d) eqn:Ecd; [discriminate|]. repeat split. }
  split; [|split; [exact Hidle'|]].
  - split.
    + exact Hpast'.
    + intros ->. specialize (Hidle' eq_refl). rewrite (Hidle Hidle'). cbn [app].
      destruct Hpast' as [A' [_ Hl]]. unfold reqs_for. rewrite Hl. cbn [is_some].
      assert (Hb : match broadcast_of (r_resp rsp) with Some _ => [] | None => [] end = @nil ureq)
        by (destruct (broadcast_of (r_resp rsp)); reflexivity).
      rewrite Hb. cbn [app].
      destruct (r_unit rsp) as [u|] eqn:Eu; [|reflexivity].
      destruct (N.eqb_spec u t) as [->|]; [exfalso|reflexivity].
      pose proof (unicast_own d e d' evs rsp t Hd Eu) as Ee. rewrite Ee, N.eqb_refl, Hidle' in Hnp.
      exact (ustep_not_idle c t PIdle e (r_hs rsp) Ee Hnp).
    + intros Ha'. destruct (pactive p) eqn:Ha.
      * destruct (Henv eq_refl) as [E1 E2]. destruct (Hreg Ha') as [A' Hl].
        rewrite (reqs_for_registered t d' rsp A' Hl).
        destruct (step_env t d _ e (Live d') evs rsp E2 Hd) as [S1 S2].
        rewrite map_app, env_trace_app, env_after_app, E1, S1. split; [reflexivity|exact S2].
      * destruct (Hown eq_refl Ha') as (Hp & Hr & Hc & Hc' & Hs & Hpa). rewrite Hr, app_nil_r.
        rewrite (Hidle Hp), (HT Hp). cbn [map env_trace env_after]. split; [reflexivity|].
        unfold dinvT. cbn [tr_of lt0 t_jc t_sh lt_jc lt_sh].
        split; [discriminate|]. split; [discriminate|]. rewrite Hs, Hc'. split; [exact (G Hc)|cbn; lia].
    + intros Ha' Hor. destruct (pactive p) eqn:Ha.
      * rewrite has_cancel_app in Hor.
        assert (Hold : lt_cancel T = true \/ has_cancel m = true -> d_cancel d' <> None).
        { intros H. exact (cancel_stays d e d' evs rsp Hd (Hcan eq_refl H)). }
        destruct Hor as [H|H]; [apply Hold; left; exact H|].
        apply Bool.orb_true_iff in H as [H|H]; [apply Hold; right; exact H|].
        destruct (Hreg Ha') as [A' Hl]. rewrite (reqs_for_registered t d' rsp A' Hl) in H.
        exact (cancel_req_sent t d e d' evs rsp G Hd H).
      * destruct (Hown eq_refl Ha') as (Hp & Hr & _). exfalso.
        rewrite Hr, app_nil_r, (Hidle Hp), (HT Hp) in Hor. destruct Hor; discriminate.
  - intros a -> Ha Hor. pose proof (Hcan Ha Hor) as Hc.
    assert (Hu : r_unit rsp = Some t).
    { apply (step_unicast_iff d _ (Live d') evs rsp t Hd). exists a. repeat split; [exact Hc|discriminate]. }
    rewrite has_cancel_app. unfold reqs_for. rewrite Hu, N.eqb_refl, has_cancel_app.
    cbn [has_cancel existsb is_cancel_req]. rewrite !Bool.orb_true_r. reflexivity.
Qed.

(* ------------------------------------------------------------ the dispatcher handles a unit's events *)
Lemma zfeed_app c : forall e1 e2 d g m,
  zfeed c d g m (e1 ++ e2) =
  match zfeed c d g m e1 with Some (d1, g1, m1) => zfeed c d1 g1 m1 e2 | None => None end.
Proof.
  induction e1 as [|[e hs] e1 IH]; intros e2 d g m; [reflexivity|].
  cbn [app zfeed]. destruct (dstep_live d e) as [[[d1|] ev1] rsp]; [|reflexivity].
  destruct (hs_eqb (r_hs rsp) hs); [|reflexivity]. destruct (gstep c g e hs); [apply IH|reflexivity].
Qed.

Lemma ufold_cons_next c t p e hs r p' :
  ufold c t p ((e, hs) :: r) = Some p' ->
  exists p1, next_phase c t p e hs = Some p1 /\ ufold c t p1 r = Some p'.
Proof.
  cbn [ufold]. unfold next_phase. destruct (event_test e) as [t'|]; [destruct (t' =? t)|].
  - destruct (Model.Unit.ustep c t p e hs) as [p1|]; [|discriminate]. intros H. exists p1. split; [reflexivity|exact H].
  - intros H. exists p. split; [reflexivity|exact H].
  - intros H. exists p. split; [reflexivity|exact H].
Qed.

Lemma zfeed_spec c : forall evs d g m d' g' m',
  ginv d -> zfeed c d g m evs = Some (d', g', m') ->
  ginv d' /\ feed c (Live d) g evs = Some (Live d', g') /\
  (forall t, exists extra, m' t = m t ++ extra) /\
  (forall t p p' T, pinv d t p T (m t) -> ufold c t p evs = Some p' -> (p = PIdle -> T = lt0) ->
     pinv d' t p' T (m' t) /\ (p' = PIdle -> p = PIdle)).
Proof.
  induction evs as [|[e hs] evs IH]; intros d g m d' g' m' G H; cbn [zfeed] in H.
  - injection H as <- <- <-. split; [exact G|]. split; [reflexivity|]. split.
    + intros t. exists []. rewrite app_nil_r. reflexivity.
    + intros t p p' T Hp Hf _. cbn [ufold] in Hf. injection Hf as <-. split; [exact Hp|auto].
  - destruct (dstep_live d e) as [[[d1|] ev1] rsp] eqn:Ed; [|discriminate].
    destruct (hs_eqb (r_hs rsp) hs) eqn:Eh; [|discriminate]. pose proof (hs_eqb_eq _ _ Eh) as Ehs.
    destruct (gstep c g e hs) as [g1|] eqn:Eg; [|discriminate].
    destruct (IH d1 g1 _ d' g' m' (ginv_step d e d1 ev1 rsp G Ed) H) as (G' & F & X & P).
    split; [exact G'|]. split; [|split].
    + cbn [feed dstep]. rewrite Ed, Eh, Eg. exact F.
    + intros t. destruct (X t) as [ex Hx]. exists (reqs_for t d1 rsp ++ ex). rewrite Hx, app_assoc. reflexivity.
    + intros t p p' T Hp Hf HT.
      destruct (ufold_cons_next c t p e hs evs p' Hf) as (p1 & Hn & Hf1). rewrite <- Ehs in Hn.
      destruct (pinv_step c t d e d1 ev1 rsp p p1 T (m t) G Ed Hp Hn HT) as (Hp1 & Hi1 & _).
      destruct (P t p1 p' T Hp1 Hf1 (fun E => HT (Hi1 E))) as [Hp' Hi'].
      split; [exact Hp'|]. intros E. exact (Hi1 (Hi' E)).
Qed.

Lemma ufold_other c t x p : forall evs,
  x <> t -> Forall (fun y => event_test (fst y) = Some t) evs -> ufold c x p evs = Some p.
Proof.
  induction evs as [|[e hs] evs IH]; intros Hne Hall; [reflexivity|].
  inversion Hall as [|? ? He Hr]; subst. cbn [fst] in He. cbn [ufold]. rewrite He.
  destruct (N.eqb_spec t x) as [E|_]; [congruence|]. exact (IH Hne Hr).
Qed.

Lemma ureq_eqb_eq a b : ureq_eqb a b = true -> a = b.
Proof.
  destruct a as [| |[x|]| |], b as [| |[y|]| |]; cbn [ureq_eqb]; try discriminate; try reflexivity.
  destruct x, y; try discriminate; reflexivity.
Qed.

(* ------------------------------------------------------------ a unit step: channel discipline *)
Lemma lenv_next_quiet T e : (forall r, e <> LU (Req r)) -> lenv_next T e = T.
Proof. intros H. destruct e as [[| | | | | |r]| |]; try reflexivity. exfalso. exact (H r eq_refl). Qed.

Lemma consuming_active s : consuming s = true -> pactive (phase_of_lstate s) = true.
Proof. unfold consuming, phase_of_lstate. destruct (l_ph s); try discriminate; reflexivity. Qed.

(* taking the first request off the channel *)
Lemma pinv_pop d t s T m e m1 :
  pinv d t (phase_of_lstate s) T m -> zguard s m e = Some m1 ->
  pinv d t (phase_of_lstate s) (lenv_next T e) m1 /\
  (forall r, e = LU (Req r) -> m = r :: m1 /\ consuming s = true) /\
  ((forall r, e <> LU (Req r)) -> m1 = m).
Proof.
  intros Hp Hg. destruct e as [[dt| | | | | |r]| |acc]; cbn [zguard] in Hg.
  1: destruct (l_ph s); try (injection Hg as <-); try (destruct ((dt =? 0) || negb (has_cancel m)); [injection Hg as <-|discriminate]).
  all: try (injection Hg as <-).
  all: try (split; [exact Hp|split; [intros r0 E; discriminate|reflexivity]]).
  (* a request *)
  destruct m as [|r' rest]; [discriminate|].
  destruct (ureq_eqb r r' && consuming s) eqn:E; [|discriminate]. injection Hg as <-.
  apply andb_prop in E as [Er Ec]. apply ureq_eqb_eq in Er. subst r'.
  split; [|split; [intros r0 E0; injection E0 as <-; split; [reflexivity|exact Ec]|intros H; exfalso; exact (H r eq_refl)]].
  destruct Hp as [Hpast Hidle Henv Hcan]. pose proof (consuming_active s Ec) as Ha. split.
  - exact Hpast.
  - intros Hi. specialize (Hidle Hi). discriminate.
  - intros _. destruct (Henv Ha) as [E1 E2]. cbn [map env_trace env_after creq] in E1, E2.
    apply andb_prop in E1 as [_ E1]. rewrite tr_of_next. split; [exact E1|exact E2].
  - intros _ Hor. apply (Hcan Ha).
    cbn [lenv_next lt_cancel] in Hor. cbn [has_cancel existsb]. fold (has_cancel rest).
    destruct Hor as [H|H].
    + apply Bool.orb_true_iff in H as [H|H]; [left; exact H|right; rewrite H; reflexivity].
    + right. rewrite H. apply Bool.orb_true_r.
Qed.

(* the delay loop sends nothing to the dispatcher until it is over *)
Lemma project_delay_nil tbl fd t c s d0 e s' outs :
  l_ph s = LDelay d0 -> lstep tbl c s e = Ok (s', outs) -> project_step fd t c s e s' outs = [].
Proof.
  intros Hp Hl. unfold lstep in Hl. rewrite Hp in Hl. unfold project_step. rewrite Hp.
  assert (G : forall uo o1, Forall not_slow uo ->
            map (fun x : devent => (x, HNone))
                (flat_map (project_out fd t c (l_k s) (l_done s')) (map LO uo ++ o1))
            = pr fd t c (l_k s) (l_done s') o1).
  { intros uo o1 Hns. change (pr fd t c (l_k s) (l_done s') (map LO uo ++ o1) = pr fd t c (l_k s) (l_done s') o1).
    rewrite pr_app, (pr_not_slow fd t c _ _ uo Hns). reflexivity. }
  destruct (devent_of e) as [de|] eqn:Ede.
  2:{ injection Hl as <- <-. destruct e; reflexivity. }
  destruct (UnitTimers.dstep tbl d0 de) as [[d' uo]|] eqn:Ed; [|discriminate].
  pose proof (dstep_not_slow tbl d0 de (d', uo) Ed) as Hns. cbn [snd] in Hns.
  assert (Hnot : forall acc, e <> LAnswer acc) by (intros acc ->; discriminate).
  destruct (d_done d'); injection Hl as <- <-.
  - destruct e as [ue| |a]; try (exfalso; eapply Hnot; reflexivity); rewrite (G uo _ Hns); reflexivity.
  - rewrite <- (app_nil_r (map LO uo)).
    destruct e as [ue| |a]; try (exfalso; eapply Hnot; reflexivity); rewrite (G uo _ Hns); reflexivity.
Qed.

(* a cancel request ends the delay *)
Lemma delay_req_noncancel tbl c s d0 r s' outs d1 :
  l_ph s = LDelay d0 -> d_done d0 = false -> lstep tbl c s (LU (Req r)) = Ok (s', outs) ->
  l_ph s' = LDelay d1 -> is_cancel_req r = false.
Proof.
  intros Hp Hd Hl Hp'. destruct (is_cancel_req r) eqn:E; [|reflexivity]. exfalso.
  pose proof (cancel_ends_delay tbl c s d0 r Hp Hd E) as Hl'. rewrite Hl' in Hl.
  injection Hl as <- _. cbn [l_ph with_lph mkl] in Hp'. discriminate.
Qed.

(* the step that enters the delay reports the failed attempt last *)
Lemma enter_delay_shape tbl fd t c s e s' outs d1 :
  lstep tbl c s e = Ok (s', outs) -> l_ph s' = LDelay d1 -> (forall d0, l_ph s <> LDelay d0) ->
  exists u uo a, l_ph s = LAttempt u /\
    project_step fd t c s e s' outs
    = pr fd t c (l_k s) (l_done s') (map LO uo) ++ [(AttemptFailedWillRetry t a, HNone)].
Proof.
  intros Hl Hp' Hnd. unfold lstep in Hl. unfold project_step.
  destruct (l_ph s) as [|u|d0| | |] eqn:Hp.
  - destruct e as [ue| |[]]; injection Hl as <- _; cbn [l_ph with_lph mkl] in Hp'; congruence.
  - destruct e as [ue| |a]; try (injection Hl as <- _; congruence).
    destruct (UnitTimers.ustep tbl (lc_unit c) u ue) as [[u' uo]|]; [|discriminate].
    destruct (ph u').
    5:{ destruct (finish_attempt c s u') as [r|] eqn:Hf; cbn [obind] in Hl; [|discriminate].
        injection Hl as <- <-. exists u, uo. unfold finish_attempt in Hf.
        destruct (ures_success (uresult u')).
        - injection Hf as <-. cbn [fst l_ph mkl] in Hp'. discriminate.
        - destruct (l_k s <? lc_total c).
          + destruct (b_next (lc_js c (l_k s)) (l_bs s)) as [[dl bs']|]; [|discriminate].
            injection Hf as <-. cbn [fst snd l_done mkl]. eexists. split; [reflexivity|].
            rewrite flat_map_app, map_app. reflexivity.
          + injection Hf as <-. cbn [fst l_ph mkl] in Hp'. discriminate. }
    all: injection Hl as <- _; cbn [l_ph with_lph mkl] in Hp'; discriminate.
  - exfalso. exact (Hnd d0 eq_refl).
  - destruct e as [ue| |[]]; injection Hl as <- _; cbn [l_ph with_lph mkl] in Hp'; congruence.
  - injection Hl as <- _. congruence.
  - injection Hl as <- _. congruence.
Qed.

(* ------------------------------------------------------------ the simulation *)
Record uinv (d : dstate) (t : tid) (u : lsys) (zs : lstate) (m : list ureq) : Prop := {
  ui_s : y_s u = zs;
  ui_k : kinv zs;
  ui_w : winv u;
  ui_p : pinv d t (phase_of_lstate zs) (y_t u) m;
  ui_t0 : l_ph zs = LAwaitStart -> y_t u = lt0;
  (* a unit that has been delivered a cancel request and waits in a retry delay has the repeated
     OtherCancel in its channel *)
  ui_delay : forall d0, l_ph zs = LDelay d0 -> lt_cancel (y_t u) = true -> has_cancel m = true }.

Record zrel (S : lsystem) (z : zstate) (y : ystate) : Prop := {
  zr_d : ys_d y = Live (zs_d z);
  zr_g : ys_g y = zs_g z;
  zr_skip : ys_skip y = zs_skip z;
  zr_ginv : ginv (zs_d z);
  zr_u : forall t, memb t (ls_sel S) = true -> uinv (zs_d z) t (ys_u y t) (zs_u z t) (zs_mail z t) }.

Lemma zrel_init S mf dbg : zrel S (zstate0 S mf dbg) (ystate0 S mf dbg).
Proof.
  split; try reflexivity.
  - intros _. reflexivity.
  - intros t _. constructor.
    + reflexivity.
    + reflexivity.
    + exact I.
    + constructor; [exists []; split; reflexivity|reflexivity|discriminate|discriminate].
    + reflexivity.
    + discriminate.
Qed.

(* the environment predicate of Model/UnitLife.v holds of every step the closed machine takes *)
Lemma closed_env_ok tbl fd c cl t d g u s m e m1 s' outs mail res :
  uinv d t u s m -> zguard s m e = Some m1 -> lstep tbl cl s e = Ok (s', outs) ->
  zfeed c d g mail (project_step fd t cl s e s' outs) = Some res ->
  lenv_ok true s (y_t u) e = true.
Proof.
  intros [_ _ _ Hp _ Hdel] Hg Hl Hf.
  destruct e as [[dt| | | | | |r]| |acc]; cbn [lenv_ok]; try reflexivity.
  - destruct (l_ph s) as [| |d0| | |] eqn:Hph; try reflexivity.
    destruct (lt_cancel (y_t u)) eqn:Ec; [|reflexivity]. cbn [andb negb orb].
    cbn [zguard] in Hg. rewrite Hph, (Hdel d0 eq_refl eq_refl) in Hg. cbn [negb] in Hg.
    rewrite Bool.orb_false_r in Hg. destruct (dt =? 0); [reflexivity|discriminate].
  - destruct (pinv_pop d t s (y_t u) m _ m1 Hp Hg) as (_ & Hr & _).
    destruct (Hr r eq_refl) as [-> Hc]. rewrite Hc. cbn [andb].
    destruct (pi_env _ _ _ _ _ Hp (consuming_active s Hc)) as [E _].
    cbn [map env_trace creq] in E. apply andb_prop in E as [E _]. exact E.
  - destruct (l_ph s) eqn:Hph; try reflexivity.
    destruct acc; [|reflexivity]. destruct (lt_cancel (y_t u)) eqn:Ec; [exfalso|reflexivity].
    assert (Ha : pactive (phase_of_lstate s) = true) by (unfold phase_of_lstate; rewrite Hph; reflexivity).
    pose proof (pi_cancel _ _ _ _ _ Hp Ha (or_introl Ec)) as Hcd.
    unfold lstep in Hl. rewrite Hph in Hl. injection Hl as <- <-.
    unfold project_step in Hf. rewrite Hph in Hf. cbn [zfeed dstep_live hs_of] in Hf.
    destruct (d_cancel d); [|apply Hcd; reflexivity]. cbn [is_some r_hs mk_resp hs_eqb] in Hf. discriminate.
Qed.

Lemma has_cancel_grows m extra : has_cancel m = true -> has_cancel (m ++ extra) = true.
Proof. intros H. rewrite has_cancel_app, H. reflexivity. Qed.

Section Step.
  Variable tbl : ptable.
  Variable S : lsystem.
  Let c := cfg_of_lsystem S.
  Hypothesis Hok : cfg_ok c = true.

  Lemma zstep_sim z y l z' evs :
    zrel S z y -> zstep tbl S z l = Some (z', evs) ->
    exists y', ystep true tbl S y l = Some (y', evs) /\ zrel S z' y'.
  Proof.
    intros [Rd Rg Rs RG RU] H. destruct l as [t e|e]; cbn [zstep] in H.
    - (* a unit step *)
      destruct (memb t (ls_sel S)) eqn:Et; [|discriminate].
      destruct (zguard (zs_u z t) (zs_mail z t) e) as [m1|] eqn:Eg; [|discriminate].
      destruct (lstep tbl (ls_cfg S t) (zs_u z t) e) as [[s' outs]|] eqn:El; [|discriminate].
      set (mail1 := fun x => if x =? t then m1 else zs_mail z x) in *.
      destruct (zfeed (cfg_of_lsystem S) (zs_d z) (zs_g z) mail1
                      (project_step (ls_fd S t) t (ls_cfg S t) (zs_u z t) e s' outs))
        as [[[d' g'] mail']|] eqn:Ef; [|discriminate].
      injection H as <- <-.
      pose proof (RU t Et) as Ut. destruct Ut as [Us Uk Uw Up Ut0 Udel].
      (* the open machine takes the same step *)
      pose proof (closed_env_ok tbl (ls_fd S t) c (ls_cfg S t) t (zs_d z) (zs_g z) (ys_u y t) (zs_u z t)
                    (zs_mail z t) e m1 s' outs mail1 _ (RU t Et) Eg El Ef) as Henv.
      rewrite <- Us in Henv, El.
      destruct (lsys_step_ok true tbl (ls_cfg S t) (ys_u y t) e s' outs Henv El) as (u' & Els & Hs' & Ht').
      destruct (zfeed_spec c _ _ _ _ _ _ _ RG Ef) as (G' & Ff & Xm & Pm).
      eexists. split.
      { cbn [ystep]. rewrite Et, Els, El, Us, Rd, Rg. fold c. rewrite Ff. reflexivity. }
      pose proof (step_sim tbl (ls_fd S t) t (ls_cfg S t) c Et eq_refl (zs_u z t) e s' outs Uk)
        as Hsim. rewrite Us in El. destruct (Hsim El) as [Hfold Hk'].
      pose proof (project_step_of_test (ls_fd S t) t (ls_cfg S t) (zs_u z t) e s' outs) as Hof.
      destruct (pinv_pop (zs_d z) t (zs_u z t) (y_t (ys_u y t)) (zs_mail z t) e m1 Up Eg) as (Up1 & Hreq & Hnoreq).
      split; cbn [ys_d ys_g ys_skip ys_u zs_d zs_g zs_skip zs_u zs_mail]; try reflexivity; try assumption.
      intros x Ex. destruct (N.eqb_spec x t) as [->|Hne].
      + (* the unit that took the step *)
        assert (Hm1 : mail1 t = m1) by (unfold mail1; rewrite N.eqb_refl; reflexivity).
        assert (HT : phase_of_lstate (zs_u z t) = PIdle -> lenv_next (y_t (ys_u y t)) e = lt0).
        { intros Hi. apply phase_idle_inv in Hi. rewrite lenv_next_quiet; [exact (Ut0 Hi)|].
          intros r ->. destruct (Hreq r eq_refl) as [_ Hc]. unfold consuming in Hc. rewrite Hi in Hc. discriminate. }
        rewrite <- Hm1 in Up1.
        destruct (Pm t _ _ _ Up1 Hfold HT) as [Up' Hidle'].
        split.
        * exact Hs'.
        * exact Hk'.
        * exact (winv_step true tbl (ls_cfg S t) (ys_u y t) e u' Uw Els).
        * rewrite Ht'. exact Up'.
        * intros Hi. rewrite Ht'.
          assert (Hp' : phase_of_lstate s' = PIdle) by (unfold phase_of_lstate; rewrite Hi; reflexivity).
          exact (HT (Hidle' Hp')).
        * intros d1 Hp1 Hc. rewrite Ht' in Hc.
          destruct (l_ph (zs_u z t)) as [|u0|d0| | |] eqn:Hph.
          -- exfalso. destruct (enter_delay_shape tbl (ls_fd S t) t (ls_cfg S t) _ e s' outs d1 El Hp1)
               as (u1 & _ & _ & Hu1 & _); [intros d0; congruence|congruence].
          -- (* the attempt has just failed with retries left: the dispatcher repeats OtherCancel *)
             destruct (enter_delay_shape tbl (ls_fd S t) t (ls_cfg S t) _ e s' outs d1 El Hp1)
               as (u1 & uo & a & _ & Hshape); [intros d0; congruence|].
             rewrite Hshape, zfeed_app in Ef.
             destruct (zfeed (cfg_of_lsystem S) (zs_d z) (zs_g z) mail1
                             (pr (ls_fd S t) t (ls_cfg S t) (l_k (zs_u z t)) (l_done s') (map LO uo)))
               as [[[da ga] maila]|] eqn:Efa; [|discriminate].
             destruct (zfeed_spec c _ _ _ _ _ _ _ RG Efa) as (Ga & _ & _ & Pa).
             assert (Hfa : ufold c t (phase_of_lstate (zs_u z t))
                             (pr (ls_fd S t) t (ls_cfg S t) (l_k (zs_u z t)) (l_done s') (map LO uo))
                           = Some (PRunning (l_k (zs_u z t)))).
             { unfold phase_of_lstate at 1. rewrite Hph.
               exact (ufold_running_outs (ls_fd S t) t (ls_cfg S t) c eq_refl _ _ uo). }
             destruct (Pa t _ _ _ Up1 Hfa HT) as [Upa _].
             cbn [zfeed] in Ef. destruct (dstep_live da (AttemptFailedWillRetry t a)) as [[[db|] evb] rspb] eqn:Edb;
               [|discriminate].
             destruct (hs_eqb (r_hs rspb) HNone); [|discriminate].
             destruct (gstep (cfg_of_lsystem S) ga (AttemptFailedWillRetry t a) HNone); [|discriminate].
             injection Ef as _ _ <-.
             assert (Hnp : next_phase c t (PRunning (l_k (zs_u z t))) (AttemptFailedWillRetry t a) (r_hs rspb)
                           = next_phase c t (PRunning (l_k (zs_u z t))) (AttemptFailedWillRetry t a) (r_hs rspb))
               by reflexivity.
             destruct (next_phase c t (PRunning (l_k (zs_u z t))) (AttemptFailedWillRetry t a) (r_hs rspb))
               as [pb|] eqn:Enp.
             ++ destruct (pinv_step c t da _ db evb rspb _ pb _ _ Ga Edb Upa Enp ltac:(discriminate))
                  as (_ & _ & Hafwr).
                exact (Hafwr a eq_refl eq_refl (or_introl Hc)).
             ++ (* the event is accepted by the protocol: contradiction otherwise *)
                exfalso. rewrite Hshape, ufold_app, Hfa in Hfold. cbn [ufold event_test] in Hfold.
                rewrite N.eqb_refl in Hfold. unfold next_phase in Enp. cbn [event_test] in Enp.
                rewrite N.eqb_refl in Enp. cbn [Model.Unit.ustep] in Enp, Hfold.
                destruct ((a_no a =? l_k (zs_u z t)) && (a_total a =? c_total c t) && (l_k (zs_u z t) <? c_total c t)
                          && negb (is_success (a_res a))); discriminate.
          -- (* the delay goes on *)
             rewrite (project_delay_nil tbl (ls_fd S t) t (ls_cfg S t) _ d0 e s' outs Hph El) in Ef.
             cbn [zfeed] in Ef. injection Ef as _ _ <-. rewrite Hm1.
             pose proof Uw as Uw'. unfold winv in Uw'. rewrite Us, Hph in Uw'.
             destruct e as [[dt| | | | | |r]| |acc];
               try (rewrite (Hnoreq ltac:(intros r0; discriminate)); apply (Udel d0 eq_refl); exact Hc).
             destruct (Hreq r eq_refl) as [Hm _].
             pose proof (delay_req_noncancel tbl (ls_cfg S t) _ d0 r s' outs d1 Hph Uw' El Hp1) as Hnc.
             cbn [lenv_next lt_cancel] in Hc. rewrite Hnc, Bool.orb_false_r in Hc.
             pose proof (Udel d0 eq_refl Hc) as Hh. rewrite Hm in Hh.
             cbn [has_cancel existsb] in Hh. rewrite Hnc in Hh. exact Hh.
          -- exfalso. destruct (enter_delay_shape tbl (ls_fd S t) t (ls_cfg S t) _ e s' outs d1 El Hp1)
               as (u1 & _ & _ & Hu1 & _); [intros d0; congruence|congruence].
          -- exfalso. destruct (enter_delay_shape tbl (ls_fd S t) t (ls_cfg S t) _ e s' outs d1 El Hp1)
               as (u1 & _ & _ & Hu1 & _); [intros d0; congruence|congruence].
          -- exfalso. destruct (enter_delay_shape tbl (ls_fd S t) t (ls_cfg S t) _ e s' outs d1 El Hp1)
               as (u1 & _ & _ & Hu1 & _); [intros d0; congruence|congruence].
      + (* another unit: its state is unchanged, its channel may have grown *)
        destruct (RU x Ex) as [Xs Xk Xw Xp Xt0 Xdel].
        assert (Hmx : mail1 x = zs_mail z x).
        { unfold mail1. destruct (N.eqb_spec x t); [congruence|reflexivity]. }
        rewrite <- Hmx in Xp.
        destruct (Pm x _ _ _ Xp (ufold_other c t x _ _ Hne Hof)
                    (fun Hi => Xt0 (phase_idle_inv _ Hi))) as [Xp' _].
        destruct (Xm x) as [extra Hx]. rewrite Hmx in Hx.
        split; try assumption.
        intros d0 Hp0 Hc. rewrite Hx. apply has_cancel_grows. exact (Xdel d0 Hp0 Hc).
    - (* an event that does not come from a test unit *)
      destruct (other_ok S (zs_skip z) e) eqn:Eo; [|discriminate].
      destruct (dstep_live (zs_d z) e) as [[[d'|] ev1] rsp] eqn:Ed; [|discriminate].
      destruct (gstep (cfg_of_lsystem S) (zs_g z) e (r_hs rsp)) as [g'|] eqn:Egs; [|discriminate].
      injection H as <- <-.
      eexists. split.
      { cbn [ystep]. rewrite Rs, Eo, Rd. cbn [dstep]. rewrite Ed, Rg, Egs. reflexivity. }
      split; cbn [ys_d ys_g ys_skip ys_u zs_d zs_g zs_skip zs_u zs_mail]; try reflexivity.
      + exact (ginv_step _ _ _ _ _ RG Ed).
      + intros x Ex. destruct (RU x Ex) as [Xs Xk Xw Xp Xt0 Xdel].
        assert (Hnp : next_phase c x (phase_of_lstate (zs_u z x)) e (r_hs rsp) = Some (phase_of_lstate (zs_u z x))).
        { unfold next_phase. destruct (event_test e) as [t0|] eqn:Ee; [|reflexivity].
          destruct (N.eqb_spec t0 x) as [->|]; [exfalso|reflexivity].
          destruct e; cbn [event_test] in Ee; try discriminate; cbn [other_ok event_test] in Eo; try discriminate.
          injection Ee as ->. apply andb_prop in Eo as [Eo _].
          apply (cfg_unsel_not_sel c x Hok Eo). apply memb_in. exact Ex. }
        destruct (pinv_step c x (zs_d z) e d' ev1 rsp _ _ _ _ RG Ed Xp Hnp
                    (fun Hi => Xt0 (phase_idle_inv _ Hi))) as (Xp' & _ & _).
        split; try assumption.
        intros d0 Hp0 Hc. apply has_cancel_grows. exact (Xdel d0 Hp0 Hc).
  Qed.
End Step.

Lemma zrun_sim tbl S :
  cfg_ok (cfg_of_lsystem S) = true ->
  forall ls z y zf ah, zrel S z y -> zrun tbl S z ls = Some (zf, ah) ->
  exists yf, yrun true tbl S y ls = Some (yf, ah) /\ zrel S zf yf.
Proof.
  intros Hok. induction ls as [|l ls IH]; intros z y zf ah R H; cbn [zrun] in H.
  - injection H as <- <-. exists y. split; [reflexivity|exact R].
  - destruct (zstep tbl S z l) as [[z1 evs]|] eqn:Es; [|discriminate].
    destruct (zrun tbl S z1 ls) as [[z2 ah']|] eqn:Er; [|discriminate]. injection H as <- <-.
    destruct (zstep_sim tbl S Hok z y l z1 evs R Es) as (y1 & Ey & R1).
    destruct (IH z1 y1 z2 ah' R1 Er) as (y2 & Ey2 & R2).
    exists y2. split; [|exact R2]. cbn [yrun]. rewrite Ey, Ey2. reflexivity.
Qed.

(* Theorem: every run of the machine closed over the request channels is a run of the open product
   with the environment check switched on -- same labels, same history, same units. *)
Theorem closed_run_is_product_run tbl S mf dbg ls zf ah :
  cfg_ok (cfg_of_lsystem S) = true ->
  zrun tbl S (zstate0 S mf dbg) ls = Some (zf, ah) ->
  exists yf, yrun true tbl S (ystate0 S mf dbg) ls = Some (yf, ah) /\
             ys_d yf = Live (zs_d zf) /\
             forall t, memb t (ls_sel S) = true -> y_s (ys_u yf t) = zs_u zf t.
Proof.
  intros Hok H. destruct (zrun_sim tbl S Hok ls _ _ zf ah (zrel_init S mf dbg) H) as (yf & Ey & R).
  exists yf. split; [exact Ey|]. split; [exact (zr_d _ _ _ R)|].
  intros t Ht. exact (ui_s _ _ _ _ _ (zr_u _ _ _ R t Ht)).
Qed.

(* ... hence every unit of a closed run has made a run that the environment predicate admits: the
   premise [lsys_run true tbl c (lsys0 c) es = LOk y] of the theorems of Properties/UnitLife.v
   holds of it with no assumption about deliveries *)
Theorem closed_run_units_valid tbl S mf dbg ls zf ah :
  cfg_ok (cfg_of_lsystem S) = true ->
  zrun tbl S (zstate0 S mf dbg) ls = Some (zf, ah) ->
  forall t, In t (ls_sel S) ->
    exists y, lsys_run true tbl (ls_cfg S t) (lsys0 (ls_cfg S t)) (unit_events t ls) = LOk y /\
              y_s y = zs_u zf t.
Proof.
  intros Hok H t Hin.
  destruct (closed_run_is_product_run tbl S mf dbg ls zf ah Hok H) as (yf & Ey & _ & Hu).
  destruct (product_run_is_life_history true tbl S mf dbg ls yf ah Hok Ey) as (_ & _ & _ & Hr).
  exists (ys_u yf t). split; [exact (Hr t Hin)|]. apply Hu. apply memb_in. exact Hin.
Qed.

Theorem closed_run_life_history tbl S mf dbg ls zf ah :
  cfg_ok (cfg_of_lsystem S) = true ->
  zrun tbl S (zstate0 S mf dbg) ls = Some (zf, ah) ->
  life_history true tbl S mf dbg (map fst ah) /\
  wf_history (cfg_of_lsystem S) mf dbg (map fst ah) = true /\
  final_state (Live (init_for (cfg_of_lsystem S) mf dbg)) (map fst ah) = Live (zs_d zf).
Proof.
  intros Hok H.
  destruct (closed_run_is_product_run tbl S mf dbg ls zf ah Hok H) as (yf & Ey & Hd & _).
  destruct (product_run_is_life_history true tbl S mf dbg ls yf ah Hok Ey) as (Hl & _ & Hf & _).
  split; [exact Hl|]. split; [exact (life_history_wf true tbl S mf dbg _ Hl)|].
  rewrite <- Hf. exact Hd.
Qed.

Lemma closed_exit_is_spec tbl S mf dbg ls zf ah p :
  cfg_ok (cfg_of_lsystem S) = true ->
  zrun tbl S (zstate0 S mf dbg) ls = Some (zf, ah) ->
  (shutdown_count (map fst ah) <= 2)%nat ->
  run_exit (cfg_of_lsystem S) mf dbg (map fst ah) p
  = Some (spec_exit (cfg_of_lsystem S) (map fst ah) p).
Proof.
  intros Hok H Hs. apply (life_exit_is_spec true tbl); [|exact Hs].
  exact (proj1 (closed_run_life_history tbl S mf dbg ls zf ah Hok H)).
Qed.

Lemma closed_no_delay_after_cancel tbl S mf dbg ls zf ah :
  cfg_ok (cfg_of_lsystem S) = true ->
  zrun tbl S (zstate0 S mf dbg) ls = Some (zf, ah) ->
  forall t, In t (ls_sel S) ->
    exists y, lsys_run true tbl (ls_cfg S t) (lsys0 (ls_cfg S t)) (unit_events t ls) = LOk y /\ y_dc y = 0.
Proof.
  intros Hok H t Hin.
  destruct (closed_run_units_valid tbl S mf dbg ls zf ah Hok H t Hin) as (y & Hr & _).
  exists y. split; [exact Hr|].
  exact (no_delay_after_cancel tbl (ls_cfg S t) (unit_events t ls) _ _ Hr eq_refl).
Qed.
