(* The product of Model/LifeProtocol.v CLOSED over the request channels: what a unit is delivered
   is what the dispatcher model has sent to it.  Every unit has a FIFO channel ([zs_mail]); a
   dispatcher step appends to the channel of every unit registered in running_tests after the step
   the request DispatcherContext::run broadcasts for the response, and to the channel of the one
   unit handle_event itself addresses (the repeat of OtherCancel after AttemptFailedWillRetry, the
   F10 repair) that request; a unit takes a request off its channel only in a wait loop
   ([consuming]: an attempt or the delay between attempts), in order.  In the delay between
   attempts a unit whose channel holds a cancel request consumes it before any time passes (the
   select! of handle_delay_between_attempts finds the channel ready).

   Unlike [ystep] this machine does NOT consult the environment predicate [lenv_ok] of
   Model/UnitLife.v: the units are bare [lstate]s.  Proofs/LifeClosed.v shows that every run of
   this machine is a run of [yrun true]: [lenv_ok] (alternation of Stop / Continue, Once before
   Twice, RetryStarted refused after a cancel delivery, no time in a delay after one) is derived
   from the dispatcher model.  A failure of the dispatcher (the third signal) ends the run.
   Executable definitions only. *)
From NextestModel Require Import Base.Str Model.Backoff Model.Clocks Model.UnitTimers Model.AbsTimers
  Model.UnitLife.
From NextestModel Require Import Model.Result Model.Dispatcher Model.Unit Model.LifeProtocol.
Open Scope N_scope.

Definition shut_of_event (e : shutdown_event) : shut :=
  match e with Hangup => SHup | Term => STerm | Quit => SQuit | SInterrupt => SInt end.

(* RunUnitRequest of a broadcast *)
Definition req_of_bcast (b : broadcast) : ureq :=
  match b with
  | BOtherCancel => ROtherCancel
  | BShutdown (Dispatcher.Once e) => RShutdown (UnitTimers.Once (shut_of_event e))
  | BShutdown Dispatcher.Twice => RShutdown UnitTimers.Twice
  | BStop => RStop
  | BContinue => RContinue
  | BGetInfo => RGetInfo
  end.

(* what the step that produced [d'] and [rsp] puts into unit t's channel *)
Definition reqs_for (t : tid) (d' : dstate) (rsp : response) : list ureq :=
  (match broadcast_of (r_resp rsp) with
   | Some b => if is_some (lookup t (d_running d')) then [req_of_bcast b] else []
   | None => []
   end) ++
  (match r_unit rsp with Some u => if u =? t then [ROtherCancel] else [] | None => [] end).

Definition has_cancel (l : list ureq) : bool := existsb is_cancel_req l.

Definition ureq_eqb (a b : ureq) : bool :=
  match a, b with
  | RStop, RStop | RContinue, RContinue | ROtherCancel, ROtherCancel | RGetInfo, RGetInfo => true
  | RShutdown UnitTimers.Twice, RShutdown UnitTimers.Twice => true
  | RShutdown (UnitTimers.Once x), RShutdown (UnitTimers.Once y) =>
      match x, y with SInt, SInt | STerm, STerm | SHup, SHup | SQuit, SQuit => true | _, _ => false end
  | _, _ => false
  end.

Record zstate := {
  zs_d : dstate;                     (* the dispatcher (alive) *)
  zs_g : sid * bool;                 (* the setup-script sequence *)
  zs_u : tid -> lstate;              (* every unit *)
  zs_skip : list tid;
  zs_mail : tid -> list ureq }.      (* every unit's request channel, oldest first *)

Definition zstate0 (S : lsystem) (mf : option N) (dbg : bool) : zstate :=
  {| zs_d := init_for (cfg_of_lsystem S) mf dbg; zs_g := (0, false);
     zs_u := fun t => linit (ls_cfg S t); zs_skip := []; zs_mail := fun _ => [] |}.

(* the dispatcher handles the events of one unit step; every step delivers *)
Fixpoint zfeed (c : cfg) (d : dstate) (g : sid * bool) (m : tid -> list ureq)
         (evs : list (devent * handshake)) : option (dstate * (sid * bool) * (tid -> list ureq)) :=
  match evs with
  | [] => Some (d, g, m)
  | (e, hs) :: r =>
      match dstep_live d e with
      | (Live d', _, rsp) =>
          if hs_eqb (r_hs rsp) hs then
            match gstep c g e hs with
            | Some g' => zfeed c d' g' (fun t => m t ++ reqs_for t d' rsp) r
            | None => None
            end
          else None
      | (Dispatcher.Panicked, _, _) => None
      end
  end.

(* the channel discipline of a unit step *)
Definition zguard (s : lstate) (m : list ureq) (e : levent) : option (list ureq) :=
  match e with
  | LU (Req r) =>
      match m with
      | r' :: rest => if ureq_eqb r r' && consuming s then Some rest else None
      | [] => None
      end
  | LU (Tick dt) =>
      match l_ph s with
      | LDelay _ => if (dt =? 0) || negb (has_cancel m) then Some m else None
      | _ => Some m
      end
  | _ => Some m
  end.

Definition zstep (tbl : ptable) (S : lsystem) (z : zstate) (l : ylabel)
  : option (zstate * list (devent * handshake)) :=
  match l with
  | YUnit t e =>
      if memb t (ls_sel S) then
        let c := ls_cfg S t in
        let s := zs_u z t in
        match zguard s (zs_mail z t) e, lstep tbl c s e with
        | Some m1, Ok (s', outs) =>
            let evs := project_step (ls_fd S t) t c s e s' outs in
            let mail1 := fun x => if x =? t then m1 else zs_mail z x in
            match zfeed (cfg_of_lsystem S) (zs_d z) (zs_g z) mail1 evs with
            | Some (d', g', mail') =>
                Some ({| zs_d := d'; zs_g := g';
                         zs_u := fun x => if x =? t then s' else zs_u z x;
                         zs_skip := zs_skip z; zs_mail := mail' |}, evs)
            | None => None
            end
        | _, _ => None
        end
      else None
  | YOther e =>
      if other_ok S (zs_skip z) e then
        match dstep_live (zs_d z) e with
        | (Live d', _, rsp) =>
            match gstep (cfg_of_lsystem S) (zs_g z) e (r_hs rsp) with
            | Some g' =>
                Some ({| zs_d := d'; zs_g := g'; zs_u := zs_u z;
                         zs_skip := match e with Skipped t => t :: zs_skip z | _ => zs_skip z end;
                         zs_mail := fun t => zs_mail z t ++ reqs_for t d' rsp |},
                      [(e, r_hs rsp)])
            | None => None
            end
        | (Dispatcher.Panicked, _, _) => None
        end
      else None
  end.

Fixpoint zrun (tbl : ptable) (S : lsystem) (z : zstate) (ls : list ylabel)
  : option (zstate * list (devent * handshake)) :=
  match ls with
  | [] => Some (z, [])
  | l :: r =>
      match zstep tbl S z l with
      | Some (z', evs) =>
          match zrun tbl S z' r with
          | Some (z'', evs') => Some (z'', evs ++ evs')
          | None => None
          end
      | None => None
      end
  end.
