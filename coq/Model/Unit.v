(* Shared run model, part 3: the executor side — the protocol a unit of work follows towards the
   dispatcher. Mirrors nextest-runner/src/runner/executor.rs (ExecutorContext::run_test_instance,
   run_setup_scripts) and runner/imp.rs (TestRunnerInner::execute: scripts strictly before the test
   stream; Mismatch tests are reported Skipped and dropped before scheduling).

   [wf_protocol] checks a history of (event, handshake answer) pairs:
   * setup scripts run strictly one after another in definition order: SetupScriptStarted i
     (handshake), then, if accepted, SetupScriptSlow i* and one SetupScriptFinished i; if refused,
     nothing more for i; no test event before the last script has finished or been refused
     (script_rx.blocking_recv() precedes the creation of the test stream);
   * per selected test: Started (handshake); if accepted, attempts k = 1, 2, ...: Slow k*, then
     either AttemptFailedWillRetry k (result not a success, k < total) followed by RetryStarted k+1
     (handshake; refused => the unit returns without Finished), or one Finished k (success, or
     k = total); nothing after Finished / after a refused handshake;
   * per unselected test: at most one Skipped;
   * signals, input events and ReportCancel may occur anywhere.
   It is an assumption about the executor (validated on real histories by the event tap), not
   something derived from its Rust text. Executable definitions only. *)
From Coq Require Import List NArith ZArith Bool.
From NextestModel Require Import Model.Result Model.Dispatcher.
Import ListNotations.
Open Scope N_scope.

(* where one test's unit is *)
Inductive phase :=
| PIdle                       (* nothing sent yet *)
| PRunning (k : N)            (* attempt k in progress *)
| PDelay (k : N)              (* attempt k failed, AttemptFailedWillRetry sent, RetryStarted k+1 not yet *)
| PFinished                   (* Finished sent *)
| PRefusedStart               (* Started was refused: the unit returned *)
| PRefusedRetry (k : N)       (* RetryStarted k+1 was refused: the unit returned without Finished *)
| PSkipped.                   (* Skipped sent (unselected test) *)

(* the run's configuration as far as the protocol is concerned *)
Record cfg := mk_cfg {
  c_sel : list tid;            (* tests whose filter match is Matches, = initial_run_count many *)
  c_unsel : list tid;          (* listed tests that are not selected *)
  c_total : tid -> N;          (* total_attempts = retries + 1 of each test *)
  c_scripts : N }.             (* number of setup scripts to run *)

Record pstate := mk_pstate {
  ps_phase : tid -> phase;
  ps_next : sid;               (* index of the next script to start / of the one running *)
  ps_srun : bool }.            (* script ps_next has been accepted and has not finished *)

Definition pstate0 : pstate := mk_pstate (fun _ => PIdle) 0 false.

Definition upd (f : tid -> phase) (t : tid) (p : phase) : tid -> phase :=
  fun x => if x =? t then p else f x.

Definition set_phase (ps : pstate) (t : tid) (p : phase) : pstate :=
  mk_pstate (upd (ps_phase ps) t p) (ps_next ps) (ps_srun ps).

Definition memb (t : tid) (l : list tid) : bool := existsb (N.eqb t) l.

Fixpoint nodupb (l : list tid) : bool :=
  match l with [] => true | x :: r => negb (memb x r) && nodupb r end.

Definition cfg_ok (c : cfg) : bool :=
  nodupb (c_sel c) && forallb (fun t => negb (memb t (c_sel c))) (c_unsel c)
  && forallb (fun t => 1 <=? c_total c t) (c_sel c).

(* all scripts are done: test events may flow *)
Definition tests_open (c : cfg) (ps : pstate) : bool :=
  (ps_next ps =? c_scripts c) && negb (ps_srun ps).

Definition pstep (c : cfg) (ps : pstate) (e : devent) (hs : handshake) : option pstate :=
  match e with
  | ScriptStarted s =>
      if (s =? ps_next ps) && (s <? c_scripts c) && negb (ps_srun ps) then
        match hs with
        | HAccepted => Some (mk_pstate (ps_phase ps) (ps_next ps) true)
        | HRefused => Some (mk_pstate (ps_phase ps) (ps_next ps + 1) false)
        | HNone => None
        end
      else None
  | ScriptSlow s _ =>
      if (s =? ps_next ps) && ps_srun ps then Some ps else None
  | ScriptFinished s _ =>
      if (s =? ps_next ps) && ps_srun ps
      then Some (mk_pstate (ps_phase ps) (ps_next ps + 1) false) else None
  | Started t =>
      if tests_open c ps && memb t (c_sel c) then
        match ps_phase ps t, hs with
        | PIdle, HAccepted => Some (set_phase ps t (PRunning 1))
        | PIdle, HRefused => Some (set_phase ps t PRefusedStart)
        | _, _ => None
        end
      else None
  | Skipped t =>
      if tests_open c ps && memb t (c_unsel c) then
        match ps_phase ps t with
        | PIdle => Some (set_phase ps t PSkipped)
        | _ => None
        end
      else None
  | Slow t no total _ =>
      match ps_phase ps t with
      | PRunning k =>
          if (no =? k) && (total =? c_total c t) then Some (set_phase ps t (PRunning k)) else None
      | _ => None
      end
  | AttemptFailedWillRetry t a =>
      match ps_phase ps t with
      | PRunning k =>
          if (a_no a =? k) && (a_total a =? c_total c t) && (k <? c_total c t)
             && negb (is_success (a_res a))
          then Some (set_phase ps t (PDelay k)) else None
      | _ => None
      end
  | RetryStarted t no total =>
      match ps_phase ps t with
      | PDelay k =>
          if (no =? k + 1) && (total =? c_total c t) then
            match hs with
            | HAccepted => Some (set_phase ps t (PRunning (k + 1)))
            | HRefused => Some (set_phase ps t (PRefusedRetry k))
            | HNone => None
            end
          else None
      | _ => None
      end
  | Finished t a =>
      match ps_phase ps t with
      | PRunning k =>
          if (a_no a =? k) && (a_total a =? c_total c t)
             && (is_success (a_res a) || (c_total c t <=? k))
          then Some (set_phase ps t PFinished) else None
      | _ => None
      end
  | SigShutdown _ | SigStop | SigCont | SigInfo _ | InputInfo | InputEnter | ReportCancel => Some ps
  end.

(* the protocol over an annotated history *)
Fixpoint wf_protocol_from (c : cfg) (ps : pstate) (h : list (devent * handshake)) : bool :=
  match h with
  | [] => true
  | (e, hs) :: r =>
      match pstep c ps e hs with
      | Some ps' => wf_protocol_from c ps' r
      | None => false
      end
  end.

Definition wf_protocol (c : cfg) (h : list (devent * handshake)) : bool :=
  cfg_ok c && wf_protocol_from c pstate0 h.

(* a history annotated with the answers the dispatcher model gives *)
Definition annotate (s : dst) (h : list devent) : list (devent * handshake) :=
  map (fun x => (step_input x, r_hs (step_resp x))) (trace s h).

(* the dispatcher as TestRunnerInner::execute creates it for this configuration *)
Definition init_for (c : cfg) (mf : option N) (dbg : bool) : dstate :=
  init (N.of_nat (length (c_sel c))) mf dbg.

(* well-formed histories: what the executor can make the dispatcher see *)
Definition wf_history (c : cfg) (mf : option N) (dbg : bool) (h : list devent) : bool :=
  wf_protocol c (annotate (Live (init_for c mf dbg)) h).

(* ground truth of a history: the last status of the Finished event of test t, if any *)
Fixpoint final_of (h : list devent) (t : tid) : option attempt :=
  match h with
  | [] => None
  | Finished t' a :: r => if t' =? t then Some a else final_of r t
  | _ :: r => final_of r t
  end.

Fixpoint script_results (h : list devent) : list result :=
  match h with
  | [] => []
  | ScriptFinished _ r :: rest => r :: script_results rest
  | _ :: rest => script_results rest
  end.

Definition test_passed (h : list devent) (t : tid) : bool :=
  match final_of h t with Some a => is_success (a_res a) | None => false end.
Definition test_failed (h : list devent) (t : tid) : bool :=
  match final_of h t with Some a => negb (is_success (a_res a)) | None => false end.

(* the exit status the property demands, computed from the ground truth only *)
Definition spec_exit (c : cfg) (h : list devent) (p : option no_tests) : Z :=
  if negb (forallb is_success (script_results h)) then EXIT_SETUP_SCRIPT_FAILED
  else if negb (forallb (test_passed h) (c_sel c)) then EXIT_TEST_RUN_FAILED
  else match c_sel c, p with
       | [], None | [], Some NtFail => EXIT_NO_TESTS_RUN
       | _, _ => EXIT_OK
       end.

(* the exit status of the model run *)
Definition run_exit (c : cfg) (mf : option N) (dbg : bool) (h : list devent) (p : option no_tests)
  : option Z :=
  match final_state (Live (init_for c mf dbg)) h with
  | Live d => Some (exit_code (summarize_final (d_stats d)) p)
  | Panicked => None
  end.

(* ---- what C02 says about the emitted stream, as a per-test automaton over revents ---- *)

Inductive ostate :=
| ONone             (* nothing reported for this test yet *)
| ORun (k : N)      (* reported started; attempt k in progress *)
| OWait (k : N)     (* attempt k reported failed-will-retry; retry k+1 not reported started *)
| ODone             (* reported finished *)
| OSkip.            (* reported skipped *)

Definition event_tid (e : revent) : option tid :=
  match e with
  | ETestStarted t _ _ _ | ETestSlow t _ _ _ | ETestAttemptFailedWillRetry t _
  | ETestRetryStarted t _ _ | ETestFinished t _ _ _ _ | ETestSkipped t => Some t
  | _ => None
  end.

(* attempts numbered i, i+1, ... *)
Fixpoint numbered_from (i : N) (l : list attempt) : bool :=
  match l with
  | [] => true
  | a :: r => (a_no a =? i) && numbered_from (i + 1) r
  end.

(* one reported event of a test whose total_attempts is [tot] *)
Definition ostep (tot : N) (o : ostate) (e : revent) : option ostate :=
  match e, o with
  | ETestStarted _ _ _ _, ONone => Some (ORun 1)
  | ETestSkipped _, ONone => Some OSkip
  | ETestSlow _ no total _, ORun k => if (no =? k) && (total =? tot) then Some o else None
  | ETestAttemptFailedWillRetry _ a, ORun k =>
      if (a_no a =? k) && (k <? tot) && negb (is_success (a_res a)) then Some (OWait k) else None
  | ETestRetryStarted _ no total, OWait k =>
      if (no =? k + 1) && (total =? tot) then Some (ORun (k + 1)) else None
  | ETestFinished _ sts _ _ _, ORun k =>
      if (st_len sts =? k) && numbered_from 1 (st_all sts) && (k <=? tot) then Some ODone else None
  | _, _ => None
  end.

(* the events of test [t] in a stream, run through the automaton *)
Fixpoint ocheck (tot : N) (t : tid) (o : ostate) (l : list revent) : option ostate :=
  match l with
  | [] => Some o
  | e :: r =>
      match event_tid e with
      | Some t' =>
          if t' =? t then
            match ostep tot o e with Some o' => ocheck tot t o' r | None => None end
          else ocheck tot t o r
      | None => ocheck tot t o r
      end
  end.

Definition is_started_of (t : tid) (e : revent) : bool :=
  match e with ETestStarted t' _ _ _ => t' =? t | _ => false end.
Definition is_finished_of (t : tid) (e : revent) : bool :=
  match e with ETestFinished t' _ _ _ _ => t' =? t | _ => false end.
Definition is_skipped_of (t : tid) (e : revent) : bool :=
  match e with ETestSkipped t' => t' =? t | _ => false end.
Definition is_retry_of (t : tid) (k : N) (e : revent) : bool :=
  match e with ETestRetryStarted t' no _ => (t' =? t) && (no =? k) | _ => false end.
Definition is_failed_retry_of (t : tid) (k : N) (e : revent) : bool :=
  match e with ETestAttemptFailedWillRetry t' a => (t' =? t) && (a_no a =? k) | _ => false end.

Definition count_if (f : revent -> bool) (l : list revent) : nat := length (filter f l).

(* ---- the protocol as a product of independent automata (for the interleaving theorem) ----
   [ustep]: what one test's unit may send next, looking only at that test's own phase;
   [gstep]: the setup-script sequence and the gate "no test is started or skipped before the
   scripts are done"; signals / input / report events are unconstrained. *)

Definition event_test (e : devent) : option tid :=
  match e with
  | Started t | Slow t _ _ _ | AttemptFailedWillRetry t _ | RetryStarted t _ _ | Finished t _
  | Skipped t => Some t
  | _ => None
  end.

Definition ustep (c : cfg) (t : tid) (p : phase) (e : devent) (hs : handshake) : option phase :=
  match e with
  | Started _ =>
      if memb t (c_sel c) then
        match p, hs with
        | PIdle, HAccepted => Some (PRunning 1)
        | PIdle, HRefused => Some PRefusedStart
        | _, _ => None
        end
      else None
  | Skipped _ =>
      if memb t (c_unsel c) then match p with PIdle => Some PSkipped | _ => None end else None
  | Slow _ no total _ =>
      match p with
      | PRunning k => if (no =? k) && (total =? c_total c t) then Some p else None
      | _ => None
      end
  | AttemptFailedWillRetry _ a =>
      match p with
      | PRunning k =>
          if (a_no a =? k) && (a_total a =? c_total c t) && (k <? c_total c t)
             && negb (is_success (a_res a))
          then Some (PDelay k) else None
      | _ => None
      end
  | RetryStarted _ no total =>
      match p with
      | PDelay k =>
          if (no =? k + 1) && (total =? c_total c t) then
            match hs with
            | HAccepted => Some (PRunning (k + 1))
            | HRefused => Some (PRefusedRetry k)
            | HNone => None
            end
          else None
      | _ => None
      end
  | Finished _ a =>
      match p with
      | PRunning k =>
          if (a_no a =? k) && (a_total a =? c_total c t)
             && (is_success (a_res a) || (c_total c t <=? k))
          then Some PFinished else None
      | _ => None
      end
  | _ => Some p
  end.

(* one unit's trace: the events of test t in an annotated history *)
Fixpoint urun (c : cfg) (t : tid) (p : phase) (h : list (devent * handshake)) : bool :=
  match h with
  | [] => true
  | (e, hs) :: r =>
      match event_test e with
      | Some t' =>
          if t' =? t then
            match ustep c t p e hs with Some p' => urun c t p' r | None => false end
          else urun c t p r
      | None => urun c t p r
      end
  end.

Definition gstep (c : cfg) (g : sid * bool) (e : devent) (hs : handshake) : option (sid * bool) :=
  let '(next, srun) := g in
  match e with
  | ScriptStarted s =>
      if (s =? next) && (s <? c_scripts c) && negb srun then
        match hs with
        | HAccepted => Some (next, true)
        | HRefused => Some (next + 1, false)
        | HNone => None
        end
      else None
  | ScriptSlow s _ => if (s =? next) && srun then Some g else None
  | ScriptFinished s _ => if (s =? next) && srun then Some (next + 1, false) else None
  | Started _ | Skipped _ => if (next =? c_scripts c) && negb srun then Some g else None
  | _ => Some g
  end.

Fixpoint grun (c : cfg) (g : sid * bool) (h : list (devent * handshake)) : bool :=
  match h with
  | [] => true
  | (e, hs) :: r => match gstep c g e hs with Some g' => grun c g' r | None => false end
  end.

(* the events of one test *)
Definition of_test (t : tid) (x : devent * handshake) : bool :=
  match event_test (fst x) with Some t' => t' =? t | None => false end.

(* ---- the request channels of the units (for "the run does not sit out retry delays") ----
   [y_mail t]: cancel requests (OtherCancel / Shutdown) sent to unit t and not yet taken off its
   channel. A broadcast made by DispatcherContext::run goes to every unit in running_tests after
   the step; [r_unit] is handle_event's own send. A unit whose attempt is running takes requests
   off its channel at any time ([SConsume]; an OtherCancel is then ignored, the test is allowed to
   finish); a unit in the delay between attempts leaves the delay as soon as a cancel request is in
   its channel (executor.rs, handle_delay_between_attempts). [unicast = false] is the dispatcher
   before the repair of finding F10 (no per-unit repeat). *)

Definition cancel_request (b : option broadcast) : bool :=
  match b with Some BOtherCancel | Some (BShutdown _) => true | _ => false end.

Record sys := mk_sys { y_d : dst; y_ps : pstate; y_mail : tid -> N }.

Inductive sevent := SEvent (e : devent) | SConsume (t : tid).

Definition deliver (unicast : bool) (d' : dstate) (rsp : response) (m : tid -> N) : tid -> N :=
  fun t =>
    m t
    + (if cancel_request (broadcast_of (r_resp rsp)) && is_some (lookup t (d_running d')) then 1 else 0)
    + (match r_unit rsp with
       | Some u => if unicast && (u =? t) then 1 else 0
       | None => 0
       end).

Definition sys_step (unicast : bool) (c : cfg) (y : sys) (x : sevent) : option sys :=
  match x with
  | SEvent e =>
      let '(s', _, rsp) := dstep (y_d y) e in
      match pstep c (y_ps y) e (r_hs rsp) with
      | None => None
      | Some ps' =>
          Some (mk_sys s' ps'
                       (match s' with
                        | Live d' => deliver unicast d' rsp (y_mail y)
                        | Panicked => y_mail y
                        end))
      end
  | SConsume t =>
      match ps_phase (y_ps y) t with
      | PRunning _ =>
          if 0 <? y_mail y t
          then Some (mk_sys (y_d y) (y_ps y) (fun x => if x =? t then y_mail y t - 1 else y_mail y x))
          else None
      | _ => None
      end
  end.

Fixpoint sys_run (unicast : bool) (c : cfg) (y : sys) (xs : list sevent) : option sys :=
  match xs with
  | [] => Some y
  | x :: r => match sys_step unicast c y x with Some y' => sys_run unicast c y' r | None => None end
  end.

Definition sys0 (c : cfg) (mf : option N) (dbg : bool) : sys :=
  mk_sys (Live (init_for c mf dbg)) pstate0 (fun _ => 0).

(* a unit waiting in a retry delay although the run is being cancelled, with no cancel request in
   its channel: it would sit out the whole delay *)
Definition stuck_in_delay (y : sys) (t : tid) : bool :=
  match y_d y with
  | Live d =>
      is_some (d_cancel d)
      && match ps_phase (y_ps y) t with PDelay _ => y_mail y t =? 0 | _ => false end
  | Panicked => false
  end.
