(* Shared run model, part 2: the dispatcher state machine.
   Mirrors nextest-runner/src/runner/dispatcher.rs: DispatcherContext::{handle_event,
   handle_signal_event, begin_cancel, increment_signal_count, new_test, existing_test, finish_test,
   new_setup_script, finish_setup_script} and the response -> broadcast mapping of
   DispatcherContext::run; CancelReason (reporter/events.rs), MaxFail::is_exceeded
   (config/max_fail.rs), event_to_cancel_reason, SignalCount::to_request.
   One [devent] constructor per InternalEvent arm of handle_event; [revent] mirrors the
   TestEventKind emitted through the callback (payload reduced to ids, reasons, counters and the
   statistics snapshot). A Rust panic is the explicit state [Panicked].
   Executable definitions only. *)
From Coq Require Import List NArith Bool.
From NextestModel Require Import Model.Result.
Import ListNotations.
Open Scope N_scope.

Definition tid := N.   (* a test instance (TestInstanceId) *)
Definition sid := N.   (* a setup script (its index) *)

(* CancelReason, declaration order = derived Ord *)
Inductive cancel_reason :=
| SetupScriptFailure | TestFailure | ReportError | Signal | Interrupt | SecondSignal.

Definition rank (c : cancel_reason) : N :=
  match c with
  | SetupScriptFailure => 0 | TestFailure => 1 | ReportError => 2
  | Signal => 3 | Interrupt => 4 | SecondSignal => 5
  end.

(* derived Ord on CancelReason (as Ordering: Lt/Eq/Gt) *)
Definition reason_cmp (a b : cancel_reason) : comparison := rank a ?= rank b.

(* derived Ord on Option<CancelReason>: None < Some _ *)
Definition opt_rank (o : option cancel_reason) : N :=
  match o with None => 0 | Some c => rank c + 1 end.

(* [self.cancel_state < Some(reason)] *)
Definition cancel_lt (cur : option cancel_reason) (r : cancel_reason) : bool :=
  opt_rank cur <? opt_rank (Some r).

(* ShutdownEvent (unix) *)
Inductive shutdown_event := Hangup | Term | Quit | SInterrupt.

Definition event_to_cancel_reason (e : shutdown_event) : cancel_reason :=
  match e with Hangup | Term | Quit => Signal | SInterrupt => Interrupt end.

Inductive sigcount := SOnce | STwice.
Inductive shutdown_req := Once (e : shutdown_event) | Twice.
Definition to_request (c : sigcount) (e : shutdown_event) : shutdown_req :=
  match c with SOnce => Once e | STwice => Twice end.

Inductive cancel_event := CeReport | CeTestFailure | CeSignal (r : shutdown_req).
Inductive info_kind := IkUsr1 | IkInfo.
Inductive info_event := IeSignal (k : info_kind) | IeInput.

(* HandleEventResponse *)
Inductive hresp :=
| RNone | RJobStop | RJobContinue | RInfo (i : info_event) | RCancel (c : cancel_event).

(* outcome of the oneshot handshake carried by Started / RetryStarted / SetupScriptStarted:
   HAccepted = the dispatcher sent on it (channel handed over / go-ahead), HRefused = it dropped the
   sender without sending; HNone = the event carries no handshake *)
Inductive handshake := HNone | HAccepted | HRefused.

(* [r_unit]: the one unit handle_event itself sends RunUnitRequest::OtherCancel to on its own request
   channel (a unicast, as opposed to the broadcasts DispatcherContext::run makes for [r_resp]) *)
Record response := mk_response { r_hs : handshake; r_resp : hresp; r_unit : option tid }.
Definition mk_resp (h : handshake) (r : hresp) : response := mk_response h r None.

(* what DispatcherContext::run broadcasts to every live unit for a response *)
Inductive broadcast :=
| BOtherCancel | BShutdown (r : shutdown_req) | BStop | BContinue | BGetInfo.

Definition broadcast_of (r : hresp) : option broadcast :=
  match r with
  | RNone => None
  | RJobStop => Some BStop
  | RJobContinue => Some BContinue
  | RInfo _ => Some BGetInfo
  | RCancel CeReport => Some BOtherCancel
  | RCancel CeTestFailure => Some BOtherCancel
  | RCancel (CeSignal r) => Some (BShutdown r)
  end.

(* MaxFail: None = All, Some n = Count(n) *)
Definition max_fail_exceeded (mf : option N) (failed : N) : bool :=
  match mf with Some n => n <=? failed | None => false end.

(* input events: InternalEvent arms *)
Inductive devent :=
| ScriptStarted (s : sid)
| ScriptSlow (s : sid) (will_terminate : bool)
| ScriptFinished (s : sid) (r : result)
| Started (t : tid)
| Slow (t : tid) (no total : N) (will_terminate : bool)
| AttemptFailedWillRetry (t : tid) (a : attempt)
| RetryStarted (t : tid) (no total : N)
| Finished (t : tid) (a : attempt)
| Skipped (t : tid)
| SigShutdown (e : shutdown_event)
| SigStop
| SigCont
| SigInfo (k : info_kind)
| InputInfo
| InputEnter
| ReportCancel.

(* emitted events: TestEventKind (those handle_event can emit) *)
Inductive revent :=
| ESetupScriptStarted (s : sid)
| ESetupScriptSlow (s : sid) (will_terminate : bool)
| ESetupScriptFinished (s : sid) (r : result)
| ETestStarted (t : tid) (st : stats) (running : N) (cs : option cancel_reason)
| ETestSlow (t : tid) (no total : N) (will_terminate : bool)
| ETestAttemptFailedWillRetry (t : tid) (a : attempt)
| ETestRetryStarted (t : tid) (no total : N)
| ETestFinished (t : tid) (sts : statuses) (st : stats) (running : N) (cs : option cancel_reason)
| ETestSkipped (t : tid)
| ERunBeginCancel (scripts_running running : N) (r : cancel_reason)
| ERunBeginKill (scripts_running running : N) (r : cancel_reason)
| ERunPaused (scripts_running running : N)
| ERunContinued (scripts_running running : N)
| EInputEnter (st : stats) (running : N) (cs : option cancel_reason).

(* DispatcherContext (fields the logic depends on). [d_paused] is stopwatch.is_paused();
   [d_dbg] says whether debug assertions are compiled in (new_setup_script / finish_setup_script
   use debug_assert!, the other checks are unconditional panics). *)
Record dstate := mk_dstate {
  d_stats : stats;
  d_max_fail : option N;
  d_running : list (tid * list attempt);   (* running_tests: key -> past_attempts *)
  d_script : option sid;                   (* running_setup_script *)
  d_cancel : option cancel_reason;         (* cancel_state *)
  d_sig : option sigcount;                 (* signal_count *)
  d_paused : bool;
  d_dbg : bool }.

Inductive dst := Live (d : dstate) | Panicked.

Definition init (initial_run_count : N) (mf : option N) (dbg : bool) : dstate :=
  mk_dstate (stats0 initial_run_count) mf [] None None None false dbg.

Definition set_stats (d : dstate) (s : stats) : dstate :=
  mk_dstate s (d_max_fail d) (d_running d) (d_script d) (d_cancel d) (d_sig d) (d_paused d) (d_dbg d).
Definition set_running (d : dstate) (r : list (tid * list attempt)) : dstate :=
  mk_dstate (d_stats d) (d_max_fail d) r (d_script d) (d_cancel d) (d_sig d) (d_paused d) (d_dbg d).
Definition set_script (d : dstate) (s : option sid) : dstate :=
  mk_dstate (d_stats d) (d_max_fail d) (d_running d) s (d_cancel d) (d_sig d) (d_paused d) (d_dbg d).
Definition set_cancel (d : dstate) (c : option cancel_reason) : dstate :=
  mk_dstate (d_stats d) (d_max_fail d) (d_running d) (d_script d) c (d_sig d) (d_paused d) (d_dbg d).
Definition set_sig (d : dstate) (c : option sigcount) : dstate :=
  mk_dstate (d_stats d) (d_max_fail d) (d_running d) (d_script d) (d_cancel d) c (d_paused d) (d_dbg d).
Definition set_paused (d : dstate) (p : bool) : dstate :=
  mk_dstate (d_stats d) (d_max_fail d) (d_running d) (d_script d) (d_cancel d) (d_sig d) p (d_dbg d).

(* running_tests as an association list *)
Fixpoint lookup (t : tid) (l : list (tid * list attempt)) : option (list attempt) :=
  match l with
  | [] => None
  | (k, v) :: r => if k =? t then Some v else lookup t r
  end.
Fixpoint remove_key (t : tid) (l : list (tid * list attempt)) : list (tid * list attempt) :=
  match l with
  | [] => []
  | (k, v) :: r => if k =? t then remove_key t r else (k, v) :: remove_key t r
  end.
Fixpoint update_key (t : tid) (v : list attempt) (l : list (tid * list attempt)) :=
  match l with
  | [] => []
  | (k, w) :: r => if k =? t then (k, v) :: r else (k, w) :: update_key t v r
  end.

Definition running_count (d : dstate) : N := N.of_nat (length (d_running d)).
Definition scripts_running (d : dstate) : N := match d_script d with Some _ => 1 | None => 0 end.
Definition is_some {A} (o : option A) : bool := match o with Some _ => true | None => false end.

Definition no_resp : response := mk_resp HNone RNone.

(* begin_cancel *)
Definition begin_cancel (d : dstate) (reason : cancel_reason) (ev : cancel_event)
  : dstate * list revent * hresp :=
  match ev with
  | CeSignal Twice =>
      (d, [ERunBeginKill (scripts_running d) (running_count d) SecondSignal], RCancel ev)
  | _ =>
      if cancel_lt (d_cancel d) reason then
        let d' := set_cancel d (Some reason) in
        (d', [ERunBeginCancel (scripts_running d') (running_count d') reason], RCancel ev)
      else (d, [], RNone)
  end.

(* a step that ends with begin_cancel after having emitted [pre] *)
Definition finish_with_cancel (d : dstate) (pre : list revent) (c : bool)
           (reason : cancel_reason) (ev : cancel_event) : dst * list revent * response :=
  if c then
    let '(d', evs, r) := begin_cancel d reason ev in (Live d', pre ++ evs, mk_resp HNone r)
  else (Live d, pre, no_resp).

(* handle_event on a live dispatcher *)
Definition dstep_live (d : dstate) (e : devent) : dst * list revent * response :=
  match e with
  | ScriptStarted s =>
      if is_some (d_cancel d) then (Live d, [], mk_resp HRefused RNone)
      else
        (* req_rx_tx.send(req_rx) happens first; new_setup_script then replaces the slot and
           debug_asserts that it was empty *)
        if is_some (d_script d) && d_dbg d then (Panicked, [], mk_resp HAccepted RNone)
        else (Live (set_script d (Some s)), [ESetupScriptStarted s], mk_resp HAccepted RNone)
  | ScriptSlow s wt => (Live d, [ESetupScriptSlow s wt], no_resp)
  | ScriptFinished s r =>
      (* finish_setup_script: take() then debug_assert it was Some *)
      if negb (is_some (d_script d)) && d_dbg d then (Panicked, [], no_resp)
      else
        let d1 := set_script d None in
        let d2 := set_stats d1 (on_script_finished (d_stats d1) r) in
        finish_with_cancel d2 [ESetupScriptFinished s r] (negb (is_success r))
                           SetupScriptFailure CeTestFailure
  | Started t =>
      if is_some (d_cancel d) then (Live d, [], mk_resp HRefused RNone)
      else
        (* the channel is handed over before new_test panics on a duplicate key *)
        match lookup t (d_running d) with
        | Some _ => (Panicked, [], mk_resp HAccepted RNone)
        | None =>
            let d' := set_running d ((t, []) :: d_running d) in
            (Live d', [ETestStarted t (d_stats d') (running_count d') (d_cancel d')],
             mk_resp HAccepted RNone)
        end
  | Slow t no total wt => (Live d, [ETestSlow t no total wt], no_resp)
  | AttemptFailedWillRetry t a =>
      match lookup t (d_running d) with
      | None => (Panicked, [], no_resp)          (* existing_test: expect *)
      | Some past =>
          (* while the run is being cancelled the request is repeated to this unit, so that it
             does not sit out the retry delay (it may have consumed and ignored the broadcast
             while its process was running) *)
          (Live (set_running d (update_key t (past ++ [a]) (d_running d))),
           [ETestAttemptFailedWillRetry t a],
           mk_response HNone RNone (if is_some (d_cancel d) then Some t else None))
      end
  | RetryStarted t no total =>
      if is_some (d_cancel d) then (Live d, [], mk_resp HRefused RNone)
      else (Live d, [ETestRetryStarted t no total], mk_resp HAccepted RNone)
  | Finished t a =>
      match lookup t (d_running d) with
      | None => (Panicked, [], no_resp)          (* finish_test: panic *)
      | Some past =>
          let sts := mk_statuses past a in
          let d1 := set_running d (remove_key t (d_running d)) in
          let d2 := set_stats d1 (on_test_finished (d_stats d1) sts) in
          let fail_cancel := max_fail_exceeded (d_max_fail d2) (failed_count (d_stats d2)) in
          finish_with_cancel d2
            [ETestFinished t sts (d_stats d2) (running_count d2) (d_cancel d2)]
            fail_cancel TestFailure CeTestFailure
      end
  | Skipped t =>
      (Live (set_stats d (bump FSkipped (d_stats d))), [ETestSkipped t], no_resp)
  | SigShutdown ev =>
      (* increment_signal_count *)
      match d_sig d with
      | Some STwice => (Panicked, [], no_resp)   (* "Signaled 3 times, exiting immediately" *)
      | cur =>
          let c := match cur with None => SOnce | Some _ => STwice end in
          let d1 := set_sig d (Some c) in
          let '(d2, evs, r) :=
            begin_cancel d1 (event_to_cancel_reason ev) (CeSignal (to_request c ev)) in
          (Live d2, evs, mk_resp HNone r)
      end
  | SigStop =>
      if d_paused d then (Live d, [], no_resp)
      else (Live (set_paused d true), [ERunPaused (scripts_running d) (running_count d)],
            mk_resp HNone RJobStop)
  | SigCont =>
      if d_paused d then
        (Live (set_paused d false), [ERunContinued (scripts_running d) (running_count d)],
         mk_resp HNone RJobContinue)
      else (Live d, [], no_resp)
  | SigInfo k => (Live d, [], mk_resp HNone (RInfo (IeSignal k)))
  | InputInfo => (Live d, [], mk_resp HNone (RInfo IeInput))
  | InputEnter =>
      (Live d, [EInputEnter (d_stats d) (running_count d) (d_cancel d)], no_resp)
  | ReportCancel =>
      let '(d', evs, r) := begin_cancel d ReportError CeReport in
      (Live d', evs, mk_resp HNone r)
  end.

(* a panicked dispatcher handles nothing any more *)
Definition dstep (s : dst) (e : devent) : dst * list revent * response :=
  match s with
  | Live d => dstep_live d e
  | Panicked => (Panicked, [], no_resp)
  end.

(* step-indexed trace of a history, emitted stream, final state *)
Fixpoint trace (s : dst) (h : list devent) : list (devent * list revent * response) :=
  match h with
  | [] => []
  | e :: r => let '(s', evs, rsp) := dstep s e in (e, evs, rsp) :: trace s' r
  end.

Definition step_events (x : devent * list revent * response) : list revent := snd (fst x).
Definition step_resp (x : devent * list revent * response) : response := snd x.
Definition step_input (x : devent * list revent * response) : devent := fst (fst x).

Definition out_of (tr : list (devent * list revent * response)) : list revent :=
  flat_map step_events tr.

Definition next_state (s : dst) (e : devent) : dst := fst (fst (dstep s e)).
Definition final_state (s : dst) (h : list devent) : dst := fold_left next_state h s.
Definition out (s : dst) (h : list devent) : list revent := out_of (trace s h).

Definition dst_stats (s : dst) : option stats :=
  match s with Live d => Some (d_stats d) | Panicked => None end.
Definition dst_cancel (s : dst) : option cancel_reason :=
  match s with Live d => d_cancel d | Panicked => None end.

(* number of shutdown signals in a history (the third one panics) *)
Fixpoint shutdown_count (h : list devent) : nat :=
  match h with
  | [] => 0
  | SigShutdown _ :: r => S (shutdown_count r)
  | _ :: r => shutdown_count r
  end.

(* classification of emitted events used by the C10 statements *)
Definition is_start_event (e : revent) : bool :=
  match e with
  | ETestStarted _ _ _ _ | ETestRetryStarted _ _ _ | ESetupScriptStarted _ => true
  | _ => false
  end.
Definition is_start_request (e : devent) : bool :=
  match e with
  | Started _ | RetryStarted _ _ _ | ScriptStarted _ => true
  | _ => false
  end.
Definition cancel_reason_of (e : revent) : option cancel_reason :=
  match e with ERunBeginCancel _ _ r => Some r | _ => None end.
Definition is_begin_cancel (e : revent) : bool := is_some (cancel_reason_of e).
Definition is_begin_kill (e : revent) : bool :=
  match e with ERunBeginKill _ _ _ => true | _ => false end.
