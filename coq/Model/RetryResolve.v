(* Which retry policy a test is run with: the command line / the environment
   (cargo-nextest/src/dispatch.rs), then the per-test resolution of Model/Overrides.v
   (TestSettings::new), put together as run_test_instance does
   (nextest-runner/src/runner/executor.rs). Executable definitions only. *)
From NextestModel Require Import Base.Str Model.Overrides Model.Backoff.
Open Scope N_scope.

(* `#[arg(long, env = "NEXTEST_RETRIES", value_name = "N")] retries: Option<usize>`: clap takes
   the command-line argument when it is present and reads the environment variable only
   otherwise *)
Definition clap_retries (cli env : option N) : option N :=
  match cli with Some n => Some n | None => env end.

(* `if let Some(retries) = self.retries { builder.set_retries(RetryPolicy::new_without_delay(retries)) }`
   (TestRunnerOpts::to_builder); TestRunnerBuilder.retries is handed to the executor as
   ExecutorContext.force_retries (runner/imp.rs) *)
Definition force_retries (cli env : option N) : option policy :=
  match clap_retries cli env with
  | Some n => Some (new_without_delay n)
  | None => None
  end.

(* a loaded configuration with a selected profile and build platforms *)
Record rconfig := {
  rc_env : env; rc_bp : bplat; rc_builtin : file; rc_repo : file; rc_tools : list file;
  rc_sel : key }.

Section Resolve.
  (* RetryPolicy of a resolved `retries` value (deserialize_retry_policy; serde is outside the
     model, the correspondence check compares it with valid_policy / the documented schema) *)
  Variable dec : option sval -> policy.

  (* settings.retries(): TestSettings::new for this test *)
  Definition own_policy (c : rconfig) (t : test) : policy :=
    dec (settings_for (rc_env c) (rc_bp c) (rc_builtin c) (rc_repo c) (rc_tools c) (rc_sel c)
                      t SRetries).

  (* `let retry_policy = self.force_retries.unwrap_or_else(|| settings.retries());` *)
  Definition resolved_policy (cli env : option N) (c : rconfig) (t : test) : policy :=
    effective_policy (force_retries cli env) (own_policy c t).

  Section Run.
    Variable R : Type.
    Variable succ : R -> bool.
    (* all attempts of one test of a run started with the given command line / environment *)
    Definition run_configured (cli env : option N) (c : rconfig) (t : test)
               (outcome : N -> R) (accept : N -> bool) (js : N -> jsample)
      : list (attempt_rec R) * loop_end :=
      run_test_instance R succ (force_retries cli env) (own_policy c t) outcome accept js.
  End Run.
End Resolve.
