(* How one attempt of a test is classified, and how a list of attempts is described.
   Mirrors nextest-runner/src/runner/executor.rs (create_execution_result, the composition in
   run_test / run_test_inner, detect_fd_leaks) and nextest-runner/src/reporter/events.rs
   (ExecutionResult::is_success, AbortStatus::extract, ExecutionStatuses::{last_status,describe}).
   Unix only. Executable definitions only. *)
From NextestModel Require Import Base.Str.
Open Scope N_scope.

(* ---- what the process did, as reported by wait() *)
Inductive exit_status := Exited (code : N) | Signaled (sig : N).

(* The raw Unix wait status (what std::os::unix::process::ExitStatusExt::from_raw takes) of a
   terminated child: code << 8 for a normal exit, sig | 0x80*core for death by signal.
   Stopped / continued statuses (low 7 bits = 0x7f, or 0xffff) are never returned by the
   plain wait() nextest uses, nor are values with other bits set: [None]. *)
Definition decode_raw (raw : N) : option exit_status :=
  let low := N.land raw 127 in
  if 65536 <=? raw then None
  else if low =? 0 then (if N.land raw 128 =? 0 then Some (Exited (raw / 256)) else None)
  else if low =? 127 then None
  else if raw <? 256 then Some (Signaled low) else None.

Definition encode_raw (st : exit_status) (core : bool) : N :=
  match st with
  | Exited c => c * 256
  | Signaled s => s + (if core then 128 else 0)
  end.

(* ExitStatus::success *)
Definition st_success (st : exit_status) : bool :=
  match st with Exited 0 => true | _ => false end.

(* AbortStatus::extract (unix arm): ExitStatus::signal *)
Definition abort_status (st : exit_status) : option N :=
  match st with Signaled s => Some s | Exited _ => None end.

(* ---- ExecutionResult *)
Inductive result :=
| Pass
| Leak
| Fail (sig : option N) (leaked : bool)
| ExecFail
| Timeout.

Definition is_success (r : result) : bool :=
  match r with Pass | Leak => true | Fail _ _ | ExecFail | Timeout => false end.

(* create_execution_result(exit_status, child_errors, leaked); [child_errors] = the list of
   errors met while reading the child's stdout/stderr is non-empty *)
Definition create_execution_result (st : exit_status) (child_errors leaked : bool) : result :=
  if child_errors then ExecFail
  else if st_success st then (if leaked then Leak else Pass)
  else Fail (abort_status st) leaked.

(* ---- one attempt: run_test + run_test_inner.
   [spawn_failed]: cmd.spawn() returned an error (run_test maps it to ExecFail);
   [timed_out]: the unit took the terminate-for-timeout path, which sets
   status = Some(Timeout); the final line is status.unwrap_or_else(|| create_execution_result ..). *)
Definition attempt_result (spawn_failed timed_out : bool) (st : exit_status)
           (child_errors leaked : bool) : result :=
  if spawn_failed then ExecFail
  else if timed_out then Timeout
  else create_execution_result st child_errors leaked.

(* ---- how the test binary is started (finding F9).
   [Direct]: nextest spawns the test binary itself; [ViaLauncher]: the Unix default
   (double-spawn): nextest spawns `cargo-nextest __double-spawn prog args`, which exec()s the
   test binary and, when that exec fails, exits with NextestExitCode::DOUBLE_SPAWN_ERROR = 70. *)
Inductive spawn_mode := Direct | ViaLauncher.
Inductive behaviour := CannotExec | Ran (st : exit_status).

Definition double_spawn_error_code : N := 70.

(* (spawn_failed, wait status seen by nextest) *)
Definition observed (m : spawn_mode) (b : behaviour) : bool * exit_status :=
  match b, m with
  | Ran st, _ => (false, st)
  | CannotExec, Direct => (true, Exited 0)          (* status irrelevant: never waited for *)
  | CannotExec, ViaLauncher => (false, Exited double_spawn_error_code)
  end.

Definition attempt_of (m : spawn_mode) (b : behaviour) (timed_out child_errors leaked : bool)
  : result :=
  let '(sf, st) := observed m b in attempt_result sf timed_out st child_errors leaked.

(* class of the known finding F9: exec of the test binary fails under double-spawn *)
Definition known_F9 (m : spawn_mode) (b : behaviour) : bool :=
  match m, b with ViaLauncher, CannotExec => true | _, _ => false end.

(* ---- ExecutionStatuses *)
Inductive description :=
| DSuccess (single : nat)                                  (* index of single_status *)
| DFlaky (last : nat) (prior : list nat)                   (* last_status, prior_statuses *)
| DFailure (first last : nat) (retries : list nat).        (* first_status, last_status, retries *)

(* last_status: [None] models the expect() panic on an empty vector *)
Definition last_status (l : list result) : option result :=
  match l with [] => None | r :: l' => Some (last l' r) end.

(* describe, over 0-based indices into the list of statuses; [None] = panic (empty vector) *)
Definition describe (l : list result) : option description :=
  match last_status l with
  | None => None
  | Some lr =>
      let n := length l in
      if is_success lr then
        if Nat.ltb 1 n then Some (DFlaky (n - 1) (seq 0 (n - 1)))
        else Some (DSuccess (n - 1))
      else Some (DFailure 0 (n - 1) (seq 1 (n - 1)))
  end.

Inductive dkind := KSuccess | KFlaky | KFailure.
Definition kind_of (d : description) : dkind :=
  match d with DSuccess _ => KSuccess | DFlaky _ _ => KFlaky | DFailure _ _ _ => KFailure end.

(* ---- detect_fd_leaks as a function of what happens after the child has exited.
   Times are absolute (ns since the child exited), non-decreasing along the list.
   [FdData]: fill_buf returned with data; [FdEof]: all captured handles reached EOF (or a read
   error marked them done); [Req]: a request (signal / cancel / info query) was received.
   Result: true = the leak timer fired while a handle was still open. *)
Inductive fd_event := FdData | FdEof | Req.

(* after the repair: one sleep(leak_timeout) armed when the loop is entered (time 0);
   a handle still open when it fires means leak. An event at exactly [timeout] races with the
   timer in the real code; here the timer wins ties (see the tolerance in the check). *)
Fixpoint detect_leak (timeout : N) (evs : list (N * fd_event)) : bool :=
  match evs with
  | [] => true                       (* nothing more happens: the timer fires *)
  | (t, e) :: rest =>
      if timeout <=? t then true
      else match e with FdEof => false | _ => detect_leak timeout rest end
  end.

(* before the repair (F2): the sleep was re-created on every loop iteration, so every event
   re-armed it; [since] is the time of the last event. Kept for the regression witness. *)
Fixpoint detect_leak_unfixed (timeout since : N) (evs : list (N * fd_event)) : bool :=
  match evs with
  | [] => true
  | (t, e) :: rest =>
      if since + timeout <=? t then true
      else match e with FdEof => false | _ => detect_leak_unfixed timeout t rest end
  end.

(* specification side: time at which the handles were closed (None: never) *)
Fixpoint time_to_eof (evs : list (N * fd_event)) : option N :=
  match evs with
  | [] => None
  | (t, FdEof) :: _ => Some t
  | _ :: rest => time_to_eof rest
  end.

Fixpoint times_sorted (from : N) (evs : list (N * fd_event)) : bool :=
  match evs with
  | [] => true
  | (t, _) :: rest => (from <=? t) && times_sorted t rest
  end.
