(* What nextest shows / stores of captured text that contains no ESC (0x1B), as the crates it uses
   behave (C16, known findings F13 and F14), next to the documented normal form. Strings are lists
   of Unicode scalar values (after the lossy UTF-8 conversion). Executable definitions only.

   strip-ansi-escapes 0.2.1 over vte 0.14.1: outside escape sequences every C0 control and every
   C1 control is "executed", and the only control strip-ansi-escapes executes is LF; everything
   else is printed. quick-junit 0.5.1 [XmlString::new]: [strip_str], then the characters
   00-08, 0B, 0C, 0E-1F are removed; nextest's [xml_safe] then removes U+FFFE and U+FFFF. ANSI escape parsing itself is not modelled: the functions
   below are only meaningful on ESC-free text (the documented stripping is then the identity). *)
From NextestModel Require Import Base.Str.
Open Scope N_scope.

Definition is_c0_not_lf (c : N) : bool := (c <? 32) && negb (c =? 10).
Definition is_c1 (c : N) : bool := (128 <=? c) && (c <=? 159).

Definition strip_impl (s : str) : str := filter (fun c => negb (is_c0_not_lf c || is_c1 c)) s.
Definition strip_doc (s : str) : str := s.

Definition xml_c0 (c : N) : bool := (c <? 9) || (c =? 11) || (c =? 12) || ((14 <=? c) && (c <? 32)).
(* quick-junit alone: the behaviour before the F14 repair, kept for the regression witness *)
Definition junit_impl_unfixed (s : str) : str := filter (fun c => negb (xml_c0 c)) (strip_impl s).
(* [xml_safe] in reporter/aggregator/junit.rs (F14 repair): U+FFFE and U+FFFF are removed as well *)
Definition is_nonchar (c : N) : bool := (c =? 65534) || (c =? 65535).
Definition junit_impl (s : str) : str := filter (fun c => negb (is_nonchar c)) (junit_impl_unfixed s).

(* XML 1.0 Char ::= #x9 | #xA | #xD | [#x20-#xD7FF] | [#xE000-#xFFFD] | [#x10000-#x10FFFF];
   scalar values exclude the surrogates already *)
Definition xml_valid (c : N) : bool :=
  (c =? 9) || (c =? 10) || (c =? 13) || ((32 <=? c) && negb (c =? 65534) && negb (c =? 65535)).
Definition junit_doc (s : str) : str := filter xml_valid (strip_doc s).
Definition xml_text_ok (s : str) : bool := forallb xml_valid s.

(* shown without colour ([write_output_with_trailing_newline] into the stripping writer): one
   trailing LF is taken off the raw output, the rest is written through the stripper, then LF *)
Fixpoint ends_with_lf (s : str) : bool :=
  match s with [] => false | [c] => c =? 10 | _ :: t => ends_with_lf t end.
Definition chop_lf (s : str) : str := if ends_with_lf s then removelast s else s.
Definition display_impl (s : str) : str := strip_impl (chop_lf s) ++ [10].
Definition display_doc (s : str) : str := strip_doc (chop_lf s) ++ [10].

(* the classes of the known findings *)
Definition known_F13_display (s : str) : bool := existsb (fun c => is_c0_not_lf c || is_c1 c) s.
Definition known_F13_junit (s : str) : bool := existsb (fun c => (c =? 9) || (c =? 13) || is_c1 c) s.
Definition known_F14 (s : str) : bool := existsb (fun c => (c =? 65534) || (c =? 65535)) s.
