(* Which sections of a unit's captured output the displayer writes (UnitOutputReporter::write_child_output,
   nextest-runner/src/reporter/displayer/unit_output.rs), from the property text of C16: with split capture standard
   output and standard error are two sections, standard output first; a section is shown when the stream was captured
   and is non-empty (or empty streams are displayed too) -- each stream on its own account; with combined capture there
   is one section. A section is the stream together with its header. Executable definitions only. *)
From Coq Require Import List Bool.
Import ListNotations.

Section Sections.
  Variable stream header : Type.
  Variable is_empty : stream -> bool.

  Definition shown (display_empty : bool) (s : stream) : bool := display_empty || negb (is_empty s).

  (* the section of one stream: [None] = the stream was not captured *)
  Definition stream_section (display_empty : bool) (s : option stream) (h : header) : list (stream * header) :=
    match s with
    | Some x => if shown display_empty x then [(x, h)] else []
    | None => []
    end.

  Definition split_sections (display_empty : bool) (out err : option stream) (h_out h_err : header)
    : list (stream * header) :=
    stream_section display_empty out h_out ++ stream_section display_empty err h_err.

  Definition combined_sections (display_empty : bool) (s : stream) (h : header) : list (stream * header) :=
    stream_section display_empty (Some s) h.
End Sections.
