(* Shared run model, part 1: results, attempts, run statistics, verdict, exit code.
   Mirrors nextest-runner/src/reporter/events.rs (ExecutionResult, ExecuteStatus, RetryData,
   ExecutionStatuses, RunStats::{failed_count, failed_setup_script_count, on_test_finished,
   on_setup_script_finished, summarize_final}, FinalRunStats, RunStatsFailureKind), and the exit-code
   arm of cargo-nextest/src/dispatch.rs (App::exec_run) + errors.rs (process_exit_code) +
   nextest-metadata/src/exit_codes.rs.
   Executable definitions only. Counters are unbounded N (usize in Rust; DESIGN section 4). *)
From Coq Require Import List NArith ZArith Bool.
Import ListNotations.
Open Scope N_scope.

(* ExecutionResult; [sig] is the AbortStatus (Unix signal number) if any. *)
Inductive result :=
| Pass
| Leak
| Fail (sig : option N) (leaked : bool)
| ExecFail
| Timeout.

(* ExecutionResult::is_success *)
Definition is_success (r : result) : bool :=
  match r with Pass | Leak => true | Fail _ _ | ExecFail | Timeout => false end.

(* ExecuteStatus reduced to what the statistics and the properties look at:
   result, is_slow, retry_data.{attempt,total_attempts}. *)
Record attempt := mk_attempt { a_res : result; a_slow : bool; a_no : N; a_total : N }.

(* ExecutionStatuses: a non-empty vector of attempts. The dispatcher builds it as
   past_attempts.push(last_run_status) (ContextTestInstance::finish), which is what the two fields are. *)
Record statuses := mk_statuses { st_past : list attempt; st_last : attempt }.
Definition st_len (s : statuses) : N := N.of_nat (length (st_past s)) + 1.
Definition st_all (s : statuses) : list attempt := st_past s ++ [st_last s].

(* ExecutionStatuses::describe, reduced to the variant: 0 Success, 1 Flaky, 2 Failure *)
Definition describe (s : statuses) : N :=
  if is_success (a_res (st_last s)) then (if 1 <? st_len s then 1 else 0) else 2.

(* RunStats: all 17 counters, in declaration order. *)
Record stats := mk_stats {
  initial_run_count : N; finished_count : N;
  ss_initial : N; ss_finished : N; ss_passed : N; ss_failed : N; ss_exec_failed : N; ss_timed_out : N;
  passed : N; passed_slow : N; flaky : N; failed : N; failed_slow : N; timed_out : N; leaky : N;
  exec_failed : N; skipped : N }.

Definition stats0 (initial : N) : stats :=
  mk_stats initial 0 0 0 0 0 0 0 0 0 0 0 0 0 0 0 0.

Inductive field :=
| FInitial | FFinished | FSsInitial | FSsFinished | FSsPassed | FSsFailed | FSsExecFailed | FSsTimedOut
| FPassed | FPassedSlow | FFlaky | FFailed | FFailedSlow | FTimedOut | FLeaky | FExecFailed | FSkipped.

Definition field_code (f : field) : N :=
  match f with
  | FInitial => 0 | FFinished => 1 | FSsInitial => 2 | FSsFinished => 3 | FSsPassed => 4
  | FSsFailed => 5 | FSsExecFailed => 6 | FSsTimedOut => 7 | FPassed => 8 | FPassedSlow => 9
  | FFlaky => 10 | FFailed => 11 | FFailedSlow => 12 | FTimedOut => 13 | FLeaky => 14
  | FExecFailed => 15 | FSkipped => 16
  end.

(* [x += 1] on one counter *)
Definition bump (f : field) (s : stats) : stats :=
  let b g := if field_code f =? field_code g then 1 else 0 in
  match s with
  | mk_stats x0 x1 x2 x3 x4 x5 x6 x7 x8 x9 x10 x11 x12 x13 x14 x15 x16 =>
      mk_stats (x0 + b FInitial) (x1 + b FFinished) (x2 + b FSsInitial) (x3 + b FSsFinished)
               (x4 + b FSsPassed) (x5 + b FSsFailed) (x6 + b FSsExecFailed) (x7 + b FSsTimedOut)
               (x8 + b FPassed) (x9 + b FPassedSlow) (x10 + b FFlaky) (x11 + b FFailed)
               (x12 + b FFailedSlow) (x13 + b FTimedOut) (x14 + b FLeaky) (x15 + b FExecFailed)
               (x16 + b FSkipped)
  end.

Definition bump_if (c : bool) (f : field) (s : stats) : stats := if c then bump f s else s.

(* RunStats::failed_setup_script_count / failed_count *)
Definition failed_setup_script_count (s : stats) : N := ss_failed s + ss_exec_failed s + ss_timed_out s.
Definition failed_count (s : stats) : N := failed s + exec_failed s + timed_out s.

(* RunStats::on_setup_script_finished (only status.result is looked at) *)
Definition on_script_finished (s : stats) (r : result) : stats :=
  let s := bump FSsFinished s in
  match r with
  | Pass | Leak => bump FSsPassed s
  | Fail _ _ => bump FSsFailed s
  | ExecFail => bump FSsExecFailed s
  | Timeout => bump FSsTimedOut s
  end.

(* RunStats::on_test_finished: the last status decides; flaky iff more than one attempt *)
Definition on_test_finished (s : stats) (st : statuses) : stats :=
  let s := bump FFinished s in
  let l := st_last st in
  let multi := 1 <? st_len st in
  match a_res l with
  | Pass =>
      let s := bump FPassed s in
      let s := bump_if (a_slow l) FPassedSlow s in
      bump_if multi FFlaky s
  | Leak =>
      let s := bump FPassed s in
      let s := bump FLeaky s in
      let s := bump_if (a_slow l) FPassedSlow s in
      bump_if multi FFlaky s
  | Fail _ _ =>
      let s := bump FFailed s in
      bump_if (a_slow l) FFailedSlow s
  | Timeout => bump FTimedOut s
  | ExecFail => bump FExecFailed s
  end.

(* RunStatsFailureKind / FinalRunStats *)
Inductive fkind := KScript | KTest (initial not_run : N).
Inductive final := Success | NoTestsRun | Cancelled (k : fkind) | Failed (k : fkind).

(* RunStats::summarize_final, arm for arm; [initial - finished] is saturating_sub (N subtraction
   truncates at 0) *)
Definition summarize_final (s : stats) : final :=
  if 0 <? failed_setup_script_count s then Failed KScript
  else if ss_finished s <? ss_initial s then Cancelled KScript
  else if 0 <? failed_count s then
    Failed (KTest (initial_run_count s) (initial_run_count s - finished_count s))
  else if finished_count s <? initial_run_count s then
    Cancelled (KTest (initial_run_count s) (initial_run_count s - finished_count s))
  else if finished_count s =? 0 then NoTestsRun
  else Success.

(* --no-tests: Option<NoTestsBehavior>; None is the default policy *)
Inductive no_tests := NtPass | NtWarn | NtFail.

(* NextestExitCode constants used here *)
Definition EXIT_OK : Z := 0%Z.
Definition EXIT_NO_TESTS_RUN : Z := 4%Z.
Definition EXIT_TEST_RUN_FAILED : Z := 100%Z.
Definition EXIT_SETUP_SCRIPT_FAILED : Z := 105%Z.

(* the final match of App::exec_run composed with ExpectedError::process_exit_code *)
Definition exit_code (f : final) (p : option no_tests) : Z :=
  match f with
  | Success => EXIT_OK
  | NoTestsRun =>
      match p with
      | Some NtPass => EXIT_OK
      | Some NtWarn => EXIT_OK
      | Some NtFail => EXIT_NO_TESTS_RUN
      | None => EXIT_NO_TESTS_RUN
      end
  | Cancelled KScript | Failed KScript => EXIT_SETUP_SCRIPT_FAILED
  | Cancelled (KTest _ _) | Failed (KTest _ _) => EXIT_TEST_RUN_FAILED
  end.

(* ---- encodings used by the correspondence checks (plain numbers) ---- *)
Definition b2n (b : bool) : N := if b then 1 else 0.

Definition result_code (r : result) : list N :=
  match r with
  | Pass => [0; 0; 0] | Leak => [1; 0; 0]
  | Fail None l => [2; 0; b2n l]
  | Fail (Some sg) l => [2; sg + 1; b2n l]
  | ExecFail => [3; 0; 0] | Timeout => [4; 0; 0]
  end.

Definition enc_attempt (a : attempt) : list N :=
  result_code (a_res a) ++ [b2n (a_slow a); a_no a; a_total a].

Definition enc_stats (s : stats) : list N :=
  [initial_run_count s; finished_count s; ss_initial s; ss_finished s; ss_passed s; ss_failed s;
   ss_exec_failed s; ss_timed_out s; passed s; passed_slow s; flaky s; failed s; failed_slow s;
   timed_out s; leaky s; exec_failed s; skipped s].

Definition enc_final (f : final) : list N :=
  match f with
  | Success => [0] | NoTestsRun => [1]
  | Cancelled KScript => [2] | Cancelled (KTest i n) => [3; i; n]
  | Failed KScript => [4] | Failed (KTest i n) => [5; i; n]
  end.
