(* The full composition of TestFilter::filter_match and TestFilterBuilder::filter_binary_match
   (nextest-runner/src/test_filter.rs), and the per-binary listing decision of TestList::new.
   Executable definitions only.

   The filterset language itself is not modelled here (see Model/Filterset.v of C05). For one
   binary, the answers of the filterset evaluator are data:
     ets : list (str -> bool)    matches_test of each -E filterset on (this binary, name)
     ebs : list (option bool)    matches_binary of each -E filterset on this binary
     dt  : str -> bool           matches_test of the default filter
     db  : option bool           matches_binary of the default filter
   Theorems that relate the binary level to the test level assume each pair Kleene-sound. *)
From NextestModel Require Import Base.Str Model.Xxh64 Model.Filter Model.NameFilter Model.Partition.
Open Scope N_scope.

Inductive bound := BAll | BDefaultSet.

(* TestFilter::filter_expression_match. Note the early return: when filtersets are given and none
   matches, the default filter is not consulted. *)
Definition filter_expression_match (ets : list (str -> bool)) (dt : str -> bool) (b : bound)
           (name : str) : name_match :=
  let bounded (r : name_match) :=
    match b with
    | BAll => r
    | BDefaultSet => if dt name then r else NMis MDefaultFilter
    end in
  match ets with
  | [] => bounded MatchEmpty
  | _ => if existsb (fun f => f name) ets then bounded MatchWith else NMis MExpression
  end.

(* everything a TestFilterBuilder holds, plus the evaluation context for one binary *)
Record tfilter := {
  tf_ri : run_ignored;
  tf_pb : option pbuilder;
  tf_pats : resolved;
  tf_ets : list (str -> bool);
  tf_dt : str -> bool;
  tf_bound : bound
}.

(* TestFilterBuilder::new (patterns are resolved there) + the evaluation context *)
Definition builder_new (ri : run_ignored) (pb : option pbuilder) (p : patterns)
           (ets : list (str -> bool)) (dt : str -> bool) (b : bound) : tfilter :=
  {| tf_ri := ri; tf_pb := pb; tf_pats := resolve p; tf_ets := ets; tf_dt := dt; tf_bound := b |}.

(* the first three stages of filter_match: ignored, then (name, expression) *)
Definition pre_full (f : tfilter) (name : str) (ign : bool) : option mismatch :=
  match filter_ignored (tf_ri f) ign with
  | Some r => Some r
  | None => combine_name_expr (rname_match (tf_pats f) name)
                              (filter_expression_match (tf_ets f) (tf_dt f) (tf_bound f) name)
  end.

(* TestFilter::filter_match; [cur] is the state of the (count) partitioner *)
Definition filter_match_full (f : tfilter) (cur : N) (name : str) (ign : bool) : fmatch * N :=
  filter_match (pre_full f name ign) (tf_pb f) cur name.

(* a TestFilter used for a sequence of calls, as the public API allows *)
Fixpoint filter_match_seq (f : tfilter) (cur : N) (calls : list (str * bool)) : list fmatch :=
  match calls with
  | [] => []
  | (nm, ign) :: rest =>
      let '(fm, cur') := filter_match_full f cur nm ign in
      fm :: filter_match_seq f cur' rest
  end.

(* ---- binary level *)
Inductive bin_reason := BRExpression | BRDefaultSet.
Inductive bmatch := BDefinite | BPossible | BMismatch (r : bin_reason).

Definition from_result (o : option bool) (r : bin_reason) : bmatch :=
  match o with
  | Some true => BDefinite
  | None => BPossible
  | Some false => BMismatch r
  end.

Definition b_is_match (m : bmatch) : bool :=
  match m with BDefinite | BPossible => true | BMismatch _ => false end.

Definition prefer_expression (a b : bin_reason) : bin_reason :=
  match a, b with
  | BRExpression, _ | _, BRExpression => BRExpression
  | BRDefaultSet, BRDefaultSet => BRDefaultSet
  end.

Definition logic_or (a b : bmatch) : bmatch :=
  match a, b with
  | BDefinite, _ | _, BDefinite => BDefinite
  | BPossible, _ | _, BPossible => BPossible
  | BMismatch r1, BMismatch r2 => BMismatch (prefer_expression r1 r2)
  end.

Definition logic_and (a b : bmatch) : bmatch :=
  match a, b with
  | BDefinite, BDefinite => BDefinite
  | BDefinite, BPossible | BPossible, BDefinite | BPossible, BPossible => BPossible
  | BMismatch r1, BMismatch r2 => BMismatch (prefer_expression r1 r2)
  | BMismatch r, _ | _, BMismatch r => BMismatch r
  end.

(* TestFilterBuilder::filter_binary_match *)
Definition filter_binary_match (ebs : list (option bool)) (db : option bool) (b : bound) : bmatch :=
  let er :=
    match ebs with
    | [] => BDefinite
    | _ => fold_left (fun acc e => logic_or acc (from_result e BRExpression)) ebs
                     (BMismatch BRExpression)
    end in
  if b_is_match er then
    match b with
    | BAll => er
    | BDefaultSet => logic_and er (from_result db BRDefaultSet)
    end
  else er.

Definition bmatch_code (m : bmatch) : N :=
  match m with
  | BDefinite => 0 | BPossible => 1
  | BMismatch BRExpression => 2 | BMismatch BRDefaultSet => 3
  end.

(* ---- the listing decision of TestList::new for one binary: run it and filter its tests, or
   skip it unlisted *)
Inductive suite := Listed (cases : list tcase) | Skipped (r : bin_reason).

Definition list_binary (f : tfilter) (ebs : list (option bool)) (db : option bool)
           (non_ignored ignored : list str) : suite :=
  match filter_binary_match ebs db (tf_bound f) with
  | BMismatch r => Skipped r
  | _ => Listed (process_output (tf_pb f) (pre_full f) non_ignored ignored)
  end.

(* the tests that will be run *)
Definition suite_selected (s : suite) : list str :=
  match s with Listed l => matched l | Skipped _ => [] end.
