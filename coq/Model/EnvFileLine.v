(* One line of a setup script's environment file, as the loop of parse_env_file (nextest-runner/src/runner/
   script_helpers.rs) treats it: split at the first '='; a line without '=' is an error; a key that BEGINS with NEXTEST
   (not only NEXTEST itself or NEXTEST_ followed by more) is reserved. Written from the property text of C18 ("no key before the first
   '=' begins with NEXTEST"); Model/Scripts.v [parse_lines] is the loop over such steps (Proofs/EnvFileLine.v).
   Executable definitions only. *)
From NextestModel Require Import Base.Str Model.Scripts.
Open Scope N_scope.

Inductive line_error := LineNoEquals | LineReservedKey.

Definition line_step (l : str) : (str * str) + line_error :=
  match split_once_eq l with
  | None => inr LineNoEquals
  | Some (k, v) => if is_prefix NEXTEST k then inr LineReservedKey else inl (k, v)
  end.
