(* Retry policies, the backoff iterator and the attempt loop of one test.
   Mirrors nextest-runner/src/config/retry_policy.rs (RetryPolicy, deserialize_retry_policy) and
   nextest-runner/src/runner/executor.rs (BackoffIter, run_test_instance).
   Durations are N nanoseconds (unbounded: std::time::Duration's u64-second overflow is not
   modelled, it needs a delay of more than 5e11 years). Executable definitions only.

   Duration::mul_f64 in the code goes through f64 (from_secs_f64 (factor * as_secs_f64)); the
   exponential factor is a power of two, for which the only roundings are those of as_secs_f64
   and of the final conversion to whole nanoseconds: the result is the exact product whenever it
   is below 2^51 ns (26 days), which the correspondence check states as its tolerance. The model
   uses the exact product. *)
From NextestModel Require Import Base.Str.
Open Scope N_scope.

Inductive policy :=
| Fixed (count delay : N) (jitter : bool)
| Exponential (count delay : N) (jitter : bool) (max_delay : option N).

Definition p_count (p : policy) : N :=
  match p with Fixed c _ _ | Exponential c _ _ _ => c end.

Definition p_jitter (p : policy) : bool :=
  match p with Fixed _ _ j | Exponential _ _ j _ => j end.

(* RetryPolicy::new_without_delay: what `retries = N`, --retries N and NEXTEST_RETRIES=N build *)
Definition new_without_delay (count : N) : policy := Fixed count 0 false.

(* post-deserialize validation in deserialize_retry_policy *)
Definition valid_policy (p : policy) : bool :=
  match p with
  | Fixed _ d j => negb ((d =? 0) && j)
  | Exponential c d _ m =>
      negb (c =? 0) && negb (d =? 0) &&
      match m with
      | None => true
      | Some mx => negb (mx =? 0) && negb (mx <? d)
      end
  end.

(* ---- BackoffIter *)
Record bstate := { b_policy : policy; b_factor : N; b_remaining : N }.

Definition b_new (p : policy) : bstate :=
  {| b_policy := p; b_factor := 1; b_remaining := p_count p |}.

(* next_delay_and_jitter: the factor doubles after every delay that was not capped; once
   delay * factor exceeds max_delay the factor stays and max_delay is returned *)
Definition next_delay_and_jitter (s : bstate) : (N * bool) * bstate :=
  match b_policy s with
  | Fixed _ d j => ((d, j), s)
  | Exponential _ d j m =>
      let exp_delay := d * b_factor s in
      let doubled := {| b_policy := b_policy s; b_factor := b_factor s * 2;
                        b_remaining := b_remaining s |} in
      match m with
      | Some mx => if mx <? exp_delay then ((mx, j), s) else ((exp_delay, j), doubled)
      | None => ((exp_delay, j), doubled)
      end
  end.

(* ---- jitter. apply_jitter multiplies by 0.5 + u/2 with u drawn from (0, 1]; the factor is a
   rational num/den in (1/2, 1] (every f64 is one), and the product is rounded to the nearest
   whole nanosecond, ties to even (Duration::from_secs_f64). *)
Definition jsample := (N * N)%type.     (* (num, den) *)

Definition valid_sample (s : jsample) : bool :=
  let '(n, m) := s in (m <? 2 * n) && (n <=? m).

Definition no_jitter_sample : jsample := (1, 1).

(* a / b rounded to nearest, ties to even *)
Definition rdiv_even (a b : N) : N :=
  let q := a / b in
  let r := a mod b in
  if 2 * r <? b then q
  else if b <? 2 * r then q + 1
  else if N.even q then q else q + 1.

Definition apply_jitter (d : N) (s : jsample) : N := rdiv_even (d * fst s) (snd s).

(* the whole-nanosecond values apply_jitter can return for a delay d: [lo, hi] inclusive.
   (d/2, d] before rounding; rounding to whole nanoseconds can give exactly d/2 when d is even.) *)
Definition jitter_range (d : N) : N * N := ((d + 1) / 2, d).

Definition in_range (r : N * N) (x : N) : bool := (fst r <=? x) && (x <=? snd r).

(* Iterator::next, with the jitter draw supplied *)
Definition b_next (js : jsample) (s : bstate) : option (N * bstate) :=
  if 0 <? b_remaining s then
    let '((d, j), s') := next_delay_and_jitter s in
    let d' := if j then apply_jitter d js else d in
    Some (d', {| b_policy := b_policy s'; b_factor := b_factor s';
                 b_remaining := b_remaining s' - 1 |})
  else None.

(* [take] successive calls of next() on a state (what hook H3's backoff_delays returns);
   draws are consumed from [js] one per call, [no_jitter_sample] when exhausted *)
Fixpoint iter_take (take : nat) (js : list jsample) (s : bstate) : list (option N) :=
  match take with
  | O => []
  | S k =>
      match b_next (hd no_jitter_sample js) s with
      | Some (d, s') => Some d :: iter_take k (tl js) s'
      | None => None :: iter_take k (tl js) s
      end
  end.

(* the delays of a policy before jitter: what next_delay_and_jitter yields, [count] times *)
Fixpoint base_delays_from (n : nat) (s : bstate) : list N :=
  match n with
  | O => []
  | S k => let '((d, _), s') := next_delay_and_jitter s in d :: base_delays_from k s'
  end.

Definition delays (p : policy) : list N := base_delays_from (N.to_nat (p_count p)) (b_new p).

(* documented closed forms, for the theorems *)
Definition min_opt (x : N) (m : option N) : N :=
  match m with Some mx => N.min x mx | None => x end.

Definition delay_spec (p : policy) (k : nat) : N :=
  match p with
  | Fixed _ d _ => d
  | Exponential _ d _ m => min_opt (d * 2 ^ N.of_nat k) m
  end.

(* ---- the attempt loop of run_test_instance, generic in the type of attempt results *)
Inductive loop_end :=
| Finished       (* ExecutorEvent::Finished sent with the last attempt *)
| Refused        (* the dispatcher dropped the RetryStarted handshake: the unit returns silently *)
| Panicked       (* backoff_iter.next() returned None: expect() panics *)
| OutOfFuel.     (* artefact of the fuelled recursion; shown unreachable *)

Section Loop.
  Variable R : Type.
  Variable succ : R -> bool.            (* ExecutionResult::is_success *)

  Record attempt_rec := { at_no : N; at_delay_before : N; at_result : R }.

  (* outcome k: result of attempt k (1-based); accept k: whether the dispatcher accepts the
     RetryStarted handshake of attempt k (it refuses once the run is being cancelled);
     js k: jitter draw used for the delay after attempt k *)
  Fixpoint attempt_loop (fuel : nat) (attempt delay : N) (bs : bstate) (total : N)
           (outcome : N -> R) (accept : N -> bool) (js : N -> jsample)
    : list attempt_rec * loop_end :=
    match fuel with
    | O => ([], OutOfFuel)
    | S f =>
        if (1 <? attempt) && negb (accept attempt) then ([], Refused)
        else
          let r := outcome attempt in
          let rec := {| at_no := attempt; at_delay_before := delay; at_result := r |} in
          if succ r then ([rec], Finished)
          else if attempt <? total then
            match b_next (js attempt) bs with
            | None => ([rec], Panicked)
            | Some (d, bs') =>
                let '(l, e) := attempt_loop f (attempt + 1) d bs' total outcome accept js in
                (rec :: l, e)
            end
          else ([rec], Finished)
    end.

  (* run_test_instance: force_retries (CLI / environment) replaces the test's own policy *)
  Definition effective_policy (force : option policy) (settings : policy) : policy :=
    match force with Some p => p | None => settings end.

  Definition run_test_instance (force : option policy) (settings : policy)
             (outcome : N -> R) (accept : N -> bool) (js : N -> jsample)
    : list attempt_rec * loop_end :=
    let p := effective_policy force settings in
    attempt_loop (S (N.to_nat (p_count p))) 1 0 (b_new p) (p_count p + 1) outcome accept js.

  (* specification side: 1-based number of the first successful attempt among 1..total,
     or total when there is none *)
  Fixpoint first_pass_from (n : nat) (k total : N) (outcome : N -> R) : N :=
    match n with
    | O => total
    | S n' => if succ (outcome k) then k
              else if k <? total then first_pass_from n' (k + 1) total outcome else total
    end.
  Definition first_pass (total : N) (outcome : N -> R) : N :=
    first_pass_from (N.to_nat total) 1 total outcome.
End Loop.

Arguments at_no {R}.
Arguments at_delay_before {R}.
Arguments at_result {R}.
