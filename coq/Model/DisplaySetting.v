(* Which output-display setting governs what the displayer shows (C06 "per-test settings resolve by the documented
   precedence": a value forced on the command line or through the environment -- --success-output / --failure-output,
   NEXTEST_SUCCESS_OUTPUT / NEXTEST_FAILURE_OUTPUT -- wins over the value resolved per test from the profile and its
   overrides). Written from the property text and the documentation of the two options. The displayer decides at two
   kinds of events: a failed attempt that will be retried (failure-output governs) and a finished test (success-output
   if its last attempt passed, failure-output otherwise). Executable definitions only. *)
From Coq Require Import Bool.

(* TestOutputDisplay *)
Inductive display := DImmediate | DImmediateFinal | DFinal | DNever.

(* the forced value, if there is one, else the per-test resolved one *)
Definition displayed_output_setting (forced : option display) (resolved : display) : display :=
  match forced with Some v => v | None => resolved end.

Inductive ekind := EkAttemptWillRetry | EkFinished (passed : bool).

(* does success-output (rather than failure-output) govern this event *)
Definition governs_success (k : ekind) : bool :=
  match k with EkFinished true => true | _ => false end.

Definition setting_for (k : ekind) (forced_success forced_failure : option display) (success failure : display)
  : display :=
  if governs_success k then displayed_output_setting forced_success success
  else displayed_output_setting forced_failure failure.

(* output is shown right away iff the governing setting is immediate or immediate-final *)
Definition is_immediate (d : display) : bool :=
  match d with DImmediate | DImmediateFinal => true | DFinal | DNever => false end.
