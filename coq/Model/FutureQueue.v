(* future-queue 0.4.0, `future_queue_grouped` (future_queue_grouped.rs, global_weight.rs, slots.rs),
   re-modelled from its source as an executable state machine. Executable definitions only.

   What one `poll_next` of the real stream does, in this order:
     1. `poll_pop_in_progress`: if no future is in progress -> nothing; if some are but none is
        ready -> return Pending at once (no filling); if one is ready -> pop it, give back its
        global weight and slot, and if it has a group: give back group weight and slot and then
        start queued futures of THAT group from the front of the group queue while both the global
        and the group limit admit the front one ([release], [drain_loop]).
     2. fill ([fill_loop]): while the head of the source stream fits the GLOBAL limit, pull it;
        if it has no group start it; if its group has room start it; otherwise push it to the back
        of the group's queue. Stop at the first head that does not fit globally.
     3. only when step 1 found the in-progress set empty: pop again (a future that is ready within
        the poll that created it is popped, its group drained, and NOT followed by a fill).
   Hence every behaviour of the real stream is a sequence of the three operations
   [OpFill], [OpComplete id] (pop + drain + fill), [OpCompleteNoFill id] (pop + drain).
   Weights are capped: a weight w counts as [min w max] against a limit [max].
   usize overflow is not modelled (N is unbounded). A panic of the crate (unknown group id) is the
   explicit [panicked] flag; a panicked queue does nothing any more. *)
From NextestModel Require Import Base.Str.
Open Scope N_scope.

Record item := mkitem { it_id : N; it_w : N; it_grp : option N }.

(* ---- slots.rs: SlotReservations = {next; free : min-heap}. The heap is modelled as a list;
   [reserve] pops the minimum, else hands out [next]. *)
Record slotset := mkslots { ss_next : N; ss_free : list N }.

Definition slots_empty : slotset := mkslots 0 [].

Fixpoint list_min (x : N) (l : list N) : N :=
  match l with
  | [] => x
  | y :: r => list_min (N.min x y) r
  end.

Fixpoint remove_one (x : N) (l : list N) : list N :=
  match l with
  | [] => []
  | y :: r => if x =? y then r else y :: remove_one x r
  end.

Definition slot_reserve (s : slotset) : N * slotset :=
  match ss_free s with
  | [] => (ss_next s, mkslots (ss_next s + 1) [])
  | x :: r => (list_min x r, mkslots (ss_next s) (remove_one (list_min x r) (x :: r)))
  end.

Definition slot_release (s : slotset) (k : N) : slotset :=
  mkslots (ss_next s) (k :: ss_free s).

(* ---- global_weight.rs / GroupData: has_space_for, add_weight, sub_weight *)
Definition capw (w max : N) : N := N.min w max.
Definition has_space (cur max w : N) : bool := cur <=? max - capw w max.

Record grp := mkgrp { g_max : N; g_cur : N; g_slots : slotset; g_queue : list item }.

(* a future in progress: FutureWithGW {weight (in the item), global_slot, id_and_group_slot} *)
Record rinfo := mkrun { r_item : item; r_gslot : N; r_grp : option (N * N) }.

Record fq := mkfq {
  pending : list item;          (* the source stream, head first *)
  gmax : N; gcur : N;           (* GlobalWeight *)
  gslots : slotset;             (* global SlotReservations *)
  groups : list (N * grp);      (* GroupStore (first entry of a key counts) *)
  running : list rinfo;         (* in_progress_queue, in start order *)
  panicked : bool }.

Inductive event :=
| EvPull (it : item)            (* item taken from the source stream *)
| EvStart (r : rinfo)           (* future created with its FutureQueueContext *)
| EvDone (id : N)               (* completed future popped *)
| EvPanic.

Fixpoint glookup (k : N) (gs : list (N * grp)) : option grp :=
  match gs with
  | [] => None
  | (k', g) :: r => if k =? k' then Some g else glookup k r
  end.

Fixpoint gupdate (k : N) (g : grp) (gs : list (N * grp)) : list (N * grp) :=
  match gs with
  | [] => []
  | (k', g') :: r => if k =? k' then (k', g) :: r else (k', g') :: gupdate k g r
  end.

Definition set_pending (q : fq) (l : list item) : fq :=
  mkfq l (gmax q) (gcur q) (gslots q) (groups q) (running q) (panicked q).
Definition set_groups (q : fq) (gs : list (N * grp)) : fq :=
  mkfq (pending q) (gmax q) (gcur q) (gslots q) gs (running q) (panicked q).
Definition set_panicked (q : fq) : fq :=
  mkfq (pending q) (gmax q) (gcur q) (gslots q) (groups q) (running q) true.
Definition set_queue (q : fq) (k : N) (l : list item) : fq :=
  match glookup k (groups q) with
  | None => q
  | Some g => set_groups q (gupdate k (mkgrp (g_max g) (g_cur g) (g_slots g) l) (groups q))
  end.

(* start a future without a group: add global weight, reserve a global slot *)
Definition start_global (q : fq) (it : item) : fq * rinfo :=
  let r := mkrun it (fst (slot_reserve (gslots q))) None in
  (mkfq (pending q) (gmax q) (gcur q + capw (it_w it) (gmax q)) (snd (slot_reserve (gslots q)))
        (groups q) (running q ++ [r]) (panicked q), r).

(* start a future of group k (whose data is g): both weights, both slots *)
Definition start_in_group (q : fq) (k : N) (g : grp) (it : item) : fq * rinfo :=
  let r := mkrun it (fst (slot_reserve (gslots q))) (Some (k, fst (slot_reserve (g_slots g)))) in
  let g' := mkgrp (g_max g) (g_cur g + capw (it_w it) (g_max g)) (snd (slot_reserve (g_slots g)))
                  (g_queue g) in
  (mkfq (pending q) (gmax q) (gcur q + capw (it_w it) (gmax q)) (snd (slot_reserve (gslots q)))
        (gupdate k g' (groups q)) (running q ++ [r]) (panicked q), r).

Definition enqueue (q : fq) (k : N) (g : grp) (it : item) : fq :=
  set_groups q (gupdate k (mkgrp (g_max g) (g_cur g) (g_slots g) (g_queue g ++ [it])) (groups q)).

(* the fill loop of poll_next over the source stream [l]; [pending q] is rewritten on exit *)
Fixpoint fill_loop (l : list item) (q : fq) : fq * list event :=
  match l with
  | [] => (set_pending q [], [])
  | it :: rest =>
      if has_space (gcur q) (gmax q) (it_w it) then
        match it_grp it with
        | None =>
            let qr := start_global q it in
            let res := fill_loop rest (fst qr) in
            (fst res, EvPull it :: EvStart (snd qr) :: snd res)
        | Some k =>
            match glookup k (groups q) with
            | None => (set_panicked (set_pending q rest), [EvPull it; EvPanic])
            | Some g =>
                if has_space (g_cur g) (g_max g) (it_w it) then
                  let qr := start_in_group q k g it in
                  let res := fill_loop rest (fst qr) in
                  (fst res, EvPull it :: EvStart (snd qr) :: snd res)
                else
                  let res := fill_loop rest (enqueue q k g it) in
                  (fst res, EvPull it :: snd res)
            end
        end
      else (set_pending q l, [])
  end.

Definition fq_fill (q : fq) : fq * list event :=
  if panicked q then (q, []) else fill_loop (pending q) q.

(* first running future with this id, and the others *)
Fixpoint take_running (id : N) (rs : list rinfo) : option (rinfo * list rinfo) :=
  match rs with
  | [] => None
  | r :: rest =>
      if it_id (r_item r) =? id then Some (r, rest)
      else match take_running id rest with
           | None => None
           | Some (x, rest') => Some (x, r :: rest')
           end
  end.

(* give back weights and slots of a popped future *)
Definition release (q : fq) (r : rinfo) (rest : list rinfo) : fq :=
  let gs :=
    match r_grp r with
    | None => groups q
    | Some (k, t) =>
        match glookup k (groups q) with
        | None => groups q
        | Some g => gupdate k (mkgrp (g_max g) (g_cur g - capw (it_w (r_item r)) (g_max g))
                                     (slot_release (g_slots g) t) (g_queue g)) (groups q)
        end
    end in
  mkfq (pending q) (gmax q) (gcur q - capw (it_w (r_item r)) (gmax q))
       (slot_release (gslots q) (r_gslot r)) gs rest (panicked q).

(* start queued futures of group k from the front while both limits admit the front one;
   the group's queue field is rewritten on exit *)
Fixpoint drain_loop (k : N) (queue : list item) (q : fq) : fq * list event :=
  match queue with
  | [] => (set_queue q k [], [])
  | it :: rest =>
      match glookup k (groups q) with
      | None => (q, [])
      | Some g =>
          if has_space (gcur q) (gmax q) (it_w it) && has_space (g_cur g) (g_max g) (it_w it) then
            let qr := start_in_group q k g it in
            let res := drain_loop k rest (fst qr) in
            (fst res, EvStart (snd qr) :: snd res)
          else (set_queue q k queue, [])
      end
  end.

(* poll_pop_in_progress on a ready future [id] *)
Definition fq_pop (q : fq) (id : N) : option (fq * list event) :=
  if panicked q then None else
  match take_running id (running q) with
  | None => None
  | Some (r, rest) =>
      let q1 := release q r rest in
      match r_grp r with
      | None => Some (q1, [EvDone id])
      | Some (k, _) =>
          match glookup k (groups q1) with
          | None => Some (q1, [EvDone id])
          | Some g => let res := drain_loop k (g_queue g) q1 in
                      Some (fst res, EvDone id :: snd res)
          end
      end
  end.

Inductive op := OpFill | OpComplete (id : N) | OpCompleteNoFill (id : N).

Definition fq_step (q : fq) (o : op) : fq * list event :=
  match o with
  | OpFill => fq_fill q
  | OpCompleteNoFill id =>
      match fq_pop q id with None => (q, []) | Some res => res end
  | OpComplete id =>
      match fq_pop q id with
      | None => (q, [])
      | Some res => let res2 := fq_fill (fst res) in (fst res2, snd res ++ snd res2)
      end
  end.

Definition fq_run_step (acc : fq * list event) (o : op) : fq * list event :=
  let res := fq_step (fst acc) o in (fst res, snd acc ++ snd res).

Definition fq_run (q : fq) (ops : list op) : fq * list event :=
  fold_left fq_run_step ops (q, []).

Definition new_grp (max : N) : grp := mkgrp max 0 slots_empty [].

Definition fq_new (gm : N) (grps : list (N * N)) (items : list item) : fq :=
  mkfq items gm 0 slots_empty (map (fun kg => (fst kg, new_grp (snd kg))) grps) [] false.

(* ---- observations *)
Definition queued_items (q : fq) : list item := flat_map (fun kg => g_queue (snd kg)) (groups q).
(* items the queue holds that were never started *)
Definition unstarted (q : fq) : list item := pending q ++ queued_items q.

Fixpoint pulls (evs : list event) : list item :=
  match evs with
  | [] => []
  | EvPull it :: r => it :: pulls r
  | _ :: r => pulls r
  end.

Fixpoint starts (evs : list event) : list rinfo :=
  match evs with
  | [] => []
  | EvStart x :: r => x :: starts r
  | _ :: r => starts r
  end.

Definition rgroup (r : rinfo) : option N := option_map fst (r_grp r).
Definition in_group (k : N) (r : rinfo) : bool :=
  match r_grp r with Some (k', _) => k =? k' | None => false end.

Fixpoint sumN (l : list N) : N := match l with [] => 0 | x :: r => x + sumN r end.

(* weight in use as the property counts it *)
Definition global_load (q : fq) : N :=
  sumN (map (fun r => capw (it_w (r_item r)) (gmax q)) (running q)).
Definition group_load (k : N) (gm : N) (rs : list rinfo) : N :=
  sumN (map (fun r => capw (it_w (r_item r)) gm) (filter (in_group k) rs)).

Definition group_slots_held (k : N) (rs : list rinfo) : list N :=
  flat_map (fun r => match r_grp r with
                     | Some (k', t) => if k =? k' then [t] else []
                     | None => [] end) rs.

(* encoding of a trace for the correspondence check:
   pull = [0;id]; start = [1;id;global slot;group slot + 1 or 0]; done = [2;id]; panic = [3] *)
Definition enc_event (e : event) : list N :=
  match e with
  | EvPull it => [0; it_id it]
  | EvStart r => [1; it_id (r_item r); r_gslot r;
                  match r_grp r with Some (_, t) => t + 1 | None => 0 end]
  | EvDone id => [2; id]
  | EvPanic => [3]
  end.

(* final line of the encoding: [9; gcur; number running; number never started; panicked] *)
Definition enc_run (res : fq * list event) : list (list N) :=
  map enc_event (snd res) ++
  [[9; gcur (fst res); N.of_nat (length (running (fst res)));
    N.of_nat (length (unstarted (fst res))); if panicked (fst res) then 1 else 0]].

(* ---- NEXTEST_TEST_GROUP / NEXTEST_TEST_GLOBAL_SLOT / NEXTEST_TEST_GROUP_SLOT
   (runner/executor.rs, run_test_inner) *)
Fixpoint dec_digits (fuel : nat) (n : N) (acc : str) : str :=
  match fuel with
  | O => acc
  | S f => if n <? 10 then (48 + n) :: acc
           else dec_digits f (n / 10) ((48 + n mod 10) :: acc)
  end.
(* decimal rendering (u64::to_string) *)
Definition dec_str (n : N) : str := dec_digits (S (N.size_nat n)) n [].

Definition s_GLOBAL_SLOT : str :=  (* NEXTEST_TEST_GLOBAL_SLOT *)
  [78;69;88;84;69;83;84;95;84;69;83;84;95;71;76;79;66;65;76;95;83;76;79;84].
Definition s_GROUP : str :=        (* NEXTEST_TEST_GROUP *)
  [78;69;88;84;69;83;84;95;84;69;83;84;95;71;82;79;85;80].
Definition s_GROUP_SLOT : str :=   (* NEXTEST_TEST_GROUP_SLOT *)
  [78;69;88;84;69;83;84;95;84;69;83;84;95;71;82;79;85;80;95;83;76;79;84].
Definition s_at_global : str := [64;103;108;111;98;97;108].   (* @global *)
Definition s_none : str := [110;111;110;101].                 (* none *)

(* [gname] is the configured name of the test's group (TestGroup::Custom), None for
   TestGroup::Global; the slots come from the FutureQueueContext of the running future *)
Definition slot_env (gname : option str) (r : rinfo) : list (str * str) :=
  [ (s_GLOBAL_SLOT, dec_str (r_gslot r));
    (s_GROUP, match gname with Some n => n | None => s_at_global end);
    (s_GROUP_SLOT, match r_grp r with Some (_, t) => dec_str t | None => s_none end) ].

(* ---- the environment as a function of the future in progress alone.
   The key handed to future_queue_grouped IS the group's configured name (CustomTestGroup); the
   model numbers the groups, [names k] is the name of group k. run_test_inner takes the name from
   test.settings.test_group() -- the group of the item -- and the slots from the
   FutureQueueContext. *)
Definition env_group (names : N -> str) (r : rinfo) : str :=
  match it_grp (r_item r) with Some k => names k | None => s_at_global end.
Definition env_group_slot (r : rinfo) : str :=
  match r_grp r with Some (_, t) => dec_str t | None => s_none end.
Definition test_env (names : N -> str) (r : rinfo) : list (str * str) :=
  slot_env (option_map names (it_grp (r_item r))) r.
