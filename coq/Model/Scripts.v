(* Setup scripts (C18): which scripts are enabled and in which order
   (SetupScripts::new_with_queries, config/scripts.rs), the environment file a script writes
   (parse_env_file, runner/script_helpers.rs), how its variables reach the tests
   (SetupScriptExecuteData::apply), what a finished script reports
   (run_setup_script_inner, runner/executor.rs) and the serial run loop (run_setup_scripts) over
   an abstract dispatcher interface.  Executable definitions only. *)
From NextestModel Require Import Base.Str.
From Coq Require Import ZArith.
Open Scope N_scope.

(* ------------------------------------------------------------------ rules and enabled scripts *)

(* script ids: [ScriptId]s, the keys of the [script_config()] IndexMap (pairwise distinct) *)
Definition sid := N.

(* a test query: an identifier (index into the harness's table of queries) and whether the
   binary was built for the host platform (BinaryQuery::platform) *)
Record tquery := mkq { q_id : N; q_host : bool }.

(* CompiledProfileScripts<FinalConfig>: the three platform evaluations (target-spec; oracle),
   the optional filterset (its truth value per test is an oracle) and the listed scripts *)
Record rule := mkrule {
  r_host_eval : bool;        (* host spec against the host platform *)
  r_host_test_eval : bool;   (* target spec against the host platform *)
  r_target_eval : bool;      (* target spec against the target platform *)
  r_filter : option (tquery -> bool);
  r_setup : list sid }.

(* CompiledProfileScripts::is_enabled *)
Definition rule_matches (r : rule) (t : tquery) : bool :=
  if negb (r_host_eval r) then false
  else if q_host t && negb (r_host_test_eval r) then false
  else if negb (q_host t) && negb (r_target_eval r) then false
  else match r_filter r with
       | Some f => f t
       | None => true
       end.

Definition mem_sid (s : sid) (l : list sid) : bool := existsb (N.eqb s) l.

(* by_script_id[s]: the rules listing s, once per occurrence, in rule order *)
Definition compiled_for (rules : list rule) (s : sid) : list rule :=
  flat_map (fun r => flat_map (fun s' => if s' =? s then [r] else []) (r_setup r)) rules.

(* the keys of by_script_id in first-occurrence order (the real HashMap iterates in an
   unspecified order: the functions below take the key order as a parameter) *)
Fixpoint dedup (l : list sid) : list sid :=
  match l with
  | [] => []
  | x :: l' => x :: filter (fun y => negb (y =? x)) (dedup l')
  end.
Definition listed_ids (rules : list rule) : list sid := dedup (flat_map r_setup rules).

(* compiled.iter().any(|data| data.is_enabled(&test, &env)) -- also SetupScript::is_enabled *)
Definition script_matches_test (rules : list rule) (s : sid) (t : tquery) : bool :=
  existsb (fun r => rule_matches r t) (compiled_for rules s).

(* the loop computing enabled_ids: tests outside, scripts inside, already enabled ones skipped *)
Definition enabled_ids_step (keys : list sid) (rules : list rule) (acc : list sid) (t : tquery)
  : list sid :=
  fold_left (fun acc s =>
               if mem_sid s acc then acc
               else if script_matches_test rules s t then s :: acc else acc) keys acc.
Definition enabled_ids_loop (keys : list sid) (rules : list rule) (sel : list tquery) : list sid :=
  fold_left (enabled_ids_step keys rules) sel [].

(* SetupScript: id + the compiled rules listing it *)
Record setup_script := mkss { ss_id : sid; ss_compiled : list rule }.

(* new_with_queries with an explicit HashMap key order *)
Definition enabled_with (keys : list sid) (defs : list sid) (rules : list rule)
           (sel : list tquery) : list setup_script :=
  match rules with
  | [] => []
  | _ =>
      let ids := enabled_ids_loop keys rules sel in
      flat_map (fun s => if mem_sid s ids then [mkss s (compiled_for rules s)] else []) defs
  end.

Definition enabled (defs : list sid) (rules : list rule) (sel : list tquery) : list setup_script :=
  enabled_with (listed_ids rules) defs rules sel.

Definition enabled_ids (defs : list sid) (rules : list rule) (sel : list tquery) : list sid :=
  map ss_id (enabled defs rules sel).

(* SetupScript::is_enabled *)
Definition ss_is_enabled (ss : setup_script) (t : tquery) : bool :=
  existsb (fun r => rule_matches r t) (ss_compiled ss).

(* specification side: s is needed by the selection *)
Definition script_needed (rules : list rule) (sel : list tquery) (s : sid) : bool :=
  existsb (fun t => script_matches_test rules s t) sel.

(* ------------------------------------------------------------------ the environment file *)

Definition NL : N := 10.
Definition CR : N := 13.
Definition EQ : N := 61.
Definition NEXTEST : str := [78; 69; 88; 84; 69; 83; 84].

(* tokio's Lines: cut at every '\n'; a segment that was terminated by '\n' loses one trailing
   '\r'; the unterminated rest of the file is a line iff it is non-empty (and keeps a trailing
   '\r').  [cur] is the current segment, reversed. *)
Definition strip_cr_rev (cur : str) : str :=
  match cur with
  | c :: r => if c =? CR then r else cur
  | [] => []
  end.
Fixpoint split_lines_aux (cur : str) (s : str) : list str :=
  match s with
  | [] => match cur with [] => [] | _ => [rev cur] end
  | c :: s' => if c =? NL then rev (strip_cr_rev cur) :: split_lines_aux [] s'
               else split_lines_aux (c :: cur) s'
  end.
Definition split_lines (s : str) : list str := split_lines_aux [] s.

(* str::split_once('=') *)
Fixpoint split_once_eq (l : str) : option (str * str) :=
  match l with
  | [] => None
  | c :: r => if c =? EQ then Some ([], r)
              else match split_once_eq r with
                   | Some (k, v) => Some (c :: k, v)
                   | None => None
                   end
  end.

(* BTreeMap<String, String> as a key-sorted association list *)
Definition envmap := list (str * str).

Fixpoint env_insert (k v : str) (m : envmap) : envmap :=
  match m with
  | [] => [(k, v)]
  | (k', v') :: r =>
      match str_cmp k k' with
      | Lt => (k, v) :: m
      | Eq => (k, v) :: r
      | Gt => (k', v') :: env_insert k v r
      end
  end.

Fixpoint env_lookup (k : str) (m : envmap) : option str :=
  match m with
  | [] => None
  | (k', v') :: r => if str_eqb k k' then Some v' else env_lookup k r
  end.

(* the loop of parse_env_file over the lines already read *)
Fixpoint parse_lines (ls : list str) (acc : envmap) : option envmap :=
  match ls with
  | [] => Some acc
  | l :: r =>
      match split_once_eq l with
      | None => None                                   (* EnvFileParse *)
      | Some (k, v) =>
          if is_prefix NEXTEST k then None             (* EnvFileReservedKey *)
          else parse_lines r (env_insert k v acc)
      end
  end.
Definition parse_env (ls : list str) : option envmap := parse_lines ls [].

(* the whole function on the (valid UTF-8) content of the file *)
Definition parse_env_file (content : str) : option envmap := parse_env (split_lines content).

(* specification side: a line the parser accepts, and the last binding of a key *)
Definition line_ok (l : str) : bool :=
  match split_once_eq l with
  | Some (k, _) => negb (is_prefix NEXTEST k)
  | None => false
  end.
Fixpoint last_binding (k : str) (ls : list str) : option str :=
  match ls with
  | [] => None
  | l :: r =>
      match last_binding k r with
      | Some v => Some v
      | None => match split_once_eq l with
                | Some (k', v) => if str_eqb k k' then Some v else None
                | None => None
                end
      end
  end.

(* ------------------------------------------------------------------ applying the variables *)

(* SetupScriptExecuteData::apply: scripts in the order they were added (= run order); only the
   scripts enabled for the test; Command::env = insertion into the command's variable map *)
Definition env_union (m : envmap) (base : envmap) : envmap :=
  fold_left (fun e kv => env_insert (fst kv) (snd kv) e) m base.
Definition apply_env (data : list (setup_script * envmap)) (t : tquery) (base : envmap) : envmap :=
  fold_left (fun e d => if ss_is_enabled (fst d) t then env_union (snd d) e else e) data base.

(* specification side: the value the last enabled script defining k gives it *)
Fixpoint scripted_value (data : list (setup_script * envmap)) (t : tquery) (k : str)
  : option str :=
  match data with
  | [] => None
  | d :: r =>
      match scripted_value r t k with
      | Some v => Some v
      | None => if ss_is_enabled (fst d) t then env_lookup k (snd d) else None
      end
  end.

(* ------------------------------------------------------------------ what a finished script reports *)

Inductive exec_result := RPass | RLeak | RFail | RExecFail | RTimeout.
Definition is_success (r : exec_result) : bool :=
  match r with RPass | RLeak => true | _ => false end.

(* what the script process did: its execution result and the content of $NEXTEST_ENV afterwards
   ([None]: the file cannot be opened or is not valid UTF-8) *)
Record outcome := mkout { o_result : exec_result; o_env_file : option str }.

Definition read_env (o : outcome) : option envmap :=
  match o_env_file o with
  | Some c => parse_env_file c
  | None => None
  end.

(* run_setup_script_inner after the F5 repair: an unreadable or invalid environment file turns
   a successful execution into an execution failure *)
Definition finish_script (o : outcome) : exec_result * option envmap :=
  if is_success (o_result o) then
    match read_env o with
    | Some m => (o_result o, Some m)
    | None => (RExecFail, None)
    end
  else (o_result o, None).

(* before the repair (F5): the error was recorded but the result stayed a pass and the
   variables were dropped *)
Definition finish_script_unrepaired (o : outcome) : exec_result * option envmap :=
  if is_success (o_result o) then (o_result o, read_env o) else (o_result o, None).

(* ------------------------------------------------------------------ the run *)

(* the part of the dispatcher the scripts talk to.  [d_unit_start] answers a
   SetupScriptStarted / Started request (true = the unit may run), [d_script_finished] handles
   SetupScriptFinished. *)
Record disp := mkdisp {
  d_state : Type;
  d_cancelled : d_state -> bool;
  d_failed_scripts : d_state -> N;
  d_unit_start : d_state -> d_state * bool;
  d_script_finished : d_state -> exec_result -> d_state;
  d_exit : d_state -> Z }.

(* events visible to the reporter *)
Inductive event :=
| EvScriptStarted (s : sid)
| EvScriptFinished (s : sid) (r : exec_result)
| EvTestStarted (t : tquery) (env : envmap).

Definition run_data := list (setup_script * envmap).

(* run_setup_scripts: one script at a time, in the given order; a refused start request skips
   the script (the loop goes on to the next request) *)
Fixpoint run_scripts (D : disp) (d : d_state D) (scripts : list setup_script)
         (outs : sid -> outcome) (data : run_data) : d_state D * list event * run_data :=
  match scripts with
  | [] => (d, [], data)
  | ss :: rest =>
      let '(d1, accepted) := d_unit_start D d in
      if accepted then
        let '(r, em) := finish_script (outs (ss_id ss)) in
        let d2 := d_script_finished D d1 r in
        let data' := match em with Some m => data ++ [(ss, m)] | None => data end in
        let '(d3, evs, data'') := run_scripts D d2 rest outs data' in
        (d3, EvScriptStarted (ss_id ss) :: EvScriptFinished (ss_id ss) r :: evs, data'')
      else run_scripts D d1 rest outs data
  end.

(* the start requests of the tests, in whatever order the scheduler issues them; they exist only
   once the script data has been received *)
Fixpoint run_tests (D : disp) (d : d_state D) (data : run_data) (reqs : list tquery)
  : d_state D * list event :=
  match reqs with
  | [] => (d, [])
  | t :: rest =>
      let '(d1, accepted) := d_unit_start D d in
      let '(d2, evs) := run_tests D d1 data rest in
      (d2, if accepted then EvTestStarted t (apply_env data t []) :: evs else evs)
  end.

Definition run (D : disp) (d0 : d_state D) (defs : list sid) (rules : list rule)
           (sel : list tquery) (outs : sid -> outcome) (reqs : list tquery)
  : d_state D * list event :=
  let '(d1, evs1, data) := run_scripts D d0 (enabled defs rules sel) outs [] in
  let '(d2, evs2) := run_tests D d1 data reqs in
  (d2, evs1 ++ evs2).

(* the smallest dispatcher with the behaviour of handle_event on these three events:
   cancel_state.is_some() refuses every start; a non-success SetupScriptFinished begins
   cancellation and is counted; failed_setup_script_count > 0 gives exit status 105 (otherwise
   the tests decide, abstracted as [0]) *)
Record mini_state := mkmini { ms_cancelled : bool; ms_failed : N }.
Definition mini_disp : disp :=
  {| d_state := mini_state;
     d_cancelled := ms_cancelled;
     d_failed_scripts := ms_failed;
     d_unit_start := fun d => (d, negb (ms_cancelled d));
     d_script_finished := fun d r =>
       if is_success r then d else mkmini true (ms_failed d + 1);
     d_exit := fun d => if 0 <? ms_failed d then 105%Z else 0%Z |}.

(* RunStats::summarize_final restricted to the setup-script counters: 1 = Failed(SetupScript),
   2 = Cancelled(SetupScript), 0 = decided by the tests *)
Definition summarize_scripts (initial finished failed exec_failed timed_out : N) : N :=
  if 0 <? failed + exec_failed + timed_out then 1
  else if finished <? initial then 2 else 0.
