(* The whole life of one test unit: ExecutorContext::run_test_instance (executor.rs) as a state
   machine -- the Started handshake, attempt 1 (the one-attempt machine of Model/UnitTimers.v),
   on a failure with retries left the backoff iterator (Model/Backoff.v), AttemptFailedWillRetry,
   the retry delay (handle_delay_between_attempts = [dstep] of UnitTimers), the RetryStarted
   handshake, attempt 2, ... until Finished is sent or a handshake is refused.

   What happens at the hand-overs, read from executor.rs:
   * run_test creates a fresh stopwatch and run_test_inner a fresh interval sleep for every
     attempt ([uinit]); handle_delay_between_attempts creates a fresh pausable sleep and a fresh
     stopwatch for every delay ([dinit]) -- whatever the dispatcher has sent before. In particular
     a Stop that is still owed its Continue when an attempt ends does not carry over: the next
     phase starts with running clocks (see [y_bad] below and Properties/UnitLife.v).
   * the request channel req_rx is one channel for the whole life: requests are consumed only by
     the four wait loops (running, terminate_child, leak drain, delay); while the unit waits for
     the answer to a handshake it consumes nothing (requests stay queued).
   * after the delay -- expired or cut short by Shutdown / OtherCancel -- the unit always goes on to
     the RetryStarted handshake; the dispatcher refuses it (drops the sender) when the run is being
     cancelled and the unit then returns without Finished.

   The dispatcher's side (dispatcher.rs) is an environment: [lenv_ok] says which events it can
   produce given what it has delivered so far ([ltracker]), including the two rules that tie
   cancellation to the handshakes (RetryStarted arm: refused once cancel_state is set;
   AttemptFailedWillRetry arm after the F10 repair: the cancel request is repeated to that unit).

   [lsys] = unit + tracker + a monitor that does the bookkeeping the properties talk about
   (unstopped time per phase, a log of attempts and delays). Executable definitions only. *)
From NextestModel Require Import Base.Str Model.Backoff Model.Clocks Model.UnitTimers Model.AbsTimers.
From Coq Require Import MSets.MSetPositive.
Open Scope N_scope.

(* ---------------------------------------------------------------- the unit's whole life *)
Record lcfg := {
  lc_unit : ucfg;            (* slow-timeout, grace period, leak timeout: the same for every attempt *)
  lc_policy : policy;        (* force_retries.unwrap_or(settings.retries()) *)
  lc_js : N -> jsample }.    (* jitter draw used for the delay after attempt k *)

Definition lc_total (c : lcfg) : N := p_count (lc_policy c) + 1.

(* InternalExecuteStatus of a finished attempt, as far as the properties go *)
Record arec := { ar_no : N; ar_result : ures; ar_slow : bool; ar_time : N }.

Inductive lphase :=
| LAwaitStart               (* ExecutorEvent::Started sent; req_rx_rx.await *)
| LAttempt (u : ustate)     (* run_test of attempt l_k *)
| LDelay (d : dstate)       (* handle_delay_between_attempts after attempt l_k *)
| LAwaitRetry               (* ExecutorEvent::RetryStarted (l_k + 1) sent; rx.await *)
| LFinishedP                (* ExecutorEvent::Finished sent *)
| LRefusedP.                (* a handshake was refused: the unit returned without Finished *)

Record lstate := {
  l_ph : lphase;
  l_k : N;                  (* attempt number, 1-based; 0 before the first attempt *)
  l_bs : bstate;            (* backoff_iter *)
  l_delay : N;              (* delay chosen after attempt l_k (delay_before_start of attempt l_k + 1) *)
  l_done : list arec }.     (* finished attempts, most recent first *)

Definition mkl ph k bs dl dn : lstate :=
  {| l_ph := ph; l_k := k; l_bs := bs; l_delay := dl; l_done := dn |}.
Definition with_lph (s : lstate) (p : lphase) : lstate := mkl p (l_k s) (l_bs s) (l_delay s) (l_done s).

Definition linit (c : lcfg) : lstate := mkl LAwaitStart 0 (b_new (lc_policy c)) 0 [].

Inductive levent :=
| LU (e : uevent)              (* the one-attempt events: Tick, timer expiries, child, pipes, requests *)
| LDelayFire                   (* the retry-delay sleep completes *)
| LAnswer (accepted : bool).   (* the dispatcher's answer to the outstanding handshake *)

Inductive lout :=
| LO (o : uout)
| LAttemptFailedWillRetry (k delay : N)
| LRetryStarted (k : N)        (* handshake request for attempt k *)
| LFinished (k : N).           (* Finished, carrying attempt k as last_run_status *)

(* ExecutionResult::is_success *)
Definition ures_success (r : ures) : bool := match r with UPass | ULeak => true | _ => false end.

(* run_test returned for attempt l_k: the tail of the loop body in run_test_instance *)
Definition finish_attempt (c : lcfg) (s : lstate) (u : ustate) : outcome (lstate * list lout) :=
  let r := {| ar_no := l_k s; ar_result := uresult u; ar_slow := slow u; ar_time := time_taken u |} in
  if ures_success (uresult u) then
    Ok (mkl LFinishedP (l_k s) (l_bs s) (l_delay s) (r :: l_done s), [LFinished (l_k s)])
  else if l_k s <? lc_total c then
    match b_next (lc_js c (l_k s)) (l_bs s) with
    | None => Panicked         (* expect("backoff delay must be non-empty") *)
    | Some (d, bs') =>
        Ok (mkl (LDelay (dinit d)) (l_k s) bs' d (r :: l_done s), [LAttemptFailedWillRetry (l_k s) d])
    end
  else Ok (mkl LFinishedP (l_k s) (l_bs s) (l_delay s) (r :: l_done s), [LFinished (l_k s)]).

Definition devent_of (e : levent) : option devent :=
  match e with
  | LU (Tick dt) => Some (DTick dt)
  | LU (Req r) => Some (DReq r)
  | LDelayFire => Some DFire
  | _ => None
  end.

Definition lstep (tbl : ptable) (c : lcfg) (s : lstate) (e : levent) : outcome (lstate * list lout) :=
  match l_ph s with
  | LAwaitStart =>
      match e with
      | LAnswer true => Ok (mkl (LAttempt (uinit (lc_unit c))) 1 (l_bs s) (l_delay s) (l_done s), [])
      | LAnswer false => Ok (with_lph s LRefusedP, [])
      | _ => Ok (s, [])
      end
  | LAttempt u =>
      match e with
      | LU ue =>
          match ustep tbl (lc_unit c) u ue with
          | Panicked => Panicked
          | Ok (u', outs) =>
              match ph u' with
              | PDone => obind (finish_attempt c s u') (fun r => Ok (fst r, map LO outs ++ snd r))
              | _ => Ok (with_lph s (LAttempt u'), map LO outs)
              end
          end
      | _ => Ok (s, [])
      end
  | LDelay d =>
      match devent_of e with
      | None => Ok (s, [])
      | Some de =>
          match dstep tbl d de with
          | Panicked => Panicked
          | Ok (d', outs) =>
              if d_done d'
              then Ok (with_lph s LAwaitRetry, map LO outs ++ [LRetryStarted (l_k s + 1)])
              else Ok (with_lph s (LDelay d'), map LO outs)
          end
      end
  | LAwaitRetry =>
      match e with
      | LAnswer true =>
          Ok (mkl (LAttempt (uinit (lc_unit c))) (l_k s + 1) (l_bs s) (l_delay s) (l_done s), [])
      | LAnswer false => Ok (with_lph s LRefusedP, [])
      | _ => Ok (s, [])
      end
  | LFinishedP | LRefusedP => Ok (s, [])
  end.

Definition terminal (s : lstate) : bool :=
  match l_ph s with LFinishedP | LRefusedP => true | _ => false end.
(* the phases whose wait loop reads req_rx *)
Definition consuming (s : lstate) : bool :=
  match l_ph s with LAttempt _ | LDelay _ => true | _ => false end.

(* ---------------------------------------------------------------- the dispatcher as environment *)
Record ltracker := {
  lt_jc : jc;           (* last job-control request delivered to this unit *)
  lt_sh : sh;           (* shutdown requests delivered so far *)
  lt_cancel : bool }.   (* a Shutdown or OtherCancel has been delivered (so cancel_state is set) *)

Definition lt0 : ltracker := {| lt_jc := JNone; lt_sh := Sh0; lt_cancel := false |}.
Definition tr_of (t : ltracker) : tracker := {| t_jc := lt_jc t; t_sh := lt_sh t |}.

Definition is_cancel_req (r : ureq) : bool :=
  match r with RShutdown _ | ROtherCancel => true | _ => false end.
Definition jc_stop (j : jc) : bool := match j with JStop => true | _ => false end.

(* [unicast]: the dispatcher after the F10 repair (AttemptFailedWillRetry arm re-sends OtherCancel
   to the unit when the run is being cancelled). The rule is stated on deliveries: a unit that has
   been delivered a cancel request and then reports a failed attempt finds OtherCancel in its
   channel when it enters the delay, so no time passes in the delay before it is consumed. *)
Definition lenv_ok (unicast : bool) (s : lstate) (t : ltracker) (e : levent) : bool :=
  match e with
  | LU (Req r) => consuming s && env_ok (tr_of t) (AReq r)
  | LU (Tick dt) =>
      match l_ph s with
      | LDelay _ => negb (unicast && lt_cancel t) || (dt =? 0)
      | _ => true
      end
  | LAnswer acc =>
      match l_ph s with
      | LAwaitRetry => negb (acc && lt_cancel t)   (* RetryStarted arm: cancel_state.is_some() => refused *)
      | _ => true
      end
  | _ => true
  end.

Definition lenv_next (t : ltracker) (e : levent) : ltracker :=
  match e with
  | LU (Req r) =>
      let t' := env_next (tr_of t) (AReq r) in
      {| lt_jc := t_jc t'; lt_sh := t_sh t'; lt_cancel := lt_cancel t || is_cancel_req r |}
  | _ => t
  end.

(* ---------------------------------------------------------------- unit + environment + monitor *)
Inductive lrec :=
| RAttempt (k : N) (res : ures) (slow : bool) (time_taken unstopped : N)
| RDelay (k delay unstopped running : N) (cut : bool).

Record lsys := {
  y_s : lstate;
  y_t : ltracker;
  y_un : N;          (* time received in the current attempt / delay while no Stop was outstanding *)
  y_run : N;         (* time received in the current delay while the delay sleep was running *)
  y_dc : N;          (* total time spent in delays after a cancel request had been delivered *)
  y_bad : bool;      (* hand-over or leak-drain while a Stop is outstanding (the known class, see below) *)
  y_log : list lrec  (* most recent first *) }.

Definition lsys0 (c : lcfg) : lsys :=
  {| y_s := linit c; y_t := lt0; y_un := 0; y_run := 0; y_dc := 0; y_bad := false; y_log := [] |}.

Definition tick_of (e : levent) : N := match e with LU (Tick dt) => dt | _ => 0 end.

(* The known class in which stopped time is not excluded:
   (i)  an attempt or a delay begins while a Stop delivered earlier is still owed its Continue
        (fresh clocks are created running);
   (ii) a Stop is delivered while the unit is draining leaked handles or in the synchronous wait
        after a zero-grace kill (detect_fd_leaks ignores job control: finding F12). *)
Definition ignores_job_control (s : lstate) : bool :=
  match l_ph s with
  | LAttempt u => match ph u with PExiting | PSyncWait => true | _ => false end
  | _ => false
  end.

Definition phase_begins (s s' : lstate) : bool :=
  match l_ph s, l_ph s' with
  | LAttempt _, LAttempt _ => false
  | _, LAttempt _ => true
  | LDelay _, LDelay _ => false
  | _, LDelay _ => true
  | _, _ => false
  end.

Definition log_step (s s' : lstate) (e : levent) (un run : N) (log : list lrec) : list lrec :=
  match l_ph s, l_ph s' with
  | LAttempt _, LAttempt _ => log
  | LAttempt _, _ =>
      match l_done s' with
      | r :: _ => RAttempt (ar_no r) (ar_result r) (ar_slow r) (ar_time r) un :: log
      | [] => log
      end
  | LDelay _, LDelay _ => log
  | LDelay _, _ =>
      RDelay (l_k s) (l_delay s) un run
             (match e with LU (Req r) => is_cancel_req r | _ => false end) :: log
  | _, _ => log
  end.

Inductive lres := LOk (y : lsys) | LPanic | LEnvBad.

Definition lsys_step (unicast : bool) (tbl : ptable) (c : lcfg) (y : lsys) (e : levent) : lres :=
  if lenv_ok unicast (y_s y) (y_t y) e then
    match lstep tbl c (y_s y) e with
    | Panicked => LPanic
    | Ok (s', _) =>
        let s := y_s y in let t := y_t y in let t' := lenv_next t e in
        let dt := tick_of e in
        let un1 := y_un y + (if jc_stop (lt_jc t) then 0 else dt) in
        let run1 := y_run y + match l_ph s with
                              | LDelay d => if lpaused (k_dsl (d_ck d)) then 0 else dt
                              | _ => 0 end in
        let dc1 := y_dc y + match l_ph s with
                            | LDelay _ => if lt_cancel t then dt else 0
                            | _ => 0 end in
        let begins := phase_begins s s' in
        LOk {| y_s := s'; y_t := t';
               y_un := if begins then 0 else un1;
               y_run := if begins then 0 else run1;
               y_dc := dc1;
               y_bad := y_bad y || (begins && jc_stop (lt_jc t'))
                        || (ignores_job_control s && match e with LU (Req RStop) => true | _ => false end);
               y_log := log_step s s' e un1 run1 (y_log y) |}
    end
  else LEnvBad.

Fixpoint lsys_run (unicast : bool) (tbl : ptable) (c : lcfg) (y : lsys) (es : list levent) : lres :=
  match es with
  | [] => LOk y
  | e :: es' =>
      match lsys_step unicast tbl c y e with
      | LOk y' => lsys_run unicast tbl c y' es'
      | r => r
      end
  end.

(* ---------------------------------------------------------------- finite certificate for the life
   The one-attempt certificate of AbsTimers starts every attempt with a dispatcher that has sent
   nothing yet. Later attempts start with whatever has been delivered before: the abstract
   exploration is repeated from a fresh unit under every tracker state. Of [trans_ok]'s
   postconditions the part about SIGCONT is dropped: when a phase begins with a Stop outstanding,
   the Continue that follows finds nothing paused and sends no SIGCONT (the new child was never
   stopped). *)
Definition ainit_t (g0 : bool) (j : jc) (h : sh) : astate :=
  {| a_u := abs_state (uinit (abs_cfg g0)); a_t := {| t_jc := j; t_sh := h |}; a_g0 := g0 |}.

Definition life_inits : list astate :=
  flat_map (fun g0 => flat_map (fun j => map (fun h => ainit_t g0 j h) shs) jcs) bools.

Definition life_reach (tbl : ptable) : pset :=
  explore 200000 tbl life_inits
          (fold_left (fun acc a => PositiveSet.add (code a) acc) life_inits PositiveSet.empty).

(* what is still demanded of a transition: no internal failure; a Stop handled in the running or
   terminating loop leaves every clock that loop owns paused and is acknowledged; a Continue
   handled there leaves every such clock running *)
Definition life_trans_ok (tbl : ptable) (a : astate) (e : aevent) : bool :=
  if env_ok (a_t a) e && aguard (a_u a) e then
    match ucore tbl (abs_cfg (a_g0 a)) (a_u a) e with
    | Panicked => false
    | Ok r =>
        let u' := abs_state (fst r) in
        match e, ph (a_u a) with
        | AReq RStop, (PRunning | PTerminating _) => owned_paused u' && acked (snd r)
        | AReq RContinue, (PRunning | PTerminating _) => owned_running u'
        | _, _ => true
        end
    end
  else true.

Definition life_cert_with (tbl : ptable) (S : pset) : bool :=
  forallb (fun a => PositiveSet.mem (code a) S) life_inits &&
  forallb (fun a =>
             implb (PositiveSet.mem (code a) S)
                   (forallb (fun e => life_trans_ok tbl a e &&
                                      match astep tbl a e with
                                      | Ok a' => PositiveSet.mem (code a') S
                                      | Panicked => false
                                      end) aevents)) all_astates.

(* ---------------------------------------------------------------- diagnosis for the delay loop:
   the first of the job-control request sequences the dispatcher can produce (Stop and Continue
   alternate, either may come first) after which the delay loop has failed internally, or after
   whose last request the two delay clocks are not both paused (Stop) / both running (Continue).
   Codes as in [aevent_code]: 8 = Stop, 9 = Continue; [] = none found. *)
Definition delay_seqs : list (list ureq) :=
  [[RStop]; [RContinue]; [RStop; RContinue]; [RContinue; RStop]; [RStop; RContinue; RStop];
   [RContinue; RStop; RContinue]; [RStop; RContinue; RStop; RContinue];
   [RContinue; RStop; RContinue; RStop]].

Fixpoint delay_run_bad (tbl : ptable) (d : dstate) (rs : list ureq) : bool :=
  match rs with
  | [] => false
  | r :: rs' =>
      match dstep tbl d (DReq r) with
      | Panicked => true
      | Ok (d', outs) =>
          let both b := Bool.eqb (lpaused (k_dsl (d_ck d'))) b && Bool.eqb (spaused (k_dwsw (d_ck d'))) b in
          let ok := match r with
                    | RStop => both true && acked outs
                    | RContinue => both false
                    | _ => true
                    end in
          negb ok || delay_run_bad tbl d' rs'
      end
  end.

Definition delay_first_bad (tbl : ptable) : list N :=
  match find (fun rs => delay_run_bad tbl (dinit 1) rs) delay_seqs with
  | Some rs => 100 :: map (fun r => match r with RStop => 8 | _ => 9 end) rs
  | None => []
  end.
