(* Per-test settings resolution (C06): the bookkeeping of nextest-runner/src/config/config_impl.rs
   (read_from_sources, deserialize_individual_config, make_profile, the EvaluatableProfile getters,
   the `config` crate's source layering) and of nextest-runner/src/config/overrides.rs
   (extend_reverse, reverse, chain, apply_build_platforms, TestSettings::new), written as list
   functions. Executable definitions only.

   What is abstracted (oracle tables supplied per case by the harness from the real code):
   target-spec evaluation of a platform string on a platform, and filterset evaluation of a
   filter string on a test query. TOML parsing and serde are not modelled: a file is given as the
   structure TOML parsing produces, scalar and array values are opaque atoms (their TOML source
   text), and a setting's value is either such an atom or a flat table of atoms -- which is all the
   schema of `profile.<name>.<setting>` admits (retries, slow-timeout and junit are the
   table-valued ones). *)
From NextestModel Require Import Base.Str.
Open Scope N_scope.

Definition key := str.
Definition atom := str.

(* ---- association lists keyed by strings (IndexMap / HashMap / BTreeMap keyed by String) ---- *)

Fixpoint lookup {A : Type} (k : key) (m : list (key * A)) : option A :=
  match m with
  | [] => None
  | (k', v) :: r => if str_eqb k k' then Some v else lookup k r
  end.

(* insert-or-replace keeping the position of an existing key (IndexMap::insert) *)
Fixpoint upsert {A : Type} (k : key) (v : A) (m : list (key * A)) : list (key * A) :=
  match m with
  | [] => [(k, v)]
  | (k', v') :: r => if str_eqb k k' then (k, v) :: r else (k', v') :: upsert k v r
  end.

Definition is_some {A : Type} (o : option A) : bool :=
  match o with Some _ => true | None => false end.

Definition or_else {A : Type} (a b : option A) : option A :=
  match a with Some _ => a | None => b end.

(* ---- values ---- *)

Inductive sval := VLeaf (a : atom) | VTable (m : list (key * atom)).

Inductive setting :=
  SPriority | SThreads | SExtraArgs | SRetries | SSlowTimeout | SLeakTimeout | STestGroup
| SSuccessOutput | SFailureOutput | SJunitSuccess | SJunitFailure.

Definition all_settings : list setting :=
  [SPriority; SThreads; SExtraArgs; SRetries; SSlowTimeout; SLeakTimeout; STestGroup;
   SSuccessOutput; SFailureOutput; SJunitSuccess; SJunitFailure].

Definition setting_code (s : setting) : N :=
  match s with
  | SPriority => 0 | SThreads => 1 | SExtraArgs => 2 | SRetries => 3 | SSlowTimeout => 4
  | SLeakTimeout => 5 | STestGroup => 6 | SSuccessOutput => 7 | SFailureOutput => 8
  | SJunitSuccess => 9 | SJunitFailure => 10
  end.

Definition setting_eqb (a b : setting) : bool := setting_code a =? setting_code b.

(* ---- overrides ---- *)

(* `filter = ..`, `default-filter = ..` (platform-scoped default filter) or neither *)
Inductive ofilter := OFNone | OFFilter (f : str) | OFDefault (f : str).

(* ProfileOverrideData: platform strings, filter, and the optional settings. The 11 optional
   fields are an association list read with [data_get] (junit.store-*-output appear as the two
   junit settings). *)
Record override := {
  ov_host : option str;
  ov_target : option str;
  ov_filter : ofilter;
  ov_data : list (setting * sval)
}.

Fixpoint data_get (s : setting) (d : list (setting * sval)) : option sval :=
  match d with
  | [] => None
  | (s', v) :: r => if setting_eqb s s' then Some v else data_get s r
  end.

(* CompiledOverride::filter(): only a `filter`, never a `default-filter` *)
Definition filter_of (o : override) : option str :=
  match ov_filter o with OFFilter f => Some f | _ => None end.

(* ---- files ---- *)

(* one `[profile.<name>]` table of one file: its setting keys (everything except the
   `overrides`/`scripts` arrays) and its ordered overrides *)
Record pcfg := { pc_settings : list (key * sval); pc_overrides : list override }.

Record file := { f_tool : option str; f_profiles : list (key * pcfg) }.

Definition default_name : key := [100; 101; 102; 97; 117; 108; 116]. (* "default" *)
Definition is_default (n : key) : bool := str_eqb n default_name.

(* the overrides a file gives for a profile name *)
Definition ovs_of (n : key) (f : file) : list override :=
  match lookup n (f_profiles f) with Some pc => pc_overrides pc | None => [] end.

(* ---- CompiledByProfile bookkeeping ---- *)

Record compiled := { c_default : list override; c_other : list (key * list override) }.

Definition compiled_init : compiled := {| c_default := []; c_other := [] |}.

(* CompiledData::extend_reverse: self.overrides.extend(other.overrides.into_iter().rev()) *)
Definition extend_reverse (self other : list override) : list override := self ++ rev other.

(* the `match compiled_out.other.entry(name)` of deserialize_individual_config *)
Definition add_other (c : list (key * list override)) (e : key * list override)
  : list (key * list override) :=
  match lookup (fst e) c with
  | None => c ++ [(fst e, rev (snd e))]                           (* Vacant: data.reverse(); insert *)
  | Some old => upsert (fst e) (extend_reverse old (snd e)) c     (* Occupied: extend_reverse *)
  end.

(* NextestConfigDeserialize::into_config_impl removes "default" from the profile map; what is
   left are the "other" profiles *)
Definition file_others (f : file) : list (key * list override) :=
  map (fun p => (fst p, pc_overrides (snd p)))
      (filter (fun p => negb (is_default (fst p))) (f_profiles f)).

(* the tail of deserialize_individual_config *)
Definition process_file (c : compiled) (f : file) : compiled :=
  {| c_default := extend_reverse (c_default c) (ovs_of default_name f);
     c_other := fold_left add_other (file_others f) (c_other c) |}.

(* "Reverse all the compiled data at the end." *)
Definition finalize (c : compiled) : compiled :=
  {| c_default := rev (c_default c);
     c_other := map (fun p => (fst p, rev (snd p))) (c_other c) |}.

(* read_from_sources: tool configs in reverse of the order given (from_sources_impl calls
   .rev()), then the repository config *)
Definition read_compiled (repo : file) (tools : list file) : compiled :=
  finalize (fold_left process_file (rev tools ++ [repo]) compiled_init).

(* CompiledData::chain *)
Definition chain (self other : list override) : list override := self ++ other.

(* make_profile *)
Definition profile_overrides (c : compiled) (name : key) : list override :=
  match lookup name (c_other c) with
  | Some d => chain d (c_default c)
  | None => c_default c
  end.

(* ---- platforms ---- *)

Record env := {
  e_spec : str -> N -> bool;     (* TargetSpec::eval(platform).unwrap_or(true) *)
  e_filter : str -> N -> bool    (* Filterset::matches_test(query, ecx) *)
}.

Record bplat := { bp_host : N; bp_target : option N }.

(* FinalConfig *)
Record ostate := { st_host : bool; st_host_test : bool; st_target : bool }.

(* MaybeTargetSpec::eval *)
Definition mspec_eval (e : env) (s : option str) (p : N) : bool :=
  match s with None => true | Some x => e_spec e x p end.

(* CompiledOverride::apply_build_platforms *)
Definition apply_bp (e : env) (bp : bplat) (o : override) : ostate :=
  let host_test := mspec_eval e (ov_target o) (bp_host bp) in
  {| st_host := mspec_eval e (ov_host o) (bp_host bp);
     st_host_test := host_test;
     st_target := match bp_target bp with
                  | None => host_test
                  | Some t => mspec_eval e (ov_target o) t
                  end |}.

(* a test query: an id for the filter oracle, and whether its binary is built for the host *)
Record test := { t_id : N; t_host : bool }.

(* ---- TestSettings::new ---- *)

(* the four `continue`s at the head of the loop body *)
Definition skips (e : env) (t : test) (co : ostate * override) : bool :=
  let (st, o) := co in
  negb (st_host st)
  || (t_host t && negb (st_host_test st))
  || (negb (t_host t) && negb (st_target st))
  || match filter_of o with
     | Some f => negb (e_filter e f (t_id t))
     | None => false
     end.

(* the eleven `if x.is_none() { if let Some(v) = override_.data.x { x = Some(v) } }` blocks; the
   eleven accumulators are a function of the setting *)
Definition step (e : env) (t : test) (acc : setting -> option sval) (co : ostate * override)
  : setting -> option sval :=
  if skips e t co then acc
  else fun s => match acc s with
                | Some v => Some v
                | None => data_get s (ov_data (snd co))
                end.

Definition pass (e : env) (t : test) (l : list (ostate * override)) : setting -> option sval :=
  fold_left (step e t) l (fun _ => None).

(* ---- profile-level values: the `config` crate's layering ---- *)

(* config::path::Expression::set on one slot: an incoming table is merged key by key into an
   existing table (a non-table slot is first replaced by an empty table); anything else
   replaces the slot *)
Definition merge_sval (old : option sval) (new : sval) : sval :=
  match new with
  | VLeaf a => VLeaf a
  | VTable m =>
      VTable (fold_left (fun acc kv => upsert (fst kv) (snd kv) acc) m
                        match old with Some (VTable b) => b | _ => [] end)
  end.

(* the same for one profile table *)
Definition merge_settings (old new : list (key * sval)) : list (key * sval) :=
  fold_left (fun acc kv => upsert (fst kv) (merge_sval (lookup (fst kv) acc) (snd kv)) acc) new old.

Definition layer_settings (n : key) (f : file) : option (list (key * sval)) :=
  match lookup n (f_profiles f) with Some pc => Some (pc_settings pc) | None => None end.

Definition merge_layer (n : key) (acc : option (list (key * sval))) (f : file)
  : option (list (key * sval)) :=
  match layer_settings n f with
  | None => acc
  | Some m => Some (merge_settings match acc with Some a => a | None => [] end m)
  end.

(* the composite builder: default config, then tool configs in reverse of the order given, then
   the repository config; `profile.<n>` of the built configuration (None: no such table) *)
Definition merged_profile (builtin repo : file) (tools : list file) (n : key)
  : option (list (key * sval)) :=
  fold_left (merge_layer n) (builtin :: rev tools ++ [repo]) None.

(* NextestConfigImpl::get_profile *)
Definition profile_exists (builtin repo : file) (tools : list file) (n : key) : bool :=
  is_default n || is_some (merged_profile builtin repo tools n).

Definition custom_profile (builtin repo : file) (tools : list file) (sel : key)
  : option (list (key * sval)) :=
  if is_default sel then None else merged_profile builtin repo tools sel.

Definition default_profile (builtin repo : file) (tools : list file) : list (key * sval) :=
  match merged_profile builtin repo tools default_name with Some m => m | None => [] end.

(* keys *)
Definition k_threads : key := [116;104;114;101;97;100;115;45;114;101;113;117;105;114;101;100].
Definition k_extra_args : key := [114;117;110;45;101;120;116;114;97;45;97;114;103;115].
Definition k_retries : key := [114;101;116;114;105;101;115].
Definition k_slow_timeout : key := [115;108;111;119;45;116;105;109;101;111;117;116].
Definition k_leak_timeout : key := [108;101;97;107;45;116;105;109;101;111;117;116].
Definition k_success_output : key := [115;117;99;99;101;115;115;45;111;117;116;112;117;116].
Definition k_failure_output : key := [102;97;105;108;117;114;101;45;111;117;116;112;117;116].
Definition k_junit : key := [106;117;110;105;116].
Definition k_path : key := [112;97;116;104].
Definition k_store_success : key :=
  [115;116;111;114;101;45;115;117;99;99;101;115;115;45;111;117;116;112;117;116].
Definition k_store_failure : key :=
  [115;116;111;114;101;45;102;97;105;108;117;114;101;45;111;117;116;112;117;116].
(* atoms for the values fixed in code *)
Definition a_zero : atom := [48].                         (* 0: TestPriority::default() *)
Definition a_global : atom := [34;64;103;108;111;98;97;108;34].  (* "@global": TestGroup::Global *)
Definition a_false : atom := [102;97;108;115;101].        (* false *)

(* the profile-level key a setting is read from (priority and test-group have none) *)
Definition setting_key (s : setting) : option key :=
  match s with
  | SPriority | STestGroup => None
  | SThreads => Some k_threads
  | SExtraArgs => Some k_extra_args
  | SRetries => Some k_retries
  | SSlowTimeout => Some k_slow_timeout
  | SLeakTimeout => Some k_leak_timeout
  | SSuccessOutput => Some k_success_output
  | SFailureOutput => Some k_failure_output
  | SJunitSuccess | SJunitFailure => Some k_junit
  end.

(* EvaluatableProfile getters: custom_profile.and_then(|p| p.x).unwrap_or(default_profile.x) *)
Definition getter (custom : option (list (key * sval))) (dflt : list (key * sval)) (k : key)
  : option sval :=
  or_else match custom with Some c => lookup k c | None => None end (lookup k dflt).

Definition sub (v : option sval) (sk : key) : option atom :=
  match v with Some (VTable m) => lookup sk m | _ => None end.

(* JunitConfig::new: the path of the custom profile if there is a custom profile (no fallback to
   the default profile's path), else the default profile's *)
Definition junit_enabled (custom : option (list (key * sval))) (dflt : list (key * sval)) : bool :=
  is_some (sub (lookup k_junit match custom with Some c => c | None => dflt end) k_path).

Definition junit_store (custom : option (list (key * sval))) (dflt : list (key * sval))
           (sk : key) : option sval :=
  if junit_enabled custom dflt
  then match or_else match custom with Some c => sub (lookup k_junit c) sk | None => None end
                     (sub (lookup k_junit dflt) sk) with
       | Some a => Some (VLeaf a)
       | None => None
       end
  else Some (VLeaf a_false).

(* the `unwrap_or_else` tail of TestSettings::new *)
Definition profile_value (custom : option (list (key * sval))) (dflt : list (key * sval))
           (s : setting) : option sval :=
  match s with
  | SPriority => Some (VLeaf a_zero)
  | STestGroup => Some (VLeaf a_global)
  | SJunitSuccess => junit_store custom dflt k_store_success
  | SJunitFailure => junit_store custom dflt k_store_failure
  | _ => match setting_key s with Some k => getter custom dflt k | None => None end
  end.

(* ---- the documented profile-level rule (specification side): "otherwise the selected profile's
   value, otherwise the default profile's value" -- read for every key, junit.path included.
   Priority and test-group have no profile-level key: their fixed defaults. ---- *)

Definition sel_then_default (custom : option (list (key * sval))) (dflt : list (key * sval))
           (k : key) : option sval :=
  match custom with
  | Some c => match lookup k c with Some v => Some v | None => lookup k dflt end
  | None => lookup k dflt
  end.

Definition junit_leaf (custom : option (list (key * sval))) (dflt : list (key * sval))
           (sk : key) : option atom :=
  match custom with
  | Some c => match sub (lookup k_junit c) sk with
              | Some a => Some a
              | None => sub (lookup k_junit dflt) sk
              end
  | None => sub (lookup k_junit dflt) sk
  end.

(* JUnit output is written iff a path is configured; nothing is stored without a report *)
Definition documented_junit_store (custom : option (list (key * sval))) (dflt : list (key * sval))
           (sk : key) : option sval :=
  match junit_leaf custom dflt k_path with
  | Some _ => match junit_leaf custom dflt sk with Some a => Some (VLeaf a) | None => None end
  | None => Some (VLeaf a_false)
  end.

Definition documented_profile_value (custom : option (list (key * sval))) (dflt : list (key * sval))
           (s : setting) : option sval :=
  match s with
  | SPriority => Some (VLeaf a_zero)
  | STestGroup => Some (VLeaf a_global)
  | SThreads => sel_then_default custom dflt k_threads
  | SExtraArgs => sel_then_default custom dflt k_extra_args
  | SRetries => sel_then_default custom dflt k_retries
  | SSlowTimeout => sel_then_default custom dflt k_slow_timeout
  | SLeakTimeout => sel_then_default custom dflt k_leak_timeout
  | SSuccessOutput => sel_then_default custom dflt k_success_output
  | SFailureOutput => sel_then_default custom dflt k_failure_output
  | SJunitSuccess => documented_junit_store custom dflt k_store_success
  | SJunitFailure => documented_junit_store custom dflt k_store_failure
  end.

Definition is_junit_setting (s : setting) : bool :=
  match s with SJunitSuccess | SJunitFailure => true | _ => false end.

(* F22 class: a custom profile is selected, it has no junit.path of its own, the default profile
   has one (JunitConfig::new takes the path from the custom profile alone) *)
Definition known_f22 (custom : option (list (key * sval))) (dflt : list (key * sval)) : bool :=
  match custom with
  | Some c => negb (is_some (sub (lookup k_junit c) k_path))
              && is_some (sub (lookup k_junit dflt) k_path)
  | None => false
  end.

(* ---- EvaluatableProfile::settings_for ---- *)

Definition compiled_for (e : env) (bp : bplat) (repo : file) (tools : list file) (sel : key)
  : list (ostate * override) :=
  map (fun o => (apply_bp e bp o, o)) (profile_overrides (read_compiled repo tools) sel).

(* TestSettings::new given the compiled overrides and the two profile tables *)
Definition settings_with (e : env) (col : list (ostate * override))
           (custom : option (list (key * sval))) (dflt : list (key * sval))
           (t : test) (s : setting) : option sval :=
  or_else (pass e t col s) (profile_value custom dflt s).

Definition settings_for (e : env) (bp : bplat) (builtin repo : file) (tools : list file)
           (sel : key) (t : test) (s : setting) : option sval :=
  settings_with e (compiled_for e bp repo tools sel)
                (custom_profile builtin repo tools sel) (default_profile builtin repo tools) t s.

(* the command line: `self.force_retries.unwrap_or_else(|| settings.retries())` in
   run_test_instance, `force_success_output.unwrap_or(test_setting)` and the same for
   failure output in the reporter *)
Definition effective (cli : setting -> option sval) (resolved : setting -> option sval)
           (s : setting) : option sval :=
  or_else (cli s) (resolved s).

(* ---- well-formedness that TOML parsing guarantees: no duplicate keys in any table ---- *)

Fixpoint nodup_keys {A : Type} (m : list (key * A)) : bool :=
  match m with
  | [] => true
  | (k, _) :: r => negb (is_some (lookup k r)) && nodup_keys r
  end.

Definition wf_sval (v : sval) : bool :=
  match v with VLeaf _ => true | VTable m => nodup_keys m end.

Definition wf_pcfg (pc : pcfg) : bool :=
  nodup_keys (pc_settings pc) && forallb (fun kv => wf_sval (snd kv)) (pc_settings pc).

Definition wf_file (f : file) : bool :=
  nodup_keys (f_profiles f) && forallb (fun p => wf_pcfg (snd p)) (f_profiles f).

(* ---- the specification side ---- *)

(* files by decreasing priority: repository config, then tool configs in the order given *)
Definition by_priority (repo : file) (tools : list file) : list file := repo :: tools.

(* the documented search order of overrides *)
Definition ordered_overrides (repo : file) (tools : list file) (sel : key) : list override :=
  (if is_default sel then [] else flat_map (ovs_of sel) (by_priority repo tools))
  ++ flat_map (ovs_of default_name) (by_priority repo tools).

(* an override matches the test by platform and filter *)
Definition platform_ok (st : ostate) (on_host : bool) : bool :=
  st_host st && (if on_host then st_host_test st else st_target st).

Definition applies (e : env) (bp : bplat) (t : test) (o : override) : bool :=
  platform_ok (apply_bp e bp o) (t_host t)
  && match filter_of o with Some f => e_filter e f (t_id t) | None => true end.

Definition first_some {A : Type} (l : list (option A)) : option A :=
  fold_right or_else None l.

(* whole-value precedence across files for key k of profile n: the value of the
   highest-priority file that gives the key, where repository config beats tool configs (in the
   order given) beats the built-in defaults *)
Definition whole_value (builtin repo : file) (tools : list file) (n k : key) : option sval :=
  first_some (map (fun f => match layer_settings n f with Some m => lookup k m | None => None end)
                  (by_priority repo tools ++ [builtin])).

(* leaf-key precedence for sub-key sk of a table-valued key *)
Definition leaf_value (builtin repo : file) (tools : list file) (n k sk : key) : option atom :=
  first_some (map (fun f => match layer_settings n f with
                            | Some m => sub (lookup k m) sk
                            | None => None
                            end)
                  (by_priority repo tools ++ [builtin])).

(* equality of values up to the order of a table's keys *)
Definition sval_ext (v w : sval) : Prop :=
  match v, w with
  | VLeaf a, VLeaf b => a = b
  | VTable m, VTable m' => forall sk, lookup sk m = lookup sk m'
  | _, _ => False
  end.

Definition osval_ext (v w : option sval) : Prop :=
  match v, w with
  | Some a, Some b => sval_ext a b
  | None, None => True
  | _, _ => False
  end.

(* F8 class: two files bind key k of profile n to tables whose sub-key sets differ *)
Definition table_keys (v : option sval) : option (list key) :=
  match v with Some (VTable m) => Some (map fst m) | _ => None end.

Definition same_keys (a b : list key) : bool :=
  forallb (fun x => mem_str x b) a && forallb (fun x => mem_str x a) b.

Definition tables_of (builtin repo : file) (tools : list file) (n k : key) : list (list key) :=
  flat_map (fun f => match table_keys match layer_settings n f with
                                      | Some m => lookup k m
                                      | None => None
                                      end with
                     | Some ks => [ks]
                     | None => []
                     end)
           (by_priority repo tools ++ [builtin]).

Fixpoint all_same_keys (l : list (list key)) : bool :=
  match l with
  | [] => true
  | a :: r => forallb (same_keys a) r && all_same_keys r
  end.

Definition known_f8 (builtin repo : file) (tools : list file) (n k : key) : bool :=
  negb (all_same_keys (tables_of builtin repo tools n k)).

(* ---- projection of a configuration on one setting (for the independence theorem) ---- *)

Definition relevant_subkeys (s : setting) : option (list key) :=
  match s with
  | SJunitSuccess => Some [k_path; k_store_success]
  | SJunitFailure => Some [k_path; k_store_failure]
  | _ => None
  end.

Definition restrict_sval (s : setting) (v : sval) : sval :=
  match relevant_subkeys s, v with
  | Some ks, VTable m => VTable (filter (fun kv => mem_str (fst kv) ks) m)
  | _, _ => v
  end.

Definition proj_settings (s : setting) (m : list (key * sval)) : option sval :=
  match setting_key s with
  | None => None
  | Some k => match lookup k m with Some v => Some (restrict_sval s v) | None => None end
  end.

Definition proj_ov (s : setting) (o : override)
  : option str * option str * ofilter * option sval :=
  (ov_host o, ov_target o, ov_filter o, data_get s (ov_data o)).

Definition proj_pcfg (s : setting) (pc : pcfg) :=
  (proj_settings s (pc_settings pc), map (proj_ov s) (pc_overrides pc)).

Definition proj_file (s : setting) (f : file) :=
  map (fun p => (fst p, proj_pcfg s (snd p))) (f_profiles f).

(* ---- encoding of results as nested lists of numbers (for the correspondence check) ---- *)

Definition enc_sval (v : option sval) : list (list N) :=
  match v with
  | None => []
  | Some (VLeaf a) => [[0]; a]
  | Some (VTable m) => [1] :: flat_map (fun kv => [fst kv; snd kv]) m
  end.

Definition enc_settings (r : setting -> option sval) : list (list (list N)) :=
  map (fun s => enc_sval (r s)) all_settings.

(* one case of the correspondence check: [] when the profile does not exist. The profile is
   built once and queried for every test (Proofs/Overrides.v, run_case_spec: this is
   [settings_for] on every test and setting) *)
Definition run_case (e : env) (bp : bplat) (builtin repo : file) (tools : list file) (sel : key)
           (tests : list test) : list (list (list (list N))) :=
  if profile_exists builtin repo tools sel
  then let col := compiled_for e bp repo tools sel in
       let custom := custom_profile builtin repo tools sel in
       let dflt := default_profile builtin repo tools in
       map (fun t => enc_settings (settings_with e col custom dflt t)) tests
  else [].
