(* The path of the leak verdict (C03: "a test is reported LEAK iff it exited with code 0 and a handle it opened was still
   open when the leak timeout elapsed"): what detect_fd_leaks answered -- a handle was still open when the leak timer
   fired -- is, unchanged, the `leaked` argument the unit's result is built from (Model/Classify.v
   [create_execution_result] / [attempt_result]), for tests and for setup scripts. No second opinion (the state of the
   process group, the exit status, the load of the machine) is mixed in. Executable definitions only. *)
From NextestModel Require Import Base.Str Model.Classify.
Open Scope N_scope.

(* the `leaked` argument of the result, given the detection's answer *)
Definition verdict_of_detection (detected : bool) : bool := detected.

(* the result of an attempt, given the detection's answer *)
Definition attempt_result_detected (spawn_failed timed_out : bool) (st : exit_status) (child_errors detected : bool) : result :=
  attempt_result spawn_failed timed_out st child_errors (verdict_of_detection detected).
