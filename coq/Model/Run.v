(* Run-level composition: the scheduler (Model/FutureQueue.v), the executor protocol (Model/Unit.v)
   and the dispatcher (Model/Dispatcher.v) as ONE state machine, following
   TestRunnerInner::execute (nextest-runner/src/runner/imp.rs):

     futures::stream::iter(test_list.to_priority_queue(profile))
       .filter_map(|test| if Mismatch { send Skipped; None } else { Some(test) })     (lazy)
       .map(|test| (threads_required, group, |cx| run_test_instance(test, cx, resp_tx, ..)))
       .future_queue_grouped(test_threads, groups)

   * the source stream [rc_src] is the whole priority queue: selected tests (with weight and group:
     an [item] of the scheduler) and unselected ones. The scheduler only ever sees the selected
     ones; an unselected entry makes the filter send [Skipped] at the moment the stream is polled
     past it, i.e. when future_queue_grouped peeks for the next item (it peeks in its fill loop,
     also when the peeked item then does not fit);
   * a unit's first message [Started t] exists only once the scheduler has created the future of
     item t (its future is in [running]);
   * the future of item t completes ([OpComplete t]) only when run_test_instance has returned:
     after [Finished], or after a refused handshake;
   * all messages travel through one FIFO channel to the dispatcher, which handles them one at a
     time ([dstep]); the answer to a handshake is the dispatcher's.
   A label is either a scheduler operation or an event handled by the dispatcher; [rstep] is
   partial: [None] = this label cannot happen in this state. [rrun] folds it.
   Executable definitions only. *)
From Coq Require Import List NArith ZArith Bool.
From NextestModel Require Import Base.Str Model.Result Model.Dispatcher Model.Unit Model.FutureQueue.
Import ListNotations.
Open Scope N_scope.

(* one entry of the priority queue handed to the stream *)
Inductive src_entry :=
| SrcSel (it : item)        (* filter match = Matches: id, threads-required, group *)
| SrcUnsel (t : tid).       (* Mismatch: reported Skipped, never scheduled *)

Fixpoint src_items (l : list src_entry) : list item :=
  match l with
  | [] => []
  | SrcSel it :: r => it :: src_items r
  | SrcUnsel _ :: r => src_items r
  end.

Fixpoint src_unsel (l : list src_entry) : list tid :=
  match l with
  | [] => []
  | SrcSel _ :: r => src_unsel r
  | SrcUnsel t :: r => t :: src_unsel r
  end.

Record rcfg := mk_rcfg {
  rc_src : list src_entry;       (* to_priority_queue: every listed test, in dispatch order *)
  rc_total : tid -> N;           (* total attempts of each test *)
  rc_scripts : N;                (* number of setup scripts to run *)
  rc_gm : N;                     (* test-threads *)
  rc_grps : list (N * N) }.      (* test groups: (id, max-threads) *)

Definition rc_items (r : rcfg) : list item := src_items (rc_src r).

(* the protocol's view of the same configuration; initial_run_count = |selected| *)
Definition rc_cfg (r : rcfg) : cfg :=
  mk_cfg (map it_id (rc_items r)) (src_unsel (rc_src r)) (rc_total r) (rc_scripts r).

(* the Skipped notifications sent once the stream has been polled through its k-th selected entry
   (the entries after that one have not been looked at yet); with k beyond the number of selected
   entries: the stream has been polled to its end *)
Fixpoint skips_upto (l : list src_entry) (k : nat) : list tid :=
  match l with
  | [] => []
  | SrcUnsel t :: r => match k with O => [] | S _ => t :: skips_upto r k end
  | SrcSel _ :: r => match k with O => [] | S k' => skips_upto r k' end
  end.

(* after a poll that filled, the scheduler holds the head of [pending] in its peek slot: the
   stream has been polled through selected entry number |items| - |pending| + 1 *)
Definition skips_sent (r : rcfg) (polled : bool) (q : fq) : list tid :=
  if polled then skips_upto (rc_src r) (S (length (rc_items r)) - length (pending q)) else [].

Record rstate := mk_rstate {
  r_q : fq;              (* future_queue_grouped *)
  r_polled : bool;       (* the stream has been polled by a fill at least once *)
  r_d : dst;             (* DispatcherContext *)
  r_ps : pstate;         (* where every unit is in its protocol *)
  r_nskip : nat }.       (* Skipped notifications received so far (they arrive in the order sent) *)

Inductive rlabel := RSched (o : op) | REvent (e : devent).

(* the unit has returned: its future is ready *)
Definition phase_done (p : phase) : bool :=
  match p with PFinished | PRefusedStart | PRefusedRetry _ => true | _ => false end.

Definition is_running (q : fq) (t : N) : bool :=
  existsb (fun x => it_id (r_item x) =? t) (running q).

(* the test stream exists only after the setup scripts; a future is popped only when ready *)
Definition sched_guard (c : cfg) (s : rstate) (o : op) : bool :=
  tests_open c (r_ps s) &&
  match o with
  | OpFill => true
  | OpComplete id | OpCompleteNoFill id =>
      negb (is_running (r_q s) id) || phase_done (ps_phase (r_ps s) id)
  end.

(* does this operation run the fill loop (and so peek the stream)? *)
Definition polls (q : fq) (o : op) : bool :=
  match o with
  | OpFill => negb (panicked q)
  | OpComplete id => match fq_pop q id with Some _ => true | None => false end
  | OpCompleteNoFill _ => false
  end.

Definition event_guard (r : rcfg) (s : rstate) (e : devent) : bool :=
  match e with
  | Started t => is_running (r_q s) t
  | Skipped t =>
      match nth_error (skips_sent r (r_polled s) (r_q s)) (r_nskip s) with
      | Some t' => t' =? t
      | None => false
      end
  | _ => true
  end.

Definition rstep (r : rcfg) (s : rstate) (x : rlabel) : option rstate :=
  match x with
  | RSched o =>
      if sched_guard (rc_cfg r) s o then
        Some (mk_rstate (fst (fq_step (r_q s) o)) (r_polled s || polls (r_q s) o)
                        (r_d s) (r_ps s) (r_nskip s))
      else None
  | REvent e =>
      if event_guard r s e then
        let '(d', _, rsp) := dstep (r_d s) e in
        match pstep (rc_cfg r) (r_ps s) e (r_hs rsp) with
        | Some ps' =>
            Some (mk_rstate (r_q s) (r_polled s) d' ps'
                            (match e with Skipped _ => S (r_nskip s) | _ => r_nskip s end))
        | None => None
        end
      else None
  end.

Fixpoint rrun (r : rcfg) (s : rstate) (xs : list rlabel) : option rstate :=
  match xs with
  | [] => Some s
  | x :: rest => match rstep r s x with Some s' => rrun r s' rest | None => None end
  end.

Definition rinit (r : rcfg) (mf : option N) (dbg : bool) : rstate :=
  mk_rstate (fq_new (rc_gm r) (rc_grps r) (rc_items r)) false
            (Live (init_for (rc_cfg r) mf dbg)) pstate0 0.

(* the two projections of a schedule: what the dispatcher handles, what the scheduler does *)
Fixpoint events_of (xs : list rlabel) : list devent :=
  match xs with
  | [] => []
  | REvent e :: r => e :: events_of r
  | RSched _ :: r => events_of r
  end.

Fixpoint ops_of (xs : list rlabel) : list op :=
  match xs with
  | [] => []
  | RSched o :: r => o :: ops_of r
  | REvent _ :: r => ops_of r
  end.

(* ---- request channels of ALL units, the running setup script included (C11) ----
   Model/Unit.v's [sys] has one request channel per test; DispatcherContext::broadcast_request also
   sends to running_setup_script. [x_smail]: cancel requests sent to the setup script that is
   running now and not yet taken off its channel (a new script gets a new, empty channel). *)

Record xsys := mk_xsys { x_sys : sys; x_smail : N }.

Definition script_deliver (s' : dst) (e : devent) (rsp : response) (m : N) : N :=
  match s' with
  | Live d' =>
      (match e, r_hs rsp with ScriptStarted _, HAccepted => 0 | _, _ => m end)
      + (if cancel_request (broadcast_of (r_resp rsp)) && is_some (d_script d') then 1 else 0)
  | Panicked => m
  end.

Definition xsys_step (c : cfg) (x : xsys) (l : sevent) : option xsys :=
  match sys_step true c (x_sys x) l with
  | None => None
  | Some y' =>
      Some (mk_xsys y'
              (match l with
               | SEvent e =>
                   let '(s', _, rsp) := dstep (y_d (x_sys x)) e in script_deliver s' e rsp (x_smail x)
               | SConsume _ => x_smail x
               end))
  end.

Fixpoint xsys_run (c : cfg) (x : xsys) (ls : list sevent) : option xsys :=
  match ls with
  | [] => Some x
  | l :: r => match xsys_step c x l with Some x' => xsys_run c x' r | None => None end
  end.

Definition xsys0 (c : cfg) (mf : option N) (dbg : bool) : xsys := mk_xsys (sys0 c mf dbg) 0.

(* a unit that has been started and has neither finished nor been dropped *)
Definition unit_live (p : phase) : bool :=
  match p with PRunning _ | PDelay _ => true | _ => false end.

(* a unit the dispatcher does not (or no longer) know: not started yet, refused at the start,
   finished, or skipped *)
Definition unit_gone (p : phase) : bool :=
  match p with PIdle | PFinished | PRefusedStart | PSkipped => true | _ => false end.

Fixpoint sevents_of (ls : list sevent) : list devent :=
  match ls with
  | [] => []
  | SEvent e :: r => e :: sevents_of r
  | SConsume _ :: r => sevents_of r
  end.
