(* Closed-loop simulation of one attempt: the unit model (UnitTimers) against a scripted test
   process (how long it runs, how it reacts to a terminating signal, how long a descendant keeps
   its pipes open) and a timed list of requests from the dispatcher. Produces the timeline of
   signals / events the model predicts; the end-to-end check compares it with what nextest and
   the puppet actually did. Executable definitions only. *)
From NextestModel Require Import Base.Str Model.Clocks Model.UnitTimers.
Open Scope N_scope.

(* OnTermLate d: exits with a failure status d after the signal; OnTermLateOk d: exits with status 0
   d after the signal (a graceful shutdown handler) *)
Inductive reaction := OnTermExit | OnTermIgnore | OnTermLate (d : N) | OnTermLateOk (d : N).

Record tbeh := {
  b_dur : N;            (* natural running time until it exits by itself *)
  b_exit_ok : bool;     (* exit status when it exits by itself *)
  b_on_term : reaction; (* reaction to SIGTERM / SIGINT / SIGHUP / SIGQUIT *)
  b_hold : N;           (* how long after the exit the pipes stay open (0: closed at exit) *)
  b_stops : bool        (* obeys SIGTSTP / SIGCONT (default disposition) *)
}.

Record sim := {
  now : N;
  su : ustate;
  left : option N;        (* remaining running time of the child; None once it is dead *)
  cstopped : bool;        (* child currently stopped by SIGTSTP *)
  dead_ok : bool;         (* exit status once dead *)
  dead_seen : bool;       (* the unit has observed the exit *)
  hold_left : option N;   (* remaining time the pipes stay open after death; None = closed/seen *)
  reqs : list (N * ureq); (* absolute time, request; sorted by time *)
  trace : list (N * uout * bool) (* reverse chronological; the flag: the child was alive *)
}.

Definition sim_init (cfg : ucfg) (b : tbeh) (rs : list (N * ureq)) : sim :=
  {| now := 0; su := uinit cfg; left := Some (b_dur b); cstopped := false; dead_ok := b_exit_ok b;
     dead_seen := false; hold_left := None; reqs := rs; trace := [] |}.

(* what the child does when a signal reaches its group *)
Definition react (b : tbeh) (s : sim) (sg : usig) : sim :=
  match left s with
  | None => s
  | Some l =>
      match sg with
      | SigKill =>
          {| now := now s; su := su s; left := Some 0; cstopped := false; dead_ok := false;
             dead_seen := dead_seen s; hold_left := hold_left s; reqs := reqs s; trace := trace s |}
      | SigTstp =>
          if b_stops b then
            {| now := now s; su := su s; left := left s; cstopped := true; dead_ok := dead_ok s;
               dead_seen := dead_seen s; hold_left := hold_left s; reqs := reqs s; trace := trace s |}
          else s
      | SigCont =>
          {| now := now s; su := su s; left := left s; cstopped := false; dead_ok := dead_ok s;
             dead_seen := dead_seen s; hold_left := hold_left s; reqs := reqs s; trace := trace s |}
      | _ =>
          match b_on_term b with
          | OnTermExit =>
              {| now := now s; su := su s; left := Some 0; cstopped := cstopped s; dead_ok := false;
                 dead_seen := dead_seen s; hold_left := hold_left s; reqs := reqs s; trace := trace s |}
          | OnTermIgnore => s
          | OnTermLate d =>
              {| now := now s; su := su s; left := Some (N.min l d); cstopped := cstopped s;
                 dead_ok := if d <? l then false else dead_ok s;
                 dead_seen := dead_seen s; hold_left := hold_left s; reqs := reqs s; trace := trace s |}
          | OnTermLateOk d =>
              {| now := now s; su := su s; left := Some (N.min l d); cstopped := cstopped s;
                 dead_ok := if d <? l then true else dead_ok s;
                 dead_seen := dead_seen s; hold_left := hold_left s; reqs := reqs s; trace := trace s |}
          end
      end
  end.

(* a signal sent to the group of a child that has already died reaches nobody: such trace entries
   are marked ([false]) and rendered as code + 1000 *)
Definition sim_child_alive (s : sim) : bool :=
  match left s with Some 0 | None => false | Some _ => true end.

Definition apply_outs (b : tbeh) (s : sim) (outs : list uout) : sim :=
  fold_left (fun acc o =>
               let alive := match o with OSignal _ => sim_child_alive acc | _ => true end in
               let acc1 := match o with OSignal sg => react b acc sg | _ => acc end in
               {| now := now acc1; su := su acc1; left := left acc1; cstopped := cstopped acc1;
                  dead_ok := dead_ok acc1; dead_seen := dead_seen acc1; hold_left := hold_left acc1;
                  reqs := reqs acc1; trace := (now acc1, o, alive) :: trace acc1 |}) outs s.

Definition sim_step (tbl : ptable) (cfg : ucfg) (b : tbeh) (s : sim) (e : uevent) : outcome sim :=
  match ustep tbl cfg (su s) e with
  | Panicked => Panicked
  | Ok (u', outs) =>
      Ok (apply_outs b {| now := now s; su := u'; left := left s; cstopped := cstopped s;
                          dead_ok := dead_ok s; dead_seen := dead_seen s; hold_left := hold_left s;
                          reqs := reqs s; trace := trace s |} outs)
  end.

(* time until the next thing happens; None: nothing will ever happen *)
Definition omin (a b : option N) : option N :=
  match a, b with
  | None, x | x, None => x
  | Some x, Some y => Some (N.min x y)
  end.

Definition due_in (sl : slc) : option N := if lpaused sl then None else Some (rem sl).

(* ---- nextest's own stop (dispatcher.rs: after the Stop broadcast and the <= 100 ms wait for
   acknowledgements, raise(SIGSTOP)). From then until SIGCONT the whole process is frozen: the unit
   processes nothing, while wall-clock time goes on for every clock that is not paused and for a
   child that ignores SIGTSTP. Signals sent to the stopped nextest stay pending; at SIGCONT they
   and the continue signal are all ready at once and the signal stream map yields them in either
   order ([cont_first]): the requests sent while stopped are delivered at the time of the
   Continue, immediately before or immediately after it. *)
Definition is_jc (r : ureq) : bool := match r with RStop | RContinue => true | _ => false end.

Fixpoint defer_reqs_aux (cont_first : bool) (pending : option (list ureq)) (rs : list (N * ureq))
  : list (N * ureq) :=
  match rs with
  | [] => []    (* never continued: what is pending is never delivered *)
  | (t, r) :: rs' =>
      match pending with
      | None =>
          match r with
          | RStop => (t, r) :: defer_reqs_aux cont_first (Some []) rs'
          | RContinue => defer_reqs_aux cont_first None rs'   (* not stopped: debounced *)
          | _ => (t, r) :: defer_reqs_aux cont_first None rs'
          end
      | Some q =>
          match r with
          | RContinue =>
              let held := map (fun x => (t, x)) (rev q) in
              (if cont_first then (t, r) :: held else held ++ [(t, r)])
              ++ defer_reqs_aux cont_first None rs'
          | RStop => defer_reqs_aux cont_first pending rs'   (* debounced by the dispatcher *)
          | _ => defer_reqs_aux cont_first (Some (r :: q)) rs'
          end
      end
  end.
Definition defer_reqs (cont_first : bool) (rs : list (N * ureq)) : list (N * ureq) :=
  defer_reqs_aux cont_first None rs.

(* frozen: a Stop has been delivered and the next job-control request still to come is the
   Continue (requests alternate; [defer_reqs] has moved everything in between to the Continue) *)
Fixpoint next_is_continue (rs : list (N * ureq)) : bool :=
  match rs with
  | [] => false
  | (_, RContinue) :: _ => true
  | (_, RStop) :: _ => false
  | _ :: rs' => next_is_continue rs'
  end.
Definition frozen (s : sim) : bool := next_is_continue (reqs s).

Definition next_delta (s : sim) : option N :=
  let u := su s in
  let t_req := match reqs s with (t, _) :: _ => Some (t - now s) | [] => None end in
  let t_child := if dead_seen s then None
                 else match left s with
                      | Some l => if cstopped s then None else Some l
                      | None => Some 0
                      end in
  let t_timer :=
    match ph u with
    | PRunning => if timed_out u then None else due_in (k_isl (ck u))
    | PTerminating _ => due_in (k_gsl (ck u))
    | PExiting => omin (if fds_done u then None else due_in (lsl u)) (hold_left s)
    | _ => None
    end in
  if frozen s then t_req else omin t_req (omin t_child t_timer).

Definition advance (dt : N) (s : sim) : sim :=
  {| now := now s + dt; su := su s;
     left := match left s with
             | Some l => if cstopped s then Some l else Some (l - N.min dt l)
             | None => None end;
     cstopped := cstopped s; dead_ok := dead_ok s; dead_seen := dead_seen s;
     hold_left := match hold_left s with Some h => Some (h - N.min dt h) | None => None end;
     reqs := reqs s; trace := trace s |}.

(* one scheduling round: advance to the next event time, then deliver one event that is due, in
   the fixed priority request < child exit < pipes closed < timer *)
Definition round (tbl : ptable) (cfg : ucfg) (b : tbeh) (s : sim) : outcome (option sim) :=
  match ph (su s) with
  | PDone => Ok None
  | _ =>
  match next_delta s with
  | None => Ok None
  | Some dt =>
      match sim_step tbl cfg b (advance dt s) (Tick dt) with
      | Panicked => Panicked
      | Ok s1 =>
          let u := su s1 in
          match reqs s1 with
          | (t, r) :: rest =>
              if t <=? now s1 then
                match sim_step tbl cfg b
                        {| now := now s1; su := su s1; left := left s1; cstopped := cstopped s1;
                           dead_ok := dead_ok s1; dead_seen := dead_seen s1; hold_left := hold_left s1;
                           reqs := rest; trace := trace s1 |} (Req r) with
                | Ok s2 => Ok (Some s2) | Panicked => Panicked end
              else if frozen s1 then Ok (Some s1) else
                (* fall through to the other event kinds below *)
                match left s1, dead_seen s1, cstopped s1 with
                | Some 0, false, false =>
                    match ph u with
                    | PExiting | PDone => Ok (Some s1)
                    | _ =>
                      match sim_step tbl cfg b
                              {| now := now s1; su := su s1; left := Some 0; cstopped := false;
                                 dead_ok := dead_ok s1;
                                 dead_seen := match ph u with PTerminating _ => false | _ => true end;
                                 hold_left := if b_hold b =? 0 then None else Some (b_hold b);
                                 reqs := reqs s1; trace := trace s1 |} (ChildExit (dead_ok s1)) with
                      | Ok s2 =>
                          (* pipes closed at exit *)
                          if (b_hold b =? 0) && negb (fds_done (su s2)) then
                            match sim_step tbl cfg b s2 FdsDone with
                            | Ok s3 => Ok (Some s3) | Panicked => Panicked end
                          else Ok (Some s2)
                      | Panicked => Panicked
                      end
                    end
                | _, _, _ =>
                    match ph u, hold_left s1 with
                    | PExiting, Some 0 =>
                        match sim_step tbl cfg b
                                {| now := now s1; su := su s1; left := left s1; cstopped := cstopped s1;
                                   dead_ok := dead_ok s1; dead_seen := dead_seen s1; hold_left := None;
                                   reqs := reqs s1; trace := trace s1 |} FdsDone with
                        | Ok s2 => Ok (Some s2) | Panicked => Panicked end
                    | _, _ =>
                        let ev := match ph u with
                                  | PRunning => FireInterval
                                  | PTerminating _ => FireGrace
                                  | _ => FireLeak end in
                        match sim_step tbl cfg b s1 ev with
                        | Ok s2 => Ok (Some s2) | Panicked => Panicked end
                    end
                end
          | [] =>
                match left s1, dead_seen s1, cstopped s1 with
                | Some 0, false, false =>
                    match ph u with
                    | PExiting | PDone => Ok (Some s1)
                    | _ =>
                      match sim_step tbl cfg b
                              {| now := now s1; su := su s1; left := Some 0; cstopped := false;
                                 dead_ok := dead_ok s1;
                                 dead_seen := match ph u with PTerminating _ => false | _ => true end;
                                 hold_left := if b_hold b =? 0 then None else Some (b_hold b);
                                 reqs := reqs s1; trace := trace s1 |} (ChildExit (dead_ok s1)) with
                      | Ok s2 =>
                          if (b_hold b =? 0) && negb (fds_done (su s2)) then
                            match sim_step tbl cfg b s2 FdsDone with
                            | Ok s3 => Ok (Some s3) | Panicked => Panicked end
                          else Ok (Some s2)
                      | Panicked => Panicked
                      end
                    end
                | _, _, _ =>
                    match ph u, hold_left s1 with
                    | PExiting, Some 0 =>
                        match sim_step tbl cfg b
                                {| now := now s1; su := su s1; left := left s1; cstopped := cstopped s1;
                                   dead_ok := dead_ok s1; dead_seen := dead_seen s1; hold_left := None;
                                   reqs := reqs s1; trace := trace s1 |} FdsDone with
                        | Ok s2 => Ok (Some s2) | Panicked => Panicked end
                    | _, _ =>
                        let ev := match ph u with
                                  | PRunning => FireInterval
                                  | PTerminating _ => FireGrace
                                  | _ => FireLeak end in
                        match sim_step tbl cfg b s1 ev with
                        | Ok s2 => Ok (Some s2) | Panicked => Panicked end
                    end
                end
          end
      end
  end
  end.

Fixpoint simulate (fuel : nat) (tbl : ptable) (cfg : ucfg) (b : tbeh) (s : sim) : outcome sim :=
  match fuel with
  | O => Ok s
  | S f =>
      match round tbl cfg b s with
      | Panicked => Panicked
      | Ok None => Ok s
      | Ok (Some s') => simulate f tbl cfg b s'
      end
  end.

(* numeric rendering for the harness: (time, code) pairs, oldest first, then a summary *)
Definition out_code (o : uout) : N :=
  match o with
  | OSignal SigInt => 2 | OSignal SigTerm => 15 | OSignal SigHup => 1 | OSignal SigQuit => 3
  | OSignal SigKill => 9 | OSignal SigTstp => 20 | OSignal SigCont => 18
  | OSlow false => 100 | OSlow true => 101 | OAck => 102
  | OInfo IRunning => 110 | OInfo ITerminating => 111 | OInfo IExiting => 112 | OInfo IDelay => 113
  end.
Definition res_code (r : ures) : N :=
  match r with UPass => 0 | ULeak => 1 | UFail => 2 | UTimeout => 3 end.

(* [panicked?; done?; result; slow; time_taken; end time] ++ flattened (time, code) trace *)
Definition sim_report_o (cont_first : bool) (tbl : ptable) (cfg : ucfg) (b : tbeh)
           (rs0 : list (N * ureq)) : list N :=
  let rs := defer_reqs cont_first rs0 in
  match simulate 400 tbl cfg b (sim_init cfg b rs) with
  | Panicked => [1]
  | Ok s =>
      [0; match ph (su s) with PDone => 1 | _ => 0 end; res_code (uresult (su s));
       if slow (su s) then 1 else 0; time_taken (su s); now s]
      ++ flat_map (fun p : N * uout * bool =>
                     [fst (fst p); out_code (snd (fst p)) + (if snd p then 0 else 1000)])
                  (rev (trace s))
  end.
Definition sim_report (tbl : ptable) (cfg : ucfg) (b : tbeh) (rs : list (N * ureq)) : list N :=
  sim_report_o true tbl cfg b rs.
