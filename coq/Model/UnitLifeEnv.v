(* Closed-loop simulation of a unit's whole life (Model/UnitLife.v): the life machine against a
   scripted test process with one behaviour per attempt, a retry policy, and a timed list of
   requests sent by the dispatcher. In the style of Model/UnitEnv.v (one attempt), plus:
   * the dispatcher's side of the two handshakes: a handshake is refused iff a Shutdown or
     OtherCancel has been sent by then (cancel_state is set before the broadcast);
   * the repeat of the cancel request when a failed attempt is reported during cancellation
     (dispatcher.rs, AttemptFailedWillRetry arm; [unicast]);
   * requests are delivered only while one of the four wait loops is reading the channel; sent
     earlier, they wait in the queue;
   * nextest stops itself right after the Stop broadcast and runs again at SIGCONT: in between the
     unit processes nothing ([z_frozen]); time still passes for every clock that is not paused
     (tokio sleeps and stopwatches are wall-clock based) and for a child that ignores SIGTSTP.
   Produces the predicted timeline: signals, slow events, information responses, attempt
   boundaries, per-attempt result / time taken, how the unit ended. Executable definitions only. *)
From NextestModel Require Import Base.Str Model.Backoff Model.Clocks Model.UnitTimers Model.UnitEnv
  Model.UnitLife.
Open Scope N_scope.

Record lsim := {
  z_now : N;
  z_s : lstate;
  z_left : option N;       (* remaining running time of the current child; Some 0: dead *)
  z_cstopped : bool;
  z_dead_ok : bool;
  z_dead_seen : bool;
  z_hold : option N;       (* once dead: remaining time the pipes stay open; None = closed *)
  z_frozen : bool;
  z_reqs : list (N * ureq);
  z_trace : list (N * N * N);      (* (time, attempt, output code), most recent first *)
  z_marks : list (N * N * N) }.    (* (kind, attempt, time), most recent first *)

Definition mkz nw s l cs dk ds h fr rq tr mk : lsim :=
  {| z_now := nw; z_s := s; z_left := l; z_cstopped := cs; z_dead_ok := dk; z_dead_seen := ds;
     z_hold := h; z_frozen := fr; z_reqs := rq; z_trace := tr; z_marks := mk |}.

Definition z_with_s z s := mkz (z_now z) s (z_left z) (z_cstopped z) (z_dead_ok z) (z_dead_seen z) (z_hold z) (z_frozen z) (z_reqs z) (z_trace z) (z_marks z).
Definition z_with_child z l cs dk ds h := mkz (z_now z) (z_s z) l cs dk ds h (z_frozen z) (z_reqs z) (z_trace z) (z_marks z).
Definition z_with_seen z ds := mkz (z_now z) (z_s z) (z_left z) (z_cstopped z) (z_dead_ok z) ds (z_hold z) (z_frozen z) (z_reqs z) (z_trace z) (z_marks z).
Definition z_with_hold z h := mkz (z_now z) (z_s z) (z_left z) (z_cstopped z) (z_dead_ok z) (z_dead_seen z) h (z_frozen z) (z_reqs z) (z_trace z) (z_marks z).
Definition z_with_frozen z fr := mkz (z_now z) (z_s z) (z_left z) (z_cstopped z) (z_dead_ok z) (z_dead_seen z) (z_hold z) fr (z_reqs z) (z_trace z) (z_marks z).
Definition z_with_reqs z rq := mkz (z_now z) (z_s z) (z_left z) (z_cstopped z) (z_dead_ok z) (z_dead_seen z) (z_hold z) (z_frozen z) rq (z_trace z) (z_marks z).
Definition z_with_trace z tr := mkz (z_now z) (z_s z) (z_left z) (z_cstopped z) (z_dead_ok z) (z_dead_seen z) (z_hold z) (z_frozen z) (z_reqs z) tr (z_marks z).
Definition z_mark z kind k := mkz (z_now z) (z_s z) (z_left z) (z_cstopped z) (z_dead_ok z) (z_dead_seen z) (z_hold z) (z_frozen z) (z_reqs z) (z_trace z) ((kind, k, z_now z) :: z_marks z).

Definition z_mark_v z kind k v := mkz (z_now z) (z_s z) (z_left z) (z_cstopped z) (z_dead_ok z) (z_dead_seen z) (z_hold z) (z_frozen z) (z_reqs z) (z_trace z) ((kind, k, v) :: z_marks z).

Definition default_beh : tbeh :=
  {| b_dur := 0; b_exit_ok := true; b_on_term := OnTermExit; b_hold := 0; b_stops := true |}.
(* the puppet uses the last scripted behaviour for every later attempt *)
Definition beh_of (behs : list tbeh) (k : N) : tbeh :=
  nth (N.to_nat (k - 1)) behs (last behs default_beh).

Definition hold_at_death (b : tbeh) : option N := if b_hold b =? 0 then None else Some (b_hold b).

(* what the child does when a signal reaches its group *)
Definition z_react (b : tbeh) (z : lsim) (sg : usig) : lsim :=
  match z_left z with
  | None | Some 0 => z
  | Some l =>
      match sg with
      | SigKill => z_with_child z (Some 0) false false (z_dead_seen z) None
      | SigTstp => if b_stops b
                   then z_with_child z (z_left z) true (z_dead_ok z) (z_dead_seen z) (z_hold z)
                   else z
      | SigCont => z_with_child z (z_left z) false (z_dead_ok z) (z_dead_seen z) (z_hold z)
      | _ =>
          match b_on_term b with
          | OnTermExit => z_with_child z (Some 0) (z_cstopped z) false (z_dead_seen z) (hold_at_death b)
          | OnTermIgnore => z
          | OnTermLate d =>
              z_with_child z (Some (N.min l d)) (z_cstopped z)
                           (if d <? l then false else z_dead_ok z) (z_dead_seen z) (z_hold z)
          | OnTermLateOk d =>
              z_with_child z (Some (N.min l d)) (z_cstopped z)
                           (if d <? l then true else z_dead_ok z) (z_dead_seen z) (z_hold z)
          end
      end
  end.

Definition lout_code (o : lout) : N :=
  match o with
  | LO x => out_code x
  | LAttemptFailedWillRetry _ _ => 200
  | LRetryStarted _ => 201
  | LFinished _ => 202
  end.

(* outputs go to the trace; signals reach the child if it is still alive (a signal sent to the
   group of a child that has already died is marked: code + 1000) *)
Definition child_alive (z : lsim) : bool :=
  match z_left z with Some 0 | None => false | Some _ => true end.

Definition z_apply_outs (b : tbeh) (k : N) (z : lsim) (outs : list lout) : lsim :=
  fold_left (fun acc o =>
               let code := match o with
                           | LO (OSignal _) => if child_alive acc then lout_code o else lout_code o + 1000
                           | _ => lout_code o
                           end in
               let acc1 := match o with LO (OSignal sg) => z_react b acc sg | _ => acc end in
               z_with_trace acc1 ((z_now acc1, k, code) :: z_trace acc1)) outs z.

Definition cancel_sent (allreqs : list (N * ureq)) (nw : N) : bool :=
  existsb (fun p => (fst p <=? nw) && is_cancel_req (snd p)) allreqs.

(* the repeated cancel request goes to the back of what is already in the channel *)
Fixpoint enqueue_now (nw : N) (r : ureq) (q : list (N * ureq)) : list (N * ureq) :=
  match q with
  | (t, x) :: q' => if t <=? nw then (t, x) :: enqueue_now nw r q' else (nw, r) :: q
  | [] => [(nw, r)]
  end.

Section Sim.
  Variable tbl : ptable.
  Variable c : lcfg.
  Variable behs : list tbeh.
  Variable allreqs : list (N * ureq).
  Variable unicast : bool.

  Definition phase_code (s : lstate) : N :=
    match l_ph s with
    | LAwaitStart => 0 | LAttempt _ => 1 | LDelay _ => 2 | LAwaitRetry => 3
    | LFinishedP => 4 | LRefusedP => 5
    end.

  (* one event of the life machine, with the bookkeeping at the hand-overs *)
  Definition z_step (z : lsim) (e : levent) : outcome lsim :=
    let s := z_s z in
    match lstep tbl c s e with
    | Panicked => Panicked
    | Ok (s', outs) =>
        let k := l_k s in
        let z1 := z_apply_outs (beh_of behs k) k (z_with_s z s') outs in
        let z2 := match e with
                  | LU (Req RStop) => if consuming s then z_with_frozen z1 true else z1
                  | LU (Req RContinue) => z_with_frozen z1 false
                  | _ => z1
                  end in
        Ok (match phase_code s, phase_code s' with
            | 1, 1 | 2, 2 => z2
            | 1, 2 =>
                let z3 := z_mark_v (z_mark z2 2 k) 5 k (l_delay s') in
                if unicast && cancel_sent allreqs (z_now z)
                then z_with_reqs z3 (enqueue_now (z_now z) ROtherCancel (z_reqs z3)) else z3
            | 1, _ => z_mark (z_mark z2 2 k) 4 k
            | 2, _ => z_mark z2 3 k
            | _, 1 =>
                let b := beh_of behs (l_k s') in
                z_mark (z_with_child z2 (Some (b_dur b)) false (b_exit_ok b) false None) 1 (l_k s')
            | _, 5 => z_mark z2 4 k
            | _, _ => z2
            end)
    end.

  Definition z_advance (dt : N) (z : lsim) : lsim :=
    let b := beh_of behs (l_k (z_s z)) in
    let '(l', h') :=
      match z_left z with
      | Some 0 => (Some 0, match z_hold z with Some h => Some (h - N.min dt h) | None => None end)
      | Some l =>
          if z_cstopped z then (Some l, z_hold z)
          else if l <=? dt
               then (Some 0, match hold_at_death b with
                             | Some h => Some (h - N.min (dt - l) h)
                             | None => None end)
               else (Some (l - dt), z_hold z)
      | None => (None, z_hold z)
      end in
    mkz (z_now z + dt) (z_s z) l' (z_cstopped z) (z_dead_ok z) (z_dead_seen z) h' (z_frozen z)
        (z_reqs z) (z_trace z) (z_marks z).

  Definition t_req (z : lsim) : option N :=
    match z_reqs z with (t, _) :: _ => Some (t - z_now z) | [] => None end.

  Definition z_next_delta (z : lsim) : option N :=
    match l_ph (z_s z) with
    | LAttempt u =>
        if z_frozen z then t_req z else
        let t_child := if z_dead_seen z then None
                       else match z_left z with
                            | Some l => if z_cstopped z then None else Some l
                            | None => None
                            end in
        let t_timer :=
          match ph u with
          | PRunning => if timed_out u then None else due_in (k_isl (ck u))
          | PTerminating _ => due_in (k_gsl (ck u))
          | PExiting => omin (if fds_done u then None else due_in (lsl u)) (z_hold z)
          | _ => None
          end in
        omin (t_req z) (omin t_child t_timer)
    | LDelay d => if z_frozen z then t_req z else omin (t_req z) (due_in (k_dsl (d_ck d)))
    | _ => Some 0
    end.

  Definition pop_req (z : lsim) : option (ureq * lsim) :=
    match z_reqs z with
    | (t, r) :: rest => if t <=? z_now z then Some (r, z_with_reqs z rest) else None
    | [] => None
    end.

  (* one scheduling round: advance to the next event time, then deliver one event that is due, in
     the fixed priority request < child exit < pipes closed < timer (as Model/UnitEnv.v) *)
  Definition z_round (z : lsim) : outcome (option lsim) :=
    match l_ph (z_s z) with
    | LFinishedP | LRefusedP => Ok None
    | LAwaitStart | LAwaitRetry =>
        match z_step z (LAnswer (negb (cancel_sent allreqs (z_now z)))) with
        | Ok z' => Ok (Some z') | Panicked => Panicked end
    | _ =>
    match z_next_delta z with
    | None => Ok None
    | Some dt =>
        match z_step (z_advance dt z) (LU (Tick dt)) with
        | Panicked => Panicked
        | Ok z1 =>
            match pop_req z1 with
            | Some (r, z2) =>
                match z_step z2 (LU (Req r)) with Ok z3 => Ok (Some z3) | Panicked => Panicked end
            | None =>
                if z_frozen z1 then Ok (Some z1) else
                match l_ph (z_s z1) with
                | LDelay _ =>
                    match z_step z1 LDelayFire with Ok z3 => Ok (Some z3) | Panicked => Panicked end
                | LAttempt u =>
                    let b := beh_of behs (l_k (z_s z1)) in
                    match z_left z1, z_dead_seen z1, z_cstopped z1 with
                    | Some 0, false, false =>
                        match ph u with
                        | PExiting | PDone => Ok (Some z1)
                        | _ =>
                            let seen := match ph u with PTerminating _ => false | _ => true end in
                            match z_step (z_with_seen z1 seen) (LU (ChildExit (z_dead_ok z1))) with
                            | Panicked => Panicked
                            | Ok z2 =>
                                (* pipes already closed when the exit is observed *)
                                match z_hold z2, l_ph (z_s z2) with
                                | None, LAttempt u2 =>
                                    if negb (fds_done u2) && (l_k (z_s z2) =? l_k (z_s z1)) then
                                      match z_step z2 (LU FdsDone) with
                                      | Ok z3 => Ok (Some z3) | Panicked => Panicked end
                                    else Ok (Some z2)
                                | _, _ => Ok (Some z2)
                                end
                            end
                        end
                    | _, _, _ =>
                        match ph u, z_hold z1 with
                        | PExiting, Some 0 =>
                            match z_step (z_with_hold z1 None) (LU FdsDone) with
                            | Ok z3 => Ok (Some z3) | Panicked => Panicked end
                        | _, _ =>
                            let ev := match ph u with
                                      | PRunning => FireInterval
                                      | PTerminating _ => FireGrace
                                      | _ => FireLeak end in
                            match z_step z1 (LU ev) with
                            | Ok z3 => Ok (Some z3) | Panicked => Panicked end
                        end
                    end
                | _ => Ok (Some z1)
                end
            end
        end
    end
    end.

  Fixpoint z_simulate (fuel : nat) (z : lsim) : outcome lsim :=
    match fuel with
    | O => Ok z
    | S f =>
        match z_round z with
        | Panicked => Panicked
        | Ok None => Ok z
        | Ok (Some z') => z_simulate f z'
        end
    end.
End Sim.

Definition z_init (c : lcfg) (rs : list (N * ureq)) : lsim :=
  mkz 0 (linit c) None false false false None false rs [] [].

(* [[panicked?; how it ended (4 finished / 5 refused / other: still going); attempts started; end time];
    per finished attempt, oldest first: no, result, slow, time_taken (flattened);
    marks, oldest first: kind, attempt, time (flattened) -- 1 attempt start, 2 attempt end, 3 delay end, 4 unit end
      (5: attempt, delay chosen after it);
    trace, oldest first: time, attempt, code (flattened);
    delays chosen after each failed attempt: attempt, delay (flattened)] *)
Definition life_report_o (cont_first : bool) (tbl : ptable) (cfg : ucfg) (pol : policy)
           (behs : list tbeh) (rs0 : list (N * ureq)) (unicast : bool) : list (list N) :=
  (* requests sent while nextest is stopped are delivered at the Continue, before or after it *)
  let rs := defer_reqs cont_first rs0 in
  let c := {| lc_unit := cfg; lc_policy := pol; lc_js := fun _ => no_jitter_sample |} in
  match z_simulate tbl c behs rs unicast 500 (z_init c rs) with
  | Panicked => [[1]]
  | Ok z =>
      [ [0; phase_code (z_s z); l_k (z_s z); z_now z];
        flat_map (fun r => [ar_no r; res_code (ar_result r); if ar_slow r then 1 else 0; ar_time r])
                 (rev (l_done (z_s z)));
        flat_map (fun m => [fst (fst m); snd (fst m); snd m]) (rev (z_marks z));
        flat_map (fun p => [fst (fst p); snd (fst p); snd p]) (rev (z_trace z));
        flat_map (fun m => match fst (fst m) with 5 => [snd (fst m); snd m] | _ => [] end)
                 (rev (z_marks z)) ]
  end.
Definition life_report (tbl : ptable) (cfg : ucfg) (pol : policy) (behs : list tbeh)
           (rs : list (N * ureq)) (unicast : bool) : list (list N) :=
  life_report_o true tbl cfg pol behs rs unicast.
