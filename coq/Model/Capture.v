(* Output capture (C16): nextest-runner/src/test_command/imp.rs ([FusedBufReader], [ChildFds],
   [ChildAccumulator]) as polled from the wait loops of runner/executor.rs and runner/unix.rs.
   Executable definitions only; lemmas are in Proofs/Capture.v.

   What is modelled
   * [FusedBufReader::fill_buf]: one read of at most CHUNK_SIZE (= 4096, the capacity of the
     [BufReader]; a parameter [cap] here) bytes per call, appended to the accumulator; a zero-length
     read or an error sets [done]; once [done] the reader is never touched again ("fused").
   * [ChildFds::fill_buf]: split mode = one reader per pipe, [select!] completes whichever reader
     makes progress (the choice is an input: event [EPoll s n]); combined mode = one reader over
     one pipe both of the child's descriptors write to.
   * the environment (outside the Rust code, an assumption): a pipe is a FIFO byte buffer with a
     "some write end is still open" flag; a read returns between 1 and min(requested, available)
     bytes when the buffer is not empty (short reads allowed: [n] of [EPoll]), zero bytes when the
     buffer is empty and every write end is closed, and does not complete otherwise. Pipe capacity
     (a full pipe blocks the writer) only delays [EWrite] events and is not modelled.
   * the wait loops: every loop of [run_test_inner] / [terminate_child] / [detect_fd_leaks] has the
     branch [() = child_acc.fill_buf(), if !child_acc.fds.is_done()]; whatever else those loops do
     (timers, requests, child exit) is [EOther] here; the loops stop polling at the leak verdict or
     when nextest gives up on the unit ([EStop]), after which the accumulator is frozen.
   * one fresh accumulator per attempt ([ChildAccumulator::new] in [run_test_inner]): the keyed
     model at the end. *)
From NextestModel Require Import Base.Str.
Open Scope N_scope.

Definition bytes := list N.

Fixpoint takeN {A : Type} (n : N) (l : list A) : list A :=
  match l with
  | [] => []
  | x :: t => if n =? 0 then [] else x :: takeN (n - 1) t
  end.

Fixpoint dropN {A : Type} (n : N) (l : list A) : list A :=
  match l with
  | [] => []
  | x :: t => if n =? 0 then l else dropN (n - 1) t
  end.

Definition lenN {A : Type} (l : list A) : N := N.of_nat (length l).

Definition is_nil {A : Type} (l : list A) : bool := match l with [] => true | _ => false end.

(* ------------------------------------------------------------------------------------------ *)
(* FusedBufReader                                                                             *)

Record reader := mkReader { r_done : bool; r_acc : bytes }.
Definition reader0 : reader := mkReader false [].

(* what the awaited [self.reader.fill_buf()] resolved to *)
Inductive rd := RdData (b : bytes) | RdErr.

(* FusedBufReader::fill_buf, given the result of the underlying read; the boolean is "returned
   Err". When [done] the underlying reader is not consulted. *)
Definition reader_fill (r : reader) (x : rd) : reader * bool :=
  if r_done r then (r, false)
  else match x with
       | RdData b => (mkReader (is_nil b) (r_acc r ++ b), false)
       | RdErr => (mkReader true (r_acc r), true)
       end.

(* A scripted in-memory [AsyncRead] (the harness's reader for corr:fused-reader): each poll_read
   consumes one item; a chunk longer than the buffer it is offered stays at the head. An exhausted
   script reads as EOF. *)
Inductive sop := SChunk (b : bytes) | SPending | SEof | SErr.

Definition push_chunk (b : bytes) (s : list sop) : list sop :=
  match b with [] => s | _ => SChunk b :: s end.

(* one [fill_buf().await]: Pending results are polled again (the scripted reader wakes itself) *)
Fixpoint fused_call (cap : N) (s : list sop) (r : reader) : reader * bool * list sop :=
  if r_done r then (r, false, s)
  else match s with
       | [] => (fst (reader_fill r (RdData [])), false, [])
       | SPending :: t => fused_call cap t r
       | SChunk b :: t =>
           (fst (reader_fill r (RdData (takeN cap b))), false, push_chunk (dropN cap b) t)
       | SEof :: t => (fst (reader_fill r (RdData [])), false, t)
       | SErr :: t => (fst (reader_fill r RdErr), true, t)
       end.

(* state after each of [calls] successive calls: (accumulated length, done, call returned Err) *)
Fixpoint fused_trace (cap : N) (calls : nat) (s : list sop) (r : reader)
  : list (N * bool * bool) * reader :=
  match calls with
  | O => ([], r)
  | S k =>
      let '(r', e, s') := fused_call cap s r in
      let '(tr, rf) := fused_trace cap k s' r' in
      ((lenN (r_acc r'), r_done r', e) :: tr, rf)
  end.

(* everything the script offers before the first zero-length read / error (specification side) *)
Fixpoint script_data (s : list sop) : bytes :=
  match s with
  | [] => []
  | SChunk [] :: _ => []
  | SChunk b :: t => b ++ script_data t
  | SPending :: t => script_data t
  | SEof :: _ => []
  | SErr :: _ => []
  end.

(* ------------------------------------------------------------------------------------------ *)
(* One captured pipe and its reader                                                           *)

Inductive sev :=
| Write (b : bytes)   (* a process holding the write end writes b *)
| Close               (* the last write end is closed *)
| Poll (n : N)        (* fill_buf completes on this reader; the read returns at most n bytes *)
| Fail                (* fill_buf completes on this reader with a read error *)
| Stop.               (* the loops stop polling (leak verdict / unit abandoned) *)

Record side := mkSide {
  sd_open : bool;       (* some write end is open *)
  sd_buf : bytes;       (* written, not yet read *)
  sd_rd : reader;
  sd_err : bool;        (* a ChildFdError::Read* was recorded for this reader *)
  sd_stopped : bool }.

Definition side0 : side := mkSide true [] reader0 false false.
(* a stream that is not captured: [None] in [ChildFds::Split]; [is_done_opt] is true *)
Definition side_absent : side := mkSide false [] (mkReader true []) false false.

Definition side_step (cap : N) (x : side) (e : sev) : side :=
  match e with
  | Write b =>
      if sd_open x then mkSide true (sd_buf x ++ b) (sd_rd x) (sd_err x) (sd_stopped x) else x
  | Close => mkSide false (sd_buf x) (sd_rd x) (sd_err x) (sd_stopped x)
  | Poll n =>
      if sd_stopped x || r_done (sd_rd x) then x
      else match sd_buf x with
           | [] =>
               if sd_open x then x   (* nothing to read yet: the branch does not complete *)
               else mkSide (sd_open x) [] (fst (reader_fill (sd_rd x) (RdData []))) (sd_err x) (sd_stopped x)
           | _ :: _ =>
               let k := N.min n cap in
               if k =? 0 then x
               else mkSide (sd_open x) (dropN k (sd_buf x))
                           (fst (reader_fill (sd_rd x) (RdData (takeN k (sd_buf x)))))
                           (sd_err x) (sd_stopped x)
           end
  | Fail =>
      if sd_stopped x || r_done (sd_rd x) then x
      else mkSide (sd_open x) (sd_buf x) (fst (reader_fill (sd_rd x) RdErr)) true (sd_stopped x)
  | Stop => mkSide (sd_open x) (sd_buf x) (sd_rd x) (sd_err x) true
  end.

Definition side_run (cap : N) (l : list sev) (x : side) : side := fold_left (side_step cap) l x.

(* the bytes the pipe accepted: writes while a write end was open (specification side) *)
Fixpoint accepted (open : bool) (l : list sev) : bytes :=
  match l with
  | [] => []
  | Write b :: t => if open then b ++ accepted open t else accepted open t
  | Close :: t => accepted false t
  | _ :: t => accepted open t
  end.

(* ------------------------------------------------------------------------------------------ *)
(* The accumulator of one attempt                                                             *)

Inductive stream := SOut | SErrS.
Definition stream_eqb (a b : stream) : bool :=
  match a, b with SOut, SOut | SErrS, SErrS => true | _, _ => false end.

Inductive ev :=
| EWrite (s : stream) (b : bytes)
| EClose (s : stream)           (* every holder of the attempt's descriptor s has closed it / exited *)
| EPoll (s : stream) (n : N)    (* child_acc.fill_buf() completed through reader s *)
| EFail (s : stream)
| EOther                        (* any other branch of the wait loop; any other loop iteration *)
| EStop.

(* -- split mode: two independent sides *)
Record sst := mkSst { st_out : side; st_err : side }.
Definition sst0 : sst := mkSst side0 side0.
Definition sst_of (capture_out capture_err : bool) : sst :=
  mkSst (if capture_out then side0 else side_absent) (if capture_err then side0 else side_absent).

Definition proj (s : stream) (e : ev) : option sev :=
  match e with
  | EWrite s' b => if stream_eqb s s' then Some (Write b) else None
  | EClose s' => if stream_eqb s s' then Some Close else None
  | EPoll s' n => if stream_eqb s s' then Some (Poll n) else None
  | EFail s' => if stream_eqb s s' then Some Fail else None
  | EOther => None
  | EStop => Some Stop
  end.

Definition opt_step (cap : N) (x : side) (o : option sev) : side :=
  match o with Some e => side_step cap x e | None => x end.

Definition sstep (cap : N) (x : sst) (e : ev) : sst :=
  mkSst (opt_step cap (st_out x) (proj SOut e)) (opt_step cap (st_err x) (proj SErrS e)).

Definition srun (cap : N) (evs : list ev) (x : sst) : sst := fold_left (sstep cap) evs x.

Definition side_of (s : stream) (x : sst) : side :=
  match s with SOut => st_out x | SErrS => st_err x end.

(* ChildFds::is_done *)
Definition fds_done (x : sst) : bool := r_done (sd_rd (st_out x)) && r_done (sd_rd (st_err x)).
(* what ends up in the attempt's ExecuteStatus ([child_acc.output.freeze()]) *)
Definition captured (s : stream) (x : sst) : bytes := r_acc (sd_rd (side_of s x)).

Fixpoint proj_list (s : stream) (evs : list ev) : list sev :=
  match evs with
  | [] => []
  | e :: t => match proj s e with Some x => x :: proj_list s t | None => proj_list s t end
  end.

(* the bytes the attempt wrote to stream s *)
Definition written (s : stream) (evs : list ev) : bytes := accepted true (proj_list s evs).

(* no write to a descriptor after its last holder closed it *)
Fixpoint wf_writes (oo oe : bool) (evs : list ev) : bool :=
  match evs with
  | [] => true
  | EWrite SOut _ :: t => oo && wf_writes oo oe t
  | EWrite SErrS _ :: t => oe && wf_writes oo oe t
  | EClose SOut :: t => wf_writes false oe t
  | EClose SErrS :: t => wf_writes oo false t
  | _ :: t => wf_writes oo oe t
  end.

Definition all_writes (s : stream) (evs : list ev) : bytes :=
  flat_map (fun e => match e with
                     | EWrite s' b => if stream_eqb s s' then b else []
                     | _ => []
                     end) evs.

(* -- combined mode: one pipe, two descriptors of the child writing to it, one reader *)
Record cst := mkCst { c_oo : bool; c_oe : bool; c_side : side }.
Definition cst0 : cst := mkCst true true side0.

Definition cstep (cap : N) (x : cst) (e : ev) : cst :=
  match e with
  | EWrite s b =>
      if (match s with SOut => c_oo x | SErrS => c_oe x end)
      then mkCst (c_oo x) (c_oe x) (side_step cap (c_side x) (Write b)) else x
  | EClose SOut =>
      mkCst false (c_oe x) (if c_oe x then c_side x else side_step cap (c_side x) Close)
  | EClose SErrS =>
      mkCst (c_oo x) false (if c_oo x then c_side x else side_step cap (c_side x) Close)
  | EPoll _ n => mkCst (c_oo x) (c_oe x) (side_step cap (c_side x) (Poll n))
  | EFail _ => mkCst (c_oo x) (c_oe x) (side_step cap (c_side x) Fail)
  | EOther => x
  | EStop => mkCst (c_oo x) (c_oe x) (side_step cap (c_side x) Stop)
  end.

Definition crun (cap : N) (evs : list ev) (x : cst) : cst := fold_left (cstep cap) evs x.

(* every accepted byte in the order of the writes, tagged with the descriptor it was written to *)
Fixpoint tagged (oo oe : bool) (evs : list ev) : list (stream * N) :=
  match evs with
  | [] => []
  | EWrite SOut b :: t => (if oo then map (pair SOut) b else []) ++ tagged oo oe t
  | EWrite SErrS b :: t => (if oe then map (pair SErrS) b else []) ++ tagged oo oe t
  | EClose SOut :: t => tagged false oe t
  | EClose SErrS :: t => tagged oo false t
  | _ :: t => tagged oo oe t
  end.

Definition only (s : stream) (l : list (stream * N)) : bytes :=
  map snd (filter (fun p => stream_eqb s (fst p)) l).

(* ------------------------------------------------------------------------------------------ *)
(* After the child has exited: [detect_fd_leaks] is called on EVERY result path of
   [run_test_inner] / [run_setup_script] -- normal exit, exit during a grace period, SIGKILL after
   the grace period, and SIGKILL with a zero grace period, where [child.wait()] is awaited without
   reading -- with the tentative result only passed along for info responses. It is the only place
   where what is still in the pipes after the exit is read, so the drain must not depend on the
   tentative result. *)

Inductive tentative := TnNone | TnPass | TnFail | TnExecFail | TnTimeout.

Definition sched_polls (sched : list (stream * N)) : list ev :=
  map (fun p => EPoll (fst p) (snd p)) sched.

(* the reads detect_fd_leaks performs (which reader select! completes, how many bytes each read
   returns: [sched]); faithful to the code: the same for every tentative result *)
Definition leak_phase (t : tentative) (sched : list (stream * N)) : list ev := sched_polls sched.

(* a variant that returns at once for a unit that timed out (not what the code does; kept to show
   what the theorem excludes) *)
Definition leak_phase_skipping_timeout (t : tentative) (sched : list (stream * N)) : list ev :=
  match t with TnTimeout => [] | _ => sched_polls sched end.

Definition polls_for (s : stream) (sched : list (stream * N)) : list N :=
  map snd (filter (fun p => stream_eqb s (fst p)) sched).

(* ------------------------------------------------------------------------------------------ *)
(* Many attempts: events tagged with (test, attempt); each key gets its own fresh accumulator *)

Definition key := (N * N)%type.
Definition key_eqb (a b : key) : bool := (fst a =? fst b) && (snd a =? snd b).

Definition gst := list (key * sst).

Fixpoint gget (k : key) (g : gst) : sst :=
  match g with
  | [] => sst0
  | (k', x) :: t => if key_eqb k k' then x else gget k t
  end.

Fixpoint gset (k : key) (x : sst) (g : gst) : gst :=
  match g with
  | [] => [(k, x)]
  | (k', y) :: t => if key_eqb k k' then (k', x) :: t else (k', y) :: gset k x t
  end.

Definition gstep (cap : N) (g : gst) (ke : key * ev) : gst :=
  gset (fst ke) (sstep cap (gget (fst ke) g) (snd ke)) g.

Definition grun (cap : N) (evs : list (key * ev)) : gst := fold_left (gstep cap) evs [].

Definition events_of (k : key) (evs : list (key * ev)) : list ev :=
  map snd (filter (fun ke => key_eqb k (fst ke)) evs).

(* ------------------------------------------------------------------------------------------ *)
(* Seeded byte streams for the correspondence check (same generator as e2e/puppet.py and the
   harness): xorshift64-star *)

Definition MASK64 : N := 18446744073709551615.

Definition xs_next (x : N) : N :=
  let x := N.lxor x (N.shiftr x 12) in
  let x := N.lxor x (N.land (N.shiftl x 25) MASK64) in
  N.lxor x (N.shiftr x 27).

Fixpoint le_bytes (k : nat) (v : N) : bytes :=
  match k with
  | O => []
  | S k' => N.land v 255 :: le_bytes k' (N.shiftr v 8)
  end.

Fixpoint prng_words (k : nat) (x : N) : bytes :=
  match k with
  | O => []
  | S k' => let x' := xs_next x in
            le_bytes 8 (N.land (x' * 2685821657736338717) MASK64) ++ prng_words k' x'
  end.

Definition prng_bytes (seed size : N) : bytes :=
  let x0 := N.land (seed * 2654435761 + 88172645463325252) MASK64 in
  let x0 := if x0 =? 0 then 1 else x0 in
  takeN size (prng_words (N.to_nat ((size + 7) / 8)) x0).

(* order-sensitive checksum of a byte string, cheap enough for 64 KiB inside Coq: (sum of the
   bytes, sum of the running sums); the harness computes the same *)
Definition wsum (l : bytes) : N * N :=
  fold_left (fun (acc : N * N) (b : N) => (fst acc + b, snd acc + fst acc + b)) l (0, 0).

(* observation used by the correspondence check: after every event
   (|stdout acc|, stdout done, |stderr acc|, stderr done) *)
Definition obs (x : sst) : N * bool * N * bool :=
  (lenN (captured SOut x), r_done (sd_rd (st_out x)), lenN (captured SErrS x), r_done (sd_rd (st_err x))).

Fixpoint strace (cap : N) (evs : list ev) (x : sst) : list (N * bool * N * bool) * sst :=
  match evs with
  | [] => ([], x)
  | e :: t => let x' := sstep cap x e in
              let '(tr, xf) := strace cap t x' in (obs x' :: tr, xf)
  end.

Definition cobs (x : cst) : N * bool := (lenN (r_acc (sd_rd (c_side x))), r_done (sd_rd (c_side x))).

Fixpoint ctrace (cap : N) (evs : list ev) (x : cst) : list (N * bool) * cst :=
  match evs with
  | [] => ([], x)
  | e :: t => let x' := cstep cap x e in
              let '(tr, xf) := ctrace cap t x' in (cobs x' :: tr, xf)
  end.
