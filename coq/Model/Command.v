(* The command nextest builds for one test attempt: argument vector, double-spawn launcher
   invocation, working directory, and the environment as the succession of assignments the code
   makes (later assignment wins; what is never assigned is inherited).

   Modelled code: TestInstance::make_command (list/test_list.rs), TestCommand::new,
   create_command, apply_package_env, apply_ld_dyld_env (test_command.rs),
   EnvironmentMap::{new, apply_env} (cargo_config/env.rs), DoubleSpawnOpts::exec
   (cargo-nextest/src/double_spawn.rs), the env assignments of run_test_inner /
   run_setup_script_inner (runner/executor.rs), SetupScriptCommand::new and
   SetupScriptExecuteData::apply (config/scripts.rs).
   Executable definitions only. *)
From Coq Require Strings.String Strings.Ascii.
From NextestModel Require Import Base.Str Model.ShellWords.
Open Scope N_scope.

(* ---- string constants (ASCII literals converted to code-point lists) *)
Module K.
  Import Coq.Strings.String Coq.Strings.Ascii.
  Local Open Scope string_scope.
  Fixpoint s (x : string) : str :=
    match x with
    | EmptyString => []
    | String a r => N_of_ascii a :: s r
    end.
  Definition exact := s "--exact".
  Definition nocapture := s "--nocapture".
  Definition ignored := s "--ignored".
  Definition double_spawn := s "__double-spawn".
  Definition dashdash := s "--".
  Definition one := s "1".
  Definition none := s "none".
  Definition process_per_test := s "process-per-test".
  Definition colon := s ":".
  Definition slash := s "/".
  Definition nextest_prefix := s "NEXTEST_".
  Definition bin_exe_prefix := s "NEXTEST_BIN_EXE_".
  Definition ld_prefix := s "LD_".
  Definition dyld_prefix := s "DYLD_".
  Definition NEXTEST := s "NEXTEST".
  Definition NEXTEST_EXECUTION_MODE := s "NEXTEST_EXECUTION_MODE".
  Definition NEXTEST_PROFILE := s "NEXTEST_PROFILE".
  Definition NEXTEST_ENV := s "NEXTEST_ENV".
  Definition NEXTEST_RUN_ID := s "NEXTEST_RUN_ID".
  Definition NEXTEST_ATTEMPT := s "__NEXTEST_ATTEMPT".
  Definition NEXTEST_TEST_GLOBAL_SLOT := s "NEXTEST_TEST_GLOBAL_SLOT".
  Definition NEXTEST_TEST_GROUP := s "NEXTEST_TEST_GROUP".
  Definition NEXTEST_TEST_GROUP_SLOT := s "NEXTEST_TEST_GROUP_SLOT".
  Definition CARGO_MANIFEST_DIR := s "CARGO_MANIFEST_DIR".
  Definition OUT_DIR := s "OUT_DIR".
  Definition CARGO_PKG_VERSION := s "CARGO_PKG_VERSION".
  Definition CARGO_PKG_VERSION_MAJOR := s "CARGO_PKG_VERSION_MAJOR".
  Definition CARGO_PKG_VERSION_MINOR := s "CARGO_PKG_VERSION_MINOR".
  Definition CARGO_PKG_VERSION_PATCH := s "CARGO_PKG_VERSION_PATCH".
  Definition CARGO_PKG_VERSION_PRE := s "CARGO_PKG_VERSION_PRE".
  Definition CARGO_PKG_AUTHORS := s "CARGO_PKG_AUTHORS".
  Definition CARGO_PKG_NAME := s "CARGO_PKG_NAME".
  Definition CARGO_PKG_DESCRIPTION := s "CARGO_PKG_DESCRIPTION".
  Definition CARGO_PKG_HOMEPAGE := s "CARGO_PKG_HOMEPAGE".
  Definition CARGO_PKG_LICENSE := s "CARGO_PKG_LICENSE".
  Definition CARGO_PKG_LICENSE_FILE := s "CARGO_PKG_LICENSE_FILE".
  Definition CARGO_PKG_REPOSITORY := s "CARGO_PKG_REPOSITORY".
  Definition CARGO_PKG_RUST_VERSION := s "CARGO_PKG_RUST_VERSION".
  Definition LD_LIBRARY_PATH := s "LD_LIBRARY_PATH".
  Definition DYLD_FALLBACK_LIBRARY_PATH := s "DYLD_FALLBACK_LIBRARY_PATH".
  Definition PATH := s "PATH".
End K.

(* ---- argument vector *)

(* the arguments every attempt passes to the test binary *)
Definition test_argv (name : str) (ignored : bool) (extra : list str) : list str :=
  [K.exact; name; K.nocapture] ++ (if ignored then [K.ignored] else []) ++ extra.

(* a target runner (cargo's target.<triple>.runner): binary and its own arguments *)
Record runner := { r_binary : str; r_args : list str }.

(* TestInstance::make_command: the program and arguments handed to TestCommand::new *)
Definition program_and_args (rn : option runner) (binary name : str) (ignored : bool)
           (extra : list str) : str * list str :=
  match rn with
  | Some r => (r_binary r, r_args r ++ [binary] ++ test_argv name ignored extra)
  | None => (binary, test_argv name ignored extra)
  end.

(* create_command: [ds] is DoubleSpawnInfo::current_exe *)
Definition create_command (ds : option str) (program : str) (args : list str) : str * list str :=
  match ds with
  | Some exe => (exe, [K.double_spawn; K.dashdash; program; join args])
  | None => (program, args)
  end.

(* cargo-nextest's hidden [__double-spawn] subcommand (DoubleSpawnOpts): two positionals after
   [--], the second one split with shell_words::split; a parse error is an error exit *)
Definition launcher_exec (argv : list str) : option (str * list str) :=
  match argv with
  | [sub; dd; program; a] =>
      if str_eqb sub K.double_spawn && str_eqb dd K.dashdash then
        match split a with Some ws => Some (program, ws) | None => None end
      else None
  | _ => None
  end.

(* program and argument vector of the process that finally runs the test *)
Definition final_exec (ds : option str) (program : str) (args : list str)
  : option (str * list str) :=
  match ds with
  | Some _ => launcher_exec (snd (create_command ds program args))
  | None => Some (create_command ds program args)
  end.

(* what a launcher that joined with plain spaces would exec; refutation examples only *)
Definition final_exec_naive (program : str) (args : list str) : option (str * list str) :=
  launcher_exec [K.double_spawn; K.dashdash; program; naive_join args].

(* ---- environment *)

(* a sequence of assignments, oldest first; the last assignment to a key wins *)
Definition env := list (str * str).

Fixpoint env_get (k : str) (e : env) : option str :=
  match e with
  | [] => None
  | (k', v) :: r =>
      match env_get k r with
      | Some v' => Some v'
      | None => if str_eqb k k' then Some v else None
      end
  end.

Definition env_mem (k : str) (e : env) : bool :=
  match env_get k e with Some _ => true | None => false end.

(* -- cargo [env] *)

(* one [env] entry of one config source, in precedence order (highest first) *)
Record cargo_entry := {
  ce_source : option str;      (* config file path; None for a --config KEY=VALUE option *)
  ce_name : str;
  ce_value : str;
  ce_force : option bool;
  ce_relative : option bool }.

(* CargoEnvironmentVariable *)
Record cargo_var := {
  cv_source : option str; cv_name : str; cv_value : str;
  cv_force : option bool; cv_relative : option bool }.

Definition var_of_entry (e : cargo_entry) : cargo_var :=
  {| cv_source := ce_source e; cv_name := ce_name e; cv_value := ce_value e;
     cv_force := ce_force e; cv_relative := ce_relative e |}.

(* Entry::Occupied: keep value and source, fill in force / relative if still unset *)
Definition merge_entry (e : cargo_entry) (v : cargo_var) : cargo_var :=
  {| cv_source := cv_source v; cv_name := cv_name v; cv_value := cv_value v;
     cv_force := match cv_force v with Some b => Some b | None => ce_force e end;
     cv_relative := match cv_relative v with Some b => Some b | None => ce_relative e end |}.

(* BTreeMap entry API on a name-sorted association list *)
Fixpoint env_map_insert (e : cargo_entry) (m : list cargo_var) : list cargo_var :=
  match m with
  | [] => [var_of_entry e]
  | v :: r =>
      match str_cmp (ce_name e) (cv_name v) with
      | Eq => merge_entry e v :: r
      | Lt => var_of_entry e :: m
      | Gt => v :: env_map_insert e r
      end
  end.

(* EnvironmentMap::new *)
Definition env_map_new (entries : list cargo_entry) : list cargo_var :=
  fold_left (fun m e => env_map_insert e m) entries [].

(* Path::parent on a normalised path (no trailing slash, no empty or "." components) *)
Fixpoint split_last_slash (p : str) : option (str * str) :=
  match p with
  | [] => None
  | c :: r =>
      match split_last_slash r with
      | Some (a, b) => Some (c :: a, b)
      | None => if c =? 47 then Some ([], r) else None
      end
  end.

Definition path_parent (p : str) : option str :=
  match split_last_slash p with
  | None => match p with [] => None | _ => Some [] end
  | Some ([], []) => None
  | Some ([], _) => Some K.slash
  | Some (a, _) => Some a
  end.

(* PathBuf::push / Utf8Path::join on Unix *)
Definition path_join (base v : str) : str :=
  match v with
  | 47 :: _ => v
  | _ => match rev base with
         | [] => v
         | 47 :: _ => base ++ v
         | _ => base ++ K.slash ++ v
         end
  end.

(* relative_dir_for: the parent of the directory the config file is in *)
Definition relative_dir_for (config_path : str) : option str :=
  match path_parent config_path with
  | Some d => path_parent d
  | None => None
  end.

Definition unwrap_or_false (o : option bool) : bool :=
  match o with Some b => b | None => false end.

(* the value apply_env assigns; None is the [unreachable!] panic (relative = true on a variable
   whose winning definition is a --config option) *)
Definition cargo_var_value (v : cargo_var) : option str :=
  if unwrap_or_false (cv_relative v) then
    match cv_source v with
    | None => None
    | Some src =>
        match relative_dir_for src with
        | Some d => Some (path_join d (cv_value v))
        | None => Some (cv_value v)
        end
    end
  else Some (cv_value v).

(* EnvironmentMap::apply_env: the assignments it makes (None = panic) *)
Fixpoint cargo_layer (inherited : env) (vars : list cargo_var) : option env :=
  match vars with
  | [] => Some []
  | v :: r =>
      if env_mem (cv_name v) inherited && negb (unwrap_or_false (cv_force v))
      then cargo_layer inherited r
      else match cargo_var_value v, cargo_layer inherited r with
           | Some x, Some l => Some ((cv_name v, x) :: l)
           | _, _ => None
           end
  end.

(* -- build script: OUT_DIR and the cargo:rustc-env pairs of its output file *)
Record build_script := { bs_out_dir : str (* relative to the target directory *);
                         bs_env : list (str * str) }.

Definition build_script_layer (target_dir : str) (bs : option build_script) : env :=
  match bs with
  | None => []
  | Some b => (K.OUT_DIR, path_join target_dir (bs_out_dir b)) :: bs_env b
  end.

(* -- package metadata (guppy PackageMetadata, as strings) *)
Record package := {
  p_version : str; p_major : str; p_minor : str; p_patch : str; p_pre : str;
  p_authors : list str; p_name : str;
  p_description : option str; p_homepage : option str; p_license : option str;
  p_license_file : option str; p_repository : option str; p_rust_version : option str }.

Definition unwrap_or_default (o : option str) : str :=
  match o with Some x => x | None => [] end.

(* [String]::join(sep) *)
Fixpoint join_with (sep : str) (l : list str) : str :=
  match l with
  | [] => []
  | x :: r => match r with [] => x | _ :: _ => x ++ sep ++ join_with sep r end
  end.

(* How the manifest's rust-version reaches nextest: cargo_metadata's deserialize_rust_version
   appends ".0" when the string contains exactly one dot and parses the result as a semver
   Version; guppy's minimum_rust_version().to_string() prints all three components.  So a
   two-component rust-version ("1.70") arrives as "1.70.0" (Cargo itself sets "1.70"). *)
Definition count_dots (v : str) : nat := length (filter (N.eqb 46) v).

Definition pad_rust_version (v : str) : str :=
  if Nat.eqb (count_dots v) 1 then v ++ [46; 48] else v.

(* apply_package_env; [p_rust_version] is the manifest's rust-version *)
Definition package_layer (p : package) : env :=
  [ (K.CARGO_PKG_VERSION, p_version p);
    (K.CARGO_PKG_VERSION_MAJOR, p_major p);
    (K.CARGO_PKG_VERSION_MINOR, p_minor p);
    (K.CARGO_PKG_VERSION_PATCH, p_patch p);
    (K.CARGO_PKG_VERSION_PRE, p_pre p);
    (K.CARGO_PKG_AUTHORS, join_with K.colon (p_authors p));
    (K.CARGO_PKG_NAME, p_name p);
    (K.CARGO_PKG_DESCRIPTION, unwrap_or_default (p_description p));
    (K.CARGO_PKG_HOMEPAGE, unwrap_or_default (p_homepage p));
    (K.CARGO_PKG_LICENSE, unwrap_or_default (p_license p));
    (K.CARGO_PKG_LICENSE_FILE, unwrap_or_default (p_license_file p));
    (K.CARGO_PKG_REPOSITORY, unwrap_or_default (p_repository p));
    (K.CARGO_PKG_RUST_VERSION,
       match p_rust_version p with Some v => pad_rust_version v | None => [] end) ].

(* -- apply_ld_dyld_env *)
Inductive platform := Linux | MacOS | Windows.

Definition dylib_path_envvar (o : platform) : str :=
  match o with Linux => K.LD_LIBRARY_PATH | MacOS => K.DYLD_FALLBACK_LIBRARY_PATH | Windows => K.PATH end.

Definition is_sip_sanitized (k : str) : bool := is_prefix K.ld_prefix k || is_prefix K.dyld_prefix k.

(* LD_DYLD_ENV_VARS re-exported under the NEXTEST_ prefix *)
Fixpoint ld_dyld_reexports (dylib_var : str) (inherited : env) : env :=
  match inherited with
  | [] => []
  | (k, v) :: r =>
      if is_sip_sanitized k && negb (str_eqb k dylib_var)
      then (K.nextest_prefix ++ k, v) :: ld_dyld_reexports dylib_var r
      else ld_dyld_reexports dylib_var r
  end.

Definition ld_dyld_layer (o : platform) (dylib_path : str) (inherited : env) : env :=
  let var := dylib_path_envvar o in
  [(var, dylib_path)] ++ ld_dyld_reexports var inherited ++
  (if is_sip_sanitized var then [(K.nextest_prefix ++ var, dylib_path)] else []).

(* -- NEXTEST_BIN_EXE_<name> *)
Definition bin_exe_layer (bins : list (str * str)) : env :=
  map (fun b : str * str => (K.bin_exe_prefix ++ fst b, snd b)) bins.

(* -- what is fixed per run, per test binary, per attempt *)
Record run_cfg := {
  rc_profile : str;
  rc_run_id : str;
  rc_platform : platform;
  rc_dylib_path : str;          (* TestList::updated_dylib_path *)
  rc_target_dir : str;
  rc_cargo_env : list cargo_var (* EnvironmentMap *) }.

Record suite_cfg := {
  sc_cwd : str;
  sc_package : package;
  sc_build_script : option build_script;
  sc_non_test_binaries : list (str * str) }.

Record attempt_cfg := {
  ac_attempt : str;
  ac_global_slot : str;
  ac_group : str;                 (* group name, or "@global" *)
  ac_group_slot : option str;
  ac_setup_env : env              (* SetupScriptExecuteData::apply, in application order *) }.

(* the assignments TestCommand::new makes after the cargo [env] and build-script layers:
   constant keys first ... *)
Definition nextest_static_layer (r : run_cfg) (s : suite_cfg) : env :=
  [ (K.NEXTEST, K.one);
    (K.NEXTEST_EXECUTION_MODE, K.process_per_test);
    (K.NEXTEST_PROFILE, rc_profile r);
    (K.CARGO_MANIFEST_DIR, sc_cwd s) ] ++ package_layer (sc_package s).

(* ... then keys derived from the inherited environment and from binary names *)
Definition nextest_dynamic_layer (r : run_cfg) (s : suite_cfg) (inherited : env) : env :=
  ld_dyld_layer (rc_platform r) (rc_dylib_path r) inherited ++
  bin_exe_layer (sc_non_test_binaries s).

(* run_test_inner, before the setup-script variables *)
Definition executor_layer (r : run_cfg) (a : attempt_cfg) : env :=
  [ (K.NEXTEST_ATTEMPT, ac_attempt a);
    (K.NEXTEST_RUN_ID, rc_run_id r);
    (K.NEXTEST_TEST_GLOBAL_SLOT, ac_global_slot a);
    (K.NEXTEST_TEST_GROUP, ac_group a);
    (K.NEXTEST_TEST_GROUP_SLOT, match ac_group_slot a with Some g => g | None => K.none end) ].

(* every variable nextest itself assigns with a fixed key, with nextest's value *)
Definition nextest_fixed (r : run_cfg) (s : suite_cfg) (a : attempt_cfg) : env :=
  nextest_static_layer r s ++ executor_layer r a.

(* known finding F15a: the class of packages on which CARGO_PKG_RUST_VERSION differs from the
   manifest's (and Cargo's) value *)
Definition rust_version_two_components (p : package) : bool :=
  match p_rust_version p with Some v => Nat.eqb (count_dots v) 1 | None => false end.

(* all assignments made on the Command by TestInstance::make_command (what hook H5 observes) *)
Definition make_command_assignments (r : run_cfg) (s : suite_cfg) (inherited : env)
  : option env :=
  match cargo_layer inherited (rc_cargo_env r) with
  | None => None
  | Some c =>
      Some (c ++ build_script_layer (rc_target_dir r) (sc_build_script s)
              ++ nextest_static_layer r s ++ nextest_dynamic_layer r s inherited)
  end.

(* ... and by the executor on top of it, up to spawn *)
Definition test_assignments (r : run_cfg) (s : suite_cfg) (a : attempt_cfg) (inherited : env)
  : option env :=
  match make_command_assignments r s inherited with
  | None => None
  | Some m => Some (m ++ executor_layer r a ++ ac_setup_env a)
  end.

(* the environment the child sees: assigned variables, else inherited ones *)
Definition child_env_get (k : str) (assignments inherited : env) : option str :=
  match env_get k assignments with
  | Some v => Some v
  | None => env_get k inherited
  end.

(* SetupScriptCommand::new + run_setup_script_inner *)
Definition script_assignments (r : run_cfg) (env_path : str) (inherited : env) : option env :=
  match cargo_layer inherited (rc_cargo_env r) with
  | None => None
  | Some c =>
      Some (c ++ [ (K.NEXTEST, K.one); (K.NEXTEST_PROFILE, rc_profile r); (K.NEXTEST_ENV, env_path) ]
              ++ ld_dyld_layer (rc_platform r) (rc_dylib_path r) inherited
              ++ [ (K.NEXTEST_RUN_ID, rc_run_id r) ])
  end.

(* ---- the whole command, as hook H5 reports it *)
Record command := {
  cmd_program : str;
  cmd_args : list str;
  cmd_cwd : str;
  cmd_env : env }.

Definition make_command (r : run_cfg) (s : suite_cfg) (ds : option str) (rn : option runner)
           (binary name : str) (ignored : bool) (extra : list str) (inherited : env)
  : option command :=
  let '(program, args) := program_and_args rn binary name ignored extra in
  let '(p, a) := create_command ds program args in
  match make_command_assignments r s inherited with
  | None => None
  | Some e => Some {| cmd_program := p; cmd_args := a; cmd_cwd := sc_cwd s; cmd_env := e |}
  end.

(* observation helpers for the correspondence check: the final value of each key assigned *)
Fixpoint env_keys (e : env) : list str :=
  match e with
  | [] => []
  | (k, _) :: r => let ks := env_keys r in if mem_str k ks then ks else k :: ks
  end.

Definition env_final (e : env) : list (str * str) :=
  map (fun k => (k, match env_get k e with Some v => v | None => [] end)) (env_keys e).
