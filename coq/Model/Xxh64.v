(* XXH64 (xxhash-rust 0.8 `xxh64::xxh64`), written with explicit wrap-around mod 2^64.
   Executable definitions only; tied to the real crate by corr:xxh64. *)
From NextestModel Require Import Base.Str.
Open Scope N_scope.

Definition M64 : N := 18446744073709551616. (* 2^64 *)
Definition w64 (x : N) : N := x mod M64.

Definition P1 : N := 11400714785074694791.
Definition P2 : N := 14029467366897019727.
Definition P3 : N := 1609587929392839161.
Definition P4 : N := 9650029242287828579.
Definition P5 : N := 2870177450012600261.

Definition add64 (a b : N) : N := w64 (a + b).
Definition mul64 (a b : N) : N := w64 (a * b).
Definition sub64 (a b : N) : N := w64 (a + M64 - w64 b).
Definition rotl64 (x r : N) : N :=
  w64 (N.shiftl x r) + N.shiftr x (64 - r).

(* little-endian read of the first k bytes of l (missing bytes read as 0; callers check length) *)
Fixpoint read_le (k : nat) (l : list N) : N :=
  match k with
  | O => 0
  | S k' => match l with
            | [] => 0
            | b :: l' => b + 256 * read_le k' l'
            end
  end.

Definition round64 (acc input : N) : N :=
  mul64 (rotl64 (add64 acc (mul64 input P2)) 31) P1.

Definition merge_round (acc val : N) : N :=
  add64 (mul64 (N.lxor acc (round64 0 val)) P1) P4.

Record lanes := { v1 : N; v2 : N; v3 : N; v4 : N }.

(* consume 32-byte stripes while at least 32 bytes remain; fuel >= length l / 32 + 1 *)
Fixpoint stripes (fuel : nat) (l : list N) (v : lanes) : lanes * list N :=
  match fuel with
  | O => (v, l)
  | S f =>
      if (32 <=? N.of_nat (length l)) then
        let a := round64 (v1 v) (read_le 8 l) in
        let b := round64 (v2 v) (read_le 8 (skipn 8 l)) in
        let c := round64 (v3 v) (read_le 8 (skipn 16 l)) in
        let d := round64 (v4 v) (read_le 8 (skipn 24 l)) in
        stripes f (skipn 32 l) {| v1 := a; v2 := b; v3 := c; v4 := d |}
      else (v, l)
  end.

Fixpoint tail8 (fuel : nat) (l : list N) (h : N) : N * list N :=
  match fuel with
  | O => (h, l)
  | S f =>
      if (8 <=? N.of_nat (length l)) then
        let k1 := round64 0 (read_le 8 l) in
        let h' := add64 (mul64 (rotl64 (N.lxor h k1) 27) P1) P4 in
        tail8 f (skipn 8 l) h'
      else (h, l)
  end.

Definition tail4 (l : list N) (h : N) : N * list N :=
  if (4 <=? N.of_nat (length l)) then
    (add64 (mul64 (rotl64 (N.lxor h (mul64 (read_le 4 l) P1)) 23) P2) P3, skipn 4 l)
  else (h, l).

Fixpoint tail1 (l : list N) (h : N) : N :=
  match l with
  | [] => h
  | b :: l' => tail1 l' (mul64 (rotl64 (N.lxor h (mul64 b P5)) 11) P1)
  end.

Definition avalanche (h : N) : N :=
  let h := N.lxor h (N.shiftr h 33) in
  let h := mul64 h P2 in
  let h := N.lxor h (N.shiftr h 29) in
  let h := mul64 h P3 in
  N.lxor h (N.shiftr h 32).

Definition xxh64 (input : list N) (seed : N) : N :=
  let len := N.of_nat (length input) in
  let '(h, rest) :=
    if 32 <=? len then
      let v0 := {| v1 := add64 (add64 seed P1) P2; v2 := add64 seed P2;
                   v3 := w64 seed; v4 := sub64 seed P1 |} in
      let '(v, rest) := stripes (length input) input v0 in
      let h := add64 (add64 (rotl64 (v1 v) 1) (rotl64 (v2 v) 7))
                     (add64 (rotl64 (v3 v) 12) (rotl64 (v4 v) 18)) in
      let h := merge_round h (v1 v) in
      let h := merge_round h (v2 v) in
      let h := merge_round h (v3 v) in
      let h := merge_round h (v4 v) in
      (h, rest)
    else (add64 seed P5, input) in
  let h := add64 h len in
  let '(h, rest) := tail8 (length rest) rest h in
  let '(h, rest) := tail4 rest h in
  avalanche (tail1 rest h).
