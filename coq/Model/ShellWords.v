(* shell-words 1.1.0 (src/lib.rs) re-modelled: [escape_style], [quote], [join] and the 8-state
   [split] state machine, over strings = lists of Unicode scalar values (the crate iterates over
   [chars()], so a "character" is a scalar value, not a byte).
   Executable definitions only; lemmas are in Proofs/ShellWords.v. *)
From NextestModel Require Import Base.Str.
Open Scope N_scope.

(* the characters the crate mentions, by code point *)
Definition c_tab : N := 9.
Definition c_nl : N := 10.
Definition c_space : N := 32.
Definition c_dq : N := 34.      (* double quote *)
Definition c_hash : N := 35.    (* # *)
Definition c_dollar : N := 36.  (* $ *)
Definition c_sq : N := 39.      (* single quote *)
Definition c_bs : N := 92.      (* \ *)
Definition c_btick : N := 96.   (* ` *)

Inductive sw_state :=
| Delimiter | Backslash | Unquoted | UnquotedBackslash
| SingleQuoted | DoubleQuoted | DoubleQuotedBackslash | Comment.

(* One iteration of the [loop] in [split] for [c = Some ch]: new state, the word under
   construction, the finished words.  [word.push(c)] is [word ++ [c]];
   [words.push(mem::replace(&mut word, String::new()))] is [(…, [], acc ++ [word])]. *)
Definition sw_step (st : sw_state) (word : str) (acc : list str) (c : N)
  : sw_state * str * list str :=
  match st with
  | Delimiter =>
      if c =? c_sq then (SingleQuoted, word, acc)
      else if c =? c_dq then (DoubleQuoted, word, acc)
      else if c =? c_bs then (Backslash, word, acc)
      else if (c =? c_tab) || (c =? c_space) || (c =? c_nl) then (Delimiter, word, acc)
      else if c =? c_hash then (Comment, word, acc)
      else (Unquoted, word ++ [c], acc)
  | Backslash =>
      if c =? c_nl then (Delimiter, word, acc)
      else (Unquoted, word ++ [c], acc)
  | Unquoted =>
      if c =? c_sq then (SingleQuoted, word, acc)
      else if c =? c_dq then (DoubleQuoted, word, acc)
      else if c =? c_bs then (UnquotedBackslash, word, acc)
      else if (c =? c_tab) || (c =? c_space) || (c =? c_nl) then (Delimiter, [], acc ++ [word])
      else (Unquoted, word ++ [c], acc)
  | UnquotedBackslash =>
      if c =? c_nl then (Unquoted, word, acc)
      else (Unquoted, word ++ [c], acc)
  | SingleQuoted =>
      if c =? c_sq then (Unquoted, word, acc)
      else (SingleQuoted, word ++ [c], acc)
  | DoubleQuoted =>
      if c =? c_dq then (Unquoted, word, acc)
      else if c =? c_bs then (DoubleQuotedBackslash, word, acc)
      else (DoubleQuoted, word ++ [c], acc)
  | DoubleQuotedBackslash =>
      if c =? c_nl then (DoubleQuoted, word, acc)
      else if (c =? c_dollar) || (c =? c_btick) || (c =? c_dq) || (c =? c_bs)
           then (DoubleQuoted, word ++ [c], acc)
      else (DoubleQuoted, word ++ [c_bs; c], acc)
  | Comment =>
      if c =? c_nl then (Delimiter, word, acc)
      else (Comment, word, acc)
  end.

(* The iteration for [c = None] (end of input): [break] with the words, or [Err(ParseError)]. *)
Definition sw_end (st : sw_state) (word : str) (acc : list str) : option (list str) :=
  match st with
  | Delimiter | Comment => Some acc
  | Backslash | UnquotedBackslash => Some (acc ++ [word ++ [c_bs]])
  | Unquoted => Some (acc ++ [word])
  | SingleQuoted | DoubleQuoted | DoubleQuotedBackslash => None
  end.

Fixpoint split_from (st : sw_state) (word : str) (acc : list str) (s : str)
  : option (list str) :=
  match s with
  | [] => sw_end st word acc
  | c :: r => let '(st', word', acc') := sw_step st word acc c in split_from st' word' acc' r
  end.

(* [shell_words::split]; [None] is [Err(ParseError)] ("missing closing quote") *)
Definition split (s : str) : option (list str) := split_from Delimiter [] [] s.

(* ---- quoting *)

Inductive escape_style := EsNone | EsSingleQuoted | EsMixed.

(* the third match arm of [escape_style]: | & ; < > ( ) $ ` \ double-quote space tab * ? [ # U+02DC = %
   (the crate's tilde is U+02DC SMALL TILDE, not '~') *)
Definition is_special_other (c : N) : bool :=
  existsb (N.eqb c) [124; 38; 59; 60; 62; 40; 41; 36; 96; 92; 34; 32; 9; 42; 63; 91; 35; 732; 61; 37].

Definition is_special (c : N) : bool := (c =? c_nl) || (c =? c_sq) || is_special_other c.

Definition escape_style_of (s : str) : escape_style :=
  match s with
  | [] => EsSingleQuoted
  | _ =>
      let special := existsb is_special s in
      let newline := existsb (N.eqb c_nl) s in
      let single_quote := existsb (N.eqb c_sq) s in
      if negb special then EsNone
      else if newline && negb single_quote then EsSingleQuoted
      else EsMixed
  end.

(* the body of the [Mixed] arm: every ' becomes '\'' *)
Definition mixed_body (s : str) : str :=
  flat_map (fun c => if c =? c_sq then [c_sq; c_bs; c_sq; c_sq] else [c]) s.

Definition quote (s : str) : str :=
  match escape_style_of s with
  | EsNone => s
  | EsSingleQuoted => [c_sq] ++ s ++ [c_sq]
  | EsMixed => [c_sq] ++ mixed_body s ++ [c_sq]
  end.

(* [join]: fold pushing [quote w] and a space, then [line.pop()] *)
Definition join (ws : list str) : str :=
  removelast (fold_left (fun line w => line ++ quote w ++ [c_space]) ws []).

(* the join nextest would get from a naive implementation; only used by refutation examples *)
Definition naive_join (ws : list str) : str :=
  removelast (fold_left (fun line w => line ++ w ++ [c_space]) ws []).
