(* The output of a failed test as the libtest-json report stores it (C16: "what the test wrote is what is reported"),
   on byte strings. For the standard harness -- the output contains the header line "running 1 test" -- libtest frames what
   the test wrote: the header, then the test's own lines, then the status line
       test <name> ... FAILED
   with EXACTLY this test's name, then libtest's failure summary. The stored text is the lines after the header up to
   (not including) that status line; a line that merely resembles it -- another test's name, this name followed by
   anything (libtest writes `test <name> - should panic ... FAILED` for a should-panic test), this name as a prefix of a
   longer one -- is a line the test (or libtest) wrote inside the frame and is stored. For any other harness the whole
   output is stored. Executable definitions only. *)
From NextestModel Require Import Base.Str.
Open Scope N_scope.

Definition TEST_PREFIX : str := [116; 101; 115; 116; 32].                                 (* "test " *)
Definition FAILED_SUFFIX : str := [32; 46; 46; 46; 32; 70; 65; 73; 76; 69; 68].          (* " ... FAILED" *)
Definition HEADER : str := [114; 117; 110; 110; 105; 110; 103; 32; 49; 32; 116; 101; 115; 116].   (* "running 1 test" *)

(* the status line that closes the frame of the test [name] *)
Definition closing_text (name : str) : str := TEST_PREFIX ++ name ++ FAILED_SUFFIX.
Definition closing_line (name line : str) : bool := str_eqb line (closing_text name).

(* the lines after the first header line *)
Fixpoint after_header (lines : list str) : list str :=
  match lines with
  | [] => []
  | l :: r => if str_eqb l HEADER then r else after_header r
  end.

(* the lines before the first closing line *)
Fixpoint until_closing (name : str) (lines : list str) : list str :=
  match lines with
  | [] => []
  | l :: r => if closing_line name l then [] else l :: until_closing name r
  end.

Definition report_lines (name : str) (lines : list str) : list str := until_closing name (after_header lines).

(* what is stored: pieces of text, in order ([has_header]: the output contains the header followed by a newline;
   [lines]: its lines; [whole]: all of it) *)
Definition stored (name : str) (has_header : bool) (lines : list str) (whole : str) : list str :=
  if has_header then report_lines name lines else [whole].
