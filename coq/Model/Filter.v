(* The stage pipeline of TestFilter::filter_match (nextest-runner/src/test_filter.rs).
   Executable definitions only. *)
From NextestModel Require Import Base.Str Model.Xxh64.
Open Scope N_scope.

Inductive mismatch := MIgnored | MString | MExpression | MPartition | MDefaultFilter.
Inductive fmatch := Matches | Mismatch (r : mismatch).
Inductive run_ignored := RIDefault | RIOnly | RIAll.
Inductive name_match := MatchEmpty | MatchWith | NMis (r : mismatch).

Definition mismatch_code (r : mismatch) : N :=
  match r with MIgnored => 1 | MString => 2 | MExpression => 3 | MPartition => 4
             | MDefaultFilter => 5 end.
Definition fmatch_code (f : fmatch) : N :=
  match f with Matches => 0 | Mismatch r => mismatch_code r end.

(* filter_ignored_mismatch *)
Definition filter_ignored (ri : run_ignored) (ignored : bool) : option mismatch :=
  match ri with
  | RIOnly => if ignored then None else Some MIgnored
  | RIDefault => if ignored then Some MIgnored else None
  | RIAll => None
  end.

(* the (name, expression) match of filter_match: name reason first *)
Definition combine_name_expr (nm em : name_match) : option mismatch :=
  match nm, em with
  | NMis r, _ => Some r
  | _, NMis r => Some r
  | _, _ => None
  end.

(* partitioners (nextest-runner/src/partition.rs) *)
Inductive pkind := PCount | PHash.
Record pbuilder := { pb_kind : pkind; pb_shard : N; pb_total : N }.

(* test_matches: result and next counter state *)
Definition part_match (pb : pbuilder) (cur : N) (name : str) : bool * N :=
  match pb_kind pb with
  | PCount => (cur =? pb_shard pb - 1, (cur + 1) mod pb_total pb)
  | PHash => (xxh64 (utf8 name) 0 mod pb_total pb =? pb_shard pb - 1, cur)
  end.

(* filter_match, with the first three stages ("all other filters") given as [pre] *)
Definition filter_match (pre : option mismatch) (pb : option pbuilder) (cur : N) (name : str)
  : fmatch * N :=
  match pre with
  | Some r => (Mismatch r, cur)
  | None =>
      match pb with
      | None => (Matches, cur)
      | Some b => let '(ok, cur') := part_match b cur name in
                  (if ok then Matches else Mismatch MPartition, cur')
      end
  end.
