(* The unit-life machine of Model/UnitLife.v seen from the dispatcher: the projection of a run of
   [lstep] (run_test_instance in full detail: handshakes, the one-attempt timer machine, backoff,
   retry delay) to the InternalEvents of one test that handle_event receives, each with the answer
   to its handshake -- the alphabet of the executor PROTOCOL of Model/Unit.v ([ustep] / [urun]).
   Proofs/LifeProtocol.v proves that every projection is a protocol trace (and which protocol
   traces are projections), Proofs/LifeSystem.v lifts this to N units + the setup-script gate, so
   that [wf_history], the hypothesis of C01 / C02 / C10, is derived from the unit model for its
   per-test part.

   What is projected, read from executor.rs (run_test_instance):
   * ExecutorEvent::Started is sent before anything else and answered by the dispatcher while it
     handles it (req_rx_tx.send / drop): the life machine waits in [LAwaitStart]; the event
     [LAnswer acc] IS that handling, so it projects to (Started t, HAccepted | HRefused).
     Likewise [LAnswer acc] in [LAwaitRetry] is the handling of RetryStarted (l_k + 1).  (The
     output [LRetryStarted k] marks the send; the dispatcher sees the event when it answers.)
   * [LO (OSlow wt)] in attempt k is ExecutorEvent::Slow with retry_data (k, total).
   * [LAttemptFailedWillRetry k d] / [LFinished k] carry the ExecuteStatus of attempt k, which
     the life machine has just pushed on [l_done].
   * everything else a unit puts out (signals to the child, Stop acknowledgements, info responses)
     does not go through handle_event's InternalEvent::Executor arm: not in the protocol alphabet.
   The unit sends on one unbounded channel (resp_tx), so the dispatcher receives one unit's events
   in the order in which they are sent; events of different units interleave arbitrarily.

   The life machine's [ures] forgets what kind of failure an attempt was (abort signal, leaked
   handles, failure to spawn): all are UFail and take the same path through run_test_instance.
   The projection is therefore parameterised by [fd]: which concrete non-success, non-timeout
   ExecutionResult attempt k had.
   Executable definitions only. *)
From NextestModel Require Import Base.Str Model.Backoff Model.Clocks Model.UnitTimers Model.AbsTimers
  Model.UnitLife.
From NextestModel Require Import Model.Result Model.Dispatcher Model.Unit.
Open Scope N_scope.

(* ---------------------------------------------------------------- results *)
Inductive fdetail := FdFail (sig : option N) (leaked : bool) | FdExec.

Definition result_of (fd : N -> fdetail) (k : N) (r : ures) : result :=
  match r with
  | UPass => Pass
  | ULeak => Leak
  | UTimeout => Timeout
  | UFail => match fd k with FdFail sg l => Fail sg l | FdExec => ExecFail end
  end.

(* the abstraction the life machine makes of an ExecutionResult *)
Definition ures_of (r : result) : ures :=
  match r with
  | Pass => UPass | Leak => ULeak | Timeout => UTimeout
  | Fail _ _ | ExecFail => UFail
  end.

Definition fdetail_of (r : result) : fdetail :=
  match r with Fail sg l => FdFail sg l | ExecFail => FdExec | _ => FdFail None false end.

(* ExecuteStatus of a finished attempt as the dispatcher's model sees it *)
Definition attempt_of (fd : N -> fdetail) (c : lcfg) (r : arec) : attempt :=
  mk_attempt (result_of fd (ar_no r) (ar_result r)) (ar_slow r) (ar_no r) (lc_total c).

Definition hs_of (accepted : bool) : handshake := if accepted then HAccepted else HRefused.

(* ---------------------------------------------------------------- one step *)
(* one output of a step taken in attempt / delay [k] after which the finished attempts are [done] *)
Definition project_out (fd : N -> fdetail) (t : tid) (c : lcfg) (k : N) (done : list arec) (o : lout)
  : list devent :=
  match o with
  | LO (OSlow wt) => [Slow t k (lc_total c) wt]
  | LO _ => []
  | LAttemptFailedWillRetry _ _ =>
      match done with r :: _ => [AttemptFailedWillRetry t (attempt_of fd c r)] | [] => [] end
  | LRetryStarted _ => []      (* the send; the dispatcher's handling is the LAnswer that follows *)
  | LFinished _ =>
      match done with r :: _ => [Finished t (attempt_of fd c r)] | [] => [] end
  end.

(* what the dispatcher receives because of the step  s --e--> (s', outs) *)
Definition project_step (fd : N -> fdetail) (t : tid) (c : lcfg)
           (s : lstate) (e : levent) (s' : lstate) (outs : list lout) : list (devent * handshake) :=
  match l_ph s, e with
  | LAwaitStart, LAnswer acc => [(Started t, hs_of acc)]
  | LAwaitRetry, LAnswer acc => [(RetryStarted t (l_k s + 1) (lc_total c), hs_of acc)]
  | _, _ => map (fun d => (d, HNone)) (flat_map (project_out fd t c (l_k s) (l_done s')) outs)
  end.

(* ---------------------------------------------------------------- a run *)
Fixpoint project_from (tbl : ptable) (fd : N -> fdetail) (t : tid) (c : lcfg) (s : lstate)
         (es : list levent) : list (devent * handshake) :=
  match es with
  | [] => []
  | e :: r =>
      match lstep tbl c s e with
      | Ok (s', outs) => project_step fd t c s e s' outs ++ project_from tbl fd t c s' r
      | Clocks.Panicked => []
      end
  end.

Definition project_life (tbl : ptable) (fd : N -> fdetail) (t : tid) (c : lcfg) (es : list levent)
  : list (devent * handshake) :=
  project_from tbl fd t c (linit c) es.

(* the unit after a run (None: internal failure) *)
Fixpoint life_after (tbl : ptable) (c : lcfg) (s : lstate) (es : list levent) : option lstate :=
  match es with
  | [] => Some s
  | e :: r =>
      match lstep tbl c s e with
      | Ok (s', _) => life_after tbl c s' r
      | Clocks.Panicked => None
      end
  end.

(* ---------------------------------------------------------------- correspondence of states *)
(* the protocol configuration of a single unit *)
Definition cfg_of_lcfg (t : tid) (c : lcfg) : cfg := mk_cfg [t] [] (fun _ => lc_total c) 0.

(* where the protocol automaton is when the life machine is in [s] *)
Definition phase_of_lstate (s : lstate) : phase :=
  match l_ph s with
  | LAwaitStart => PIdle
  | LAttempt _ => PRunning (l_k s)
  | LDelay _ | LAwaitRetry => PDelay (l_k s)
  | LFinishedP => PFinished
  | LRefusedP => if l_k s =? 0 then PRefusedStart else PRefusedRetry (l_k s)
  end.

(* the protocol automaton as a fold (urun says only whether it gets through) *)
Fixpoint ufold (c : cfg) (t : tid) (p : phase) (h : list (devent * handshake)) : option phase :=
  match h with
  | [] => Some p
  | (e, hs) :: r =>
      match event_test e with
      | Some t' =>
          if t' =? t then
            match ustep c t p e hs with Some p' => ufold c t p' r | None => None end
          else ufold c t p r
      | None => ufold c t p r
      end
  end.

(* the attempts a trace reports, in order *)
Fixpoint trace_attempts (h : list (devent * handshake)) : list attempt :=
  match h with
  | [] => []
  | (AttemptFailedWillRetry _ a, _) :: r | (Finished _ a, _) :: r => a :: trace_attempts r
  | _ :: r => trace_attempts r
  end.

(* the attempts in the monitor's log of Model/UnitLife.v, oldest first *)
Fixpoint log_attempts (fd : N -> fdetail) (c : lcfg) (l : list lrec) : list attempt :=
  match l with
  | [] => []
  | RAttempt k res sl _ _ :: r => log_attempts fd c r ++ [mk_attempt (result_of fd k res) sl k (lc_total c)]
  | RDelay _ _ _ _ _ :: r => log_attempts fd c r
  end.

(* ---------------------------------------------------------------- the converse: which protocol
   traces the life machine produces.  A protocol trace of test t is SIMPLE when it has no Slow
   event, no attempt is marked slow or timed out, and only handshake events carry an answer.
   (The protocol automaton allows any number of Slow events with any will_terminate flag, any
   is_slow flag and a Timeout result in any combination; the life machine ties them together
   through the slow-timeout configuration: is_slow iff a period has elapsed, Timeout iff
   terminate-after periods have elapsed, a Slow event per period unless the grace period is 0.) *)
Definition simple_event (t : tid) (x : devent * handshake) : bool :=
  match x with
  | (Started t', HAccepted) | (Started t', HRefused) => t' =? t
  | (RetryStarted t' _ _, HAccepted) | (RetryStarted t' _ _, HRefused) => t' =? t
  | (AttemptFailedWillRetry t' a, HNone) | (Finished t' a, HNone) =>
      (t' =? t) && negb (a_slow a) && match a_res a with Timeout => false | _ => true end
  | _ => false
  end.

(* the failure kinds a trace reports, by attempt number (first report wins; a protocol trace
   reports every attempt once) *)
Fixpoint fd_of_trace (h : list (devent * handshake)) (k : N) : fdetail :=
  match h with
  | [] => FdFail None false
  | (AttemptFailedWillRetry _ a, _) :: r | (Finished _ a, _) :: r =>
      if a_no a =? k then fdetail_of (a_res a) else fd_of_trace r k
  | _ :: r => fd_of_trace r k
  end.

(* the events that make one attempt end at once with result [r]: the child exits, both pipes are
   closed (pass / fail), or stay open until the leak timeout (leak) *)
Definition attempt_events (u : ucfg) (r : result) : list levent :=
  match r with
  | Leak => [LU (ChildExit true); LU (Tick (leak_timeout u)); LU FireLeak]
  | Pass => [LU (ChildExit true); LU FdsDone]
  | _ => [LU (ChildExit false); LU FdsDone]
  end.

(* ---------------------------------------------------------------- N units + the setup-script gate *)
Record lsystem := {
  ls_sel : list tid;                 (* the selected tests: one unit-life machine each *)
  ls_unsel : list tid;               (* listed, not selected: reported Skipped *)
  ls_cfg : tid -> lcfg;              (* slow-timeout / retry policy / jitter draws of each test *)
  ls_fd : tid -> N -> fdetail;       (* which failure each failed attempt was *)
  ls_scripts : N }.                  (* number of setup scripts *)

Definition cfg_of_lsystem (S : lsystem) : cfg :=
  mk_cfg (ls_sel S) (ls_unsel S) (fun t => lc_total (ls_cfg S t)) (ls_scripts S).

(* a label of the product: unit t takes the step e (time passes for it, its child exits, it is
   delivered a request, the dispatcher answers its handshake), or the dispatcher receives an event
   that does not come from a test unit (setup scripts, Skipped, signals, input, report errors) *)
Inductive ylabel := YUnit (t : tid) (e : levent) | YOther (e : devent).

Record ystate := {
  ys_d : dst;                        (* the dispatcher *)
  ys_g : sid * bool;                 (* the setup-script sequence ([gstep]) *)
  ys_u : tid -> lsys;                (* every unit with its environment tracker and monitor *)
  ys_skip : list tid }.              (* tests already reported Skipped *)

Definition ystate0 (S : lsystem) (mf : option N) (dbg : bool) : ystate :=
  {| ys_d := Live (init_for (cfg_of_lsystem S) mf dbg); ys_g := (0, false);
     ys_u := fun t => lsys0 (ls_cfg S t); ys_skip := [] |}.

Definition hs_eqb (a b : handshake) : bool :=
  match a, b with HNone, HNone | HAccepted, HAccepted | HRefused, HRefused => true | _, _ => false end.

(* the dispatcher handles the events one unit step has produced, in order; every handshake answer
   projected from the unit's step must be the answer handle_event gives, and a Started must pass
   the gate (no test before the scripts are done) *)
Fixpoint feed (c : cfg) (d : dst) (g : sid * bool) (evs : list (devent * handshake))
  : option (dst * (sid * bool)) :=
  match evs with
  | [] => Some (d, g)
  | (e, hs) :: r =>
      let '(d', _, rsp) := dstep d e in
      if hs_eqb (r_hs rsp) hs then
        match gstep c g e hs with
        | Some g' => feed c d' g' r
        | None => None
        end
      else None
  end.

Definition other_ok (S : lsystem) (skipped : list tid) (e : devent) : bool :=
  match e with
  | Skipped t => memb t (ls_unsel S) && negb (memb t skipped)
  | _ => match event_test e with Some _ => false | None => true end
  end.

Definition ystep (unicast : bool) (tbl : ptable) (S : lsystem) (y : ystate) (l : ylabel)
  : option (ystate * list (devent * handshake)) :=
  match l with
  | YUnit t e =>
      if memb t (ls_sel S) then
        let c := ls_cfg S t in
        let u := ys_u y t in
        match lsys_step unicast tbl c u e, lstep tbl c (y_s u) e with
        | LOk u', Ok (s', outs) =>
            let evs := project_step (ls_fd S t) t c (y_s u) e s' outs in
            match feed (cfg_of_lsystem S) (ys_d y) (ys_g y) evs with
            | Some (d', g') =>
                Some ({| ys_d := d'; ys_g := g';
                         ys_u := fun x => if x =? t then u' else ys_u y x;
                         ys_skip := ys_skip y |}, evs)
            | None => None
            end
        | _, _ => None
        end
      else None
  | YOther e =>
      if other_ok S (ys_skip y) e then
        let '(d', _, rsp) := dstep (ys_d y) e in
        match gstep (cfg_of_lsystem S) (ys_g y) e (r_hs rsp) with
        | Some g' =>
            Some ({| ys_d := d'; ys_g := g'; ys_u := ys_u y;
                     ys_skip := match e with Skipped t => t :: ys_skip y | _ => ys_skip y end |},
                  [(e, r_hs rsp)])
        | None => None
        end
      else None
  end.

(* a run of the product and the annotated history the dispatcher has seen *)
Fixpoint yrun (unicast : bool) (tbl : ptable) (S : lsystem) (y : ystate) (ls : list ylabel)
  : option (ystate * list (devent * handshake)) :=
  match ls with
  | [] => Some (y, [])
  | l :: r =>
      match ystep unicast tbl S y l with
      | Some (y', evs) =>
          match yrun unicast tbl S y' r with
          | Some (y'', evs') => Some (y'', evs ++ evs')
          | None => None
          end
      | None => None
      end
  end.

(* the steps of unit t in a run of the product *)
Fixpoint unit_events (t : tid) (ls : list ylabel) : list levent :=
  match ls with
  | [] => []
  | YUnit t' e :: r => if t' =? t then e :: unit_events t r else unit_events t r
  | YOther _ :: r => unit_events t r
  end.
