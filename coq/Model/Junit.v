(* C17 -- the three consumers of the emitted event stream: RunStats (reporter/events.rs), the JUnit
   aggregator (reporter/aggregator/junit.rs, MetadataJunit::write_event) and the final summary line
   (reporter/displayer/{imp,progress}.rs). The model consumes what the reporter receives; it does
   not model the dispatcher. Executable definitions only.

   All result / attempt types are local to this file (prefix j). *)
From NextestModel Require Import Base.Str.
Open Scope N_scope.

(* ---------------------------------------------------------------- results, attempts, events *)

(* ExecutionResult; for Fail: was it an abort (signal), did it leak *)
Inductive jresult :=
| JPass | JLeak | JFail (aborted leaked : bool) | JExecFail | JTimeout.

(* ExecutionResult::is_success *)
Definition jis_success (r : jresult) : bool :=
  match r with JPass | JLeak => true | _ => false end.

(* ExecuteStatus, reduced to what the consumers look at *)
Record jattempt := mk_att { ja_res : jresult; ja_slow : bool }.

(* TestEventKind as seen by the consumers. ExecutionStatuses is non-empty by construction
   ("This is guaranteed to be non-empty"): first attempt + the remaining ones. *)
Inductive jevent :=
| JTestFinished (bin name : str) (first : jattempt) (rest : list jattempt)
                (store_success store_failure : bool)
| JScriptFinished (id : str) (res : jresult) (store_success store_failure : bool)
| JTestSkipped
| JOther.    (* every other event kind: ignored by stats and by the JUnit aggregator *)

Definition attempts (first : jattempt) (rest : list jattempt) : list jattempt := first :: rest.
(* ExecutionStatuses::last_status *)
Definition last_attempt (first : jattempt) (rest : list jattempt) : jattempt := last rest first.

(* ---------------------------------------------------------------- RunStats *)

Record stats := mk_stats {
  initial_run_count : N; finished_count : N;
  ss_initial_count : N; ss_finished_count : N;
  ss_passed : N; ss_failed : N; ss_exec_failed : N; ss_timed_out : N;
  passed : N; passed_slow : N; flaky : N; failed : N; failed_slow : N;
  timed_out : N; leaky : N; exec_failed : N; skipped : N }.

Definition stats_add (a b : stats) : stats :=
  {| initial_run_count := initial_run_count a + initial_run_count b;
     finished_count := finished_count a + finished_count b;
     ss_initial_count := ss_initial_count a + ss_initial_count b;
     ss_finished_count := ss_finished_count a + ss_finished_count b;
     ss_passed := ss_passed a + ss_passed b; ss_failed := ss_failed a + ss_failed b;
     ss_exec_failed := ss_exec_failed a + ss_exec_failed b;
     ss_timed_out := ss_timed_out a + ss_timed_out b;
     passed := passed a + passed b; passed_slow := passed_slow a + passed_slow b;
     flaky := flaky a + flaky b; failed := failed a + failed b;
     failed_slow := failed_slow a + failed_slow b; timed_out := timed_out a + timed_out b;
     leaky := leaky a + leaky b; exec_failed := exec_failed a + exec_failed b;
     skipped := skipped a + skipped b |}.

(* DispatcherContext::new: RunStats { initial_run_count, ..Default::default() } *)
Definition initial_stats (selected : N) : stats :=
  mk_stats selected 0 0 0 0 0 0 0 0 0 0 0 0 0 0 0 0.

Definition b2n (b : bool) : N := if b then 1 else 0.

(* what one finished test adds (finished_count is always bumped):
   passed passed_slow flaky failed failed_slow timed_out leaky exec_failed *)
Definition test_delta (p ps fl f fs t l e : N) : stats :=
  mk_stats 0 1 0 0 0 0 0 0 p ps fl f fs t l e 0.

(* RunStats::on_test_finished: classified by the LAST attempt *)
Definition test_finished_delta (first : jattempt) (rest : list jattempt) : stats :=
  let l := last_attempt first rest in
  let many := match rest with [] => 0 | _ :: _ => 1 end in   (* run_statuses.len() > 1 *)
  match ja_res l with
  | JPass => test_delta 1 (b2n (ja_slow l)) many 0 0 0 0 0
  | JLeak => test_delta 1 (b2n (ja_slow l)) many 0 0 0 1 0
  | JFail _ _ => test_delta 0 0 0 1 (b2n (ja_slow l)) 0 0 0
  | JTimeout => test_delta 0 0 0 0 0 1 0 0
  | JExecFail => test_delta 0 0 0 0 0 0 0 1
  end.

Definition on_test_finished (s : stats) (first : jattempt) (rest : list jattempt) : stats :=
  stats_add s (test_finished_delta first rest).

(* RunStats::on_setup_script_finished *)
Definition script_finished_delta (r : jresult) : stats :=
  match r with
  | JPass | JLeak => mk_stats 0 0 0 1 1 0 0 0 0 0 0 0 0 0 0 0 0
  | JFail _ _ => mk_stats 0 0 0 1 0 1 0 0 0 0 0 0 0 0 0 0 0
  | JExecFail => mk_stats 0 0 0 1 0 0 1 0 0 0 0 0 0 0 0 0 0
  | JTimeout => mk_stats 0 0 0 1 0 0 0 1 0 0 0 0 0 0 0 0 0
  end.

Definition on_script_finished (s : stats) (r : jresult) : stats :=
  stats_add s (script_finished_delta r).

Definition skipped_delta : stats := mk_stats 0 0 0 0 0 0 0 0 0 0 0 0 0 0 0 0 1.

(* the dispatcher's update of run_stats for one emitted event *)
Definition stats_step (s : stats) (e : jevent) : stats :=
  match e with
  | JTestFinished _ _ first rest _ _ => on_test_finished s first rest
  | JScriptFinished _ r _ _ => on_script_finished s r
  | JTestSkipped => stats_add s skipped_delta
  | JOther => s
  end.

Definition stats_fold (s : stats) (evs : list jevent) : stats := fold_left stats_step evs s.
Definition run_stats (selected : N) (evs : list jevent) : stats :=
  stats_fold (initial_stats selected) evs.

Definition failed_count (s : stats) : N := failed s + exec_failed s + timed_out s.
Definition failed_script_count (s : stats) : N := ss_failed s + ss_exec_failed s + ss_timed_out s.
Definition has_failures (s : stats) : bool :=
  (0 <? failed_script_count s) || (0 <? failed_count s).

(* RunStats::summarize_final, and the exit status cargo-nextest derives from it (dispatch.rs;
   no --no-tests option given: an empty run is an error) *)
Inductive final_stats :=
| FSuccess | FNoTestsRun | FCancelledScript | FFailedScript
| FCancelledTest (initial not_run : N) | FFailedTest (initial not_run : N).

Definition summarize_final (s : stats) : final_stats :=
  if 0 <? failed_script_count s then FFailedScript
  else if ss_finished_count s <? ss_initial_count s then FCancelledScript
  else if 0 <? failed_count s then FFailedTest (initial_run_count s) (initial_run_count s - finished_count s)
  else if finished_count s <? initial_run_count s
       then FCancelledTest (initial_run_count s) (initial_run_count s - finished_count s)
  else if finished_count s =? 0 then FNoTestsRun
  else FSuccess.

Definition exit_code (f : final_stats) : N :=
  match f with
  | FSuccess => 0
  | FNoTestsRun => 4
  | FCancelledScript | FFailedScript => 105
  | FCancelledTest _ _ | FFailedTest _ _ => 100
  end.

(* ---------------------------------------------------------------- ExecutionStatuses::describe *)

Inductive jdesc :=
| DSuccess (single : jattempt)
| DFlaky (last_status : jattempt) (prior : list jattempt)
| DFailure (first_status last_status : jattempt) (retries : list jattempt).

Definition describe (first : jattempt) (rest : list jattempt) : jdesc :=
  let l := last_attempt first rest in
  if jis_success (ja_res l) then
    match rest with
    | [] => DSuccess l
    | _ :: _ => DFlaky l (removelast (first :: rest))
    end
  else DFailure first l rest.

(* ---------------------------------------------------------------- the JUnit aggregator *)

Inductive jkind := KFailure | KError.          (* <failure> / <error> *)

(* non_success_kind_and_type; Pass is unreachable!() there: None = the aggregator panics *)
Definition non_success_kind (r : jresult) : option jkind :=
  match r with
  | JFail _ _ | JTimeout => Some KFailure
  | JExecFail | JLeak => Some KError
  | JPass => None
  end.

(* TestRerun: kind, which attempt (1-based) it reports, whether its output is stored *)
Record jrerun := mk_rerun { rr_kind : jkind; rr_attempt : N; rr_stored : bool }.

(* quick_junit::TestCaseStatus: the reruns of a success are serialised as flakyFailure /
   flakyError, those of a non-success as rerunFailure / rerunError *)
Inductive tstatus :=
| TSuccess (flaky_runs : list jrerun)
| TNonSuccess (kind : jkind) (reruns : list jrerun).

Record testcase := mk_tc {
  tc_name : str; tc_classname : str; tc_status : tstatus;
  tc_main_attempt : N;      (* the attempt whose time and output the testcase element carries *)
  tc_stored : bool }.       (* system-out / system-err present on the testcase element *)

(* the loop over reruns: attempt numbers start at [start]; output stored iff
   junit_store_failure_output, whatever the rerun's own result *)
Fixpoint mk_reruns (store_failure : bool) (start : N) (l : list jattempt) : option (list jrerun) :=
  match l with
  | [] => Some []
  | a :: r =>
      match non_success_kind (ja_res a), mk_reruns store_failure (start + 1) r with
      | Some k, Some rs => Some (mk_rerun k start store_failure :: rs)
      | _, _ => None
      end
  end.

(* SuiteKey; Display gives the suite name *)
Inductive skey := KScript (id : str) | KBinary (id : str).
Definition skey_eqb (a b : skey) : bool :=
  match a, b with
  | KScript x, KScript y => str_eqb x y
  | KBinary x, KBinary y => str_eqb x y
  | _, _ => false
  end.
(* "@setup-script:" *)
Definition setup_script_prefix : str :=
  [64; 115; 101; 116; 117; 112; 45; 115; 99; 114; 105; 112; 116; 58].
Definition skey_name (k : skey) : str :=
  match k with KScript id => setup_script_prefix ++ id | KBinary id => id end.

Definition store_decision (store_success store_failure is_success : bool) : bool :=
  (store_success && is_success) || (store_failure && negb is_success).

Inductive conv := CIgnored | CPanic | CCase (k : skey) (tc : testcase).

Definition convert_test (bin name : str) (first : jattempt) (rest : list jattempt)
           (ss sf : bool) : conv :=
  let n := N.of_nat (length (first :: rest)) in
  (* (status constructor, main status, its attempt number, reruns, attempt number of the first rerun) *)
  let parts :=
    match describe first rest with
    | DSuccess single => Some (None, single, n, [], 1)
    | DFlaky last_status prior => Some (None, last_status, n, prior, 1)
    | DFailure first_status _ retries =>
        match non_success_kind (ja_res first_status) with
        | Some k => Some (Some k, first_status, 1, retries, 2)
        | None => None
        end
    end in
  match parts with
  | None => CPanic
  | Some (kind, main, main_no, reruns, start) =>
      match mk_reruns sf start reruns with
      | None => CPanic
      | Some rs =>
          let status := match kind with None => TSuccess rs | Some k => TNonSuccess k rs end in
          CCase (KBinary bin)
                (mk_tc name bin status main_no
                       (store_decision ss sf (jis_success (ja_res main))))
      end
  end.

Definition convert_script (id : str) (r : jresult) (ss sf : bool) : conv :=
  let status :=
    if jis_success r then Some (TSuccess [])
    else match non_success_kind r with Some k => Some (TNonSuccess k []) | None => None end in
  match status with
  | None => CPanic
  | Some st =>
      CCase (KScript id)
            (mk_tc id (skey_name (KScript id)) st 1 (store_decision ss sf (jis_success r)))
  end.

Definition convert (e : jevent) : conv :=
  match e with
  | JTestFinished bin name first rest ss sf => convert_test bin name first rest ss sf
  | JScriptFinished id r ss sf => convert_script id r ss sf
  | JTestSkipped | JOther => CIgnored
  end.

(* IndexMap<SuiteKey, TestSuite>: entry(key).or_insert_with(new suite at the end), then push *)
Definition jstate := list (skey * list testcase).

Fixpoint add_case (k : skey) (tc : testcase) (st : jstate) : jstate :=
  match st with
  | [] => [(k, [tc])]
  | (k', tcs) :: r =>
      if skey_eqb k k' then (k', tcs ++ [tc]) :: r else (k', tcs) :: add_case k tc r
  end.

Fixpoint junit_fold (st : jstate) (evs : list jevent) : option jstate :=
  match evs with
  | [] => Some st
  | e :: r =>
      match convert e with
      | CIgnored => junit_fold st r
      | CPanic => None
      | CCase k tc => junit_fold (add_case k tc st) r
      end
  end.

(* the report written at RunFinished for the events received before it *)
Definition junit_report (evs : list jevent) : option jstate := junit_fold [] evs.

Definition is_nonsuccess (tc : testcase) : bool :=
  match tc_status tc with TSuccess _ => false | TNonSuccess _ _ => true end.
Definition has_kind (k : jkind) (tc : testcase) : bool :=
  match tc_status tc, k with
  | TNonSuccess KFailure _, KFailure | TNonSuccess KError _, KError => true
  | _, _ => false
  end.
Definition tc_reruns (tc : testcase) : list jrerun :=
  match tc_status tc with TSuccess rs | TNonSuccess _ rs => rs end.
(* a success that carries flakyFailure / flakyError elements *)
Definition is_flaky_case (tc : testcase) : bool :=
  match tc_status tc with TSuccess (_ :: _) => true | _ => false end.

Definition count_if {A} (f : A -> bool) (l : list A) : N := N.of_nat (length (filter f l)).
Definition len {A} (l : list A) : N := N.of_nat (length l).

(* TestSuite::add_test_case counters = the tests / failures / errors attributes *)
Definition suite_counts (tcs : list testcase) : N * (N * N) :=
  (len tcs, (count_if (has_kind KFailure) tcs, count_if (has_kind KError) tcs)).

Definition all_cases (rep : jstate) : list testcase := flat_map snd rep.
(* Report::add_test_suite: the attributes of the root element *)
Definition report_counts (rep : jstate) : N * (N * N) := suite_counts (all_cases rep).

Definition is_test_key (k : skey) : bool := match k with KBinary _ => true | KScript _ => false end.
Definition test_cases (rep : jstate) : list testcase :=
  flat_map snd (filter (fun s => is_test_key (fst s)) rep).
Definition script_cases (rep : jstate) : list testcase :=
  flat_map snd (filter (fun s => negb (is_test_key (fst s))) rep).

Fixpoint lookup_suite (k : skey) (rep : jstate) : list testcase :=
  match rep with
  | [] => []
  | (k', tcs) :: r => if skey_eqb k k' then tcs else lookup_suite k r
  end.

(* ---------------------------------------------------------------- the final summary line *)

(* "Summary [..] F[/I] tests run: P passed[ (a slow, b flaky, c leaky)], [X failed, ]
   [Y exec failed, ][Z timed out, ]S skipped" as (tag, number) tokens in display order:
   0 finished, 1 initial (only when different), 2 passed, 3 slow, 4 flaky, 5 leaky,
   6 failed, 7 exec failed, 8 timed out (each only when > 0), 9 skipped *)
Definition tok_if_pos (tag n : N) : list (N * N) := if 0 <? n then [(tag, n)] else [].

Definition summary_counts (s : stats) : list (N * N) :=
  [(0, finished_count s)]
  ++ (if finished_count s =? initial_run_count s then [] else [(1, initial_run_count s)])
  ++ [(2, passed s)]
  ++ tok_if_pos 3 (passed_slow s) ++ tok_if_pos 4 (flaky s) ++ tok_if_pos 5 (leaky s)
  ++ tok_if_pos 6 (failed s) ++ tok_if_pos 7 (exec_failed s) ++ tok_if_pos 8 (timed_out s)
  ++ [(9, skipped s)].

(* ---------------------------------------------------------------- snapshots on events *)

(* an emitted event together with the RunStats snapshot it carries, if it carries one
   (TestStarted / TestFinished: current_stats; RunFinished, InfoStarted: run_stats) *)
Definition sevent := (jevent * option stats)%type.

Definition stats_eqb (a b : stats) : bool :=
  (initial_run_count a =? initial_run_count b) && (finished_count a =? finished_count b)
  && (ss_initial_count a =? ss_initial_count b) && (ss_finished_count a =? ss_finished_count b)
  && (ss_passed a =? ss_passed b) && (ss_failed a =? ss_failed b)
  && (ss_exec_failed a =? ss_exec_failed b) && (ss_timed_out a =? ss_timed_out b)
  && (passed a =? passed b) && (passed_slow a =? passed_slow b) && (flaky a =? flaky b)
  && (failed a =? failed b) && (failed_slow a =? failed_slow b) && (timed_out a =? timed_out b)
  && (leaky a =? leaky b) && (exec_failed a =? exec_failed b) && (skipped a =? skipped b).

(* "the dispatcher attaches the running fold": every snapshot equals the statistics folded over
   the events emitted so far, the carrying event included *)
Fixpoint attached (s : stats) (l : list sevent) : bool :=
  match l with
  | [] => true
  | (e, snap) :: r =>
      let s' := stats_step s e in
      match snap with
      | None => attached s' r
      | Some x => stats_eqb x s' && attached s' r
      end
  end.

(* ---------------------------------------------------------------- well-formed attempt lists *)

(* what the retry loop of the executor guarantees: every attempt but the last was a failure
   (a success ends the loop) *)
Definition wf_attempts (first : jattempt) (rest : list jattempt) : bool :=
  forallb (fun a => negb (jis_success (ja_res a))) (removelast (first :: rest)).

Definition wf_event (e : jevent) : bool :=
  match e with
  | JTestFinished _ _ first rest _ _ => wf_attempts first rest
  | _ => true
  end.

(* identities of finished tests, for "finished <= selected" *)
Fixpoint finished_ids (evs : list jevent) : list (str * str) :=
  match evs with
  | [] => []
  | JTestFinished bin name _ _ _ _ :: r => (bin, name) :: finished_ids r
  | _ :: r => finished_ids r
  end.

(* ---------------------------------------------------------------- text stored in the report *)

(* Every message, description, system-out and system-err string of the report goes through
   [xml_safe] (reporter/aggregator/junit.rs), which is, in this order:
     1. [s.into()] = quick_junit::XmlString::new (0.5.1) = strip_ansi_escapes::strip_str, then a
        replace() filter that removes the C0 controls other than TAB, LF, CR;
     2. if the result contains U+FFFE or U+FFFF: these two are removed (str::replace) and the rest
        is passed through XmlString::new once more (escape stripper and filter again);
        otherwise the result of 1 is used as it is.
   The input is a Rust string ([as_str_lossy] of the captured bytes): a list of scalar values. *)

(* XML 1.0 production [2] Char *)
Definition xml_char (c : N) : bool :=
  (c =? 9) || (c =? 10) || (c =? 13) || ((32 <=? c) && (c <=? 55295))
  || ((57344 <=? c) && (c <=? 65533)) || ((65536 <=? c) && (c <=? 1114111)).

(* a Rust char *)
Definition is_scalar (c : N) : bool :=
  (c <=? 55295) || ((57344 <=? c) && (c <=? 1114111)).

Definition in_rng (lo hi b : N) : bool := (lo <=? b) && (b <=? hi).

(* ---- stage 1a: strip-ansi-escapes 0.2.1 = vte 0.14.1 [Parser::advance] (one call on the whole
   string) driving a [Perform] whose print(c) writes c, whose execute(b) writes LF iff b = LF and
   whose other callbacks do nothing. In the Ground state vte works on characters
   ([ground_dispatch]); in every other state it consumes the UTF-8 encoding byte by byte. The
   parameter / intermediate / OSC buffers never influence print or execute and are not modelled. *)
Inductive vstate :=
| VGround | VEscape | VEscInt | VCsiEntry | VCsiParam | VCsiInt | VCsiIgnore
| VDcsEntry | VDcsParam | VDcsInt | VDcsPass | VDcsIgnore | VOsc | VSos.

(* the byte class 0x00..=0x17 | 0x19 | 0x1C..=0x1F of the transition tables *)
Definition c0_exec (b : N) : bool := (b <=? 23) || (b =? 25) || in_rng 28 31 b.

(* Parser::anywhere: (next state, is the byte execute()d) *)
Definition anywhere (st : vstate) (b : N) : vstate * bool :=
  if (b =? 24) || (b =? 26) then (VGround, true)
  else if b =? 27 then (VEscape, false)
  else (st, false).

(* Parser::change_state on one byte in a state other than Ground: (next state, executed?) *)
Definition byte_step (st : vstate) (b : N) : vstate * bool :=
  match st with
  | VGround => (VGround, false)                         (* unreachable!() in change_state *)
  | VEscape =>
      if c0_exec b then (VEscape, true)
      else if in_rng 32 47 b then (VEscInt, false)
      else if b =? 80 then (VDcsEntry, false)
      else if (b =? 88) || (b =? 94) || (b =? 95) then (VSos, false)
      else if b =? 91 then (VCsiEntry, false)
      else if b =? 93 then (VOsc, false)
      else if in_rng 48 126 b then (VGround, false)     (* esc_dispatch *)
      else if (b =? 24) || (b =? 26) then (VGround, true)
      else (VEscape, false)                             (* 0x1B, 0x7F, 0x80.. *)
  | VEscInt =>
      if c0_exec b then (VEscInt, true)
      else if in_rng 32 47 b then (VEscInt, false)
      else if in_rng 48 126 b then (VGround, false)
      else if b =? 127 then (VEscInt, false)
      else anywhere VEscInt b
  | VCsiEntry =>
      if c0_exec b then (VCsiEntry, true)
      else if in_rng 32 47 b then (VCsiInt, false)
      else if in_rng 48 63 b then (VCsiParam, false)
      else if in_rng 64 126 b then (VGround, false)     (* csi_dispatch *)
      else anywhere VCsiEntry b
  | VCsiParam =>
      if c0_exec b then (VCsiParam, true)
      else if in_rng 32 47 b then (VCsiInt, false)
      else if in_rng 48 59 b then (VCsiParam, false)
      else if in_rng 60 63 b then (VCsiIgnore, false)
      else if in_rng 64 126 b then (VGround, false)
      else if b =? 127 then (VCsiParam, false)
      else anywhere VCsiParam b
  | VCsiInt =>
      if c0_exec b then (VCsiInt, true)
      else if in_rng 32 47 b then (VCsiInt, false)
      else if in_rng 48 63 b then (VCsiIgnore, false)
      else if in_rng 64 126 b then (VGround, false)
      else anywhere VCsiInt b
  | VCsiIgnore =>
      if c0_exec b then (VCsiIgnore, true)
      else if in_rng 32 63 b then (VCsiIgnore, false)
      else if in_rng 64 126 b then (VGround, false)
      else if b =? 127 then (VCsiIgnore, false)
      else anywhere VCsiIgnore b
  | VDcsEntry =>
      if c0_exec b then (VDcsEntry, false)              (* ignored, not executed *)
      else if in_rng 32 47 b then (VDcsInt, false)
      else if in_rng 48 63 b then (VDcsParam, false)
      else if in_rng 64 126 b then (VDcsPass, false)    (* hook *)
      else if b =? 127 then (VDcsEntry, false)
      else anywhere VDcsEntry b
  | VDcsParam =>
      if c0_exec b then (VDcsParam, false)
      else if in_rng 32 47 b then (VDcsInt, false)
      else if in_rng 48 59 b then (VDcsParam, false)
      else if in_rng 60 63 b then (VDcsIgnore, false)
      else if in_rng 64 126 b then (VDcsPass, false)
      else if b =? 127 then (VDcsParam, false)
      else anywhere VDcsParam b
  | VDcsInt =>
      if c0_exec b then (VDcsInt, false)
      else if in_rng 32 47 b then (VDcsInt, false)
      else if in_rng 48 63 b then (VDcsIgnore, false)
      else if in_rng 64 126 b then (VDcsPass, false)
      else if b =? 127 then (VDcsInt, false)
      else anywhere VDcsInt b
  | VDcsPass =>
      if (b =? 24) || (b =? 26) then (VGround, true)    (* unhook, execute *)
      else if b =? 27 then (VEscape, false)
      else if b =? 156 then (VGround, false)            (* the BYTE 0x9C, also inside a character *)
      else (VDcsPass, false)                            (* put *)
  | VDcsIgnore => anywhere VDcsIgnore b
  | VSos => anywhere VSos b
  | VOsc =>
      if b =? 7 then (VGround, false)                   (* BEL-terminated *)
      else if (b =? 24) || (b =? 26) then (VGround, true)
      else if b =? 27 then (VEscape, false)
      else (VOsc, false)
  end.

(* the bytes of one character fed to a parser that is not in the Ground state. If the parser
   returns to Ground in the middle of the character (only the byte 0x9C in DcsPassthrough does
   that), [advance_ground] sees the orphaned continuation bytes one at a time as invalid UTF-8 of
   length 1: bytes <= 0x9F are execute()d (nothing is written), the others print U+FFFD *)
Fixpoint feed (st : vstate) (bs : list N) : vstate * str :=
  match bs with
  | [] => (st, [])
  | b :: r =>
      let '(st1, o1) :=
        match st with
        | VGround => (VGround, if b <=? 159 then [] else [65533])
        | _ => let '(st', ex) := byte_step st b in (st', if ex && (b =? 10) then [10] else [])
        end in
      let '(st2, o2) := feed st1 r in (st2, o1 ++ o2)
  end.

(* what the Ground state does to one character other than ESC ([ground_dispatch]): C0 and C1
   controls are execute()d -- only LF is re-emitted, so TAB and CR are dropped here --, everything
   else is print()ed *)
Definition ansi_strip_keeps (c : N) : bool :=
  (c =? 10) || ((32 <=? c) && negb (in_rng 128 159 c)).

Definition vte_char (st : vstate) (c : N) : vstate * str :=
  match st with
  | VGround =>
      if c =? 27 then (VEscape, [])
      else (VGround, if ansi_strip_keeps c then [c] else [])
  | _ => feed st (utf8_char c)
  end.

Fixpoint ansi_strip_from (st : vstate) (s : str) : str :=
  match s with
  | [] => []
  | c :: r => let '(st', o) := vte_char st c in o ++ ansi_strip_from st' r
  end.

(* strip_ansi_escapes::strip_str *)
Definition ansi_strip (s : str) : str := ansi_strip_from VGround s.

(* ---- stage 1b: the replace() filter of XmlString::new removes C0 controls other than TAB, LF, CR *)
Definition xmlstring_filter_keeps (c : N) : bool :=
  negb ((c <=? 8) || (c =? 11) || (c =? 12) || ((14 <=? c) && (c <=? 31))).

(* quick_junit::XmlString::new *)
Definition xmlstring_new (s : str) : str := filter xmlstring_filter_keeps (ansi_strip s).

(* ---- stage 2: nextest's own xml_safe (the repair of finding F13) *)
Definition known_nonchar (c : N) : bool := (c =? 65534) || (c =? 65535).

Definition xml_safe (x : str) : str :=
  if existsb known_nonchar x then xmlstring_new (filter (fun c => negb (known_nonchar c)) x)
  else x.

(* the text of a stored output / message / description, for the captured string [s] *)
Definition stored_text (s : str) : str := xml_safe (xmlstring_new s).

(* ---- the same, per character that is not part of an escape sequence *)
(* quick-junit's XmlString::new alone (what nextest relied on before the repair) *)
Definition xmlstring_keeps (c : N) : bool := ansi_strip_keeps c && xmlstring_filter_keeps c.
(* the repaired pipeline *)
Definition nextest_keeps (c : N) : bool := xmlstring_keeps c && negb (known_nonchar c).
