(* Observation functions of the dispatcher model for the correspondence checks: everything is
   encoded as lists of numbers so that the printed vm_compute result can be diffed against what the
   real DispatcherContext did (hook H2). Executable definitions only. *)
From Coq Require Import List NArith ZArith Bool.
From NextestModel Require Import Model.Result Model.Dispatcher.
Import ListNotations.
Open Scope N_scope.

Definition enc_shutdown_event (e : shutdown_event) : N :=
  match e with Hangup => 0 | Term => 1 | Quit => 2 | SInterrupt => 3 end.

Definition enc_hresp (r : hresp) : list N :=
  match r with
  | RNone => [0; 0]
  | RJobStop => [1; 0]
  | RJobContinue => [2; 0]
  | RInfo (IeSignal IkUsr1) => [3; 0]
  | RInfo (IeSignal IkInfo) => [3; 1]
  | RInfo IeInput => [3; 2]
  | RCancel CeReport => [4; 0]
  | RCancel CeTestFailure => [4; 1]
  | RCancel (CeSignal (Once e)) => [4; 2 + enc_shutdown_event e]
  | RCancel (CeSignal Twice) => [4; 6]
  end.

Definition enc_handshake (h : handshake) : N :=
  match h with HNone => 0 | HAccepted => 1 | HRefused => 2 end.

Definition enc_broadcast (b : option broadcast) : list N :=
  match b with
  | None => [0; 0]
  | Some BOtherCancel => [1; 0]
  | Some (BShutdown (Once e)) => [2; enc_shutdown_event e]
  | Some (BShutdown Twice) => [2; 4]
  | Some BStop => [3; 0]
  | Some BContinue => [4; 0]
  | Some BGetInfo => [5; 0]
  end.

Definition enc_response (r : response) : list N :=
  enc_handshake (r_hs r) :: enc_hresp (r_resp r) ++ [match r_unit r with Some t => t + 1 | None => 0 end].

Definition enc_revent (e : revent) : list N :=
  match e with
  | ESetupScriptStarted s => [0; s]
  | ESetupScriptSlow s wt => [1; s; b2n wt]
  | ESetupScriptFinished s r => [2; s] ++ result_code r
  | ETestStarted t st running cs => [3; t; running; opt_rank cs] ++ enc_stats st
  | ETestSlow t no total wt => [4; t; no; total; b2n wt]
  | ETestAttemptFailedWillRetry t a => [5; t] ++ enc_attempt a
  | ETestRetryStarted t no total => [6; t; no; total]
  | ETestFinished t sts st running cs =>
      [7; t; running; opt_rank cs] ++ enc_stats st ++ [st_len sts; describe sts]
      ++ flat_map enc_attempt (st_all sts)
  | ETestSkipped t => [8; t]
  | ERunBeginCancel sr r reason => [9; sr; r; rank reason]
  | ERunBeginKill sr r reason => [10; sr; r; rank reason]
  | ERunPaused sr r => [11; sr; r]
  | ERunContinued sr r => [12; sr; r]
  | EInputEnter st running cs => [13; running; opt_rank cs] ++ enc_stats st
  end.

Definition enc_sig (c : option sigcount) : N :=
  match c with None => 0 | Some SOnce => 1 | Some STwice => 2 end.

Definition enc_state (s : dst) : list N :=
  match s with
  | Panicked => [1]
  | Live d =>
      [0; opt_rank (d_cancel d); running_count d; scripts_running d; enc_sig (d_sig d); b2n (d_paused d)]
      ++ enc_stats (d_stats d)
  end.

(* one step: state after, response, emitted events *)
Definition obs_step (x : dst * list revent * response) : list (list N) :=
  let '(s, evs, r) := x in enc_state s :: enc_response r :: map enc_revent evs.

Fixpoint obs_run (s : dst) (h : list devent) : list (list (list N)) :=
  match h with
  | [] => []
  | e :: r => let x := dstep s e in obs_step x :: obs_run (fst (fst x)) r
  end.

(* pure-function probes (hook H3) *)
Definition cmp_code (c : comparison) : N := match c with Lt => 0 | Eq => 1 | Gt => 2 end.
Definition reason_of_rank (n : N) : cancel_reason :=
  match n with
  | 0 => SetupScriptFailure | 1 => TestFailure | 2 => ReportError | 3 => Signal | 4 => Interrupt
  | _ => SecondSignal
  end.
Definition stats_of_list (l : list N) : stats :=
  let g i := nth i l 0 in
  mk_stats (g 0%nat) (g 1%nat) (g 2%nat) (g 3%nat) (g 4%nat) (g 5%nat) (g 6%nat) (g 7%nat) (g 8%nat)
           (g 9%nat) (g 10%nat) (g 11%nat) (g 12%nat) (g 13%nat) (g 14%nat) (g 15%nat) (g 16%nat).
Definition enc_no_tests (n : N) : option no_tests :=
  match n with 0 => None | 1 => Some NtPass | 2 => Some NtWarn | _ => Some NtFail end.
(* summarize_final + exit code under each of the four no-tests policies *)
Definition obs_final (l : list N) : list N :=
  let f := summarize_final (stats_of_list l) in
  enc_final f ++ [99] ++ map (fun p => Z.to_N (exit_code f (enc_no_tests p))) [0; 1; 2; 3].
