(* The request arms of every wait loop of a unit, as data (DESIGN 11.2e).

   harness/src/bin/arm_table.rs reads, for each wait loop of nextest-runner/src/runner/{executor,unix}.rs
   (running loop of run_test_inner and of run_setup_script_inner, terminate_child's grace loop,
   detect_fd_leaks' drain loop, handle_delay_between_attempts) and each kind of request
   (Signal(Stop), Signal(Continue), Signal(Shutdown(_)), OtherCancel, Query(GetInfo)), the match arm
   that handles it and emits it as a list of abstract actions [action] (gen/GenArmTable.v); also the
   statements of terminate_child before its loop (one list per termination reason) and the arm taken
   when the grace period ends.

   This file defines the action language, its interpreter over the states of the one-attempt machine
   (Model/UnitTimers.v) and of the retry-delay loop, and the diagnosis used by the checks when the
   interpretation of a regenerated table no longer equals the hand-written handling in [ucore] /
   [dstep] / [lstep] (Proofs/ArmBridge.v proves that it does, for all states and requests).
   Executable definitions only. *)
From NextestModel Require Import Base.Str Model.Backoff Model.Clocks Model.UnitTimers Model.AbsTimers
  Model.UnitLife.
From Coq Require Import MSets.MSetPositive.
Open Scope N_scope.

(* ---------------------------------------------------------------- the action language *)
(* libc::kill(-pid, _) addresses the process group the child leads; libc::kill(pid, _) and
   child.start_kill() only the child itself *)
Inductive ktarget := TGroup | TLeader.
(* which function computed the UnitTerminateMethod whose signal is sent *)
Inductive mfn := MTimeoutFn | MShutdownFn.      (* timeout_terminate_method / shutdown_terminate_method *)
Inductive sigx := SX (s : usig) | SXMethod (m : mfn).   (* a signal constant / term_signal.signal() *)
(* InternalTerminateReason::Timeout / ::Signal(the payload of the request being handled) *)
Inductive rsn := RsTimeout | RsSignal.
Inductive tcres := TcExited | TcKilled.          (* TerminateChildResult *)
Inductive brk := BPlain | BResult (r : tcres) | BBool (b : bool).

Inductive action :=
| APause (k : clk) | AResume (k : clk)           (* x.pause() / x.resume() *)
| AAck                                            (* sender.send(()) on the Stop request's channel *)
| AKill (t : ktarget) (s : sigx)
| AInfo (i : itag)                                (* tx.send(_.info_response(UnitState::<i> ..)) *)
| ATerminate (r : rsn)                            (* terminate_child(.., reason, stopwatch, req_rx, .., grace_period).await *)
| ABreak (b : brk)
| AReturn (r : tcres)
| ANewSleep (k : clk) | ANewStopwatch (k : clk)   (* pausable_sleep(grace_period) / stopwatch() bound to that clock *)
| AIfPaused (k : clk) (body : list action)
| AIfNotPaused (k : clk) (body : list action)
| AIfChild (body : list action)                      (* if let Some(pid) = child.id() { body } *)
| AIfNoChild (body : list action)                    (* let Some(pid) = child.id() else { body } *)
| AIfMethodKill (m : mfn) (body : list action)       (* if term_signal == UnitTerminateSignal::Kill { body } *)
| AUntranslated.                                  (* the translator could not read the arm (it exits with status 3) *)

Record reqarms := {
  on_stop : list action; on_cont : list action; on_shutdown : list action; on_cancel : list action;
  on_info : list action }.

Record atable := {
  a_test : reqarms;             (* run_test_inner *)
  a_script : reqarms;           (* run_setup_script_inner *)
  a_term : reqarms;             (* terminate_child (unix.rs), the grace loop *)
  a_leak : reqarms;             (* detect_fd_leaks *)
  a_delay : reqarms;            (* handle_delay_between_attempts *)
  a_entry_timeout : list action;   (* terminate_child before its loop, reason = Timeout *)
  a_entry_signal : list action;    (* ... reason = Signal(_) *)
  a_term_expiry : list action }.   (* terminate_child: the grace-period sleep completes *)

(* ---------------------------------------------------------------- outputs with the target explicit *)
Inductive sout := SKill (t : ktarget) (s : usig) | SOut (o : uout).

(* the model's [OSignal s] is kill(-pgid, s) *)
Definition sout_of (o : uout) : sout :=
  match o with OSignal s => SKill TGroup s | o => SOut o end.
Definition uout_of (o : sout) : option uout :=
  match o with
  | SKill TGroup s => Some (OSignal s)
  | SKill TLeader _ => None
  | SOut (OSignal _) => None
  | SOut o => Some o
  end.
Fixpoint uouts_of (l : list sout) : option (list uout) :=
  match l with
  | [] => Some []
  | o :: l' => match uout_of o, uouts_of l' with
               | Some o', Some r => Some (o' :: r)
               | _, _ => None
               end
  end.

(* ---------------------------------------------------------------- executing a list of actions *)
Inductive ctl := CNone | CBreak (b : brk) | CReturn (r : tcres) | CTerminate (r : rsn).
(* XBad: an action that has no meaning where it stands (for instance a signal computed from a
   termination method outside terminate_child, or statements after terminate_child returned) *)
Inductive xres := XBad | XPanic | XOk (c : clocks) (o : list sout) (k : ctl).

Record xenv := {
  x_alive : bool;              (* child.id() is Some *)
  x_cfg : ucfg;
  x_req : option shutreq }.    (* payload of the shutdown request being handled, if any *)

Definition method_of (e : xenv) (m : mfn) : option usig :=
  match m with
  | MTimeoutFn => Some (timeout_method (x_cfg e))
  | MShutdownFn => option_map (shutdown_method (x_cfg e)) (x_req e)
  end.

Definition skip (c : clocks) : xres := XOk c [] CNone.

Fixpoint exec_act (e : xenv) (a : action) (c : clocks) {struct a} : xres :=
  let fix exec_list (l : list action) (c : clocks) {struct l} : xres :=
    match l with
    | [] => skip c
    | a :: l' =>
        match exec_act e a c with
        | XOk c1 o1 CNone =>
            match exec_list l' c1 with XOk c2 o2 k => XOk c2 (o1 ++ o2) k | r => r end
        | XOk c1 o1 (CTerminate r) =>
            match l' with [] => XOk c1 o1 (CTerminate r) | _ => XBad end
        | r => r
        end
    end in
  match a with
  | APause k => match clk_pause c k with Ok c' => skip c' | Panicked => XPanic end
  | AResume k => match clk_resume c k with Ok c' => skip c' | Panicked => XPanic end
  | AAck => XOk c [SOut OAck] CNone
  | AKill t (SX s) => XOk c [SKill t s] CNone
  | AKill t (SXMethod m) =>
      match method_of e m with Some s => XOk c [SKill t s] CNone | None => XBad end
  | AInfo i => XOk c [SOut (OInfo i)] CNone
  | ATerminate r => XOk c [] (CTerminate r)
  | ABreak b => XOk c [] (CBreak b)
  | AReturn r => XOk c [] (CReturn r)
  | ANewSleep KGrace => skip (set_gsl c (slc_new (grace (x_cfg e))))
  | ANewSleep _ => XBad
  | ANewStopwatch KWait => skip (set_wsw c swc_new)
  | ANewStopwatch _ => XBad
  | AIfPaused k b => if clk_paused c k then exec_list b c else skip c
  | AIfNotPaused k b => if clk_paused c k then skip c else exec_list b c
  | AIfChild b => if x_alive e then exec_list b c else skip c
  | AIfNoChild b => if x_alive e then skip c else exec_list b c
  | AIfMethodKill m b =>
      match method_of e m with
      | Some s => if is_kill s then exec_list b c else skip c
      | None => XBad
      end
  | AUntranslated => XBad
  end.

Fixpoint exec_acts (e : xenv) (l : list action) (c : clocks) {struct l} : xres :=
  match l with
  | [] => skip c
  | a :: l' =>
      match exec_act e a c with
      | XOk c1 o1 CNone =>
          match exec_acts e l' c1 with XOk c2 o2 k => XOk c2 (o1 ++ o2) k | r => r end
      | XOk c1 o1 (CTerminate r) =>
          match l' with [] => XOk c1 o1 (CTerminate r) | _ => XBad end
      | r => r
      end
  end.

(* ---------------------------------------------------------------- the wait loops *)
Definition kind_arm (ra : reqarms) (r : ureq) : list action :=
  match r with
  | RStop => on_stop ra | RContinue => on_cont ra | RShutdown _ => on_shutdown ra
  | ROtherCancel => on_cancel ra | RGetInfo => on_info ra
  end.

Definition uenv (cfg : ucfg) (s : ustate) (q : option shutreq) : xenv :=
  {| x_alive := negb (reaped s); x_cfg := cfg; x_req := q |}.

(* None = the table asks for something that has no meaning in that loop *)
Definition sres := option (outcome (ustate * list sout)).

(* terminate_child up to its loop: it returns at once, or the unit is in the grace loop *)
Inductive eres := EBad | EPanic | EReturned (s : ustate) (o : list sout) | EEntered (s : ustate) (o : list sout).
Definition entry_acts (t : atable) (x : treason) : list action :=
  match x with TTimeout => a_entry_timeout t | TSignal => a_entry_signal t end.
Definition run_entry (t : atable) (cfg : ucfg) (s : ustate) (x : treason) (q : option shutreq) : eres :=
  match exec_acts (uenv cfg s q) (entry_acts t x) (ck s) with
  | XOk c o (CReturn _) => EReturned (with_ck s c) o
  | XOk c o CNone => EEntered (with_ph (with_ck s c) (PTerminating x)) o
  | XPanic => EPanic
  | _ => EBad
  end.

Definition eres_out (e : eres) : option (list sout) :=
  match e with EReturned _ o | EEntered _ o => Some o | _ => None end.

(* the running loops (tests and setup scripts) *)
Definition interp_run (ra : reqarms) (t : atable) (cfg : ucfg) (s : ustate) (r : ureq) : sres :=
  match exec_acts (uenv cfg s None) (kind_arm ra r) (ck s) with
  | XBad => None
  | XPanic => Some Panicked
  | XOk c o CNone => Some (Ok (with_ck s c, o))
  | XOk c o (CTerminate RsSignal) =>
      match r with
      | RShutdown q =>
          match run_entry t cfg (with_ck s c) TSignal (Some q) with
          | EReturned s' o' | EEntered s' o' => Some (Ok (s', o ++ o'))
          | EPanic => Some Panicked
          | EBad => None
          end
      | _ => None
      end
  | XOk _ _ _ => None
  end.

(* terminate_child's loop: `break` hands control back to the running loop *)
Definition interp_term (ra : reqarms) (cfg : ucfg) (s : ustate) (x : treason) (r : ureq) : sres :=
  match exec_acts (uenv cfg s None) (kind_arm ra r) (ck s) with
  | XPanic => Some Panicked
  | XOk c o CNone => Some (Ok (with_ck s c, o))
  | XOk c o (CBreak (BResult _)) => Some (Ok (leave_terminate (with_ck s c) x, o))
  | _ => None
  end.

Definition interp_expiry (t : atable) (cfg : ucfg) (s : ustate) (x : treason) : sres :=
  match exec_acts (uenv cfg s None) (a_term_expiry t) (ck s) with
  | XPanic => Some Panicked
  | XOk c o (CBreak (BResult _)) => Some (Ok (leave_terminate (with_ck s c) x, o))
  | _ => None
  end.

(* detect_fd_leaks: `break b` ends the attempt with leaked = b *)
Definition interp_leak (ra : reqarms) (cfg : ucfg) (s : ustate) (r : ureq) : sres :=
  match exec_acts (uenv cfg s None) (kind_arm ra r) (ck s) with
  | XPanic => Some Panicked
  | XOk c o CNone => Some (Ok (with_ck s c, o))
  | XOk c o (CBreak (BBool b)) => Some (Ok (with_ph (with_leaked (with_ck s c) b) PDone, o))
  | _ => None
  end.

(* [script]: the unit is a setup script (run_setup_script_inner) rather than a test.  In the
   synchronous wait after a zero-grace kill and after the end of the attempt no loop reads the
   request channel. *)
Definition interp_unit (t : atable) (script : bool) (cfg : ucfg) (s : ustate) (r : ureq) : sres :=
  match ph s with
  | PRunning => interp_run (if script then a_script t else a_test t) t cfg s r
  | PTerminating x => interp_term (a_term t) cfg s x r
  | PExiting => interp_leak (a_leak t) cfg s r
  | PSyncWait | PDone => Some (Ok (s, []))
  end.

(* handle_delay_between_attempts: there is no child; `break` ends the delay early *)
Definition dres := option (outcome (dstate * list sout)).
Definition interp_delay (t : atable) (d : dstate) (r : ureq) : dres :=
  if d_done d then Some (Ok (d, [])) else
  match exec_acts {| x_alive := false;
                     x_cfg := {| period := 0; terminate_after := None; grace := 0; leak_timeout := 0 |};
                     x_req := None |} (kind_arm (a_delay t) r) (d_ck d) with
  | XPanic => Some Panicked
  | XOk c o CNone => Some (Ok ({| d_ck := c; d_done := false; d_cancelled := false |}, o))
  | XOk c o (CBreak BPlain) => Some (Ok ({| d_ck := c; d_done := true; d_cancelled := true |}, o))
  | _ => None
  end.

(* what the model says, in the same vocabulary *)
Definition lift_u (r : outcome (ustate * list uout)) : outcome (ustate * list sout) :=
  match r with Ok (s, o) => Ok (s, map sout_of o) | Panicked => Panicked end.
Definition lift_d (r : outcome (dstate * list uout)) : outcome (dstate * list sout) :=
  match r with Ok (s, o) => Ok (s, map sout_of o) | Panicked => Panicked end.

(* the part of [enter_terminate] that belongs to the caller of terminate_child: after a timeout
   termination the interval arm sets status = Some(Timeout) and, with a zero grace period, waits
   synchronously for the child *)
Definition returned_to_caller (cfg : ucfg) (x : treason) (s : ustate) : ustate :=
  match x with
  | TSignal => s
  | TTimeout =>
      let s1 := with_timed_out s true in
      if negb (reaped s) && (grace cfg =? 0) then with_ph s1 PSyncWait else s1
  end.
Definition entry_model (cfg : ucfg) (x : treason) (e : eres) : option (ustate * list sout) :=
  match e with
  | EReturned s o => Some (returned_to_caller cfg x s, o)
  | EEntered s o => Some (s, o)
  | _ => None
  end.

(* ---------------------------------------------------------------- a unit's whole life, requests
   handled through the table (everything else as [lstep]) *)
Definition unlift_u (r : sres) : option (outcome (ustate * list uout)) :=
  match r with
  | None => None
  | Some Panicked => Some Panicked
  | Some (Ok (s, o)) => match uouts_of o with Some o' => Some (Ok (s, o')) | None => None end
  end.
Definition unlift_d (r : dres) : option (outcome (dstate * list uout)) :=
  match r with
  | None => None
  | Some Panicked => Some Panicked
  | Some (Ok (s, o)) => match uouts_of o with Some o' => Some (Ok (s, o')) | None => None end
  end.

Definition lstep_src (tp : ptable) (t : atable) (c : lcfg) (s : lstate) (e : levent)
  : option (outcome (lstate * list lout)) :=
  match e, l_ph s with
  | LU (Req r), LAttempt u =>
      match unlift_u (interp_unit t false (lc_unit c) u r) with
      | None => None
      | Some Panicked => Some Panicked
      | Some (Ok (u', outs)) =>
          Some (match ph u' with
                | PDone => obind (finish_attempt c s u') (fun r => Ok (fst r, map LO outs ++ snd r))
                | _ => Ok (with_lph s (LAttempt u'), map LO outs)
                end)
      end
  | LU (Req r), LDelay d =>
      match unlift_d (interp_delay t d r) with
      | None => None
      | Some Panicked => Some Panicked
      | Some (Ok (d', outs)) =>
          Some (if d_done d'
                then Ok (with_lph s LAwaitRetry, map LO outs ++ [LRetryStarted (l_k s + 1)])
                else Ok (with_lph s (LDelay d'), map LO outs))
      end
  | _, _ => Some (lstep tp c s e)
  end.

(* ---------------------------------------------------------------- diagnosis: where do the table
   and the model differ?  Decidable equality on results, then a breadth-first walk over the
   abstract states of AbsTimers (numbers erased) along the model's own steps. *)
Definition swc_eqb (a b : swc) : bool := (act a =? act b) && Bool.eqb (spaused a) (spaused b).
Definition slc_eqb (a b : slc) : bool := (rem a =? rem b) && Bool.eqb (lpaused a) (lpaused b).
Definition clocks_eqb (a b : clocks) : bool :=
  swc_eqb (k_sw a) (k_sw b) && slc_eqb (k_isl a) (k_isl b) && slc_eqb (k_gsl a) (k_gsl b) &&
  swc_eqb (k_wsw a) (k_wsw b) && slc_eqb (k_dsl a) (k_dsl b) && swc_eqb (k_dwsw a) (k_dwsw b).
Definition ustate_eqb (a b : ustate) : bool :=
  (phase_code (ph a) =? phase_code (ph b)) && clocks_eqb (ck a) (ck b) && slc_eqb (lsl a) (lsl b) &&
  (hits a =? hits b) && Bool.eqb (timed_out a) (timed_out b) && Bool.eqb (slow a) (slow b) &&
  Bool.eqb (reaped a) (reaped b) && Bool.eqb (exit_ok a) (exit_ok b) && Bool.eqb (leaked a) (leaked b) &&
  Bool.eqb (fds_done a) (fds_done b).
Definition dstate_eqb (a b : dstate) : bool :=
  clocks_eqb (d_ck a) (d_ck b) && Bool.eqb (d_done a) (d_done b) && Bool.eqb (d_cancelled a) (d_cancelled b).
Definition usig_code (s : usig) : N :=
  match s with SigInt => 2 | SigTerm => 15 | SigHup => 1 | SigQuit => 3 | SigKill => 9 | SigTstp => 20 | SigCont => 18 end.
Definition sout_code (o : sout) : N :=
  match o with
  | SKill TGroup s => 100 + usig_code s
  | SKill TLeader s => 200 + usig_code s
  | SOut (OSignal s) => 300 + usig_code s
  | SOut (OSlow b) => 400 + bN b
  | SOut OAck => 500
  | SOut (OInfo IRunning) => 600 | SOut (OInfo ITerminating) => 601
  | SOut (OInfo IExiting) => 602 | SOut (OInfo IDelay) => 603
  end.
Fixpoint codes_eqb (a b : list N) : bool :=
  match a, b with
  | [], [] => true
  | x :: a', y :: b' => (x =? y) && codes_eqb a' b'
  | _, _ => false
  end.
Definition souts_eqb (a b : list sout) : bool := codes_eqb (map sout_code a) (map sout_code b).

Definition sres_agrees (r : sres) (m : outcome (ustate * list uout)) : bool :=
  match r, lift_u m with
  | Some Panicked, Panicked => true
  | Some (Ok (s, o)), Ok (s', o') => ustate_eqb s s' && souts_eqb o o'
  | _, _ => false
  end.
Definition dres_agrees (r : dres) (m : outcome (dstate * list uout)) : bool :=
  match r, lift_d m with
  | Some Panicked, Panicked => true
  | Some (Ok (s, o)), Ok (s', o') => dstate_eqb s s' && souts_eqb o o'
  | _, _ => false
  end.

(* loops: 0 run_test_inner, 1 run_setup_script_inner, 2 terminate_child, 3 detect_fd_leaks,
   4 handle_delay_between_attempts; requests: 0 Stop, 1 Continue, 2 Shutdown, 3 OtherCancel,
   4 GetInfo, 5 (terminate_child only) the statements before the loop, 6 the end of the grace period *)
Definition all_reqs : list ureq :=
  [RStop; RContinue; RShutdown (Once SInt); RShutdown (Once STerm); RShutdown (Once SHup);
   RShutdown (Once SQuit); RShutdown Twice; ROtherCancel; RGetInfo].
Definition req_kind (r : ureq) : N :=
  match r with RStop => 0 | RContinue => 1 | RShutdown _ => 2 | ROtherCancel => 3 | RGetInfo => 4 end.
Definition all_shutreqs : list shutreq := [Once SInt; Once STerm; Once SHup; Once SQuit; Twice].

Definition entry_agrees (t : atable) (cfg : ucfg) (u : ustate) (x : treason) (q : option shutreq) (m : usig) : bool :=
  match entry_model cfg x (run_entry t cfg u x q), enter_terminate cfg u x m with
  | Some (s, o), (s', o') => ustate_eqb s s' && souts_eqb o (map sout_of o')
  | None, _ => false
  end.

(* (loop, request kind) pairs on which table and model differ at the unit state [u] *)
Definition unit_diffs_at (tp : ptable) (t : atable) (cfg : ucfg) (u : ustate) : list (N * N) :=
  let per_req (script : bool) (loop : N) :=
    flat_map (fun r => if sres_agrees (interp_unit t script cfg u r) (ucore tp cfg u (AReq r))
                       then [] else [(loop, req_kind r)]) all_reqs in
  match ph u with
  | PRunning =>
      per_req false 0 ++ per_req true 1 ++
      (if entry_agrees t cfg u TTimeout None (timeout_method cfg) &&
          forallb (fun q => entry_agrees t cfg u TSignal (Some q) (shutdown_method cfg q)) all_shutreqs
       then [] else [(2, 5)])
  | PTerminating x =>
      per_req false 2 ++
      (if sres_agrees (interp_expiry t cfg u x) (ucore tp cfg u AFireGrace) then [] else [(2, 6)])
  | PExiting => per_req false 3
  | _ => []
  end.

(* the walk tries requests before timer, child and pipe events, so that among the shortest paths
   one made of requests is reported when there is one *)
Definition diag_events : list aevent :=
  filter (fun e => match e with AReq _ => true | _ => false end) aevents ++
  filter (fun e => match e with AReq _ => false | _ => true end) aevents.

Definition pair_mem (p : N * N) (l : list (N * N * list N)) : bool :=
  existsb (fun q => (fst p =? fst (fst q)) && (snd p =? snd (fst q))) l.

(* breadth first over the abstract states reachable in the model under the requests the dispatcher
   can produce: every differing (loop, request) with the shortest event path (codes of
   [aevent_code], newest first) leading to a state in which it differs *)
Fixpoint find_diffs (fuel : nat) (tp : ptable) (t : atable) (work : list (astate * list N)) (seen : pset)
  (acc : list (N * N * list N)) : list (N * N * list N) :=
  match fuel with
  | O => acc
  | S f =>
      match work with
      | [] => acc
      | (a, path) :: rest =>
          let here := unit_diffs_at tp t (abs_cfg (a_g0 a)) (a_u a) in
          let acc' := fold_left (fun ac p => if pair_mem p ac then ac else ac ++ [(p, rev path)]) here acc in
          let '(new, seen') :=
            fold_left (fun (st : list (astate * list N) * pset) e =>
                         match astep tp a e with
                         | Ok a' => if PositiveSet.mem (code a') (snd st) then st
                                    else ((a', aevent_code e :: path) :: fst st,
                                          PositiveSet.add (code a') (snd st))
                         | Panicked => st
                         end) diag_events ([], seen) in
          find_diffs f tp t (rest ++ rev new) seen' acc'
      end
  end.

(* the retry-delay loop: at the start of the delay and after a Stop *)
Definition delay_diffs (tp : ptable) (t : atable) : list (N * N * list N) :=
  let at_state (d : dstate) (path : list N) (acc : list (N * N * list N)) :=
    fold_left (fun ac r => if dres_agrees (interp_delay t d r) (dstep tp d (DReq r)) then ac
                           else if pair_mem (4, req_kind r) ac then ac
                           else ac ++ [((4, req_kind r), path)]) all_reqs acc in
  let d0 := dinit 1 in
  let acc := at_state d0 [] [] in
  match dstep tp d0 (DReq RStop) with
  | Ok (d1, _) => at_state d1 [8] acc
  | Panicked => acc
  end.

(* differences at abstract states the walk did not reach (reported without a request sequence) *)
Definition unreached_diffs (tp : ptable) (t : atable) (found : list (N * N * list N)) : list (N * N * list N) :=
  fold_left (fun ac a =>
               fold_left (fun ac' p => if pair_mem p ac' then ac' else ac' ++ [(p, [999])])
                         (unit_diffs_at tp t (abs_cfg (a_g0 a)) (a_u a)) ac)
            all_astates found.

(* result for the harness: [[loop; request; 100; event codes...]; ...]; a path [100; 999] means
   "only at a state that no request sequence reaches" *)
Definition arm_diff_codes (tp : ptable) (t : atable) : list (list N) :=
  let i0 := ainit false in let i1 := ainit true in
  let reach := find_diffs (N.to_nat 100000) tp t [(i0, []); (i1, [])]
                          (PositiveSet.add (code i0) (PositiveSet.add (code i1) PositiveSet.empty)) [] in
  let all := unreached_diffs tp t reach ++ delay_diffs tp t in
  map (fun x => fst (fst x) :: snd (fst x) :: 100 :: snd x) all.
