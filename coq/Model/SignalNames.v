(* The signal numbers of Linux on x86_64 (and every other Linux architecture except alpha, mips, parisc and sparc):
   include/uapi/asm-generic/signal.h, `kill -l`, signal(7) "Signal numbering for standard signals", column x86/ARM.
   Reference table for C03 "an attempt's reported result reflects what the test process actually did": when nextest
   prints `SIGxxx` for a test killed by signal n, xxx must be the name the platform gives to n. Names without the SIG
   prefix, as nextest prints them. Executable definitions only. *)
From Coq Require Import ZArith List Strings.String.
Import ListNotations.
Open Scope Z_scope.
Open Scope string_scope.

Definition linux_signal_table : list (Z * string) :=
  [ (1, "HUP"); (2, "INT"); (3, "QUIT"); (4, "ILL"); (5, "TRAP"); (6, "ABRT"); (7, "BUS"); (8, "FPE");
    (9, "KILL"); (10, "USR1"); (11, "SEGV"); (12, "USR2"); (13, "PIPE"); (14, "ALRM"); (15, "TERM");
    (16, "STKFLT"); (17, "CHLD"); (18, "CONT"); (19, "STOP"); (20, "TSTP"); (21, "TTIN"); (22, "TTOU");
    (23, "URG"); (24, "XCPU"); (25, "XFSZ"); (26, "VTALRM"); (27, "PROF"); (28, "WINCH"); (29, "IO");
    (30, "PWR"); (31, "SYS") ].

Fixpoint lookup_signal (n : Z) (t : list (Z * string)) : option string :=
  match t with
  | [] => None
  | (k, s) :: r => if Z.eqb n k then Some s else lookup_signal n r
  end.

(* the platform's name of signal number n *)
Definition linux_signal_name (n : Z) : option string := lookup_signal n linux_signal_table.

(* a number -> name table is right when every name it gives is the platform's name of that number *)
Definition names_right (f : Z -> option string) (n : Z) : bool :=
  match f n with
  | None => true
  | Some s => match linux_signal_name n with Some s' => String.eqb s s' | None => false end
  end.
