(* Dispatch order of tests (nextest-runner/src/list/test_list.rs TestPriorityQueue::new,
   config/priority.rs, nextest-metadata/src/test_list.rs RustBinaryId's Ord).
   iter_tests() walks BTreeMap<RustBinaryId, suite> and, per suite, BTreeMap<String, case>;
   the resulting Vec is then sorted with the stable sort_by_key on TestPriority, whose Ord is
   reversed (highest priority first). Executable definitions only. *)
From NextestModel Require Import Base.Str.
From Coq Require Import ZArith.
Open Scope N_scope.

(* ---- RustBinaryId::components: splitn(2, "::") then splitn(2, '/') on the remainder *)
Inductive bin_nk :=
| BkNone
| BkNameOnly (name : str)
| BkNameAndKind (kind name : str).

Record bin_comp := mkcomp { bc_pkg : str; bc_nk : bin_nk }.

(* split at the first "::" (58 58) *)
Fixpoint split_colons (s : str) : str * option str :=
  match s with
  | [] => ([], None)
  | c :: r =>
      match r with
      | d :: r' =>
          if (c =? 58) && (d =? 58) then ([], Some r')
          else let res := split_colons r in (c :: fst res, snd res)
      | [] => ([c], None)
      end
  end.

(* split at the first '/' (47) *)
Fixpoint split_slash (s : str) : str * option str :=
  match s with
  | [] => ([], None)
  | c :: r => if c =? 47 then ([], Some r)
              else let res := split_slash r in (c :: fst res, snd res)
  end.

Definition components (id : str) : bin_comp :=
  match split_colons id with
  | (pkg, None) => mkcomp pkg BkNone
  | (pkg, Some suffix) =>
      match split_slash suffix with
      | (p1, None) => mkcomp pkg (BkNameOnly p1)
      | (p1, Some name) => mkcomp pkg (BkNameAndKind p1 name)
      end
  end.

Definition lex (a b : comparison) : comparison := match a with Eq => b | c => c end.

(* derived Ord of the enum: variant order, then fields in declaration order (kind, binary_name) *)
Definition nk_cmp (a b : bin_nk) : comparison :=
  match a, b with
  | BkNone, BkNone => Eq
  | BkNone, _ => Lt
  | BkNameOnly _, BkNone => Gt
  | BkNameOnly x, BkNameOnly y => str_cmp x y
  | BkNameOnly _, BkNameAndKind _ _ => Lt
  | BkNameAndKind k1 n1, BkNameAndKind k2 n2 => lex (str_cmp k1 k2) (str_cmp n1 n2)
  | BkNameAndKind _ _, _ => Gt
  end.

Definition comp_cmp (a b : bin_comp) : comparison :=
  lex (str_cmp (bc_pkg a) (bc_pkg b)) (nk_cmp (bc_nk a) (bc_nk b)).

Definition binary_id_cmp (a b : str) : comparison := comp_cmp (components a) (components b).

(* ---- tests with their resolved priority *)
Record ptest := mkpt { pt_bin : str; pt_name : str; pt_prio : Z }.

(* TestPriority::new accepts -100..=100 *)
Definition prio_valid (p : Z) : bool := ((-100 <=? p) && (p <=? 100))%Z.
(* TestPriority's Ord: other.0.cmp(&self.0) *)
Definition prio_cmp (a b : Z) : comparison := (b ?= a)%Z.

(* generic stable insertion sort: x goes before the first element it is strictly smaller than,
   i.e. after all elements that are <= x *)
Section Sort.
  Variable A : Type.
  Variable leb : A -> A -> bool.
  Fixpoint insert_stable (x : A) (l : list A) : list A :=
    match l with
    | [] => [x]
    | y :: r => if leb y x then y :: insert_stable x r else x :: l
    end.
  (* elements are inserted left to right, so equal keys keep their input order *)
  Definition sort_stable (l : list A) : list A :=
    fold_left (fun acc x => insert_stable x acc) l [].
End Sort.
Arguments insert_stable {A}.
Arguments sort_stable {A}.

(* iter_tests() order: binaries by RustBinaryId's Ord, tests by name *)
Definition iter_leb (a b : ptest) : bool :=
  match lex (binary_id_cmp (pt_bin a) (pt_bin b)) (str_cmp (pt_name a) (pt_name b)) with
  | Gt => false
  | _ => true
  end.
Definition iter_order (l : list ptest) : list ptest := sort_stable iter_leb l.

(* sort_by_key(priority): a <= b iff TestPriority(a) <= TestPriority(b) iff prio b <= prio a *)
Definition prio_leb (a b : ptest) : bool :=
  match prio_cmp (pt_prio a) (pt_prio b) with Gt => false | _ => true end.

Definition priority_sort (l : list ptest) : list ptest := sort_stable prio_leb l.

(* the queue handed to the scheduler *)
Definition priority_queue (l : list ptest) : list ptest := priority_sort (iter_order l).

Definition cmp_code (c : comparison) : N := match c with Lt => 0 | Eq => 1 | Gt => 2 end.
