(* C19 -- archives: what `cargo nextest archive` puts into an archive (reuse_build/archiver.rs),
   what the extractor accepts and where it writes (reuse_build/unarchiver.rs + tar's unpack_in),
   the atomic write of the archive file (atomicwrites::AtomicFile, AllowOverwrite) as a crash
   machine, archive.include validation (config/archive.rs, config/helpers.rs) and PathMapper
   (reuse_build/mod.rs).  Executable definitions only; lemmas are in Proofs/Archive.v. *)
From NextestModel Require Import Base.Str.
Open Scope N_scope.

Definition bytes := list N.
Definition name := str.            (* one path component *)
Definition rpath := list name.     (* a path as its list of components, outermost first *)

Fixpoint path_eqb (a b : rpath) : bool :=
  match a, b with
  | [], [] => true
  | x :: a', y :: b' => str_eqb x y && path_eqb a' b'
  | _, _ => false
  end.

Fixpoint mem_path (p : rpath) (l : list rpath) : bool :=
  match l with
  | [] => false
  | q :: l' => path_eqb p q || mem_path p l'
  end.

Fixpoint path_prefix (p q : rpath) : bool :=
  match p, q with
  | [], _ => true
  | x :: p', y :: q' => str_eqb x y && path_prefix p' q'
  | _ :: _, [] => false
  end.

(* ================================================================== source trees *)

(* what a symbolic link resolves to when followed (fs::metadata / File::open): tar::Builder has
   follow_symlinks = true, so append_path_with_name archives the link's target *)
Inductive link_res := LFile (b : bytes) | LDir | LBroken.

Inductive tree :=
| File (b : bytes)
| Symlink (r : link_res)
| Dir (es : list (name * tree))     (* entries in read_dir order *)
| Other.                            (* fifo, socket, device *)

(* RecursionDepth *)
Inductive depth := Finite (n : N) | Infinite.

Definition is_zero (d : depth) : bool :=
  match d with Finite 0 => true | _ => false end.

(* only ever called on a non-zero depth (the code panics on zero) *)
Definition decrement (d : depth) : depth :=
  match d with Finite n => Finite (N.pred n) | Infinite => Infinite end.

(* ================================================================== append_path_recursive *)

Inductive src := SFile (b : bytes) | SLink (r : link_res).

(* what one iteration of the loop does *)
Inductive item :=
| IAppend (p : rpath) (s : src)     (* self.append_file(step, src_path, rel_path) *)
| IDepthExceeded (p : rpath)        (* directory popped at depth zero: skipped with an event *)
| IUnknown (p : rpath).             (* neither dir, file nor symlink: skipped with an event *)

Definition frame := (depth * (rpath * tree))%type.

(* `for entry in read_dir { stack.push((depth.decrement(), ..)) }`; the head of the list is the top
   of the stack, so the last directory entry is processed first *)
Definition push_children (d : depth) (p : rpath) (es : list (name * tree)) (st : list frame)
  : list frame :=
  rev_append (map (fun e => (decrement d, (p ++ [fst e], snd e))) es) st.

(* `while let Some(..) = stack.pop()`; None = out of fuel (unreachable, see walk_fuel_enough) *)
Fixpoint walk (fuel : nat) (st : list frame) : option (list item) :=
  match st with
  | [] => Some []
  | (d, (p, t)) :: st' =>
      match fuel with
      | O => None
      | S f =>
          match t with
          | Dir es =>
              if is_zero d then option_map (cons (IDepthExceeded p)) (walk f st')
              else walk f (push_children d p es st')
          | File b => option_map (cons (IAppend p (SFile b))) (walk f st')
          | Symlink r => option_map (cons (IAppend p (SLink r))) (walk f st')
          | Other => option_map (cons (IUnknown p)) (walk f st')
          end
      end
  end.

Fixpoint tree_size (t : tree) : nat :=
  match t with
  | Dir es =>
      S ((fix go (es : list (name * tree)) : nat :=
            match es with
            | [] => O
            | (_, c) :: es' => (tree_size c + go es')%nat
            end) es)
  | _ => 1%nat
  end.

(* the walk started by append_path_recursive(src, rel_path = p, limit = d) on a source tree t *)
Definition collect (d : depth) (p : rpath) (t : tree) : list item :=
  match walk (tree_size t) [(d, (p, t))] with
  | Some l => l
  | None => []
  end.

(* the same walk by structural recursion (specification side; collect_eq_rec) *)
Fixpoint collect_rec (d : depth) (p : rpath) (t : tree) : list item :=
  match t with
  | File b => [IAppend p (SFile b)]
  | Symlink r => [IAppend p (SLink r)]
  | Other => [IUnknown p]
  | Dir es =>
      if is_zero d then [IDepthExceeded p]
      else (fix go (es : list (name * tree)) : list item :=
              match es with
              | [] => []
              | (n, c) :: es' => go es' ++ collect_rec (decrement d) (p ++ [n]) c
              end) es
  end.

(* every file/symlink leaf of a tree with its path below the root and the number of directories
   that enclose it, the root included (0 when the root itself is the leaf); same order as the walk *)
Fixpoint leaves (t : tree) : list (rpath * (N * src)) :=
  match t with
  | File b => [([], (0, SFile b))]
  | Symlink r => [([], (0, SLink r))]
  | Other => []
  | Dir es =>
      (fix go (es : list (name * tree)) : list (rpath * (N * src)) :=
         match es with
         | [] => []
         | (n, c) :: es' =>
             go es' ++ map (fun x => (n :: fst x, (fst (snd x) + 1, snd (snd x)))) (leaves c)
         end) es
  end.

(* a leaf under k directories is reached with limit d iff k <= d *)
Definition within (d : depth) (k : N) : bool :=
  match d with Finite n => k <=? n | Infinite => true end.

Definition appends (l : list item) : list (rpath * src) :=
  flat_map (fun i => match i with IAppend p s => [(p, s)] | _ => [] end) l.

(* ================================================================== the archive *)

(* an archive entry: tar::Builder::append_path_with_name follows links, so there are only regular
   files, directories (a link to a directory, or a directory handed to append_file directly) and
   special files (fifo / device handed to append_file directly) *)
Inductive content := CFile (b : bytes) | CDir | CSpecial.

Definition entry := (rpath * content)%type.

Definition resolve_src (s : src) : option content :=
  match s with
  | SFile b => Some (CFile b)
  | SLink (LFile b) => Some (CFile b)
  | SLink LDir => Some CDir
  | SLink LBroken => None          (* fs::metadata fails: the archive fails with InputFileRead *)
  end.

(* append_file called on a path that is not the product of a walk (a binary, a build script
   `output` file, libstd) *)
Definition resolve_direct (t : option tree) : option content :=
  match t with
  | None => None
  | Some (File b) => Some (CFile b)
  | Some (Symlink r) => resolve_src (SLink r)
  | Some (Dir _) => Some CDir
  | Some Other => Some CSpecial
  end.

(* what the archiver does to its tar builder *)
Inductive op :=
| OMem (p : rpath) (b : bytes)            (* append_from_memory: no added_files lookup *)
| OFile (p : rpath) (c : option content)  (* append_file: looked up in added_files first *)
| OFail.                                  (* an error that is not tied to an append *)

Definition astate := (list entry * list rpath)%type.   (* entries in archive order, added_files *)

Fixpoint run_ops (st : astate) (ops : list op) : option astate :=
  match ops with
  | [] => Some st
  | OMem p b :: r => run_ops (fst st ++ [(p, CFile b)], p :: snd st) r
  | OFile p c :: r =>
      if mem_path p (snd st) then run_ops st r
      else match c with
           | None => None
           | Some c => run_ops (fst st ++ [(p, c)], p :: snd st) r
           end
  | OFail :: _ => None
  end.

(* src_path.exists(): follows links *)
Definition exists_follow (t : option tree) : bool :=
  match t with
  | None => false
  | Some (Symlink LBroken) => false
  | Some _ => true
  end.

Definition items_ops (l : list item) : list op :=
  map (fun x => OFile (fst x) (resolve_src (snd x))) (appends l).

(* append_path_recursive on a path; [guarded]: the call is under `if src_path.exists()` *)
Definition walk_ops (guarded : bool) (d : depth) (dest : rpath) (t : option tree) : list op :=
  if guarded && negb (exists_follow t) then []
  else match t with
       | None => [OFail]                       (* fs::symlink_metadata fails *)
       | Some t => items_ops (collect d dest t)
       end.

Inductive on_missing := OnIgnore | OnWarn | OnError.

Record include := {
  inc_path : rpath;            (* path relative to the target directory (join_rel_path) *)
  inc_depth : depth;
  inc_missing : on_missing;
  inc_src : option tree        (* what is at target_dir/path; None = NotFound *)
}.

(* "Check that all archive.include paths exist": None = error, Some false = dropped with an event *)
Definition include_check (i : include) : option bool :=
  match inc_src i with
  | None => match inc_missing i with OnError => None | _ => Some false end
  | Some (Dir _) => Some (negb (is_zero (inc_depth i)))
  | Some (File _) | Some (Symlink _) => Some true
  | Some Other => Some false
  end.

Fixpoint includes_ok (l : list include) : bool :=
  match l with
  | [] => true
  | i :: l' => match include_check i with None => false | Some _ => includes_ok l' end
  end.

Definition target_name : name := [116; 97; 114; 103; 101; 116].
Definition nextest_name : name := [110; 101; 120; 116; 101; 115; 116].
(* binaries-metadata.json, cargo-metadata.json *)
Definition binaries_metadata_name : name :=
  [98; 105; 110; 97; 114; 105; 101; 115; 45; 109; 101; 116; 97; 100; 97; 116; 97; 46; 106; 115; 111; 110].
Definition cargo_metadata_name : name :=
  [99; 97; 114; 103; 111; 45; 109; 101; 116; 97; 100; 97; 116; 97; 46; 106; 115; 111; 110].
Definition binaries_metadata_path : rpath := [target_name; nextest_name; binaries_metadata_name].
Definition cargo_metadata_path : rpath := [target_name; nextest_name; cargo_metadata_name].

(* one build script out dir: the directory (walked with Finite 1) and, when the out dir has a
   parent, the sibling `output` file (append_file) *)
Definition outdir := ((rpath * option tree) * option (rpath * option tree))%type.

Record build := {
  b_meta_binaries : bytes;
  b_meta_cargo : bytes;
  b_test_bins : list (rpath * option tree);     (* paths relative to the target dir *)
  b_non_test_bins : list (rpath * option tree);
  b_out_dirs : list outdir;
  b_linked : list (rpath * option tree);
  b_includes : list include;
  b_stdlibs : list (rpath * option tree)        (* dest below target/, source file *)
}.

Definition under_target (p : rpath) : rpath := target_name :: p.

(* Archiver::archive, in the order of the code *)
Definition archive_ops (b : build) : list op :=
  [OMem binaries_metadata_path (b_meta_binaries b); OMem cargo_metadata_path (b_meta_cargo b)]
  ++ (if includes_ok (b_includes b) then [] else [OFail])
  ++ map (fun x => OFile (under_target (fst x)) (resolve_direct (snd x))) (b_test_bins b)
  ++ map (fun x => OFile (under_target (fst x)) (resolve_direct (snd x))) (b_non_test_bins b)
  ++ flat_map (fun o : outdir =>
                 walk_ops false (Finite 1) (under_target (fst (fst o))) (snd (fst o))
                 ++ match snd o with
                    | None => []
                    | Some f => [OFile (under_target (fst f)) (resolve_direct (snd f))]
                    end) (b_out_dirs b)
  ++ flat_map (fun x => walk_ops true (Finite 1) (under_target (fst x)) (snd x)) (b_linked b)
  ++ flat_map (fun i => match include_check i with
                        | Some true =>
                            walk_ops true (inc_depth i) (under_target (inc_path i)) (inc_src i)
                        | _ => []
                        end) (b_includes b)
  ++ map (fun x => OFile (under_target (fst x)) (resolve_direct (snd x))) (b_stdlibs b).

(* the entries of the archive in order, or None when archive creation fails *)
Definition archive (b : build) : option (list entry) :=
  option_map fst (run_ops ([], []) (archive_ops b)).

(* specification side of de-duplication *)
Definition op_path (o : op) : option rpath :=
  match o with OMem p _ => Some p | OFile p _ => Some p | OFail => None end.

Definition op_content (o : op) : option content :=
  match o with OMem _ b => Some (CFile b) | OFile _ c => c | OFail => None end.

Definition mentions (p : rpath) (o : op) : bool :=
  match op_path o with Some q => path_eqb p q | None => false end.

(* the first operation that names p *)
Definition first_mention (p : rpath) (ops : list op) : option op := find (mentions p) ops.

(* an in-memory entry is never preceded by an operation on the same path (it would be written
   twice): true of archive_ops because the two metadata names differ and come first *)
Fixpoint mem_fresh (seen : list rpath) (ops : list op) : bool :=
  match ops with
  | [] => true
  | OMem p _ :: r => negb (mem_path p seen) && mem_fresh (p :: seen) r
  | OFile p _ :: r => mem_fresh (p :: seen) r
  | OFail :: r => mem_fresh seen r
  end.

(* ================================================================== paths as strings *)

(* std::path::Components on Unix / camino Utf8Path::components *)
Inductive comp := CRoot | CCur | CParent | CNormal (n : name).

Definition slash : N := 47.
Definition dot : N := 46.

(* split on '/' (always at least one piece) *)
Fixpoint pieces (s : str) : list str :=
  match s with
  | [] => [[]]
  | c :: s' =>
      if c =? slash then [] :: pieces s'
      else match pieces s' with
           | [] => [[c]]
           | p :: ps => (c :: p) :: ps
           end
  end.

Definition piece_comps (p : str) : list comp :=
  if str_eqb p [] then []
  else if str_eqb p [dot] then []              (* "." inside a path is dropped *)
  else if str_eqb p [dot; dot] then [CParent]
  else [CNormal p].

(* RootDir for a leading '/', CurDir only for "." itself or a leading "./" *)
Definition head_comps (s : str) : list comp :=
  if is_prefix [slash] s then [CRoot]
  else if str_eqb s [dot] || is_prefix [dot; slash] s then [CCur]
  else [].

Definition components (s : str) : list comp := head_comps s ++ flat_map piece_comps (pieces s).

Definition is_normal (c : comp) : bool := match c with CNormal _ => true | _ => false end.

(* a name that is a Normal component when it stands alone *)
Definition normal_name (n : name) : bool :=
  negb (existsb (N.eqb slash) n)
  && negb (str_eqb n []) && negb (str_eqb n [dot]) && negb (str_eqb n [dot; dot]).

Fixpoint render_rel (p : rpath) : str :=
  match p with
  | [] => []
  | [n] => n
  | n :: p' => n ++ slash :: render_rel p'
  end.

(* config/helpers.rs deserialize_relative_path: Normal and CurDir components only *)
Definition valid_include (s : str) : bool :=
  forallb (fun c => match c with CNormal _ | CCur => true | _ => false end) (components s).

(* config/archive.rs join_rel_path: CurDir dropped, Normal kept *)
Definition include_rel (s : str) : rpath :=
  flat_map (fun c => match c with CNormal n => [n] | _ => [] end) (components s).

(* ---- strict UTF-8 decoding (std::str::from_utf8): None = invalid *)
Definition cont (b : N) : bool := (128 <=? b) && (b <? 192).

Fixpoint utf8_decode_fuel (fuel : nat) (b : bytes) : option str :=
  match fuel with
  | O => match b with [] => Some [] | _ => None end
  | S f =>
      match b with
      | [] => Some []
      | b0 :: r0 =>
          if b0 <? 128 then option_map (cons b0) (utf8_decode_fuel f r0)
          else if b0 <? 194 then None
          else if b0 <? 224 then
            match r0 with
            | b1 :: r1 =>
                if cont b1 then option_map (cons ((b0 - 192) * 64 + (b1 - 128))) (utf8_decode_fuel f r1)
                else None
            | _ => None
            end
          else if b0 <? 240 then
            match r0 with
            | b1 :: b2 :: r2 =>
                let c := (b0 - 224) * 4096 + (b1 - 128) * 64 + (b2 - 128) in
                if cont b1 && cont b2 && (2048 <=? c) && negb ((55296 <=? c) && (c <? 57344))
                then option_map (cons c) (utf8_decode_fuel f r2) else None
            | _ => None
            end
          else if b0 <? 245 then
            match r0 with
            | b1 :: b2 :: b3 :: r3 =>
                let c := (b0 - 240) * 262144 + (b1 - 128) * 4096 + (b2 - 128) * 64 + (b3 - 128) in
                if cont b1 && cont b2 && cont b3 && (65536 <=? c) && (c <? 1114112)
                then option_map (cons c) (utf8_decode_fuel f r3) else None
            | _ => None
            end
          else None
      end
  end.

Definition utf8_decode (b : bytes) : option str := utf8_decode_fuel (length b) b.

(* ================================================================== extraction *)

(* tar entry types as far as extraction distinguishes them *)
Inductive ekind :=
| KFile                       (* regular, contiguous, and every type tar does not know *)
| KDir
| KSymlink (target : str)
| KHardlink (target : str).

Record tentry := {
  te_raw : bytes;             (* the path bytes in the header *)
  te_cksum_ok : bool;         (* stored header checksum = recomputed checksum *)
  te_kind : ekind;
  te_data : bytes
}.

Definition path_ok_target (s : str) : bool :=
  match components s with
  | CNormal n :: _ => str_eqb n target_name
  | _ => false
  end.

Definition is_link (k : ekind) : bool :=
  match k with KSymlink _ | KHardlink _ => true | _ => false end.

(* ArchiveReader::entries validation, in the order of the code. 0 accepted, 1 non-UTF-8,
   2 no `target` prefix, 3 a non-normal component, 4 link entry (the F19 repair; [links_ok]
   switches it off = the code before the repair), 5 bad checksum *)
Definition entry_check (links_ok : bool) (e : tentry) : N :=
  match utf8_decode (te_raw e) with
  | None => 1
  | Some s =>
      if negb (path_ok_target s) then 2
      else if negb (forallb is_normal (components s)) then 3
      else if negb links_ok && is_link (te_kind e) then 4
      else if negb (te_cksum_ok e) then 5
      else 0
  end.

Definition path_ok (s : str) : bool :=
  path_ok_target s && forallb is_normal (components s).

Definition entry_ok (links_ok : bool) (e : tentry) : bool := entry_check links_ok e =? 0.

(* tar's unpack_in: the destination of an entry is dst with every Normal component pushed; root and
   `.` are ignored; any `..` makes tar skip the entry (None) *)
Fixpoint dest_of_comps (acc : rpath) (cs : list comp) : option rpath :=
  match cs with
  | [] => Some acc
  | CParent :: _ => None
  | CNormal n :: r => dest_of_comps (acc ++ [n]) r
  | _ :: r => dest_of_comps acc r
  end.

Definition dest_of (dest : rpath) (s : str) : option rpath := dest_of_comps dest (components s).

(* lexical normalisation of a component sequence (no file system involved) *)
Fixpoint normalise_from (acc : rpath) (cs : list comp) : rpath :=
  match cs with
  | [] => acc
  | CRoot :: r => normalise_from [] r
  | CCur :: r => normalise_from acc r
  | CParent :: r => normalise_from (removelast acc) r
  | CNormal n :: r => normalise_from (acc ++ [n]) r
  end.

Definition normalise (cs : list comp) : rpath := normalise_from [] cs.

(* dest rendered as an absolute path followed by "/" and the entry path *)
Definition joined (dest : rpath) (s : str) : list comp :=
  CRoot :: map CNormal dest ++ components s.

(* ---- the file system the extractor writes to *)
Inductive node := NFile (b : bytes) | NDir | NLink (target : list comp).

Definition fsys := list (rpath * node).   (* first binding of a path wins *)

Fixpoint lookup (d : fsys) (p : rpath) : option node :=
  match d with
  | [] => None
  | (q, n) :: d' => if path_eqb p q then Some n else lookup d' p
  end.

Definition write (d : fsys) (p : rpath) (n : node) : fsys := (p, n) :: d.

(* realpath: follow links component by component; None = too many links *)
Fixpoint resolve (fuel : nat) (d : fsys) (cur : rpath) (cs : list comp) : option rpath :=
  match cs with
  | [] => Some cur
  | c :: rest =>
      match fuel with
      | O => None
      | S f =>
          match c with
          | CRoot => resolve f d [] rest
          | CCur => resolve f d cur rest
          | CParent => resolve f d (removelast cur) rest
          | CNormal n =>
              match lookup d (cur ++ [n]) with
              | Some (NLink tgt) => resolve f d cur (tgt ++ rest)
              | _ => resolve f d (cur ++ [n]) rest
              end
          end
      end
  end.

Definition link_budget : nat := 40.

Definition realpath (d : fsys) (p : rpath) : option rpath :=
  resolve (length p + link_budget) d [] (map CNormal p).

Definition node_of (k : ekind) (data : bytes) : node :=
  match k with
  | KFile => NFile data
  | KDir => NDir
  | KSymlink t => NLink (components t)
  | KHardlink _ => NFile data      (* only reachable with links_ok; contents not modelled *)
  end.

Inductive xresult :=
| XOk (d : fsys)
| XRejected (code : N) (d : fsys)   (* validation failed: extraction stops, d = what was written *)
| XIoError (d : fsys).              (* unpack_in returned an error *)

(* tar's unpack at a resolved location: a directory entry keeps an existing directory (or a link
   standing there: create_dir fails with AlreadyExists and fs::metadata follows the link; the
   permission change that follows is not modelled); anything else replaces an existing file or
   link without following it and fails on an existing directory *)
Definition place (d : fsys) (p : rpath) (k : ekind) (data : bytes) : option fsys :=
  match k, lookup d p with
  | KDir, Some NDir => Some d
  | KDir, Some (NLink _) => Some d
  | KDir, Some (NFile _) => None
  | KDir, None => Some (write d p NDir)
  | _, Some NDir => None
  | _, _ => Some (write d p (node_of k data))
  end.

(* ---- what the F23 repair looks at and what tar's ensure_dir_created does *)

(* the names of the Normal components (after validation: all of them) *)
Definition normal_names (cs : list comp) : rpath :=
  flat_map (fun c => match c with CNormal n => [n] | _ => [] end) cs.

(* `for component in path.components() { dest_path.push(component); if dest_path is a symlink ..`:
   is cur/n1, cur/n1/n2, ... , cur/n1/../nk (the last one included) a link? *)
Fixpoint link_on_path (d : fsys) (cur : rpath) (ns : list name) : bool :=
  match ns with
  | [] => false
  | n :: r =>
      match lookup d (cur ++ [n]) with
      | Some (NLink _) => true
      | _ => link_on_path d (cur ++ [n]) r
      end
  end.

(* `dir.canonicalize_utf8()`: no component of the destination directory is a link *)
Definition dest_canonical (d : fsys) (dest : rpath) : bool := negb (link_on_path d [] dest).

(* a regular file where a directory is needed: create_dir_all / open fail with ENOTDIR *)
Fixpoint file_on_path (d : fsys) (cur : rpath) (ns : list name) : bool :=
  match ns with
  | [] => false
  | n :: r =>
      match lookup d (cur ++ [n]) with
      | Some (NFile _) => true
      | _ => file_on_path d (cur ++ [n]) r
      end
  end.

(* ensure_dir_created: every missing ancestor cur/n1, cur/n1/n2, ... becomes a directory *)
Fixpoint mkdirs (d : fsys) (cur : rpath) (ns : list name) : fsys :=
  match ns with
  | [] => d
  | n :: r =>
      mkdirs (match lookup d (cur ++ [n]) with
              | None => write d (cur ++ [n]) NDir
              | Some _ => d
              end) (cur ++ [n]) r
  end.

(* tar's unpack_in at the destination q <> dest it computed, as the code BEFORE the F23 repair
   reaches it: the parent directory is resolved through the file system and must stay inside dest
   (validate_inside_dst), the entry itself is created at resolved-parent/last-component without
   following a link at that name. (Implicitly created parent directories are not recorded by this
   machine; it is kept for the F19/F23 witnesses and the theorems outside their classes.) *)
Definition unpack_through (dest : rpath) (d : fsys) (q : rpath) (k : ekind) (data : bytes) : xresult :=
  match realpath d (removelast q) with
  | None => XIoError d
  | Some parent =>
      if negb (path_prefix dest parent) then XIoError d
      else match place d (parent ++ [last q []]) k data with
           | Some d' => XOk d'
           | None => XIoError d
           end
  end.

(* the same after the F23 repair has passed (no link at dest/n1 .. dest/n1/../nk, ns = n1..nk the
   entry's components): ensure_dir_created makes the missing parents (a regular file on the way is
   an error), validate_inside_dst resolves the parent, unpack places the entry *)
Definition unpack_checked (dest : rpath) (d : fsys) (ns : list name) (k : ekind) (data : bytes)
  : xresult :=
  let par := removelast ns in
  match realpath d (dest ++ par) with
  | None => XIoError d
  | Some parent =>
      if negb (path_prefix dest parent) then XIoError d
      else if file_on_path d dest par then XIoError d
      else match place (mkdirs d dest par) (parent ++ [last ns []]) k data with
           | Some d' => XOk d'
           | None => XIoError d
           end
  end.

(* one entry: validation (ArchiveReader::entries), then -- the F23 repair, switched off by
   [thru = true] = the code before it -- the refusal to go through or onto a link that already
   exists below dest, then unpack_in(dest) *)
Definition extract_entry (links_ok thru : bool) (dest : rpath) (d : fsys) (e : tentry) : xresult :=
  let code := entry_check links_ok e in
  if negb (code =? 0) then XRejected code d
  else match utf8_decode (te_raw e) with
       | None => XRejected 1 d
       | Some s =>
           let ns := normal_names (components s) in
           if negb thru && link_on_path d dest ns then XIoError d
           else match dest_of dest s with
                | None => XOk d                                   (* skipped by tar *)
                | Some q =>
                    if path_eqb q dest then XOk d
                    else if thru then unpack_through dest d q (te_kind e) (te_data e)
                         else unpack_checked dest d ns (te_kind e) (te_data e)
                end
       end.

Fixpoint extract (links_ok thru : bool) (dest : rpath) (d : fsys) (es : list tentry) : xresult :=
  match es with
  | [] => XOk d
  | e :: r =>
      match extract_entry links_ok thru dest d e with
      | XOk d' => extract links_ok thru dest d' r
      | other => other
      end
  end.

(* Path::exists (follows links) *)
Definition exists_follow_fs (d : fsys) (p : rpath) : bool :=
  match realpath d p with
  | Some q => match lookup d q with Some (NFile _) | Some NDir => true | _ => false end
  | None => false
  end.

(* Unarchiver::extract into ExtractDestination::Destination { dir, overwrite }; dest = the
   canonicalised dir. Code 6 = DestinationExists. The initial file system d is ARBITRARY. *)
Definition extract_to (links_ok thru overwrite : bool) (dest : rpath) (d : fsys)
           (es : list tentry) : xresult :=
  if negb overwrite && exists_follow_fs d (dest ++ [target_name]) then XRejected 6 d
  else extract links_ok thru dest d es.

Definition result_fs (x : xresult) : fsys :=
  match x with XOk d | XRejected _ d | XIoError d => d end.

(* the archive entries of the archiver as tar entries *)
Definition utf8_path (p : rpath) : bytes := utf8 (render_rel p).

Definition tentry_of (e : entry) : tentry :=
  {| te_raw := utf8_path (fst e);
     te_cksum_ok := true;
     te_kind := match snd e with CDir => KDir | _ => KFile end;
     te_data := match snd e with CFile b => b | _ => [] end |}.

Definition node_of_content (c : content) : node :=
  match c with CFile b => NFile b | CDir => NDir | CSpecial => NFile [] end.

(* ================================================================== atomic write *)

(* AtomicFile::write(AllowOverwrite): mkdir <parent>/.atomicwriteXXXX, create tmpfile.tmp in it, run
   the writer (k successful write calls so far), fsync, rename over the destination, fsync the
   directories; on any error the temporary directory is removed (best effort) *)
Inductive wstate :=
| Init | TmpCreated | TmpPartial (k : nat) | TmpComplete | Synced | Renamed | Done
| Failed (after_rename : bool).

Definition files := rpath -> option bytes.

Definition fupd (d : files) (p : rpath) (v : option bytes) : files :=
  fun q => if path_eqb q p then v else d q.

Inductive outcome :=
| StepOk                      (* the next system call succeeds *)
| StepErr (cleanup : bool).   (* it fails (or the writer returns an error); is the temp removed? *)

Definition tmp_path (parent : rpath) (rnd : name) : rpath :=
  parent ++ [[46; 97; 116; 111; 109; 105; 99; 119; 114; 105; 116; 101] ++ rnd;
             [116; 109; 112; 102; 105; 108; 101; 46; 116; 109; 112]].

Definition fail (tmp : rpath) (after_rename cleanup : bool) (d : files) : wstate * files :=
  (Failed after_rename, if cleanup then fupd d tmp None else d).

(* chunks: the successive write() calls of the archiver; their concatenation is the archive *)
Definition wstep (chunks : list bytes) (dest tmp : rpath) (s : wstate * files) (o : outcome)
  : wstate * files :=
  let '(st, d) := s in
  match st, o with
  | Done, _ | Failed _, _ => s
  | Init, StepOk => (TmpCreated, fupd d tmp (Some []))
  | Init, StepErr c => fail tmp false c d
  | TmpCreated, StepOk =>
      match chunks with
      | [] => (TmpComplete, d)
      | _ => (TmpPartial 1, fupd d tmp (Some (concat (firstn 1 chunks))))
      end
  | TmpPartial k, StepOk =>
      if Nat.leb (length chunks) k then (TmpComplete, d)
      else (TmpPartial (S k), fupd d tmp (Some (concat (firstn (S k) chunks))))
  | TmpComplete, StepOk => (Synced, d)
  | Synced, StepOk => (Renamed, fupd (fupd d dest (d tmp)) tmp None)
  | Renamed, StepOk => (Done, d)
  | Renamed, StepErr c => fail tmp true c d
  | _, StepErr c => fail tmp false c d
  end.

(* a run = the outcomes of the steps that happened; a crash is simply the end of the list *)
Definition wrun (chunks : list bytes) (dest tmp : rpath) (d0 : files) (os : list outcome)
  : wstate * files :=
  fold_left (wstep chunks dest tmp) os (Init, d0).

Definition committed (st : wstate) : bool :=
  match st with Renamed | Done | Failed true => true | _ => false end.

(* ================================================================== PathMapper *)

Fixpoint strip_prefix (pre p : rpath) : option rpath :=
  match pre, p with
  | [], _ => Some p
  | x :: pre', y :: p' => if str_eqb x y then strip_prefix pre' p' else None
  | _ :: _, [] => None
  end.

(* map_binary / map_cwd: `match path.strip_prefix(from) { Ok(p) => to.join(p), Err(_) => path }` *)
Definition remap (m : option (rpath * rpath)) (p : rpath) : rpath :=
  match m with
  | None => p
  | Some (from, to) =>
      match strip_prefix from p with
      | Some rest => to ++ rest
      | None => p
      end
  end.

(* the abstract listing: per binary its id and path; the tests of a binary are a function of the
   bytes found at its path *)
Definition selection (lister : option bytes -> list str) (d : files)
           (bins : list (str * rpath)) : list (str * str) :=
  flat_map (fun b => map (fun t => (fst b, t)) (lister (d (snd b)))) bins.
