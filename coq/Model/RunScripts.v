(* The dispatcher interface of Model/Scripts.v ([disp]: what run_setup_scripts and the test start
   requests talk to) instantiated with the real dispatcher model [dstep_live] of
   Model/Dispatcher.v, so that the C18 theorems stated over every dispatcher obeying the laws
   ([disp_laws] / [disp_live], Proofs/Scripts.v) hold of the dispatcher model itself.

   The interface does not say which unit asks; the state of the instance therefore carries the
   executor's program counter: how many setup-script start requests are still to come ([rd_left] =
   the number of enabled scripts at the beginning, as in run_setup_scripts' loop), the index of the
   script that asks / runs next, and test ids are taken fresh (no duplicate new_test).
   Debug assertions are off ([release]: the d_dbg = false branch of the model), so that
   SetupScriptStarted / SetupScriptFinished never panic whatever the script slot holds; the
   [Panicked] arm of [keep] is unreachable (Proofs/RunScripts.v, real_step_never_panics).
   Executable definitions only. *)
From Coq Require Import List NArith ZArith Bool.
From NextestModel Require Import Model.Result Model.Dispatcher.
From NextestModel Require Model.Scripts.
Import ListNotations.
Open Scope N_scope.

(* a release build: debug_assert! compiled out *)
Definition release (d : dstate) : dstate :=
  mk_dstate (d_stats d) (d_max_fail d) (d_running d) (d_script d) (d_cancel d) (d_sig d)
            (d_paused d) false.

Record rdstate := mk_rd {
  rd_d : dstate;         (* DispatcherContext *)
  rd_left : N;           (* setup-script start requests still to come *)
  rd_sid : sid }.        (* index of the script that asks / runs next *)

(* a test id not in running_tests *)
Definition fresh_tid (d : dstate) : tid :=
  1 + fold_right (fun kv m => N.max (fst kv) m) 0 (d_running d).

(* the state after the step, and whether the handshake was answered positively *)
Definition keep (d : dstate) (x : dst * list revent * response) : dstate * bool :=
  match x with
  | (Live d', _, rsp) => (d', match r_hs rsp with HAccepted => true | _ => false end)
  | (Panicked, _, _) => (d, false)
  end.

Definition to_result (r : Scripts.exec_result) : result :=
  match r with
  | Scripts.RPass => Pass
  | Scripts.RLeak => Leak
  | Scripts.RFail => Fail None false
  | Scripts.RExecFail => ExecFail
  | Scripts.RTimeout => Timeout
  end.

(* SetupScriptStarted while scripts remain, Started (of a fresh test) afterwards *)
Definition rd_unit_start (x : rdstate) : rdstate * bool :=
  let d := release (rd_d x) in
  if 0 <? rd_left x then
    let res := keep d (dstep_live d (ScriptStarted (rd_sid x))) in
    (mk_rd (fst res) (rd_left x - 1) (if snd res then rd_sid x else rd_sid x + 1), snd res)
  else
    let res := keep d (dstep_live d (Started (fresh_tid d))) in
    (mk_rd (fst res) 0 (rd_sid x), snd res).

Definition rd_script_finished (x : rdstate) (r : Scripts.exec_result) : rdstate :=
  let d := release (rd_d x) in
  mk_rd (fst (keep d (dstep_live d (ScriptFinished (rd_sid x) (to_result r)))))
        (rd_left x) (rd_sid x + 1).

Definition real_disp (p : option no_tests) : Scripts.disp :=
  {| Scripts.d_state := rdstate;
     Scripts.d_cancelled := fun x => is_some (d_cancel (rd_d x));
     Scripts.d_failed_scripts := fun x => failed_setup_script_count (d_stats (rd_d x));
     Scripts.d_unit_start := rd_unit_start;
     Scripts.d_script_finished := rd_script_finished;
     Scripts.d_exit := fun x => exit_code (summarize_final (d_stats (rd_d x))) p |}.

(* the dispatcher as TestRunnerInner::execute creates it, facing [nscripts] enabled scripts *)
Definition real_init (initial_run_count : N) (mf : option N) (nscripts : N) : rdstate :=
  mk_rd (init initial_run_count mf false) nscripts 0.
