(* Compilation and evaluation of filtersets (nextest-filtering/src/compile.rs, expression.rs),
   and an independent set semantics [denote]. Executable definitions only ([denote] is a Prop).

   External engines are never axioms: the regex and glob engines are fields of an [engines]
   record, the package graph is a [world] record; both are supplied per case by the harness as
   finite tables and universally quantified in the theorems. *)
From NextestModel Require Import Base.Str Model.FiltersetAst.
Open Scope N_scope.

Record engines := mkengines {
  regex_match : str -> str -> bool;    (* pattern text, input *)
  glob_match : str -> str -> bool      (* glob text, input *)
}.

Record world := mkworld {
  w_pkgs : list (N * str);             (* workspace packages: id, name *)
  w_depends_on : N -> N -> bool;       (* guppy DependsCache::depends_on a b *)
  w_binary_names : list str;           (* ParseContextCache::binary_names *)
  w_binary_ids : list str              (* ParseContextCache::binary_ids *)
}.

(* NameMatcher::is_match *)
Definition matcher_match (E : engines) (m : matcher) (input : str) : bool :=
  match m with
  | MEqual s _ => str_eqb s input
  | MContains s _ => is_infix s input
  | MGlob g _ => glob_match E g input
  | MRegex r => regex_match E r input
  end.

(* ---------------------------------------------------------------- compile.rs *)

Definition matching_pkgs (E : engines) (W : world) (m : matcher) : list (N * str) :=
  filter (fun p => matcher_match E m (snd p)) (w_pkgs W).

(* matching_packages / dependencies_packages / rdependencies_packages *)
Definition pkgs_of (E : engines) (W : world) (m : matcher) : list N :=
  map fst (matching_pkgs E W m).
Definition deps_of (E : engines) (W : world) (m : matcher) : list N :=
  map fst (filter (fun p2 => existsb (fun p1 => w_depends_on W (fst p1) (fst p2))
                                     (matching_pkgs E W m)) (w_pkgs W)).
Definition rdeps_of (E : engines) (W : world) (m : matcher) : list N :=
  map fst (filter (fun p2 => existsb (fun p1 => w_depends_on W (fst p2) (fst p1))
                                     (matching_pkgs E W m)) (w_pkgs W)).

Definition compile_set (E : engines) (W : world) (d : setdef) : leaf :=
  match d with
  | SPackage m => LPackages (pkgs_of E W m)
  | SDeps m => LPackages (deps_of E W m)
  | SRdeps m => LPackages (rdeps_of E W m)
  | SKind m => LKind m
  | SBinary m => LBinary m
  | SBinaryId m => LBinaryId m
  | SPlatform p => LPlatform p
  | STest m => LTest m
  | SDefault => LDefault
  | SAll => LAll
  | SNone => LNone
  end.

(* compile_expr: difference becomes intersection with the complement, parentheses vanish *)
Fixpoint compile (E : engines) (W : world) (e : pexpr) : cexpr :=
  match e with
  | PNot _ a => CNot (compile E W a)
  | PUnion _ a b => CUnion (compile E W a) (compile E W b)
  | PInter _ a b => CInter (compile E W a) (compile E W b)
  | PDiff _ a b => CInter (compile E W a) (CNot (compile E W b))
  | PParens a => compile E W a
  | PSet d => CSet (compile_set E W d)
  end.

(* the checks compile() makes besides building the tree: banned default() in a default-filter
   expression, and the NoPackageMatch / NoBinaryNameMatch / NoBinaryIdMatch errors *)
Definition nonempty {A} (l : list A) : bool := match l with [] => false | _ => true end.
Definition set_compiles (E : engines) (W : world) (default_filter_kind : bool) (d : setdef) : bool :=
  match d with
  | SPackage m => nonempty (pkgs_of E W m)
  | SDeps m => nonempty (deps_of E W m)
  | SRdeps m => nonempty (rdeps_of E W m)
  | SBinary m => existsb (matcher_match E m) (w_binary_names W)
  | SBinaryId m => existsb (matcher_match E m) (w_binary_ids W)
  | SDefault => negb default_filter_kind
  | _ => true
  end.
Fixpoint compiles (E : engines) (W : world) (dk : bool) (e : pexpr) : bool :=
  match e with
  | PNot _ a | PParens a => compiles E W dk a
  | PUnion _ a b | PInter _ a b | PDiff _ a b => compiles E W dk a && compiles E W dk b
  | PSet d => set_compiles E W dk d
  end.

(* ---------------------------------------------------------------- expression.rs *)

Fixpoint mem_N (x : N) (l : list N) : bool :=
  match l with [] => false | y :: l' => (x =? y) || mem_N x l' end.

(* FiltersetLeaf::matches_test; [dt] is the default filter's matches_test (EvalContext) *)
Definition leaf_test (E : engines) (dt : tquery -> bool) (l : leaf) (q : tquery) : bool :=
  let bq := fst q in
  match l with
  | LAll => true
  | LNone => false
  | LDefault => dt q
  | LTest m => matcher_match E m (snd q)
  | LBinary m => matcher_match E m (q_binary_name bq)
  | LBinaryId m => matcher_match E m (q_binary_id bq)
  | LPlatform p => platform_eqb (q_platform bq) p
  | LKind m => matcher_match E m (q_kind bq)
  | LPackages ids => mem_N (q_pkg bq) ids
  end.

(* FiltersetLeaf::matches_binary; [db] is the default filter's matches_binary *)
Definition leaf_binary (E : engines) (db : bquery -> option bool) (l : leaf) (bq : bquery)
  : option bool :=
  match l with
  | LAll => Some true
  | LNone => Some false
  | LDefault => db bq
  | LTest _ => None
  | LBinary m => Some (matcher_match E m (q_binary_name bq))
  | LBinaryId m => Some (matcher_match E m (q_binary_id bq))
  | LPlatform p => Some (platform_eqb (q_platform bq) p)
  | LKind m => Some (matcher_match E m (q_kind bq))
  | LPackages ids => Some (mem_N (q_pkg bq) ids)
  end.

(* impl Logic for Option<bool> (Kleene) *)
Definition k_and (a b : option bool) : option bool :=
  match a, b with
  | Some false, _ | _, Some false => Some false
  | Some true, Some true => Some true
  | _, _ => None
  end.
Definition k_or (a b : option bool) : option bool :=
  match a, b with
  | Some true, _ | _, Some true => Some true
  | Some false, Some false => Some false
  | _, _ => None
  end.
Definition k_not (a : option bool) : option bool := option_map negb a.

(* CompiledExpr::matches_test *)
Fixpoint eval_test (E : engines) (dt : tquery -> bool) (e : cexpr) (q : tquery) : bool :=
  match e with
  | CSet l => leaf_test E dt l q
  | CNot a => negb (eval_test E dt a q)
  | CUnion a b => eval_test E dt a q || eval_test E dt b q
  | CInter a b => eval_test E dt a q && eval_test E dt b q
  end.

(* CompiledExpr::matches_binary *)
Fixpoint eval_binary (E : engines) (db : bquery -> option bool) (e : cexpr) (bq : bquery)
  : option bool :=
  match e with
  | CSet l => leaf_binary E db l bq
  | CNot a => k_not (eval_binary E db a bq)
  | CUnion a b => k_or (eval_binary E db a bq) (eval_binary E db b bq)
  | CInter a b => k_and (eval_binary E db a bq) (eval_binary E db b bq)
  end.

(* EvalContext { default_filter = d } where d itself contains no default() (banned for the
   default-filter kind): evaluation of d does not consult an inner default *)
Definition ctx_test (E : engines) (d : cexpr) : tquery -> bool :=
  eval_test E (fun _ => true) d.
Definition ctx_binary (E : engines) (d : cexpr) : bquery -> option bool :=
  eval_binary E (fun _ => None) d.

(* ---------------------------------------------------------------- set semantics (specification)
   Written from the documentation (site/src/docs/filtersets/reference.md): each predicate is a
   set of tests, the operators are complement, union, intersection and difference. *)

Definition in_set (E : engines) (W : world) (dt : tquery -> bool) (d : setdef) (q : tquery) : Prop :=
  let bq := fst q in
  match d with
  | SPackage m =>
      exists p, In p (w_pkgs W) /\ matcher_match E m (snd p) = true /\ fst p = q_pkg bq
  | SDeps m =>
      exists p1 p2, In p1 (w_pkgs W) /\ In p2 (w_pkgs W) /\ matcher_match E m (snd p1) = true /\
                    w_depends_on W (fst p1) (fst p2) = true /\ fst p2 = q_pkg bq
  | SRdeps m =>
      exists p1 p2, In p1 (w_pkgs W) /\ In p2 (w_pkgs W) /\ matcher_match E m (snd p1) = true /\
                    w_depends_on W (fst p2) (fst p1) = true /\ fst p2 = q_pkg bq
  | SKind m => matcher_match E m (q_kind bq) = true
  | SBinary m => matcher_match E m (q_binary_name bq) = true
  | SBinaryId m => matcher_match E m (q_binary_id bq) = true
  | SPlatform p => q_platform bq = p
  | STest m => matcher_match E m (snd q) = true
  | SDefault => dt q = true
  | SAll => True
  | SNone => False
  end.

Fixpoint denote (E : engines) (W : world) (dt : tquery -> bool) (e : pexpr) (q : tquery) : Prop :=
  match e with
  | PNot _ a => ~ denote E W dt a q
  | PUnion _ a b => denote E W dt a q \/ denote E W dt b q
  | PInter _ a b => denote E W dt a q /\ denote E W dt b q
  | PDiff _ a b => denote E W dt a q /\ ~ denote E W dt b q
  | PParens a => denote E W dt a q
  | PSet d => in_set E W dt d q
  end.

(* erase operator spellings and parentheses tags: what an expression means cannot depend on
   either (C05_spelling_irrelevant) *)
Fixpoint normalize_ops (e : pexpr) : pexpr :=
  match e with
  | PNot _ a => PNot NotLiteral (normalize_ops a)
  | PUnion _ a b => PUnion OrLiteral (normalize_ops a) (normalize_ops b)
  | PInter _ a b => PInter AndLiteral (normalize_ops a) (normalize_ops b)
  | PDiff _ a b => PDiff DiffMinus (normalize_ops a) (normalize_ops b)
  | PParens a => PParens (normalize_ops a)
  | PSet d => PSet d
  end.

(* finite tables for the per-case oracles: association lists with a default *)
Fixpoint lookup2 (tbl : list (str * str * bool)) (a b : str) : bool :=
  match tbl with
  | [] => false
  | (x, y, v) :: t => if str_eqb x a && str_eqb y b then v else lookup2 t a b
  end.
Definition engines_of_tables (rx gl : list (str * str * bool)) : engines :=
  mkengines (lookup2 rx) (lookup2 gl).
Definition mem_pair (tbl : list (N * N)) (a b : N) : bool :=
  existsb (fun p => (fst p =? a) && (snd p =? b)) tbl.

(* ---------------------------------------------------------------- the documented sets
   A second specification, written from site/src/docs/filtersets/reference.md alone and sharing
   none of the definitions the implementation model decides with: no [matcher_match], no
   [w_depends_on].  The package graph is a direct-dependency relation [direct a b] ("package a
   lists b as a dependency"); "possibly transitive" is its reflexive-transitive closure
   (Coq.Relations [clos_refl_trans]).  Only the two external engines (regex crate, globset) and
   the list of workspace packages are shared.

   reference.md:  `=string` equality -- "match a package or test name that's equal to string";
   `~string` contains -- "containing string"; `/regex/`, `#glob` -- the engines;
   package(m) "all tests in packages (crates) matching m";
   deps(m)  "all tests in crates matching m, and all of their (possibly transitive) dependencies";
   rdeps(m) "all tests in crates matching m, and all the crates that (possibly transitively)
            depend on m";
   &, and intersection; |, +, or union; not, ! "everything not included in set";
   - "everything in set1 that isn't in set2"; (set) "everything in set". *)
From Coq Require Import Relations.Relation_Operators.

Definition doc_name_match (E : engines) (m : matcher) (s : str) : Prop :=
  match m with
  | MEqual x _ => s = x
  | MContains x _ => exists before after, s = before ++ x ++ after
  | MGlob g _ => glob_match E g s = true
  | MRegex r => regex_match E r s = true
  end.

Definition doc_set (direct : N -> N -> Prop) (E : engines) (W : world) (dt : tquery -> bool)
           (d : setdef) (q : tquery) : Prop :=
  let bq := fst q in
  match d with
  | SAll => True
  | SNone => False
  | STest m => doc_name_match E m (snd q)
  | SPackage m =>
      exists name, In (q_pkg bq, name) (w_pkgs W) /\ doc_name_match E m name
  | SDeps m =>      (* a matching crate x, and the test's crate is x or a transitive dependency of x *)
      exists x name, In (x, name) (w_pkgs W) /\ doc_name_match E m name /\
                     clos_refl_trans N direct x (q_pkg bq)
  | SRdeps m =>     (* a matching crate x, and the test's crate is x or transitively depends on x *)
      exists x name, In (x, name) (w_pkgs W) /\ doc_name_match E m name /\
                     clos_refl_trans N direct (q_pkg bq) x
  | SBinaryId m => doc_name_match E m (q_binary_id bq)
  | SKind m => doc_name_match E m (q_kind bq)
  | SBinary m => doc_name_match E m (q_binary_name bq)
  | SPlatform p => q_platform bq = p
  | SDefault => dt q = true
  end.

Fixpoint spec_member (direct : N -> N -> Prop) (E : engines) (W : world) (dt : tquery -> bool)
         (e : pexpr) (q : tquery) : Prop :=
  match e with
  | PNot _ a => ~ spec_member direct E W dt a q
  | PUnion _ a b => spec_member direct E W dt a q \/ spec_member direct E W dt b q
  | PInter _ a b => spec_member direct E W dt a q /\ spec_member direct E W dt b q
  | PDiff _ a b => spec_member direct E W dt a q /\ ~ spec_member direct E W dt b q
  | PParens a => spec_member direct E W dt a q
  | PSet d => doc_set direct E W dt d q
  end.

(* what ties guppy's depends_on table to the graph: on workspace packages it answers exactly
   "a is b or transitively depends on b" *)
Definition graph_ok (direct : N -> N -> Prop) (W : world) : Prop :=
  forall a b, In a (map fst (w_pkgs W)) -> In b (map fst (w_pkgs W)) ->
    (w_depends_on W a b = true <-> clos_refl_trans N direct a b).

(* a test belongs to a workspace package *)
Definition query_ok (W : world) (q : tquery) : Prop :=
  In (q_pkg (fst q)) (map fst (w_pkgs W)).
