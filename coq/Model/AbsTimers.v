(* The pause-relevant abstraction of a unit (C12): numbers are erased, what remains is finite:
   phase x paused flag of each clock x a few booleans x what the dispatcher has sent so far.
   [explore] computes the set of abstract states reachable under every request sequence the
   dispatcher can produce; [cert] checks that this set is closed and that no transition out of
   it panics or violates the pause / resume postconditions.  Executable definitions only. *)
From NextestModel Require Import Base.Str Model.Clocks Model.UnitTimers.
From Coq Require Import MSets.MSetPositive PArith.
Open Scope N_scope.

(* what the dispatcher has sent to this unit so far *)
Inductive jc := JNone | JStop | JCont.
Inductive sh := Sh0 | Sh1 | Sh2.
Record tracker := { t_jc : jc; t_sh : sh }.

(* the dispatcher alternates Stop and Continue (it debounces both on its own stopwatch); a unit
   may join at any point of that alternation; shutdown requests come as Once then Twice (a third
   signal panics the dispatcher itself) *)
Definition env_ok (t : tracker) (e : aevent) : bool :=
  match e with
  | AReq RStop => match t_jc t with JStop => false | _ => true end
  | AReq RContinue => match t_jc t with JCont => false | _ => true end
  | AReq (RShutdown (Once _)) => match t_sh t with Sh0 => true | _ => false end
  | AReq (RShutdown Twice) => match t_sh t with Sh1 => true | _ => false end
  | _ => true
  end.
Definition env_next (t : tracker) (e : aevent) : tracker :=
  match e with
  | AReq RStop => {| t_jc := JStop; t_sh := t_sh t |}
  | AReq RContinue => {| t_jc := JCont; t_sh := t_sh t |}
  | AReq (RShutdown (Once _)) => {| t_jc := t_jc t; t_sh := Sh1 |}
  | AReq (RShutdown Twice) => {| t_jc := t_jc t; t_sh := Sh2 |}
  | _ => t
  end.

(* erase numbers *)
Definition zsw (w : swc) : swc := {| act := 0; spaused := spaused w |}.
Definition zsl (s : slc) : slc := {| rem := 0; lpaused := lpaused s |}.
Definition zclocks (c : clocks) : clocks :=
  {| k_sw := zsw (k_sw c); k_isl := zsl (k_isl c); k_gsl := zsl (k_gsl c); k_wsw := zsw (k_wsw c);
     k_dsl := zsl (k_dsl c); k_dwsw := zsw (k_dwsw c) |}.
Definition abs_state (s : ustate) : ustate :=
  mk (ph s) (zclocks (ck s)) (slc_new 0) 0 (timed_out s) false (reaped s) false false (fds_done s).
Definition abs_cfg (g0 : bool) : ucfg :=
  {| period := 0; terminate_after := None; grace := if g0 then 0 else 1; leak_timeout := 0 |}.

(* the non-numeric part of [annotate]'s enabledness conditions *)
Definition aguard (s : ustate) (e : aevent) : bool :=
  match e with
  | AFireInterval _ =>
      match ph s with PRunning => negb (lpaused (k_isl (ck s))) && negb (timed_out s) | _ => false end
  | AFireGrace =>
      match ph s with PTerminating _ => negb (lpaused (k_gsl (ck s))) | _ => false end
  | AFireLeak => match ph s with PExiting => negb (fds_done s) | _ => false end
  | _ => true
  end.

Record astate := { a_u : ustate; a_t : tracker; a_g0 : bool }.

(* one abstract step; events the environment cannot produce, or whose guard is false, are
   self-loops *)
Definition astep (tbl : ptable) (a : astate) (e : aevent) : outcome astate :=
  if env_ok (a_t a) e && aguard (a_u a) e then
    match ucore tbl (abs_cfg (a_g0 a)) (a_u a) e with
    | Ok r => Ok {| a_u := abs_state (fst r); a_t := env_next (a_t a) e; a_g0 := a_g0 a |}
    | Panicked => Panicked
    end
  else Ok a.

Definition aevents : list aevent :=
  [ATick 0; AFireInterval true; AFireInterval false; AFireGrace; AFireLeak;
   AChildExit true; AChildExit false; AFdsDone;
   AReq RStop; AReq RContinue;
   AReq (RShutdown (Once SInt)); AReq (RShutdown (Once STerm)); AReq (RShutdown (Once SHup));
   AReq (RShutdown (Once SQuit)); AReq (RShutdown Twice); AReq ROtherCancel; AReq RGetInfo].

Definition ainit (g0 : bool) : astate :=
  {| a_u := abs_state (uinit (abs_cfg g0)); a_t := {| t_jc := JNone; t_sh := Sh0 |}; a_g0 := g0 |}.

(* ---- coding of abstract states as positives (used only as set keys; nothing relies on
   injectivity) *)
Definition bN (b : bool) : N := if b then 1 else 0.
Definition phase_code (p : phase) : N :=
  match p with PRunning => 0 | PTerminating TTimeout => 1 | PTerminating TSignal => 2
             | PSyncWait => 3 | PExiting => 4 | PDone => 5 end.
Definition code (a : astate) : positive :=
  let u := a_u a in let c := ck u in
  let bits := [bN (spaused (k_sw c)); bN (lpaused (k_isl c)); bN (lpaused (k_gsl c));
               bN (spaused (k_wsw c)); bN (lpaused (k_dsl c)); bN (spaused (k_dwsw c));
               bN (timed_out u); bN (reaped u); bN (fds_done u); bN (a_g0 a)] in
  let n := fold_left (fun acc b => 2 * acc + b) bits 0 in
  let n := 6 * n + phase_code (ph u) in
  let n := 3 * n + match t_jc (a_t a) with JNone => 0 | JStop => 1 | JCont => 2 end in
  let n := 3 * n + match t_sh (a_t a) with Sh0 => 0 | Sh1 => 1 | Sh2 => 2 end in
  N.succ_pos n.

(* ---- postconditions *)
Definition owned_paused (u : ustate) : bool :=
  match ph u with
  | PRunning => spaused (k_sw (ck u)) && lpaused (k_isl (ck u))
  | PTerminating _ => spaused (k_sw (ck u)) && lpaused (k_gsl (ck u)) && spaused (k_wsw (ck u))
  | _ => true
  end.
Definition owned_running (u : ustate) : bool :=
  match ph u with
  | PRunning => negb (spaused (k_sw (ck u))) && negb (lpaused (k_isl (ck u)))
  | PTerminating _ =>
      negb (spaused (k_sw (ck u))) && negb (lpaused (k_gsl (ck u))) && negb (spaused (k_wsw (ck u)))
  | _ => true
  end.
Definition sent (outs : list uout) (s : usig) : bool :=
  existsb (fun o => match o, s with
                    | OSignal SigTstp, SigTstp => true | OSignal SigCont, SigCont => true
                    | _, _ => false end) outs.
Definition acked (outs : list uout) : bool :=
  existsb (fun o => match o with OAck => true | _ => false end) outs.

(* what must hold of the transition a --e--> (the wait loops that handle job control are the
   running and terminating loops; the leak-drain loop and the synchronous wait are reported
   separately, see [leak_ignores_stop]) *)
Definition trans_ok (tbl : ptable) (a : astate) (e : aevent) : bool :=
  if env_ok (a_t a) e && aguard (a_u a) e then
    match ucore tbl (abs_cfg (a_g0 a)) (a_u a) e with
    | Panicked => false
    | Ok r =>
        let u' := abs_state (fst r) in
        match e, ph (a_u a) with
        | AReq RStop, (PRunning | PTerminating _) =>
            owned_paused u' && acked (snd r) && (reaped (a_u a) || sent (snd r) SigTstp)
        | AReq RContinue, (PRunning | PTerminating _) =>
            owned_running u' &&
            (match t_jc (a_t a) with JStop => reaped (a_u a) || sent (snd r) SigCont | _ => true end)
        | _, _ => true
        end
    end
  else true.

(* ---- exploration *)
Definition pset := PositiveSet.t.

Fixpoint explore (fuel : nat) (tbl : ptable) (work : list astate) (seen : pset) : pset :=
  match fuel with
  | O => seen
  | S f =>
      match work with
      | [] => seen
      | a :: rest =>
          let '(work', seen') :=
            fold_left (fun (acc : list astate * pset) e =>
                         match astep tbl a e with
                         | Ok a' => if PositiveSet.mem (code a') (snd acc) then acc
                                    else (a' :: fst acc, PositiveSet.add (code a') (snd acc))
                         | Panicked => acc
                         end) aevents (rest, seen) in
          explore f tbl work' seen'
      end
  end.

Definition reach_set (tbl : ptable) : pset :=
  let i0 := ainit false in let i1 := ainit true in
  explore 200000 tbl [i0; i1]
          (PositiveSet.add (code i0) (PositiveSet.add (code i1) PositiveSet.empty)).

(* ---- complete enumeration of abstract states *)
Definition bools : list bool := [false; true].
Definition phases : list phase :=
  [PRunning; PTerminating TTimeout; PTerminating TSignal; PSyncWait; PExiting; PDone].
Definition jcs : list jc := [JNone; JStop; JCont].
Definition shs : list sh := [Sh0; Sh1; Sh2].

Definition mk_astate (p : phase) (b1 b2 b3 b4 b5 b6 bt br bf g0 : bool) (j : jc) (s : sh) : astate :=
  {| a_u := mk p {| k_sw := {| act := 0; spaused := b1 |}; k_isl := {| rem := 0; lpaused := b2 |};
                    k_gsl := {| rem := 0; lpaused := b3 |}; k_wsw := {| act := 0; spaused := b4 |};
                    k_dsl := {| rem := 0; lpaused := b5 |}; k_dwsw := {| act := 0; spaused := b6 |} |}
                 (slc_new 0) 0 bt false br false false bf;
     a_t := {| t_jc := j; t_sh := s |}; a_g0 := g0 |}.

Definition all_astates : list astate :=
  flat_map (fun p => flat_map (fun b1 => flat_map (fun b2 => flat_map (fun b3 =>
  flat_map (fun b4 => flat_map (fun b5 => flat_map (fun b6 => flat_map (fun bt =>
  flat_map (fun br => flat_map (fun bf => flat_map (fun g0 => flat_map (fun j =>
  map (fun s => mk_astate p b1 b2 b3 b4 b5 b6 bt br bf g0 j s) shs)
  jcs) bools) bools) bools) bools) bools) bools) bools) bools) bools) bools) phases.

(* the certificate: S contains both initial states, and from every abstract state that is in S
   every transition is acceptable and lands in S *)
Definition cert_with (tbl : ptable) (S : pset) : bool :=
  PositiveSet.mem (code (ainit false)) S && PositiveSet.mem (code (ainit true)) S &&
  forallb (fun a =>
             implb (PositiveSet.mem (code a) S)
                   (forallb (fun e => trans_ok tbl a e &&
                                      match astep tbl a e with
                                      | Ok a' => PositiveSet.mem (code a') S
                                      | Panicked => false
                                      end) aevents)) all_astates.

Definition cert (tbl : ptable) : bool := cert_with tbl (reach_set tbl).

(* ---- diagnosis: a shortest event path from an initial state to a bad transition *)
Fixpoint find_bad (fuel : nat) (tbl : ptable) (work : list (astate * list aevent)) (seen : pset)
  : option (list aevent) :=
  match fuel with
  | O => None
  | S f =>
      match work with
      | [] => None
      | (a, path) :: rest =>
          match find (fun e => negb (trans_ok tbl a e)) aevents with
          | Some e => Some (rev (e :: path))
          | None =>
              let '(new, seen') :=
                fold_left (fun (acc : list (astate * list aevent) * pset) e =>
                             match astep tbl a e with
                             | Ok a' => if PositiveSet.mem (code a') (snd acc) then acc
                                        else ((a', e :: path) :: fst acc,
                                              PositiveSet.add (code a') (snd acc))
                             | Panicked => acc
                             end) aevents ([], seen) in
              (* breadth first: new states go to the back *)
              find_bad f tbl (rest ++ rev new) seen'
          end
      end
  end.

Definition first_bad (tbl : ptable) : option (list aevent) :=
  let i0 := ainit false in let i1 := ainit true in
  find_bad 200000 tbl [(i0, []); (i1, [])]
           (PositiveSet.add (code i0) (PositiveSet.add (code i1) PositiveSet.empty)).

(* numeric rendering of a path for the harness *)
Definition aevent_code (e : aevent) : N :=
  match e with
  | ATick _ => 0 | AFireInterval true => 1 | AFireInterval false => 2 | AFireGrace => 3
  | AFireLeak => 4 | AChildExit true => 5 | AChildExit false => 6 | AFdsDone => 7
  | AReq RStop => 8 | AReq RContinue => 9
  | AReq (RShutdown (Once SInt)) => 10 | AReq (RShutdown (Once STerm)) => 11
  | AReq (RShutdown (Once SHup)) => 12 | AReq (RShutdown (Once SQuit)) => 13
  | AReq (RShutdown Twice) => 14 | AReq ROtherCancel => 15 | AReq RGetInfo => 16
  end.
Definition first_bad_codes (tbl : ptable) : list N :=
  match first_bad tbl with
  | None => []
  | Some p => 100 :: map aevent_code p
  end.
