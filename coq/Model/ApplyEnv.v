(* What SetupScriptExecuteData::apply writes to a test's command (C18: "the environment a setup script defines reaches the
   tests its rule matches"): for every script that ran, in run order, if its rule matches the test, EVERY (key, value) of
   its environment map, in the map's order -- each one a Command::env call, which sets or overwrites the variable. No
   key is skipped because the command already carries a value for it. Polymorphic in scripts, keys and values.
   Executable definitions only. *)
From Coq Require Import List.
Import ListNotations.

Definition env_writes {S K V : Type} (enabled : S -> bool) (data : list (S * list (K * V))) : list (K * V) :=
  flat_map (fun d => if enabled (fst d) then snd d else []) data.
