(* The set-up of the child process of one test attempt between TestInstance::make_command and the
   spawn, as the ordered list of calls made on the std::process::Command ("method", arguments), and
   what property C15 (with C09 / C11 for the process group and C16 / C08 for the streams) asks of it:

   * the command comes from make_command (argv, directory, cargo [env], build-script and package
     variables: Model/Command.v make_command_assignments) BEFORE anything else is set, so that what
     nextest sets afterwards is "not overridden by the inherited environment or by Cargo's [env]"
   * then exactly the five per-attempt variables of Model/Command.v [executor_layer], in that order,
     then the setup-script variables ([ac_setup_env]: `apply`), as in [test_assignments]
   * "with standard input connected to the null device" -- for EVERY capture strategy
   * "as leader of its own process group" -- for EVERY capture strategy (C09 / C11 signal the group)
   * standard output / error: left alone with --no-capture, both piped when captured separately,
     one shared pipe (setup_io) when captured as one stream
   * the spawn is the last call

   An argument is the literal written in the source, a `T::f()` constructor, or "?" for anything
   computed. Proofs/GenBridge.v proves [setup_ok] of the list regenerated from
   ExecutorContext::run_test_inner + TestCommand::spawn + test_command::imp::spawn +
   os::set_process_group, for every capture strategy. Executable definitions only. *)
From Coq Require Import List Bool Strings.String.
From NextestModel Require Import Model.CliRun.
Import ListNotations.
Local Open Scope string_scope.

Definition call := (string * list string)%type.

Fixpoint strs_eqb (a b : list string) : bool :=
  match a, b with
  | [], [] => true
  | x :: a', y :: b' => String.eqb x y && strs_eqb a' b'
  | _, _ => false
  end.

Definition call_eqb (a b : call) : bool := String.eqb (fst a) (fst b) && strs_eqb (snd a) (snd b).

Definition has_call (c : call) (t : list call) : bool := existsb (call_eqb c) t.
Definition has_method (m : string) (t : list call) : bool := existsb (fun c => String.eqb (fst c) m) t.

(* the variables assigned with `env`, in order *)
Definition env_keys (t : list call) : list string :=
  flat_map (fun c : call => if String.eqb (fst c) "env" then match snd c with k :: _ => [k] | [] => [] end else []) t.

(* the methods called, in order *)
Definition methods (t : list call) : list string := map fst t.

(* the keys of Model/Command.v executor_layer *)
Definition executor_env_keys : list string :=
  ["__NEXTEST_ATTEMPT"; "NEXTEST_RUN_ID"; "NEXTEST_TEST_GLOBAL_SLOT"; "NEXTEST_TEST_GROUP"; "NEXTEST_TEST_GROUP_SLOT"].

Definition stdin_null (t : list call) : bool := has_call ("stdin", ["Stdio::null()"]) t.
Definition own_process_group (t : list call) : bool := has_call ("process_group", ["0"]) t.

Definition streams_ok (cap : capture) (t : list call) : bool :=
  match cap with
  | CapNone => negb (has_method "stdout" t) && negb (has_method "stderr" t) && negb (has_method "setup_io" t)
  | CapSplit =>
      has_call ("stdout", ["Stdio::piped()"]) t && has_call ("stderr", ["Stdio::piped()"]) t
      && negb (has_method "setup_io" t)
  | CapCombined => has_method "setup_io" t
  end.

(* what is left of a list after the first element satisfying p (None: there is none) *)
Fixpoint after_first {A : Type} (p : A -> bool) (l : list A) : option (list A) :=
  match l with
  | [] => None
  | x :: r => if p x then Some r else after_first p r
  end.

(* the setup-script variables are applied after the last per-attempt variable *)
Definition apply_after_env (t : list call) : bool :=
  match after_first (fun c : call => String.eqb (fst c) "apply") t with
  | Some rest => negb (has_method "env" rest)
  | None => false
  end.

Definition starts_with_make_command (t : list call) : bool :=
  match t with c :: _ => call_eqb c ("new", ["make_command"]) | [] => false end.

Definition ends_with_spawn (t : list call) : bool :=
  match rev t with c :: _ => String.eqb (fst c) "spawn" | [] => false end.

Definition setup_ok (cap : capture) (t : list call) : bool :=
  starts_with_make_command t
  && strs_eqb (env_keys t) executor_env_keys
  && apply_after_env t
  && stdin_null t
  && own_process_group t
  && streams_ok cap t
  && ends_with_spawn t.
