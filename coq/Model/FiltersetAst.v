(* Abstract syntax of filtersets (nextest-filtering): NameMatcher, SetDef, ParsedExpr with its
   operator-spelling tags, FiltersetLeaf and CompiledExpr. Source spans are not modelled.
   Definitions only; kept small and stable (imported by the C04, C05 and C20 developments). *)
From NextestModel Require Import Base.Str.
Open Scope N_scope.

(* expression.rs: enum NameMatcher. The [implicit] flag records that the matcher kind was the
   predicate's default rather than written with = ~ #; a regex is always explicit. Glob and
   regex carry their source text, the engines are oracles (Model/Filterset.v). *)
Inductive matcher :=
| MEqual (s : str) (implicit : bool)
| MContains (s : str) (implicit : bool)
| MGlob (s : str) (implicit : bool)
| MRegex (s : str).

Inductive platform := PTarget | PHost.

(* parsing.rs: enum SetDef, in declaration order *)
Inductive setdef :=
| SPackage (m : matcher)
| SDeps (m : matcher)
| SRdeps (m : matcher)
| SKind (m : matcher)
| SBinary (m : matcher)
| SBinaryId (m : matcher)
| SPlatform (p : platform)
| STest (m : matcher)
| SDefault
| SAll
| SNone.

(* operator spellings: NotOperator, OrOperator, AndOperator, DifferenceOperator *)
Inductive not_op := NotLiteral | NotBang.            (* "not "  "!" *)
Inductive or_op := OrLiteral | OrPipe | OrPlus.      (* "or "  "|"  "+" *)
Inductive and_op := AndLiteral | AndAmp.             (* "and "  "&" *)
Inductive diff_op := DiffMinus.                      (* "-" *)

(* parsing.rs: enum ParsedExpr *)
Inductive pexpr :=
| PNot (op : not_op) (e : pexpr)
| PUnion (op : or_op) (a b : pexpr)
| PInter (op : and_op) (a b : pexpr)
| PDiff (op : diff_op) (a b : pexpr)
| PParens (e : pexpr)
| PSet (d : setdef).

(* expression.rs: enum FiltersetLeaf (package ids are numbers) and enum CompiledExpr *)
Inductive leaf :=
| LPackages (ids : list N)
| LKind (m : matcher)
| LPlatform (p : platform)
| LBinary (m : matcher)
| LBinaryId (m : matcher)
| LTest (m : matcher)
| LDefault
| LAll
| LNone.

Inductive cexpr :=
| CNot (e : cexpr)
| CUnion (a b : cexpr)
| CInter (a b : cexpr)
| CSet (l : leaf).

(* BinaryQuery / TestQuery *)
Record bquery := mkbq {
  q_pkg : N;              (* package id *)
  q_binary_id : str;
  q_binary_name : str;
  q_kind : str;
  q_platform : platform
}.
Definition tquery := (bquery * str)%type.   (* binary query, test name *)

Definition platform_eqb (a b : platform) : bool :=
  match a, b with PTarget, PTarget | PHost, PHost => true | _, _ => false end.
