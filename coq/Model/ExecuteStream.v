(* From the test list to the scheduler (C01 / C02 / C08 / C14): what TestList::run_count, TestPriorityQueue::new and the
   two stages TestRunnerInner::execute puts in front of future_queue_grouped do with the listed tests, written from the
   property texts:

     C02 "every selected test runs ...; unselected tests never run" and C01 "initial_run_count = the number of selected
     tests": a test is selected iff its filter match is Matches -- EVERY mismatch reason (ignored, name, expression,
     partition, default filter) makes it unselected;
     the priority queue holds every listed test, selected or not; the stream reports an unselected one as Skipped and
     never hands it to the scheduler; a selected one is handed to the scheduler with weight = its threads-required
     computed against the runner's thread count (C08: "each capped at the test-thread count" is the QUEUE's job, the
     weight is not pre-capped by the group) and its test group.

   [queue_src] is the [rc_src] of Model/Run.v. Executable definitions only. *)
From Coq Require Import List NArith Bool.
From NextestModel Require Import Base.Str Model.Filter Model.FutureQueue Model.Unit Model.Run Model.CliRun.
Import ListNotations.
Open Scope N_scope.

(* a listed test: its id, its filter verdict, its threads-required setting and its test group *)
Record listed := mk_listed { l_id : N; l_match : fmatch; l_threads : threads_required; l_group : option N }.

Definition is_selected (l : listed) : bool :=
  match l_match l with Matches => true | Mismatch _ => false end.

Definition selected (ls : list listed) : list listed := filter is_selected ls.
Definition unselected (ls : list listed) : list listed := filter (fun l => negb (is_selected l)) ls.

(* TestList::run_count = what DispatcherContext::new stores as initial_run_count *)
Definition run_count (ls : list listed) : N := N.of_nat (length (selected ls)).

(* what the stream does with one entry of the priority queue: Skipped and dropped, or an item of the scheduler *)
Definition stream_entry (runner_threads ncpus : N) (l : listed) : src_entry :=
  if is_selected l
  then SrcSel (mkitem (l_id l) (threads_required_weight (l_threads l) runner_threads ncpus) (l_group l))
  else SrcUnsel (l_id l).

(* the source of Model/Run.v's composition: every listed test, in queue order *)
Definition queue_src (runner_threads ncpus : N) (ls : list listed) : list src_entry :=
  map (stream_entry runner_threads ncpus) ls.

(* per entry: is a Skipped event sent, is something handed to the scheduler *)
Definition entry_skipped (e : src_entry) : bool := match e with SrcUnsel _ => true | SrcSel _ => false end.
Definition entry_item (e : src_entry) : option item := match e with SrcSel it => Some it | SrcUnsel _ => None end.
