(* One attempt of one unit under the dispatcher *and nextest's own stop*, with a monitor that does the
   bookkeeping the multi-step statements of C09 / C11 / C12 talk about (Properties/C09.v, C12.v).

   The environment ([senv], [senv_ok]) -- read from dispatcher.rs, DispatcherContext::run:
   * Stop and Continue alternate, Shutdown comes Once then Twice ([AbsTimers.env_ok]; proved of the
     dispatcher model in Proofs/DispatcherEnv.v);
   * the JobControl(Stop) arm broadcasts Stop, waits at most 100 ms for the acknowledgements and
     then calls raise_stop() (SIGSTOP to nextest itself: every thread, so every unit task, is
     frozen); the dispatcher handles nothing else in between (the arm is one sequential block), so
     no request can be delivered between the Stop and the self-stop. While nextest is stopped,
     wall-clock time passes (any number of [Tick]s) and nothing else happens to the unit. At SIGCONT
     the process runs again: signals that were sent to it while it was stopped are now pending
     together with the continue signal, and the signal stream map hands them to the dispatcher in
     either order; unit tasks may also see their child's exit or a pipe closing before the
     dispatcher has broadcast Continue. All of that happens at (what the model takes as) the
     instant of the resumption.
     Hence: *inside a stopped window -- after a delivered Stop and before the matching Continue --
     once anything other than the passage of time has happened, no more time passes until the
     Continue* ([e_quiet]). This is the premise the audit's counterexample
     [Tick 1; Req RStop; Req (RShutdown (Once SInt)); Tick 7; FireGrace] violates (a request
     processed by a frozen process, followed by 7 units of frozen time).
   * Not covered, as in Model/UnitLife.v: events of the unit in the <= 100 ms between its handling of
     Stop and raise_stop() that are followed by stopped time (finding F16's window), and a unit too
     busy to handle Stop within the 100 ms. Both are excluded by the premise, explicitly.

   The monitor ([mstate]) counts unpaused time (time received while no Stop is outstanding) in
   total, in the running / terminating loops, and since the current termination began; it logs
   every output with the event and phase that produced it and those counters.
   [m_bad]: a Stop was delivered while the unit was in a loop that ignores job control (leak
   drain, the synchronous wait after a zero-grace kill, or after the end): known finding F12.
   Executable definitions only. *)
From NextestModel Require Import Base.Str Model.Clocks Model.UnitTimers Model.AbsTimers.
From Coq Require Import MSets.MSetPositive.
Open Scope N_scope.

Record senv := { e_t : tracker; e_quiet : bool }.
Definition senv0 : senv := {| e_t := {| t_jc := JNone; t_sh := Sh0 |}; e_quiet := false |}.

Definition stopped (x : senv) : bool := match t_jc (e_t x) with JStop => true | _ => false end.
Definition no_shutdown_yet (x : senv) : bool := match t_sh (e_t x) with Sh0 => true | _ => false end.

(* requests as the tracker sees them (every other event leaves the tracker alone) *)
Definition areq_of (e : uevent) : aevent := match e with Req r => AReq r | _ => ATick 0 end.

Definition senv_ok (x : senv) (e : uevent) : bool :=
  env_ok (e_t x) (areq_of e) &&
  match e with
  | Tick dt => negb (stopped x && e_quiet x) || (dt =? 0)
  | _ => true
  end.

Definition senv_next (x : senv) (e : uevent) : senv :=
  {| e_t := env_next (e_t x) (areq_of e);
     e_quiet := match e with
                | Tick _ => e_quiet x
                | Req RStop | Req RContinue => false
                | _ => stopped x
                end |}.

Fixpoint senv_trace (x : senv) (es : list uevent) : bool :=
  match es with
  | [] => true
  | e :: es' => senv_ok x e && senv_trace (senv_next x e) es'
  end.

(* ---------------------------------------------------------------- the monitor *)
Record mentry := {
  le_ev : uevent;      (* the event whose handling produced the output *)
  le_ph : phase;       (* the loop the unit was in *)
  le_out : uout;
  le_rt : N;           (* unpaused time spent in the running / terminating loops so far *)
  le_gun : N;          (* unpaused time since the current termination began *)
  le_exited : bool;    (* the child's exit had been observed before *)
  le_sh0 : bool }.     (* no shutdown request had been delivered before *)

Record mstate := {
  m_u : ustate;
  m_x : senv;
  m_upt : N;           (* unpaused time since the attempt began *)
  m_rt : N;            (* ... of which in the running / terminating loops *)
  m_gun : N;           (* unpaused time since the current termination began *)
  m_bad : bool;        (* Stop delivered in a loop that ignores job control (F12 class) *)
  m_late : bool;       (* time was allowed to pass beyond the slow-timeout deadline without the expiry
                          being delivered (only the "if" half of C09_slow_iff needs this to be false) *)
  m_log : list mentry  (* most recent first *) }.

Definition minit (cfg : ucfg) : mstate :=
  {| m_u := uinit cfg; m_x := senv0; m_upt := 0; m_rt := 0; m_gun := 0; m_bad := false;
     m_late := false; m_log := [] |}.

Definition tick_of_u (e : uevent) : N := match e with Tick dt => dt | _ => 0 end.
Definition rt_phase (p : phase) : bool :=
  match p with PRunning | PTerminating _ => true | _ => false end.
Definition jc_ignored (p : phase) : bool :=
  match p with PExiting | PSyncWait | PDone => true | _ => false end.
Definition is_stop_req (e : uevent) : bool := match e with Req RStop => true | _ => false end.

Inductive mres := MOk (m : mstate) | MPanic | MEnvBad.

(* [chk = false] runs the unit without the environment check (used only by closed examples that show
   why the premise is needed) *)
Definition mstep (chk : bool) (tbl : ptable) (cfg : ucfg) (m : mstate) (e : uevent) : mres :=
  if negb chk || senv_ok (m_x m) e then
    match ustep tbl cfg (m_u m) e with
    | Panicked => MPanic
    | Ok (u', outs) =>
        let u := m_u m in
        let un := if stopped (m_x m) then 0 else tick_of_u e in
        let rt' := m_rt m + (if rt_phase (ph u) then un else 0) in
        let entering := negb (is_terminating (ph u)) && is_terminating (ph u') in
        let gun_now := m_gun m + un in
        MOk {| m_u := u'; m_x := senv_next (m_x m) e;
               m_upt := m_upt m + un; m_rt := rt';
               m_gun := if entering then 0 else gun_now;
               m_bad := m_bad m || (jc_ignored (ph u) && is_stop_req e);
               m_late := m_late m ||
                         (match ph u with PRunning => true | _ => false end && negb (timed_out u) &&
                          negb (lpaused (k_isl (ck u))) && (rem (k_isl (ck u)) <? tick_of_u e));
               m_log := rev (map (fun o => {| le_ev := e; le_ph := ph u; le_out := o; le_rt := rt';
                                              le_gun := gun_now; le_exited := reaped u;
                                              le_sh0 := no_shutdown_yet (m_x m) |}) outs)
                        ++ m_log m |}
    end
  else MEnvBad.

Fixpoint mrun (chk : bool) (tbl : ptable) (cfg : ucfg) (m : mstate) (es : list uevent) : mres :=
  match es with
  | [] => MOk m
  | e :: es' =>
      match mstep chk tbl cfg m e with
      | MOk m' => mrun chk tbl cfg m' es'
      | r => r
      end
  end.

(* ---------------------------------------------------------------- erasing stop / continue blocks
   A *pure block* is a Stop, any number of Ticks, the Continue. [erase_blocks] removes every pure
   block that begins before the first shutdown request; blocks inside which something else
   happens (a request handled on resumption, the child's exit, ...) are kept. *)
Fixpoint erase_aux (buf : option (list uevent)) (es : list uevent) : list uevent :=
  match es with
  | [] => match buf with Some b => rev b | None => [] end
  | e :: es' =>
      match buf with
      | None =>
          match e with
          | Req RStop => erase_aux (Some [e]) es'
          | Req (RShutdown _) => e :: es'
          | _ => e :: erase_aux None es'
          end
      | Some b =>
          match e with
          | Tick _ => erase_aux (Some (e :: b)) es'
          | Req RContinue => erase_aux None es'
          | Req (RShutdown _) => rev b ++ e :: es'
          | _ => rev b ++ e :: erase_aux None es'
          end
      end
  end.
Definition erase_blocks (es : list uevent) : list uevent := erase_aux None es.

(* what job control itself puts out *)
Definition is_jc_out (o : uout) : bool :=
  match o with OSignal SigTstp | OSignal SigCont | OAck => true | _ => false end.
Definition strip_jc (outs : list uout) : list uout := filter (fun o => negb (is_jc_out o)) outs.

(* the slow-timeout interval sleep is dead once the attempt has been (or is being) terminated for a
   timeout: the expiry branch is disabled by [status.is_none()] *)
Definition isl_dead (s : ustate) : bool :=
  timed_out s || match ph s with PTerminating TTimeout => true | _ => false end.
Definition forget_isl_rem (s : ustate) : ustate :=
  with_ck s (set_isl (ck s) {| rem := 0; lpaused := lpaused (k_isl (ck s)) |}).

(* ---------------------------------------------------------------- block certificate
   A finite check on the abstract states of a certificate set S: from every state of S in the
   running or terminating loop, with no Stop outstanding and no shutdown request delivered yet, a
   Stop followed by the Continue brings every clock's pause flag back to what it was. (With
   [cert_with] -- the owned clocks are paused in between -- and the fact that the table's
   operations never touch a number, this makes a pure block invisible.) *)
Definition flags_eqb (c d : clocks) : bool :=
  Bool.eqb (spaused (k_sw c)) (spaused (k_sw d)) && Bool.eqb (lpaused (k_isl c)) (lpaused (k_isl d)) &&
  Bool.eqb (lpaused (k_gsl c)) (lpaused (k_gsl d)) && Bool.eqb (spaused (k_wsw c)) (spaused (k_wsw d)) &&
  Bool.eqb (lpaused (k_dsl c)) (lpaused (k_dsl d)) && Bool.eqb (spaused (k_dwsw c)) (spaused (k_dwsw d)).

Definition block_ok (tbl : ptable) (a : astate) : bool :=
  if rt_phase (ph (a_u a)) && negb (match t_jc (a_t a) with JStop => true | _ => false end) &&
     match t_sh (a_t a) with Sh0 => true | _ => false end
  then match astep tbl a (AReq RStop) with
       | Ok a1 => match astep tbl a1 (AReq RContinue) with
                  | Ok a2 => flags_eqb (ck (a_u a2)) (ck (a_u a))
                  | Panicked => false
                  end
       | Panicked => false
       end
  else true.

Definition block_cert (tbl : ptable) (S : pset) : bool :=
  forallb (fun a => implb (PositiveSet.mem (code a) S) (block_ok tbl a)) all_astates.
