(* TestBuildFilter::make_test_filter_builder / merge_test_binary_args
   (cargo-nextest/src/dispatch.rs): emulation of the libtest arguments given after `--`.
   Executable definitions only.

   [pre] are the name filters given before `--`, [args] is everything after the first `--`
   (clap `last = true`), [ri0] is the value of --run-ignored if given. *)
From NextestModel Require Import Base.Str Model.Filter Model.NameFilter.
Open Scope N_scope.

Definition dash : N := 45.
Definition s_dashdash : str := [45; 45].
Definition s_exact : str := [45; 45; 101; 120; 97; 99; 116].
Definition s_skip : str := [45; 45; 115; 107; 105; 112].
Definition s_ignored : str := [45; 45; 105; 103; 110; 111; 114; 101; 100].
Definition s_include_ignored : str :=
  [45; 45; 105; 110; 99; 108; 117; 100; 101; 45; 105; 103; 110; 111; 114; 101; 100].

Definition starts_with_dash (a : str) : bool :=
  match a with c :: _ => c =? dash | [] => false end.

(* the four reasons of ExpectedError::TestBinaryArgsParseError *)
Inductive cli_error := EDuplicated | EMissingArg | EMutuallyExclusive | EUnsupported.

Inductive cli_result :=
| CliOk (ri : option run_ignored) (p : patterns)
| CliErr (e : cli_error).

(* first scan: is `--exact` given before a second `--`? None = given twice *)
Fixpoint scan_exact (args : list str) (seen : bool) : option bool :=
  match args with
  | [] => Some seen
  | a :: rest =>
      if str_eqb a s_dashdash then Some seen
      else if str_eqb a s_exact then (if seen then None else scan_exact rest true)
      else scan_exact rest seen
  end.

Record cli_state := {
  cs_pats : patterns;
  cs_ign : list run_ignored;      (* ignore_filters, in order of appearance *)
  cs_unsupported : bool           (* unsupported_args is non-empty *)
}.

(* the main loop; None = `--skip` without its argument *)
Fixpoint cli_loop (is_exact : bool) (args : list str) (trailing : bool) (st : cli_state)
  : option cli_state :=
  match args with
  | [] => Some st
  | a :: rest =>
      if trailing || negb (starts_with_dash a) then
        cli_loop is_exact rest trailing
          {| cs_pats := if is_exact then add_exact (cs_pats st) a else add_substring (cs_pats st) a;
             cs_ign := cs_ign st; cs_unsupported := cs_unsupported st |}
      else if str_eqb a s_include_ignored then
        cli_loop is_exact rest trailing
          {| cs_pats := cs_pats st; cs_ign := cs_ign st ++ [RIAll];
             cs_unsupported := cs_unsupported st |}
      else if str_eqb a s_ignored then
        cli_loop is_exact rest trailing
          {| cs_pats := cs_pats st; cs_ign := cs_ign st ++ [RIOnly];
             cs_unsupported := cs_unsupported st |}
      else if str_eqb a s_dashdash then cli_loop is_exact rest true st
      else if str_eqb a s_skip then
        match rest with
        | [] => None
        | x :: rest' =>
            cli_loop is_exact rest' trailing
              {| cs_pats := if is_exact then add_skip_exact (cs_pats st) x
                            else add_skip (cs_pats st) x;
                 cs_ign := cs_ign st; cs_unsupported := cs_unsupported st |}
        end
      else if str_eqb a s_exact then cli_loop is_exact rest trailing st
      else
        cli_loop is_exact rest trailing
          {| cs_pats := cs_pats st; cs_ign := cs_ign st; cs_unsupported := true |}
  end.

Definition ri_eqb (a b : run_ignored) : bool :=
  match a, b with
  | RIDefault, RIDefault | RIOnly, RIOnly | RIAll, RIAll => true
  | _, _ => false
  end.

(* the loop over ignore_filters: the first one is accepted only if --run-ignored was not given,
   any further one is an error *)
Fixpoint merge_ignored (ri : option run_ignored) (fs : list run_ignored)
  : option run_ignored + cli_error :=
  match fs with
  | [] => inl ri
  | f :: rest =>
      match ri with
      | Some r => inr (if ri_eqb r f then EDuplicated else EMutuallyExclusive)
      | None => merge_ignored (Some f) rest
      end
  end.

Definition merge_test_binary_args (ri0 : option run_ignored) (pre args : list str) : cli_result :=
  match scan_exact args false with
  | None => CliErr EDuplicated
  | Some is_exact =>
      match cli_loop is_exact args false
              {| cs_pats := patterns_new pre; cs_ign := []; cs_unsupported := false |} with
      | None => CliErr EMissingArg
      | Some st =>
          match merge_ignored ri0 (cs_ign st) with
          | inr e => CliErr e
          | inl ri => if cs_unsupported st then CliErr EUnsupported else CliOk ri (cs_pats st)
          end
      end
  end.

(* run_ignored.unwrap_or_default() in make_test_filter_builder *)
Definition effective_ri (ri : option run_ignored) : run_ignored :=
  match ri with Some r => r | None => RIDefault end.
