(* One attempt of one unit (test or setup script) from spawn to result: the wait loops of
   run_test_inner / run_setup_script_inner (executor.rs), terminate_child (unix.rs),
   detect_fd_leaks, and handle_delay_between_attempts, as a state machine over explicit events.
   What each loop does on a Stop / Continue request is a *parameter* (the pause table), which
   gen/GenPauseTable.v regenerates from the Rust source on every run.
   Executable definitions only. *)
From NextestModel Require Import Base.Str Model.Clocks.
Open Scope N_scope.

(* ---------------------------------------------------------------- pause table *)
Inductive clk := KSw | KInterval | KGrace | KWait | KDelay | KDelayWait.
Inductive pop := Pause (k : clk) | Resume (k : clk) | GroupStop | GroupCont | Ack.
Inductive pstmt :=
| Do (o : pop)
| IfPaused (k : clk) (body : list pop)
| IfNotPaused (k : clk) (body : list pop).
Definition arm := list pstmt.
Record ptable := {
  t_run_stop : arm; t_run_cont : arm;
  t_term_stop : arm; t_term_cont : arm;
  t_delay_stop : arm; t_delay_cont : arm;
  t_leak_stop : arm; t_leak_cont : arm }.

(* ---------------------------------------------------------------- vocabulary *)
Inductive shut := SInt | STerm | SHup | SQuit.
Inductive shutreq := Once (s : shut) | Twice.
Inductive usig := SigInt | SigTerm | SigHup | SigQuit | SigKill | SigTstp | SigCont.
Inductive ureq := RStop | RContinue | RShutdown (r : shutreq) | ROtherCancel | RGetInfo.
Inductive treason := TTimeout | TSignal.
Inductive phase := PRunning | PTerminating (r : treason) | PSyncWait | PExiting | PDone.
Inductive itag := IRunning | ITerminating | IExiting | IDelay.
Inductive uout :=
| OSignal (s : usig)          (* kill(-pgid, s) *)
| OSlow (will_terminate : bool)
| OAck
| OInfo (i : itag).

Inductive uevent :=
| Tick (dt : N)
| FireInterval | FireGrace | FireLeak
| ChildExit (ok : bool)        (* the child.wait() branch of the current loop is taken *)
| FdsDone                      (* both pipes reached EOF *)
| Req (r : ureq).

Record ucfg := { period : N; terminate_after : option N; grace : N; leak_timeout : N }.

Record clocks := { k_sw : swc; k_isl : slc; k_gsl : slc; k_wsw : swc; k_dsl : slc; k_dwsw : swc }.

Definition clk_paused (c : clocks) (k : clk) : bool :=
  match k with
  | KSw => spaused (k_sw c) | KInterval => lpaused (k_isl c) | KGrace => lpaused (k_gsl c)
  | KWait => spaused (k_wsw c) | KDelay => lpaused (k_dsl c) | KDelayWait => spaused (k_dwsw c)
  end.

Definition set_sw c v := {| k_sw := v; k_isl := k_isl c; k_gsl := k_gsl c; k_wsw := k_wsw c; k_dsl := k_dsl c; k_dwsw := k_dwsw c |}.
Definition set_isl c v := {| k_sw := k_sw c; k_isl := v; k_gsl := k_gsl c; k_wsw := k_wsw c; k_dsl := k_dsl c; k_dwsw := k_dwsw c |}.
Definition set_gsl c v := {| k_sw := k_sw c; k_isl := k_isl c; k_gsl := v; k_wsw := k_wsw c; k_dsl := k_dsl c; k_dwsw := k_dwsw c |}.
Definition set_wsw c v := {| k_sw := k_sw c; k_isl := k_isl c; k_gsl := k_gsl c; k_wsw := v; k_dsl := k_dsl c; k_dwsw := k_dwsw c |}.
Definition set_dsl c v := {| k_sw := k_sw c; k_isl := k_isl c; k_gsl := k_gsl c; k_wsw := k_wsw c; k_dsl := v; k_dwsw := k_dwsw c |}.
Definition set_dwsw c v := {| k_sw := k_sw c; k_isl := k_isl c; k_gsl := k_gsl c; k_wsw := k_wsw c; k_dsl := k_dsl c; k_dwsw := v |}.

Definition clk_pause (c : clocks) (k : clk) : outcome clocks :=
  match k with
  | KSw => obind (swc_pause (k_sw c)) (fun v => Ok (set_sw c v))
  | KInterval => obind (slc_pause (k_isl c)) (fun v => Ok (set_isl c v))
  | KGrace => obind (slc_pause (k_gsl c)) (fun v => Ok (set_gsl c v))
  | KWait => obind (swc_pause (k_wsw c)) (fun v => Ok (set_wsw c v))
  | KDelay => obind (slc_pause (k_dsl c)) (fun v => Ok (set_dsl c v))
  | KDelayWait => obind (swc_pause (k_dwsw c)) (fun v => Ok (set_dwsw c v))
  end.
Definition clk_resume (c : clocks) (k : clk) : outcome clocks :=
  match k with
  | KSw => obind (swc_resume (k_sw c)) (fun v => Ok (set_sw c v))
  | KInterval => obind (slc_resume (k_isl c)) (fun v => Ok (set_isl c v))
  | KGrace => obind (slc_resume (k_gsl c)) (fun v => Ok (set_gsl c v))
  | KWait => obind (swc_resume (k_wsw c)) (fun v => Ok (set_wsw c v))
  | KDelay => obind (slc_resume (k_dsl c)) (fun v => Ok (set_dsl c v))
  | KDelayWait => obind (swc_resume (k_dwsw c)) (fun v => Ok (set_dwsw c v))
  end.

Definition clocks_tick (dt : N) (c : clocks) : clocks :=
  {| k_sw := swc_tick dt (k_sw c); k_isl := slc_tick dt (k_isl c); k_gsl := slc_tick dt (k_gsl c);
     k_wsw := swc_tick dt (k_wsw c); k_dsl := slc_tick dt (k_dsl c); k_dwsw := swc_tick dt (k_dwsw c) |}.

(* the grace sleep and the waiting stopwatch exist only inside terminate_child; the delay clocks
   belong to the retry-delay loop (ticked by [dstep]) *)
Definition unit_tick (terminating : bool) (dt : N) (c : clocks) : clocks :=
  {| k_sw := swc_tick dt (k_sw c); k_isl := slc_tick dt (k_isl c);
     k_gsl := if terminating then slc_tick dt (k_gsl c) else k_gsl c;
     k_wsw := if terminating then swc_tick dt (k_wsw c) else k_wsw c;
     k_dsl := k_dsl c; k_dwsw := k_dwsw c |}.
Definition is_terminating (p : phase) : bool := match p with PTerminating _ => true | _ => false end.

(* job_control_child only signals while the child has not been reaped *)
Definition exec_pop (reaped : bool) (c : clocks) (o : pop) : outcome (clocks * list uout) :=
  match o with
  | Pause k => obind (clk_pause c k) (fun c' => Ok (c', []))
  | Resume k => obind (clk_resume c k) (fun c' => Ok (c', []))
  | GroupStop => Ok (c, if reaped then [] else [OSignal SigTstp])
  | GroupCont => Ok (c, if reaped then [] else [OSignal SigCont])
  | Ack => Ok (c, [OAck])
  end.

Fixpoint exec_pops (reaped : bool) (c : clocks) (os : list pop) : outcome (clocks * list uout) :=
  match os with
  | [] => Ok (c, [])
  | o :: os' =>
      obind (exec_pop reaped c o) (fun r1 =>
      obind (exec_pops reaped (fst r1) os') (fun r2 => Ok (fst r2, snd r1 ++ snd r2)))
  end.

Fixpoint exec_arm (reaped : bool) (c : clocks) (a : arm) : outcome (clocks * list uout) :=
  match a with
  | [] => Ok (c, [])
  | st :: a' =>
      let body := match st with
                  | Do o => [o]
                  | IfPaused k b => if clk_paused c k then b else []
                  | IfNotPaused k b => if clk_paused c k then [] else b
                  end in
      obind (exec_pops reaped c body) (fun r1 =>
      obind (exec_arm reaped (fst r1) a') (fun r2 => Ok (fst r2, snd r1 ++ snd r2)))
  end.

(* ---------------------------------------------------------------- the unit *)
Record ustate := {
  ph : phase;
  ck : clocks;
  lsl : slc;              (* leak-detection sleep (a plain tokio sleep: never paused) *)
  hits : N;               (* timeout_hit *)
  timed_out : bool;       (* status = Some(Timeout) *)
  slow : bool;            (* cx.slow_after is set *)
  reaped : bool;          (* child.wait() has completed: child.id() is None *)
  exit_ok : bool;         (* exit status of the child was success *)
  leaked : bool;
  fds_done : bool }.

Definition mk ph ck lsl hits timed_out slow reaped exit_ok leaked fds_done : ustate :=
  {| ph := ph; ck := ck; lsl := lsl; hits := hits; timed_out := timed_out; slow := slow;
     reaped := reaped; exit_ok := exit_ok; leaked := leaked; fds_done := fds_done |}.

Definition with_ph (s : ustate) p := mk p (ck s) (lsl s) (hits s) (timed_out s) (slow s) (reaped s) (exit_ok s) (leaked s) (fds_done s).
Definition with_ck (s : ustate) c := mk (ph s) c (lsl s) (hits s) (timed_out s) (slow s) (reaped s) (exit_ok s) (leaked s) (fds_done s).
Definition with_lsl (s : ustate) l := mk (ph s) (ck s) l (hits s) (timed_out s) (slow s) (reaped s) (exit_ok s) (leaked s) (fds_done s).
Definition with_hits (s : ustate) h := mk (ph s) (ck s) (lsl s) h (timed_out s) (slow s) (reaped s) (exit_ok s) (leaked s) (fds_done s).
Definition with_timed_out (s : ustate) b := mk (ph s) (ck s) (lsl s) (hits s) b (slow s) (reaped s) (exit_ok s) (leaked s) (fds_done s).
Definition with_slow (s : ustate) b := mk (ph s) (ck s) (lsl s) (hits s) (timed_out s) b (reaped s) (exit_ok s) (leaked s) (fds_done s).
Definition with_reaped (s : ustate) b ok := mk (ph s) (ck s) (lsl s) (hits s) (timed_out s) (slow s) b ok (leaked s) (fds_done s).
Definition with_leaked (s : ustate) b := mk (ph s) (ck s) (lsl s) (hits s) (timed_out s) (slow s) (reaped s) (exit_ok s) b (fds_done s).
Definition with_fds_done (s : ustate) b := mk (ph s) (ck s) (lsl s) (hits s) (timed_out s) (slow s) (reaped s) (exit_ok s) (leaked s) b.

Definition clocks_init (cfg : ucfg) : clocks :=
  {| k_sw := swc_new; k_isl := slc_new (period cfg); k_gsl := slc_new 0; k_wsw := swc_new;
     k_dsl := slc_new 0; k_dwsw := swc_new |}.

Definition uinit (cfg : ucfg) : ustate :=
  mk PRunning (clocks_init cfg) (slc_new (leak_timeout cfg)) 0 false false false false false false.

Definition sig_of_shut (s : shut) : usig :=
  match s with SInt => SigInt | STerm => SigTerm | SHup => SigHup | SQuit => SigQuit end.

(* timeout_terminate_method / shutdown_terminate_method *)
Definition timeout_method (cfg : ucfg) : usig := if grace cfg =? 0 then SigKill else SigTerm.
Definition shutdown_method (cfg : ucfg) (r : shutreq) : usig :=
  if grace cfg =? 0 then SigKill
  else match r with Once s => sig_of_shut s | Twice => SigKill end.

Definition is_kill (s : usig) : bool := match s with SigKill => true | _ => false end.

(* terminate_child entered from the running loop *)
Definition enter_terminate (cfg : ucfg) (s : ustate) (r : treason) (method : usig)
  : ustate * list uout :=
  if reaped s then
    (* child.id() is None: returns Exited at once *)
    (match r with TTimeout => with_timed_out s true | TSignal => s end, [])
  else if is_kill method then
    let s1 := match r with TTimeout => with_timed_out s true | TSignal => s end in
    (* for a timeout with a zero grace period the loop then does `break child.wait().await` *)
    (match r with
     | TTimeout => if grace cfg =? 0 then with_ph s1 PSyncWait else s1
     | TSignal => s1
     end, [OSignal SigKill])
  else
    let c := set_wsw (set_gsl (ck s) (slc_new (grace cfg))) swc_new in
    (with_ph (with_ck s c) (PTerminating r), [OSignal method]).

(* leaving terminate_child (Exited or Killed) back to the running loop *)
(* the child's exit is observed by the running loop: detect_fd_leaks returns at once when both
   pipes are already closed *)
Definition after_exit (s : ustate) : phase := if fds_done s then PDone else PExiting.

Definition leave_terminate (s : ustate) (r : treason) : ustate :=
  let s1 := match r with TTimeout => with_timed_out s true | TSignal => s end in
  with_ph s1 PRunning.

Definition will_terminate (cfg : ucfg) (h : N) : bool :=
  match terminate_after cfg with Some ta => ta <=? h | None => false end.

(* events annotated with the outcome of the numeric tests, so that the control flow of [ucore]
   never inspects a number (this is what makes the pause-relevant abstraction finite) *)
Inductive aevent :=
| ATick (dt : N)
| AFireInterval (wt : bool)    (* the interval elapsed; wt = will_terminate *)
| AFireGrace | AFireLeak
| AChildExit (ok : bool)
| AFdsDone
| AReq (r : ureq).

Definition ucore (tbl : ptable) (cfg : ucfg) (s : ustate) (e : aevent)
  : outcome (ustate * list uout) :=
  match e with
  | ATick dt =>
      Ok (with_lsl (with_ck s (unit_tick (is_terminating (ph s)) dt (ck s)))
                   (match ph s with PExiting => slc_tick dt (lsl s) | _ => lsl s end), [])
  | _ =>
  match ph s with
  | PRunning =>
      match e with
      | AFireInterval wt =>
          let s1 := with_hits (with_slow s true) (hits s + 1) in
          let ev := if grace cfg =? 0 then [] else [OSlow wt] in
          if wt then
            let '(s2, o) := enter_terminate cfg s1 TTimeout (timeout_method cfg) in
            Ok (s2, ev ++ o)
          else
            Ok (with_ck s1 (set_isl (ck s1) (slc_reset (period cfg) (k_isl (ck s1)))), ev)
      | AChildExit ok =>
          Ok (with_ph (with_reaped s true ok) (after_exit s), [])
      | AFdsDone => Ok (with_fds_done s true, [])
      | AReq RStop =>
          obind (exec_arm (reaped s) (ck s) (t_run_stop tbl)) (fun r => Ok (with_ck s (fst r), snd r))
      | AReq RContinue =>
          obind (exec_arm (reaped s) (ck s) (t_run_cont tbl)) (fun r => Ok (with_ck s (fst r), snd r))
      | AReq (RShutdown r) => Ok (enter_terminate cfg s TSignal (shutdown_method cfg r))
      | AReq ROtherCancel => Ok (s, [])
      | AReq RGetInfo => Ok (s, [OInfo IRunning])
      | _ => Ok (s, [])
      end
  | PTerminating r =>
      match e with
      | AFireGrace => Ok (leave_terminate s r, [OSignal SigKill])
      | AChildExit ok => Ok (leave_terminate (with_reaped s true ok) r, [])
      | AFdsDone => Ok (with_fds_done s true, [])
      | AReq RStop =>
          obind (exec_arm (reaped s) (ck s) (t_term_stop tbl)) (fun x => Ok (with_ck s (fst x), snd x))
      | AReq RContinue =>
          obind (exec_arm (reaped s) (ck s) (t_term_cont tbl)) (fun x => Ok (with_ck s (fst x), snd x))
      | AReq (RShutdown _) => Ok (leave_terminate s r, [OSignal SigKill])
      | AReq ROtherCancel => Ok (s, [])
      | AReq RGetInfo => Ok (s, [OInfo ITerminating])
      | _ => Ok (s, [])
      end
  | PSyncWait =>
      (* `break child.wait().await`: nothing but the child's exit is processed *)
      match e with
      | AChildExit ok => Ok (with_ph (with_reaped s true ok) (after_exit s), [])
      | _ => Ok (s, [])
      end
  | PExiting =>
      (* detect_fd_leaks *)
      match e with
      | AFdsDone => Ok (with_ph (with_fds_done s true) PDone, [])
      | AFireLeak => Ok (with_ph (with_leaked s true) PDone, [])
      | AReq RStop =>
          obind (exec_arm (reaped s) (ck s) (t_leak_stop tbl)) (fun x => Ok (with_ck s (fst x), snd x))
      | AReq RContinue =>
          obind (exec_arm (reaped s) (ck s) (t_leak_cont tbl)) (fun x => Ok (with_ck s (fst x), snd x))
      | AReq RGetInfo => Ok (s, [OInfo IExiting])
      | _ => Ok (s, [])
      end
  | PDone => Ok (s, [])
  end
  end.

(* which timer events are enabled, and the annotation of an event, are the only places where
   numbers decide anything *)
Definition annotate (cfg : ucfg) (s : ustate) (e : uevent) : option aevent :=
  match e with
  | Tick dt => Some (ATick dt)
  | FireInterval =>
      match ph s with
      | PRunning => if slc_due (k_isl (ck s)) && negb (timed_out s)
                    then Some (AFireInterval (will_terminate cfg (hits s + 1))) else None
      | _ => None
      end
  | FireGrace =>
      match ph s with
      | PTerminating _ => if slc_due (k_gsl (ck s)) then Some AFireGrace else None
      | _ => None
      end
  | FireLeak =>
      match ph s with
      | PExiting => if slc_due (lsl s) && negb (fds_done s) then Some AFireLeak else None
      | _ => None
      end
  | ChildExit ok => Some (AChildExit ok)
  | FdsDone => Some AFdsDone
  | Req r => Some (AReq r)
  end.

Definition ustep (tbl : ptable) (cfg : ucfg) (s : ustate) (e : uevent)
  : outcome (ustate * list uout) :=
  match annotate cfg s e with
  | Some ae => ucore tbl cfg s ae
  | None => Ok (s, [])
  end.

(* a reaped child inside the running loop: its child.wait() branch is ready; modelled by the
   environment delivering ChildExit again (with the same status) *)

Fixpoint urun (tbl : ptable) (cfg : ucfg) (s : ustate) (es : list uevent)
  : outcome (ustate * list uout) :=
  match es with
  | [] => Ok (s, [])
  | e :: es' =>
      obind (ustep tbl cfg s e) (fun r1 =>
      obind (urun tbl cfg (fst r1) es') (fun r2 => Ok (fst r2, snd r1 ++ snd r2)))
  end.

(* reported result of the attempt *)
Inductive ures := UPass | ULeak | UFail | UTimeout.
Definition uresult (s : ustate) : ures :=
  if timed_out s then UTimeout
  else if exit_ok s then (if leaked s then ULeak else UPass) else UFail.
Definition time_taken (s : ustate) : N := act (k_sw (ck s)).

(* ---------------------------------------------------------------- the retry delay *)
Record dstate := { d_ck : clocks; d_done : bool; d_cancelled : bool }.
Definition dinit (delay : N) : dstate :=
  {| d_ck := set_dwsw (set_dsl (clocks_init {| period := 0; terminate_after := None; grace := 0;
                                              leak_timeout := 0 |}) (slc_new delay)) swc_new;
     d_done := false; d_cancelled := false |}.
Inductive devent := DTick (dt : N) | DFire | DReq (r : ureq).
Definition dstep (tbl : ptable) (s : dstate) (e : devent) : outcome (dstate * list uout) :=
  if d_done s then Ok (s, []) else
  match e with
  | DTick dt => Ok ({| d_ck := clocks_tick dt (d_ck s); d_done := false; d_cancelled := false |}, [])
  | DFire => if slc_due (k_dsl (d_ck s))
             then Ok ({| d_ck := d_ck s; d_done := true; d_cancelled := false |}, [])
             else Ok (s, [])
  | DReq RStop =>
      obind (exec_arm true (d_ck s) (t_delay_stop tbl))
            (fun x => Ok ({| d_ck := fst x; d_done := false; d_cancelled := false |}, snd x))
  | DReq RContinue =>
      obind (exec_arm true (d_ck s) (t_delay_cont tbl))
            (fun x => Ok ({| d_ck := fst x; d_done := false; d_cancelled := false |}, snd x))
  | DReq (RShutdown _) | DReq ROtherCancel =>
      Ok ({| d_ck := d_ck s; d_done := true; d_cancelled := true |}, [])
  | DReq RGetInfo => Ok (s, [OInfo IDelay])
  end.
