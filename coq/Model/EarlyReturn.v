(* When `cargo nextest run` leaves before running anything, with exit code 0 (C01: "the exit code reflects the outcome of
   the run"): only when --no-run was given. Nothing else short-circuits the run: in particular not an empty test list or
   a build without test binaries -- those go through the runner, whose statistics then decide the exit code (no tests
   run: NO_TESTS_RUN unless --no-tests says otherwise). [listed_tests] is an argument on purpose: the answer does not
   depend on it. Executable definitions only. *)
From NextestModel Require Import Base.Str Model.CliRun.
Open Scope N_scope.

Definition returns_before_running (o : run_opts) (listed_tests : N) : bool := o_no_run o.
