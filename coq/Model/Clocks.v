(* Stopwatch and pausable sleep (nextest-runner/src/time/{stopwatch,pausable_sleep}.rs).
   Time is N nanoseconds; the passage of time is an explicit [tick].  Executable definitions only. *)
From NextestModel Require Import Base.Str.
Open Scope N_scope.

Inductive outcome (A : Type) := Ok (a : A) | Panicked.
Arguments Ok {A} a.
Arguments Panicked {A}.

Definition obind {A B} (o : outcome A) (f : A -> outcome B) : outcome B :=
  match o with Ok a => f a | Panicked => Panicked end.

(* ---- the stopwatch as coded: start instant, accumulated paused time, pause state *)
Record stopwatch := { sw_start : N; sw_paused_total : N; sw_paused_at : option N }.

Definition sw_new (now : N) : stopwatch :=
  {| sw_start := now; sw_paused_total := 0; sw_paused_at := None |}.
Definition sw_is_paused (w : stopwatch) : bool :=
  match sw_paused_at w with Some _ => true | None => false end.
Definition sw_pause (now : N) (w : stopwatch) : outcome stopwatch :=
  match sw_paused_at w with
  | None => Ok {| sw_start := sw_start w; sw_paused_total := sw_paused_total w;
                  sw_paused_at := Some now |}
  | Some _ => Panicked
  end.
Definition sw_resume (now : N) (w : stopwatch) : outcome stopwatch :=
  match sw_paused_at w with
  | Some p => Ok {| sw_start := sw_start w; sw_paused_total := sw_paused_total w + (now - p);
                    sw_paused_at := None |}
  | None => Panicked
  end.
(* StopwatchStart::snapshot().active after the F11 repair: an ongoing pause is not counted *)
Definition sw_snapshot (now : N) (w : stopwatch) : N :=
  match sw_paused_at w with
  | Some p => (p - sw_start w) - sw_paused_total w
  | None => (now - sw_start w) - sw_paused_total w
  end.
(* the formula before the repair: instant.elapsed() - paused_time *)
Definition sw_snapshot_unfixed (now : N) (w : stopwatch) : N :=
  (now - sw_start w) - sw_paused_total w.

(* ---- abstract clocks used by the unit model: a stopwatch is (active time, paused?), a pausable
   sleep is (remaining time, paused?); Proofs/Clocks.v relates the stopwatch to the coded one *)
Record swc := { act : N; spaused : bool }.
Record slc := { rem : N; lpaused : bool }.

Definition swc_new : swc := {| act := 0; spaused := false |}.
Definition slc_new (d : N) : slc := {| rem := d; lpaused := false |}.

Definition swc_pause (w : swc) : outcome swc :=
  if spaused w then Panicked else Ok {| act := act w; spaused := true |}.
Definition swc_resume (w : swc) : outcome swc :=
  if spaused w then Ok {| act := act w; spaused := false |} else Panicked.
Definition slc_pause (s : slc) : outcome slc :=
  if lpaused s then Panicked else Ok {| rem := rem s; lpaused := true |}.
Definition slc_resume (s : slc) : outcome slc :=
  if lpaused s then Ok {| rem := rem s; lpaused := false |} else Panicked.
(* reset(duration): running => deadline = now + duration; paused => remaining := duration *)
Definition slc_reset (d : N) (s : slc) : slc := {| rem := d; lpaused := lpaused s |}.

Definition swc_tick (dt : N) (w : swc) : swc :=
  if spaused w then w else {| act := act w + dt; spaused := false |}.
Definition slc_tick (dt : N) (s : slc) : slc :=
  if lpaused s then s else {| rem := rem s - N.min dt (rem s); lpaused := false |}.
(* a sleep can complete only when it is running and nothing remains *)
Definition slc_due (s : slc) : bool := negb (lpaused s) && (rem s =? 0).
