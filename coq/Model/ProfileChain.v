(* Profile inheritance, from the property texts of C06 / C07 ("profile-level values come from the selected profile,
   falling back to the default profile") and the configuration reference: a configuration has the default profile,
   which sets every value, and any number of other profile tables ([profile.ci], [profile.default-miri], ...) in which
   each value is optional. Selecting the profile named "default" selects no other table; selecting ANY other known name --
   the built-in default-miri included, it is a table like every other -- selects that table; an unknown name is an
   error. A profile-level setting of the selected profile is the table's value if it sets one, otherwise the default
   profile's. Polymorphic in the table type, the field and the value: one definition for every setting.
   Executable definitions only. *)
From NextestModel Require Import Base.Str.
Open Scope N_scope.

(* "default" / "default-miri" as code points *)
Definition DEFAULT_NAME : str := [100; 101; 102; 97; 117; 108; 116].
Definition DEFAULT_MIRI_NAME : str := [100; 101; 102; 97; 117; 108; 116; 45; 109; 105; 114; 105].

Fixpoint lookup {P : Type} (name : str) (tables : list (str * P)) : option P :=
  match tables with
  | [] => None
  | (k, p) :: r => if str_eqb k name then Some p else lookup name r
  end.

Inductive selection (P : Type) :=
| SelUnknown                 (* no profile of that name: an error *)
| SelDefault                 (* the default profile on its own: no other table *)
| SelTable (p : P).          (* the table of that name, over the default profile *)
Arguments SelUnknown {P}.
Arguments SelDefault {P}.
Arguments SelTable {P} p.

(* the table selected besides the default profile *)
Definition custom_table {P : Type} (name : str) (tables : list (str * P)) : selection P :=
  if str_eqb name DEFAULT_NAME then SelDefault
  else match lookup name tables with
       | Some p => SelTable p
       | None => SelUnknown
       end.

(* the value of one setting: the selected table's if it sets one, otherwise the default profile's *)
Definition resolve {P V : Type} (field : P -> option V) (custom : option P) (dflt : V) : V :=
  match custom with
  | Some p => match field p with Some v => v | None => dflt end
  | None => dflt
  end.

Definition table_of {P : Type} (s : selection P) : option P :=
  match s with SelTable p => Some p | _ => None end.

(* the setting under the profile of the given name (None: unknown profile) *)
Definition effective {P V : Type} (field : P -> option V) (name : str) (tables : list (str * P)) (dflt : V) : option V :=
  match custom_table name tables with
  | SelUnknown => None
  | s => Some (resolve field (table_of s) dflt)
  end.
