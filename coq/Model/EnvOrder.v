(* The order in which a test process's environment is put together (TestCommand::new, nextest-runner/src/
   test_command.rs), from the property text of C15: every value nextest provides itself (NEXTEST*, CARGO_*, the dynamic
   library path) wins over a value for the same variable that comes from the user or the build -- the [env] table of
   the cargo configuration, OUT_DIR, the rustc-env variables of the build script. std::process::Command::env keeps the
   LAST value written for a variable, so: every user / build source is applied before every source of nextest's own.
   Executable definitions only. *)
From Coq Require Import List NArith Bool.
Import ListNotations.
Open Scope N_scope.

Inductive source :=
| SrcUser        (* provided by the user or the build: config [env], OUT_DIR, build-script rustc-env *)
| SrcNextest     (* provided by nextest: NEXTEST*, CARGO_*, dynamic library path *)
| SrcNeutral     (* not an environment write (Command::new, current_dir) *)
| SrcUnknown.    (* a call this model does not know *)

Definition is_user (s : source) : bool := match s with SrcUser => true | _ => false end.
Definition is_unknown (s : source) : bool := match s with SrcUnknown => true | _ => false end.

(* no user / build source after a source of nextest's own *)
Fixpoint user_before_nextest (l : list source) : bool :=
  match l with
  | [] => true
  | SrcNextest :: r => negb (existsb is_user r) && user_before_nextest r
  | _ :: r => user_before_nextest r
  end.

Definition all_classified (l : list source) : bool := negb (existsb is_unknown l).

(* the writes in the order they are made: (variable, who provides the value); the process sees the last one *)
Definition write := (N * source)%type.
Fixpoint winner (k : N) (ws : list write) : option source :=
  match ws with
  | [] => None
  | (k', s) :: r =>
      match winner k r with
      | Some s' => Some s'
      | None => if k =? k' then Some s else None
      end
  end.
