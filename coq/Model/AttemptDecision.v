(* The decision after each attempt of a test, written from the text of property C07: "A test whose
   policy allows N retries is run again after each failed attempt until an attempt passes or N+1
   attempts have been made -- never after a passing attempt". [passed] is whether the attempt's
   result counts as a pass (ExecutionResult::is_success: pass or leak); every other result kind --
   failure, abort, timeout, failure to start -- is a failed attempt alike.
   Model/Backoff.v's [attempt_loop] (the loop C07's theorems are about) and Model/UnitLife.v's
   [finish_attempt] make exactly this decision (Proofs/AttemptDecision.v); Proofs/GenBridge.v ties
   it to the `if` chain at the end of the loop body of ExecutorContext::run_test_instance.
   Executable definitions only. *)
From Coq Require Import NArith Bool.
Open Scope N_scope.

Inductive after := AFinish | ARetry.

Definition after_attempt (passed : bool) (attempt total : N) : after :=
  if passed then AFinish else if attempt <? total then ARetry else AFinish.
