(* What `cargo nextest run` (and its shortcut `cargo ntr`) builds the test runner from: the
   command-line options that reach the runner, written from the documented behaviour
   (site/src/docs/running.md, configuration reference, `cargo nextest run --help`):

   * --no-capture: "run tests serially and do not capture output" -- whatever the message format;
     otherwise the human format captures stdout and stderr separately, the libtest-json formats
     capture them as one stream
   * --test-threads (-j, NEXTEST_TEST_THREADS) replaces the profile's test-threads; --no-capture
     forces 1
   * --max-fail N beats --no-fail-fast, which beats --fail-fast, which beats the profile's
     fail-fast / max-fail; fail-fast is max-fail = 1, no-fail-fast is max-fail = all
   * --retries N (NEXTEST_RETRIES) replaces every test's retry policy by N retries without delay
   * --no-run builds nothing to run
   * `cargo ntr` is `cargo nextest run`: both leave with the exit status of the run

   Model/RetryResolve.v (C06/C07), Model/Dispatcher.v (C10: max-fail as [option N], None = all) and
   Model/FutureQueue.v (C08: [fq_new test_threads ..]) take these values as parameters; this file
   says where the values come from. Proofs/GenBridge.v ties every definition here to the text of
   cargo-nextest/src/dispatch.rs (App::exec_run, TestRunnerOpts::to_builder, AppOpts::exec,
   NtrOpts::exec) and nextest-runner/src/runner/imp.rs (TestRunnerBuilder::build).
   Executable definitions only. *)
From Coq Require Import NArith ZArith Bool.
From NextestModel Require Import Model.Backoff Model.Result.
Open Scope N_scope.

(* --message-format *)
Inductive msg_format := FHuman | FLibtestJson | FLibtestJsonPlus.

(* how the output of a test process is captured *)
Inductive capture := CapSplit | CapCombined | CapNone.

Definition capture_strategy_of (no_capture : bool) (f : msg_format) : capture :=
  if no_capture then CapNone
  else match f with FHuman => CapSplit | FLibtestJson | FLibtestJsonPlus => CapCombined end.

(* test-threads: a count or "num-cpus" *)
Inductive threads := TCount (n : N) | TNumCpus.

Definition threads_compute (ncpus : N) (t : threads) : N :=
  match t with TCount n => n | TNumCpus => ncpus end.

(* the number of tests the runner runs at a time *)
Definition effective_test_threads (cap : capture) (cli : option threads) (profile : threads)
           (ncpus : N) : N :=
  match cap with
  | CapNone => 1
  | CapSplit | CapCombined =>
      threads_compute ncpus (match cli with Some t => t | None => profile end)
  end.

(* max-fail: Some n = stop after n failures, None = all (Model/Dispatcher.v max_fail_exceeded) *)
Definition from_fail_fast (b : bool) : option N := if b then Some 1 else None.

Definition max_fail_of (max_fail : option (option N)) (no_fail_fast fail_fast : bool)
           (profile : option N) : option N :=
  match max_fail with
  | Some m => m
  | None =>
      if no_fail_fast then from_fail_fast false
      else if fail_fast then from_fail_fast true
      else profile
  end.

(* --retries N / NEXTEST_RETRIES=N (clap has already chosen between the two: Model/RetryResolve.v
   clap_retries) *)
Definition forced_retries (retries : option N) : option policy :=
  match retries with Some n => Some (new_without_delay n) | None => None end.

(* threads-required of one test: a count, "num-cpus" or "num-test-threads"; its weight in the
   queue is computed against the RUNNER's thread count *)
Inductive threads_required := RCount (n : N) | RNumCpus | RNumTestThreads.

Definition threads_required_weight (r : threads_required) (runner_test_threads ncpus : N) : N :=
  match r with
  | RCount n => n
  | RNumCpus => ncpus
  | RNumTestThreads => runner_test_threads
  end.

(* the runner options of the command line *)
Record run_opts := mk_run_opts {
  o_no_run : bool;
  o_test_threads : option threads;
  o_retries : option N;
  o_fail_fast : bool;
  o_no_fail_fast : bool;
  o_max_fail : option (option N) }.

(* what the runner is built with *)
Record runner_settings := mk_runner_settings {
  rs_capture : capture;
  rs_test_threads : N;
  rs_max_fail : option N;
  rs_force_retries : option policy }.

Definition runner_of (o : run_opts) (no_capture : bool) (f : msg_format)
           (profile_threads : threads) (profile_max_fail : option N) (ncpus : N)
  : option runner_settings :=
  if o_no_run o then None
  else
    let cap := capture_strategy_of no_capture f in
    Some {| rs_capture := cap;
            rs_test_threads := effective_test_threads cap (o_test_threads o) profile_threads ncpus;
            rs_max_fail := max_fail_of (o_max_fail o) (o_no_fail_fast o) (o_fail_fast o)
                                       profile_max_fail;
            rs_force_retries := forced_retries (o_retries o) |}.

(* the two ways to start a run; both exit with the status of the run (Model/Result.v exit_code) *)
Inductive entry := EntryNextestRun | EntryNtr.

Definition entry_exit (e : entry) (f : final) (p : option no_tests) : Z := exit_code f p.
