(* Character-level model of the filterset parser (nextest-filtering/src/parsing.rs,
   parsing/unicode_string.rs, parsing/glob.rs) and of the Display impls that print a parsed
   expression back. Executable definitions only.

   The parser mirrors the winnow combinator structure function by function. Conventions:
   - input is a [str] (list of Unicode scalar values); every parser returns its result, the
     remaining input and the errors it reported, in order (the Rust parsers push them into
     State.errors, which is not rolled back on backtracking; no alternative of an `alt` reports an
     error before it backtracks, so "errors of the successful path" is exact);
   - a span is kept as (distance of its start from the end of input in bytes, length in bytes);
     [parse] turns it into (offset, length) once the total length is known;
   - [option] around a whole result means winnow's Backtrack (the caller tries the next
     alternative); inside, an [option pexpr] / [option setdef] / [option matcher] of [None] is
     the Rust ExprResult::Error / None "an error was reported" value;
   - the glob and regex engines are oracles: [glob_ok] and [regex_check] (validity only; match
     results are in Model/Filterset.v). An invalid glob / regex error carries the text that was
     handed to the engine, so that the harness can learn which texts to look up.
   - recursion on the expression grammar is by fuel; running out of fuel is reported as the
     error kind [EOutOfFuel], which Proofs/FiltersetParse.v shows unreachable from [parse]. *)
From NextestModel Require Import Base.Str Model.FiltersetAst.
Open Scope N_scope.

(* ---------------------------------------------------------------- errors and spans *)

Inductive ekind :=
| EInvalidRegex (pat : str)          (* ParseSingleError::InvalidRegex *)
| EInvalidRegexNoMsg (pat : str)     (* InvalidRegexWithoutMessage *)
| EInvalidGlob (g : str)
| EExpectedCloseRegex
| EInvalidOrOperator
| EInvalidAndOperator
| EUnexpectedArgument
| EUnexpectedComma
| EInvalidString
| EExpectedOpenParen
| EExpectedCloseParen
| EInvalidEscape
| EExpectedExpr
| EExpectedEnd
| EInvalidPlatform
| EOutOfFuel.

Record perr := mkperr { pe_kind : ekind; pe_from_end : N; pe_len : N }.

Inductive rxres := RxOk | RxErr (off len : N) | RxErrNoMsg.

Record syntax_oracle := mksyn {
  glob_ok : str -> bool;          (* GenericGlob::new succeeds *)
  regex_check : str -> rxres      (* regex::Regex::new; on failure regex_syntax's error span *)
}.

Definition utf8_len (c : N) : N :=
  if c <? 128 then 1 else if c <? 2048 then 2 else if c <? 65536 then 3 else 4.
Fixpoint blen (s : str) : N :=
  match s with [] => 0 | c :: r => utf8_len c + blen r end.

(* an error whose span starts where [at_] starts *)
Definition err_at (k : ekind) (at_ : str) (len : N) : perr := mkperr k (blen at_) len.

(* ---------------------------------------------------------------- lexical helpers *)

(* ws(): repeat(0.., alt((' ', line_ending))) -- spaces, LF and CRLF; not tabs, not a lone CR *)
Fixpoint ws_skip (s : str) : str :=
  match s with
  | [] => []
  | c :: r =>
      if c =? 32 then ws_skip r
      else if c =? 10 then ws_skip r
      else if c =? 13 then
        match r with
        | d :: r' => if d =? 10 then ws_skip r' else s
        | [] => s
        end
      else s
  end.

Fixpoint strip_prefix (p s : str) : option str :=
  match p, s with
  | [], _ => Some s
  | x :: p', y :: s' => if x =? y then strip_prefix p' s' else None
  | _ :: _, [] => None
  end.

(* expect_char(c, make_err) = expect_inner(ws(c), .., SpanLength::Exact(0)): on failure ws has
   reset the input, nothing is consumed and a zero-length error is reported *)
Definition expect_char (c : N) (k : ekind) (s : str) : str * list perr :=
  match ws_skip s with
  | d :: r => if d =? c then (r, []) else (s, [err_at k s 0])
  | [] => (s, [err_at k s 0])
  end.

(* take_till(0.., ')'): the text before the next ')' (or the end), and the rest *)
Fixpoint till_rparen (s : str) : str * str :=
  match s with
  | [] => ([], [])
  | c :: r => if c =? 41 then ([], s) else let '(a, rest) := till_rparen r in (c :: a, rest)
  end.

(* char::is_whitespace, used by str::trim *)
Definition is_uws (c : N) : bool :=
  ((9 <=? c) && (c <=? 13)) || (c =? 32) || (c =? 133) || (c =? 160) || (c =? 5760) ||
  ((8192 <=? c) && (c <=? 8202)) || (c =? 8232) || (c =? 8233) || (c =? 8239) || (c =? 8287) ||
  (c =? 12288).
Fixpoint trim_start (s : str) : str :=
  match s with c :: r => if is_uws c then trim_start r else s | [] => [] end.
Definition trim (s : str) : str := rev (trim_start (rev (trim_start s))).

(* ---------------------------------------------------------------- unicode_string.rs *)

Definition is_hex (c : N) : bool :=
  ((48 <=? c) && (c <=? 57)) || ((65 <=? c) && (c <=? 70)) || ((97 <=? c) && (c <=? 102)).
Definition hex_val (c : N) : N :=
  if c <=? 57 then c - 48 else if c <=? 70 then c - 55 else c - 87.
Fixpoint take_hex (n : nat) (s : str) : list N :=
  match n, s with
  | S k, c :: r => if is_hex c then c :: take_hex k r else []
  | _, _ => []
  end.
Definition hex_value (ds : list N) : N := fold_left (fun a d => a * 16 + hex_val d) ds 0.
(* std::char::from_u32 *)
Definition valid_scalar (v : N) : bool := (v <? 55296) || ((57344 <=? v) && (v <=? 1114111)).

(* parse_unicode, after the 'u': '{' 1..=6 hex digits '}' denoting a scalar value. Returns the
   character and the number of characters consumed including the 'u'. *)
Definition decode_unicode (r : str) : option (N * nat) :=
  match r with
  | c :: r2 =>
      if c =? 123 then
        let ds := take_hex 6 r2 in
        match ds with
        | [] => None
        | _ :: _ =>
            match skipn (length ds) r2 with
            | d :: _ =>
                if d =? 125 then
                  let v := hex_value ds in
                  if valid_scalar v then Some (v, (3 + length ds)%nat) else None
                else None
            | [] => None
            end
        end
      else None
  | [] => None
  end.

(* the `valid` alternatives of parse_escaped_char, after the backslash *)
Definition esc_decode (r : str) : option (N * nat) :=
  match r with
  | [] => None
  | c :: r1 =>
      if c =? 117 then decode_unicode r1            (* u{..} *)
      else if c =? 110 then Some (10, 1%nat)        (* n *)
      else if c =? 114 then Some (13, 1%nat)        (* r *)
      else if c =? 116 then Some (9, 1%nat)         (* t *)
      else if c =? 98 then Some (8, 1%nat)          (* b *)
      else if c =? 102 then Some (12, 1%nat)        (* f *)
      else if c =? 92 then Some (92, 1%nat)         (* \ *)
      else if c =? 47 then Some (47, 1%nat)         (* / *)
      else if c =? 41 then Some (41, 1%nat)         (* ) *)
      else if c =? 44 then Some (44, 1%nat)         (* , *)
      else None
  end.

(* parse_string: fragments up to the next unescaped ')' or ','. [skip] characters are passed
   over first (the tail of an escape sequence already decoded by look-ahead; this keeps the
   recursion structural). An invalid escape reports InvalidEscapeCharacter with
   SpanLength::Offset(-1, 2) -- from the backslash, at most two bytes, clipped to what follows
   the backslash -- consumes only the backslash, and turns the final value into None. *)
Fixpoint pstr (skip : nat) (s : str) : option str * str * list perr :=
  match s with
  | [] => (Some [], [], [])
  | c :: r =>
      match skip with
      | S k => pstr k r
      | O =>
          if (c =? 44) || (c =? 41) then (Some [], s, [])
          else if c =? 92 then
            match esc_decode r with
            | Some (ch, k) =>
                let '(a, rest, es) := pstr k r in (option_map (cons ch) a, rest, es)
            | None =>
                let '(a, rest, es) := pstr 0 r in
                (None, rest, mkperr EInvalidEscape (blen r + 1) (N.min (blen r) 2) :: es)
            end
          else let '(a, rest, es) := pstr 0 r in (option_map (cons c) a, rest, es)
      end
  end.

(* parse_matcher_text: an empty text is reported (InvalidString, zero length, at the end of the
   text) but still returned *)
Definition pmt (s : str) : option str * str * list perr :=
  let '(res, rest, es) := pstr 0 s in
  (res, rest, es ++ match res with Some [] => [err_at EInvalidString rest 0] | _ => [] end).

Section WithOracle.
Variable SO : syntax_oracle.

(* glob.rs parse_glob(implicit) *)
Definition parse_glob (implicit : bool) (s : str) : option matcher * str * list perr :=
  let '(res, rest, es) := pmt s in
  match res with
  | None => (None, rest, es)
  | Some g =>
      if glob_ok SO g then (Some (MGlob g implicit), rest, es)
      else (None, rest, es ++ [mkperr (EInvalidGlob g) (blen s) (blen s - blen rest)])
  end.

(* parse_regex_inner: up to the closing '/', "\/" denotes '/', any other backslash is kept.
   Fails (None) when the input ends first. Returns the pattern and the rest, which starts
   with '/'. *)
Fixpoint prx (s : str) : option (str * str) :=
  match s with
  | [] => None
  | c :: r =>
      if c =? 47 then Some ([], s)
      else if c =? 92 then
        match r with
        | d :: r' =>
            if d =? 47 then
              match prx r' with Some (p, rest) => Some (47 :: p, rest) | None => None end
            else
              match prx r with Some (p, rest) => Some (92 :: p, rest) | None => None end
        | [] => None
        end
      else match prx r with Some (p, rest) => Some (c :: p, rest) | None => None end
  end.

(* parse_regex (after the opening '/') followed by silent_expect(ws('/')) *)
Definition regex_matcher (s : str) : option matcher * str * list perr :=
  let '(m, rest, es) :=
    match prx s with
    | None =>
        let rest := snd (till_rparen s) in (None, rest, [err_at EExpectedCloseRegex rest 0])
    | Some (p, rest) =>
        match regex_check SO p with
        | RxOk => (Some (MRegex p), rest, [])
        | RxErr off len => (None, rest, [mkperr (EInvalidRegex p) (blen s - off) len])
        | RxErrNoMsg => (None, rest, [mkperr (EInvalidRegexNoMsg p) (blen s) (blen s - blen rest)])
        end
    end in
  let rest' := match ws_skip rest with
               | c :: r => if c =? 47 then r else rest
               | [] => rest
               end in
  (m, rest', es).

Inductive default_matcher := DmEqual | DmContains | DmGlob.

Definition map_text (f : str -> matcher) (r : option str * str * list perr)
  : option matcher * str * list perr :=
  let '(res, rest, es) := r in (option_map f res, rest, es).

(* set_matcher(default) = ws(alt((regex, glob, equal, contains, default))): after the first
   character is seen none of the alternatives can backtrack *)
Definition set_matcher (dm : default_matcher) (s : str) : option matcher * str * list perr :=
  let s1 := ws_skip s in
  let dflt :=
    match dm with
    | DmEqual => map_text (fun v => MEqual v true) (pmt s1)
    | DmContains => map_text (fun v => MContains v true) (pmt s1)
    | DmGlob => parse_glob true s1
    end in
  match s1 with
  | c :: r =>
      if c =? 47 then regex_matcher r                                    (* /regex/ *)
      else if c =? 35 then parse_glob false r                            (* #glob *)
      else if c =? 61 then map_text (fun v => MEqual v false) (pmt r)    (* =text *)
      else if c =? 126 then map_text (fun v => MContains v false) (pmt r) (* ~text *)
      else dflt
  | [] => dflt
  end.

(* recover_unexpected_comma *)
Definition recover_comma (s : str) : str * list perr :=
  match ws_skip s with
  | c :: _ => if c =? 44 then (snd (till_rparen s), [err_at EUnexpectedComma s 0]) else (s, [])
  | [] => (s, [])
  end.

(* unary_set_def, after the name *)
Definition unary_set (dm : default_matcher) (mk : matcher -> setdef) (s : str)
  : option setdef * str * list perr :=
  let '(s1, e1) := expect_char 40 EExpectedOpenParen s in
  let '(m, s2, e2) := set_matcher dm s1 in
  let '(s3, e3) := recover_comma s2 in
  let '(s4, e4) := expect_char 41 EExpectedCloseParen s3 in
  (option_map mk m, s4, e1 ++ e2 ++ e3 ++ e4).

Definition s_host : str := [104; 111; 115; 116].
Definition s_target : str := [116; 97; 114; 103; 101; 116].

(* platform_def, after the name *)
Definition platform_set (s : str) : option setdef * str * list perr :=
  let '(s1, e1) := expect_char 40 EExpectedOpenParen s in
  let '(res, s2, e2) := pmt (ws_skip s1) in
  let '(s3, e3) := recover_comma s2 in
  let '(s4, e4) := expect_char 41 EExpectedCloseParen s3 in
  match res with
  | None => (None, s4, e1 ++ e2 ++ e3 ++ e4)
  | Some t =>
      let t' := trim t in
      if str_eqb t' s_host then (Some (SPlatform PHost), s4, e1 ++ e2 ++ e3 ++ e4)
      else if str_eqb t' s_target then (Some (SPlatform PTarget), s4, e1 ++ e2 ++ e3 ++ e4)
      else (None, s4, e1 ++ e2 ++ e3 ++ e4 ++
                      [mkperr EInvalidPlatform (blen s1) (blen s1 - blen s2)])
  end.

(* nullary_set_def, after the name: always yields the set, possibly with errors *)
Definition nullary_set (d : setdef) (s : str) : option setdef * str * list perr :=
  let '(s1, e1) := expect_char 40 EExpectedOpenParen s in
  let '(arg, s2) := till_rparen s1 in
  let e2 := if forallb is_uws arg then []
            else [mkperr EUnexpectedArgument (blen s1) (blen s1 - blen s2)] in
  let '(s3, e3) := expect_char 41 EExpectedCloseParen s2 in
  (Some d, s3, e1 ++ e2 ++ e3).

Definition s_package : str := [112; 97; 99; 107; 97; 103; 101].
Definition s_deps : str := [100; 101; 112; 115].
Definition s_rdeps : str := [114; 100; 101; 112; 115].
Definition s_kind : str := [107; 105; 110; 100].
Definition s_binary_id : str := [98; 105; 110; 97; 114; 121; 95; 105; 100].
Definition s_binary : str := [98; 105; 110; 97; 114; 121].
Definition s_test : str := [116; 101; 115; 116].
Definition s_platform : str := [112; 108; 97; 116; 102; 111; 114; 109].
Definition s_default : str := [100; 101; 102; 97; 117; 108; 116].
Definition s_all : str := [97; 108; 108].
Definition s_none : str := [110; 111; 110; 101].

(* parse_set_def = ws(alt((package, deps, rdeps, kind, binary_id, binary, test, platform,
   default, all, none))): only the literal name can backtrack. The caller has skipped ws. *)
Definition set_def_table : list (str * (str -> option setdef * str * list perr)) :=
  [ (s_package, unary_set DmGlob SPackage);
    (s_deps, unary_set DmGlob SDeps);
    (s_rdeps, unary_set DmGlob SRdeps);
    (s_kind, unary_set DmEqual SKind);
    (s_binary_id, unary_set DmGlob SBinaryId);
    (s_binary, unary_set DmGlob SBinary);
    (s_test, unary_set DmContains STest);
    (s_platform, platform_set);
    (s_default, nullary_set SDefault);
    (s_all, nullary_set SAll);
    (s_none, nullary_set SNone) ].

Fixpoint first_named {A} (tbl : list (str * (str -> A))) (s : str) : option A :=
  match tbl with
  | [] => None
  | (name, f) :: t =>
      match strip_prefix name s with
      | Some rest => Some (f rest)
      | None => first_named t s
      end
  end.

Definition parse_set_def (s : str) : option (option setdef * str * list perr) :=
  first_named set_def_table (ws_skip s).

(* ---------------------------------------------------------------- operators *)

Inductive and_or_diff := AOAnd (op : and_op) | AODiff (op : diff_op).

Definition s_not_sp : str := [110; 111; 116; 32].
Definition s_and_sp : str := [97; 110; 100; 32].
Definition s_or_sp : str := [111; 114; 32].
Definition s_ampamp : str := [38; 38].
Definition s_AND_sp : str := [65; 78; 68; 32].
Definition s_pipepipe : str := [124; 124].
Definition s_OR_sp : str := [79; 82; 32].

(* the operator alternatives of parse_expr_not *)
Definition parse_not_op (s : str) : option (not_op * str) :=
  match strip_prefix s_not_sp s with
  | Some r => Some (NotLiteral, r)
  | None => match s with
            | c :: r => if c =? 33 then Some (NotBang, r) else None
            | [] => None
            end
  end.

(* parse_or_operator = ws(alt((banned "||" / "OR ", "or ", '|', '+'))). A banned spelling is
   consumed, reported with its length, and yields no operator. *)
Definition parse_or_op (s : str) : option (option or_op * str * list perr) :=
  let s1 := ws_skip s in
  match strip_prefix s_pipepipe s1 with
  | Some r => Some (None, r, [err_at EInvalidOrOperator s1 2])
  | None =>
  match strip_prefix s_OR_sp s1 with
  | Some r => Some (None, r, [err_at EInvalidOrOperator s1 3])
  | None =>
  match strip_prefix s_or_sp s1 with
  | Some r => Some (Some OrLiteral, r, [])
  | None =>
  match s1 with
  | c :: r => if c =? 124 then Some (Some OrPipe, r, [])
              else if c =? 43 then Some (Some OrPlus, r, [])
              else None
  | [] => None
  end end end end.

(* parse_and_or_difference_operator = ws(alt((banned "&&" / "AND ", "and ", '&', '-'))) *)
Definition parse_and_op (s : str) : option (option and_or_diff * str * list perr) :=
  let s1 := ws_skip s in
  match strip_prefix s_ampamp s1 with
  | Some r => Some (None, r, [err_at EInvalidAndOperator s1 2])
  | None =>
  match strip_prefix s_AND_sp s1 with
  | Some r => Some (None, r, [err_at EInvalidAndOperator s1 4])
  | None =>
  match strip_prefix s_and_sp s1 with
  | Some r => Some (Some (AOAnd AndLiteral), r, [])
  | None =>
  match s1 with
  | c :: r => if c =? 38 then Some (Some (AOAnd AndAmp), r, [])
              else if c =? 45 then Some (Some (AODiff DiffMinus), r, [])
              else None
  | [] => None
  end end end end.

(* ExprResult::combine and the fold closures *)
Definition combine_and (op : option and_or_diff) (a b : option pexpr) : option pexpr :=
  match op, a, b with
  | Some (AOAnd o), Some x, Some y => Some (PInter o x y)
  | Some (AODiff o), Some x, Some y => Some (PDiff o x y)
  | _, _, _ => None
  end.
Definition combine_or (op : option or_op) (a b : option pexpr) : option pexpr :=
  match op, a, b with
  | Some o, Some x, Some y => Some (PUnion o x y)
  | _, _, _ => None
  end.

(* ---------------------------------------------------------------- expressions *)

Definition eres := (option pexpr * str * list perr)%type.
Definition oof : perr := mkperr EOutOfFuel 0 0.

Section Levels.
(* parse_basic_expr at the current nesting level; None = Backtrack *)
Variable basic : str -> option eres.

(* expect_expr(parse_basic_expr): ws inside parse_basic_expr has reset the input, the error
   spans everything that is left *)
Definition expect_basic (s : str) : eres :=
  match basic s with
  | Some r => r
  | None => (None, s, [err_at EExpectedExpr s (blen s)])
  end.

(* the repeat(0.., (operator, expect_expr(parse_basic_expr))) + fold of
   parse_and_or_difference_expr; [k] bounds the number of iterations *)
Fixpoint and_loop (k : nat) (acc : option pexpr) (s : str) : eres :=
  match parse_and_op s with
  | None => (acc, s, [])
  | Some (op, s1, e1) =>
      match k with
      | O => (None, s, [oof])
      | S k' =>
          let '(r, s2, e2) := expect_basic s1 in
          let '(res, s3, e3) := and_loop k' (combine_and op acc r) s2 in
          (res, s3, e1 ++ e2 ++ e3)
      end
  end.

Definition and_expr (k : nat) (s : str) : eres :=
  let '(r, s1, e1) := expect_basic s in
  let '(res, s2, e2) := and_loop k r s1 in
  (res, s2, e1 ++ e2).

(* parse_expr: the same one level up; expect_expr(parse_and_or_difference_expr) cannot fail *)
Fixpoint or_loop (k : nat) (acc : option pexpr) (s : str) : eres :=
  match parse_or_op s with
  | None => (acc, s, [])
  | Some (op, s1, e1) =>
      match k with
      | O => (None, s, [oof])
      | S k' =>
          let '(r, s2, e2) := and_expr k s1 in
          let '(res, s3, e3) := or_loop k' (combine_or op acc r) s2 in
          (res, s3, e1 ++ e2 ++ e3)
      end
  end.

Definition or_expr (k : nat) (s : str) : eres :=
  let '(r, s1, e1) := and_expr k s in
  let '(res, s2, e2) := or_loop k r s1 in
  (res, s2, e1 ++ e2).
End Levels.

(* parse_basic_expr = ws(alt((parse_set_def, parse_expr_not, parse_parentheses_expr))). One unit
   of fuel per nesting level: the recursive calls happen after '!', "not " or '(' was consumed. *)
Fixpoint basic (n : nat) (s : str) : option eres :=
  match n with
  | O => Some (None, s, [oof])
  | S n' =>
      let s1 := ws_skip s in
      match parse_set_def s1 with
      | Some (d, rest, es) => Some (option_map PSet d, rest, es)
      | None =>
          match parse_not_op s1 with
          | Some (op, s2) =>
              (* expect_expr(ws(parse_basic_expr)).negate(op) *)
              match basic n' s2 with
              | Some (r, s3, es) => Some (option_map (PNot op) r, s3, es)
              | None => Some (None, s2, [err_at EExpectedExpr s2 (blen s2)])
              end
          | None =>
              match s1 with
              | c :: s2 =>
                  if c =? 40 then
                    (* delimited('(', expect_expr(parse_expr), expect_char(')')).parens() *)
                    let '(r, s3, e3) := or_expr (basic n') n' s2 in
                    let '(s4, e4) := expect_char 41 EExpectedCloseParen s3 in
                    Some (option_map PParens r, s4, e3 ++ e4)
                  else None
              | [] => None
              end
          end
      end
  end.

(* parse(): terminated(parse_expr, expect(ws(eof), ExpectedEndOfExpression)) with the given fuel *)
Definition parse_fuel (n : nat) (s : str) : option pexpr * list perr :=
  let '(r, s1, e1) := or_expr (basic n) n s in
  let e2 := match ws_skip s1 with
            | [] => []
            | _ :: _ => [err_at EExpectedEnd s1 (blen s1)]
            end in
  (r, e1 ++ e2).

(* what ParsedExpr::parse / Filterset::parse see: the expression if valid, and all errors *)
Definition parse_raw (s : str) : option pexpr * list perr := parse_fuel (S (length s)) s.

End WithOracle.

(* spans as (offset, length) in bytes from the start of the input *)
Definition span_of (total : N) (e : perr) : N * N := (total - pe_from_end e, pe_len e).

Inductive presult :=
| POk (e : pexpr)                 (* no error was reported and the expression is valid *)
| PErr (spans : list (N * N)).    (* Filterset::parse fails with these error spans *)

(* Filterset::parse up to compilation: errors win over a valid expression; a missing expression
   without any error is the "should not happen" internal error of the Rust code, here PErr [] *)
Definition parse (SO : syntax_oracle) (s : str) : presult :=
  match parse_raw SO s with
  | (Some e, []) => POk e
  | (_, errs) => PErr (map (span_of (blen s)) errs)
  end.

(* ---------------------------------------------------------------- printing (Display impls) *)

(* which of the three printer repairs (DESIGN F6 a, b, c) are in effect; [print] has all of
   them, [print_unfixed] none (the behaviour before the repairs, kept for the witnesses) *)
Record pfix := mkpfix { fx_quotes : bool; fx_leading : bool; fx_regex : bool }.
Definition all_fixes := mkpfix true true true.
Definition no_fixes := mkpfix false false false.

Definition hex_digit (d : N) : N := if d <? 10 then 48 + d else 87 + d.
Fixpoint hex_digits (n : nat) (v : N) (acc : list N) : list N :=
  match n with
  | O => acc
  | S k => let acc' := hex_digit (v mod 16) :: acc in
           if v / 16 =? 0 then acc' else hex_digits k (v / 16) acc'
  end.
(* char::escape_unicode: \u{h..h}, lower case, no leading zeros *)
Definition esc_unicode (c : N) : str := [92; 117; 123] ++ hex_digits 6 c [] ++ [125].

(* DisplayParsedString, one character: the three nextest escapes, else char::escape_default.
   Before repair (a) the quote characters went through escape_default and came out
   with a backslash in front. *)
Definition print_char (fx : pfix) (c : N) : str :=
  if c =? 47 then [92; 47]
  else if c =? 41 then [92; 41]
  else if c =? 44 then [92; 44]
  else if (c =? 39) || (c =? 34) then (if fx_quotes fx then [c] else [92; c])
  else if c =? 9 then [92; 116]
  else if c =? 13 then [92; 114]
  else if c =? 10 then [92; 110]
  else if c =? 92 then [92; 92]
  else if (32 <=? c) && (c <=? 126) then [c]
  else esc_unicode c.
Definition print_string (fx : pfix) (s : str) : str := flat_map (print_char fx) s.

(* a character that would be taken for a matcher sigil or skipped as whitespace at the start
   of an implicit matcher ('/' is always escaped, newlines print as escapes) *)
Definition is_sigil (c : N) : bool := (c =? 61) || (c =? 126) || (c =? 35) || (c =? 32).

(* an implicit matcher's text: after repair (b) a leading sigil is written as \u{..} *)
Definition print_implicit (fx : pfix) (s : str) : str :=
  match s with
  | c :: r => if fx_leading fx && is_sigil c then esc_unicode c ++ print_string fx r
              else print_string fx s
  | [] => []
  end.

(* DisplayParsedRegex. Before repair (c) a backslash made the next character print verbatim, so
   the pair \/ was printed as \/ and read back as /. After it every '/' prints as \/. *)
Fixpoint print_regex_old (escaped : bool) (s : str) : str :=
  match s with
  | [] => []
  | c :: r =>
      if escaped then c :: print_regex_old false r
      else if c =? 92 then c :: print_regex_old true r
      else if c =? 47 then 92 :: 47 :: print_regex_old false r
      else c :: print_regex_old false r
  end.
Definition print_regex (fx : pfix) (s : str) : str :=
  if fx_regex fx then flat_map (fun c => if c =? 47 then [92; 47] else [c]) s
  else print_regex_old false s.

Definition print_text (fx : pfix) (implicit : bool) (sigil : N) (s : str) : str :=
  if implicit then print_implicit fx s else sigil :: print_string fx s.

Definition print_matcher (fx : pfix) (m : matcher) : str :=
  match m with
  | MEqual s imp => print_text fx imp 61 s
  | MContains s imp => print_text fx imp 126 s
  | MGlob g imp => print_text fx imp 35 g
  | MRegex r => [47] ++ print_regex fx r ++ [47]
  end.

Definition print_setdef (fx : pfix) (d : setdef) : str :=
  match d with
  | SPackage m => s_package ++ [40] ++ print_matcher fx m ++ [41]
  | SDeps m => s_deps ++ [40] ++ print_matcher fx m ++ [41]
  | SRdeps m => s_rdeps ++ [40] ++ print_matcher fx m ++ [41]
  | SKind m => s_kind ++ [40] ++ print_matcher fx m ++ [41]
  | SBinary m => s_binary ++ [40] ++ print_matcher fx m ++ [41]
  | SBinaryId m => s_binary_id ++ [40] ++ print_matcher fx m ++ [41]
  | SPlatform PHost => s_platform ++ [40] ++ s_host ++ [41]
  | SPlatform PTarget => s_platform ++ [40] ++ s_target ++ [41]
  | STest m => s_test ++ [40] ++ print_matcher fx m ++ [41]
  | SDefault => s_default ++ [40; 41]
  | SAll => s_all ++ [40; 41]
  | SNone => s_none ++ [40; 41]
  end.

Definition print_not_op (o : not_op) : str :=
  match o with NotLiteral => [110; 111; 116] | NotBang => [33] end.
Definition print_or_op (o : or_op) : str :=
  match o with OrLiteral => [111; 114] | OrPipe => [124] | OrPlus => [43] end.
Definition print_and_op (o : and_op) : str :=
  match o with AndLiteral => [97; 110; 100] | AndAmp => [38] end.

(* Display for ParsedExpr: "{op} {e}", "{a} {op} {b}", "({e})"; no parentheses of its own *)
Fixpoint print_with (fx : pfix) (e : pexpr) : str :=
  match e with
  | PNot o a => print_not_op o ++ [32] ++ print_with fx a
  | PUnion o a b => print_with fx a ++ [32] ++ print_or_op o ++ [32] ++ print_with fx b
  | PInter o a b => print_with fx a ++ [32] ++ print_and_op o ++ [32] ++ print_with fx b
  | PDiff _ a b => print_with fx a ++ [32; 45; 32] ++ print_with fx b
  | PParens a => [40] ++ print_with fx a ++ [41]
  | PSet d => print_setdef fx d
  end.
Definition print := print_with all_fixes.
Definition print_unfixed := print_with no_fixes.

(* ---------------------------------------------------------------- encodings for the harness
   (flat prefix code over N; strings are length-prefixed) *)

Definition enc_str (s : str) : list N := N.of_nat (length s) :: s.
Definition enc_bool (b : bool) : N := if b then 1 else 0.
Definition enc_matcher (m : matcher) : list N :=
  match m with
  | MEqual s i => 0 :: enc_bool i :: enc_str s
  | MContains s i => 1 :: enc_bool i :: enc_str s
  | MGlob s i => 2 :: enc_bool i :: enc_str s
  | MRegex s => 3 :: 0 :: enc_str s
  end.
Definition enc_setdef (d : setdef) : list N :=
  match d with
  | SPackage m => 0 :: enc_matcher m
  | SDeps m => 1 :: enc_matcher m
  | SRdeps m => 2 :: enc_matcher m
  | SKind m => 3 :: enc_matcher m
  | SBinary m => 4 :: enc_matcher m
  | SBinaryId m => 5 :: enc_matcher m
  | SPlatform PTarget => [6; 0]
  | SPlatform PHost => [6; 1]
  | STest m => 7 :: enc_matcher m
  | SDefault => [8]
  | SAll => [9]
  | SNone => [10]
  end.
Fixpoint enc_pexpr (e : pexpr) : list N :=
  match e with
  | PNot o a => 0 :: (match o with NotLiteral => 0 | NotBang => 1 end) :: enc_pexpr a
  | PUnion o a b =>
      1 :: (match o with OrLiteral => 0 | OrPipe => 1 | OrPlus => 2 end) :: enc_pexpr a ++ enc_pexpr b
  | PInter o a b =>
      2 :: (match o with AndLiteral => 0 | AndAmp => 1 end) :: enc_pexpr a ++ enc_pexpr b
  | PDiff _ a b => 3 :: 0 :: enc_pexpr a ++ enc_pexpr b
  | PParens a => 4 :: enc_pexpr a
  | PSet d => 5 :: enc_setdef d
  end.

Definition ekind_code (k : ekind) : N * str :=
  match k with
  | EInvalidRegex p => (0, p)
  | EInvalidRegexNoMsg p => (1, p)
  | EInvalidGlob g => (2, g)
  | EExpectedCloseRegex => (3, [])
  | EInvalidOrOperator => (4, [])
  | EInvalidAndOperator => (5, [])
  | EUnexpectedArgument => (6, [])
  | EUnexpectedComma => (7, [])
  | EInvalidString => (8, [])
  | EExpectedOpenParen => (9, [])
  | EExpectedCloseParen => (10, [])
  | EInvalidEscape => (11, [])
  | EExpectedExpr => (12, [])
  | EExpectedEnd => (13, [])
  | EInvalidPlatform => (14, [])
  | EOutOfFuel => (15, [])
  end.

(* observation of one parse: [] or 1 :: code of the expression; 0/1 :: code of the printed
   expression; the errors as kind :: offset :: length :: payload *)
Definition enc_parse (SO : syntax_oracle) (fx : pfix) (s : str)
  : list N * list N * list (list N) :=
  let '(r, errs) := parse_raw SO s in
  (match r with Some e => 1 :: enc_pexpr e | None => [] end,
   match r with Some e => print_with fx e | None => [] end,
   map (fun e => let '(c, p) := ekind_code (pe_kind e) in
                 c :: fst (span_of (blen s) e) :: pe_len e :: p) errs).

(* oracle tables *)
Fixpoint lookup_bool (tbl : list (str * bool)) (dflt : bool) (a : str) : bool :=
  match tbl with
  | [] => dflt
  | (x, v) :: t => if str_eqb x a then v else lookup_bool t dflt a
  end.
Fixpoint lookup_rx (tbl : list (str * rxres)) (dflt : rxres) (a : str) : rxres :=
  match tbl with
  | [] => dflt
  | (x, v) :: t => if str_eqb x a then v else lookup_rx t dflt a
  end.
Definition oracle_of_tables (gl : list (str * bool)) (rx : list (str * rxres)) (dflt : bool)
  : syntax_oracle :=
  mksyn (lookup_bool gl dflt) (lookup_rx rx (if dflt then RxOk else RxErrNoMsg)).
