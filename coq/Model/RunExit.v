(* The exit status of the process, reporter failures included.
   Model/Unit.v's [run_exit] is exit_code (summarize_final run_stats): the `match
   run_stats.summarize_final()` at the end of App::exec_run (cargo-nextest/src/dispatch.rs).  That
   match is only reached when `runner.try_execute(..)?` returned Ok.  TestRunner::try_execute
   (nextest-runner/src/runner/imp.rs) returns Err(TestRunnerExecuteErrors { report_error: Some(..) })
   whenever the reporter callback failed on ANY event -- it remembers the first error, tells the
   dispatcher once through report_cancel_tx (the dispatcher's ReportCancel event; the statistics keep
   being collected), and discards the statistics at the end.  `?` turns that into
   ExpectedError::TestRunnerExecuteErrors, whose process_exit_code is
   NextestExitCode::WRITE_OUTPUT_ERROR = 110 (cargo-nextest/src/errors.rs), whatever the tests did.

   A report error is visible in a history as ReportCancel when the dispatcher was still running to
   receive it; an error on one of the last events (RunFinished, say) is not in the history at all:
   [report_failed] carries that bit.  Additive: [run_exit] itself is unchanged.
   Executable definitions only. *)
From Coq Require Import List NArith ZArith Bool.
From NextestModel Require Import Model.Result Model.Dispatcher Model.Unit.
Import ListNotations.
Open Scope N_scope.

Definition EXIT_WRITE_OUTPUT_ERROR : Z := 110%Z.

Definition is_report_cancel (e : devent) : bool :=
  match e with ReportCancel => true | _ => false end.

(* the dispatcher was told of a report error *)
Definition report_cancelled (h : list devent) : bool := existsb is_report_cancel h.

(* [report_failed]: the reporter callback returned an error at some event of the run (implied by
   a ReportCancel in the history, hence the disjunction) *)
Definition run_exit_real (c : cfg) (mf : option N) (dbg : bool) (h : list devent)
           (p : option no_tests) (report_failed : bool) : option Z :=
  match run_exit c mf dbg h p with
  | None => None
  | Some code =>
      Some (if report_failed || report_cancelled h then EXIT_WRITE_OUTPUT_ERROR else code)
  end.
