(* String-based test-name filters: TestFilterPatterns, its four add_* operations, resolve, and
   ResolvedFilterPatterns::name_match (nextest-runner/src/test_filter.rs).
   Executable definitions only.

   - Vec<String> and HashSet<String> are both lists here: only membership is ever asked of the
     hash sets, and the sort_unstable in resolve only serves the PartialEq impl.
   - Aho-Corasick [is_match] over a pattern list is [existsb (fun p => is_infix p name)]:
     "some pattern occurs as a contiguous substring" (the empty pattern occurs in every name, an
     empty pattern list matches nothing). Byte-level substring search on valid UTF-8 coincides
     with code-point-level search because UTF-8 is self-synchronising.
   - [resolve] never fails here; in the code it fails only if building the automaton fails. *)
From NextestModel Require Import Base.Str Model.Filter.
Open Scope N_scope.

Inductive patterns :=
| SkipOnly (skips skip_exacts : list str)
| Patterns (subs exacts skips skip_exacts : list str).

(* TestFilterPatterns::default *)
Definition patterns_default : patterns := SkipOnly [] [].

(* TestFilterPatterns::new *)
Definition patterns_new (subs : list str) : patterns :=
  match subs with
  | [] => patterns_default
  | _ => Patterns subs [] [] []
  end.

Definition add_substring (p : patterns) (x : str) : patterns :=
  match p with
  | SkipOnly sk sx => Patterns [x] [] sk sx
  | Patterns su ex sk sx => Patterns (su ++ [x]) ex sk sx
  end.

Definition add_exact (p : patterns) (x : str) : patterns :=
  match p with
  | SkipOnly sk sx => Patterns [] [x] sk sx
  | Patterns su ex sk sx => Patterns su (x :: ex) sk sx
  end.

Definition add_skip (p : patterns) (x : str) : patterns :=
  match p with
  | SkipOnly sk sx => SkipOnly (sk ++ [x]) sx
  | Patterns su ex sk sx => Patterns su ex (sk ++ [x]) sx
  end.

Definition add_skip_exact (p : patterns) (x : str) : patterns :=
  match p with
  | SkipOnly sk sx => SkipOnly sk (x :: sx)
  | Patterns su ex sk sx => Patterns su ex sk (x :: sx)
  end.

(* a sequence of add_* calls as data *)
Inductive pat_op := OpSub (x : str) | OpExact (x : str) | OpSkip (x : str) | OpSkipExact (x : str).

Definition apply_op (p : patterns) (o : pat_op) : patterns :=
  match o with
  | OpSub x => add_substring p x
  | OpExact x => add_exact p x
  | OpSkip x => add_skip p x
  | OpSkipExact x => add_skip_exact p x
  end.

Definition build_patterns (pre : list str) (ops : list pat_op) : patterns :=
  fold_left apply_op ops (patterns_new pre).

(* projections used by the specification *)
Definition subs_of (p : patterns) : list str :=
  match p with SkipOnly _ _ => [] | Patterns su _ _ _ => su end.
Definition exacts_of (p : patterns) : list str :=
  match p with SkipOnly _ _ => [] | Patterns _ ex _ _ => ex end.
Definition skips_of (p : patterns) : list str :=
  match p with SkipOnly sk _ => sk | Patterns _ _ sk _ => sk end.
Definition skip_exacts_of (p : patterns) : list str :=
  match p with SkipOnly _ sx => sx | Patterns _ _ _ sx => sx end.
Definition has_positive (p : patterns) : bool :=
  match p with SkipOnly _ _ => false | Patterns _ _ _ _ => true end.

Inductive resolved :=
| RAll
| RSkipOnly (skips skip_exacts : list str)
| RPatterns (subs exacts skips skip_exacts : list str).

(* TestFilterPatterns::resolve, after the F1 repair: All only if there is no skip pattern of
   either kind *)
Definition resolve (p : patterns) : resolved :=
  match p with
  | SkipOnly sk sx =>
      match sk, sx with
      | [], [] => RAll
      | _, _ => RSkipOnly sk sx
      end
  | Patterns su ex sk sx => RPatterns su ex sk sx
  end.

(* resolve as it was before the repair (F1): the exact skip patterns were not consulted *)
Definition resolve_unfixed (p : patterns) : resolved :=
  match p with
  | SkipOnly sk sx =>
      match sk with
      | [] => RAll
      | _ => RSkipOnly sk sx
      end
  | Patterns su ex sk sx => RPatterns su ex sk sx
  end.

(* AhoCorasick::is_match *)
Definition any_infix (pats : list str) (name : str) : bool :=
  existsb (fun p => is_infix p name) pats.

(* ResolvedFilterPatterns::name_match *)
Definition rname_match (r : resolved) (name : str) : name_match :=
  match r with
  | RAll => MatchEmpty
  | RSkipOnly sk sx =>
      if mem_str name sx || any_infix sk name then NMis MString else MatchWith
  | RPatterns su ex sk sx =>
      if mem_str name sx || any_infix sk name then NMis MString
      else if mem_str name ex || any_infix su name then MatchWith
      else NMis MString
  end.

Definition nm_accepts (m : name_match) : bool :=
  match m with NMis _ => false | _ => true end.

Definition name_match_code (m : name_match) : N :=
  match m with MatchEmpty => 0 | MatchWith => 1 | NMis r => 10 + mismatch_code r end.
