(* TestList::process_output: two listing passes, each with its own partitioner, over sorted
   names; later entries overwrite earlier ones (BTreeMap::insert). Executable definitions only. *)
From NextestModel Require Import Base.Str Model.Xxh64 Model.Filter.
Open Scope N_scope.

Definition tcase := (str * (bool * fmatch))%type.

(* one listing pass: [pre name ign] is the verdict of all other filters *)
Fixpoint pass (pb : option pbuilder) (pre : str -> bool -> option mismatch) (ign : bool)
         (names : list str) (cur : N) : list tcase :=
  match names with
  | [] => []
  | nm :: rest =>
      let '(fm, cur') := filter_match (pre nm ign) pb cur nm in
      (nm, (ign, fm)) :: pass pb pre ign rest cur'
  end.

(* BTreeMap::insert on a name-sorted association list *)
Fixpoint upsert (m : list tcase) (e : tcase) : list tcase :=
  match m with
  | [] => [e]
  | (k, v) :: m' =>
      match str_cmp (fst e) k with
      | Lt => e :: m
      | Eq => e :: m'
      | Gt => (k, v) :: upsert m' e
      end
  end.

(* names of the first listing that also occur in the ignored listing are skipped in the first
   pass (libtest prints every test when --ignored is not given) *)
Definition process_output (pb : option pbuilder) (pre : str -> bool -> option mismatch)
           (non_ignored ignored : list str) : list tcase :=
  let ign_sorted := sort_str ignored in
  let first := filter (fun nm => negb (mem_str nm ign_sorted)) (sort_str non_ignored) in
  let m1 := fold_left upsert (pass pb pre false first 0) [] in
  fold_left upsert (pass pb pre true ign_sorted 0) m1.

(* the same without the skip: the behaviour before the F4 repair, kept for the regression
   witness *)
Definition process_output_unfixed (pb : option pbuilder) (pre : str -> bool -> option mismatch)
           (non_ignored ignored : list str) : list tcase :=
  let m1 := fold_left upsert (pass pb pre false (sort_str non_ignored) 0) [] in
  fold_left upsert (pass pb pre true (sort_str ignored) 0) m1.

(* the names each pass calls filter_match on, in call order: [false] = the non-ignored pass
   (sorted first listing minus the names of the ignored listing), [true] = the ignored pass *)
Definition first_pass_names (non_ignored ignored : list str) : list str :=
  filter (fun nm => negb (mem_str nm (sort_str ignored))) (sort_str non_ignored).
Definition class_names (ign : bool) (non_ignored ignored : list str) : list str :=
  if ign then sort_str ignored else first_pass_names non_ignored ignored.

(* NOT what nextest does: one count partitioner shared by the two passes (the counter of the
   ignored pass continues where the non-ignored pass stopped). Kept only so that closed Examples
   can show that the whole-listing theorems distinguish it from [process_output]. *)
Fixpoint pass_end (pb : option pbuilder) (pre : str -> bool -> option mismatch) (ign : bool)
         (names : list str) (cur : N) : N :=
  match names with
  | [] => cur
  | nm :: rest => pass_end pb pre ign rest (snd (filter_match (pre nm ign) pb cur nm))
  end.
Definition process_output_shared (pb : option pbuilder) (pre : str -> bool -> option mismatch)
           (non_ignored ignored : list str) : list tcase :=
  let ign_sorted := sort_str ignored in
  let first := first_pass_names non_ignored ignored in
  let m1 := fold_left upsert (pass pb pre false first 0) [] in
  fold_left upsert (pass pb pre true ign_sorted (pass_end pb pre false first 0)) m1.

(* parse_shards validation: 1 <= m <= n *)
Definition valid_shards (m n : N) : bool := (1 <=? m) && (m <=? n).

(* ---- PartitionerBuilder::from_str / parse_shards (nextest-runner/src/partition.rs) on a string
   of Unicode scalar values. u64::from_str: an optional single '+', then one or more ASCII
   digits, value < 2^64; nothing else (no '-', no blanks, no '_'). *)
Definition digit_val (c : N) : option N :=
  if (48 <=? c) && (c <=? 57) then Some (c - 48) else None.
Fixpoint parse_digits (l : str) (acc : N) : option N :=
  match l with
  | [] => Some acc
  | c :: l' => match digit_val c with
               | Some d => parse_digits l' (acc * 10 + d)
               | None => None
               end
  end.
Definition parse_u64 (s : str) : option N :=
  let body := match s with 43 :: r => r | _ => s end in
  match body with
  | [] => None
  | _ => match parse_digits body 0 with
         | Some v => if v <? M64 then Some v else None
         | None => None
         end
  end.
(* input.splitn(2, '/'): the part before the first '/' and everything after it *)
Fixpoint split_slash (s : str) : option (str * str) :=
  match s with
  | [] => None
  | c :: r => if c =? 47 then Some ([], r)
              else match split_slash r with
                   | Some (a, b) => Some (c :: a, b)
                   | None => None
                   end
  end.
Definition parse_shards (s : str) : option (N * N) :=
  match split_slash s with
  | None => None
  | Some (a, b) =>
      match parse_u64 a, parse_u64 b with
      | Some m, Some n => if valid_shards m n then Some (m, n) else None
      | _, _ => None
      end
  end.
Fixpoint strip_prefix (p s : str) : option str :=
  match p, s with
  | [], _ => Some s
  | x :: p', y :: s' => if x =? y then strip_prefix p' s' else None
  | _ :: _, [] => None
  end.
Definition s_hash_colon : str := [104; 97; 115; 104; 58].            (* hash: *)
Definition s_count_colon : str := [99; 111; 117; 110; 116; 58].       (* count: *)
Definition parse_partition (s : str) : option pbuilder :=
  match strip_prefix s_hash_colon s with
  | Some r => match parse_shards r with
              | Some (m, n) => Some {| pb_kind := PHash; pb_shard := m; pb_total := n |}
              | None => None
              end
  | None =>
      match strip_prefix s_count_colon s with
      | Some r => match parse_shards r with
                  | Some (m, n) => Some {| pb_kind := PCount; pb_shard := m; pb_total := n |}
                  | None => None
                  end
      | None => None
      end
  end.

(* specification-side helpers *)
Definition matched (l : list tcase) : list str :=
  map fst (filter (fun e => match snd (snd e) with Matches => true | _ => false end) l).
(* the selected names whose ignored flag is [ign] *)
Definition matched_class (ign : bool) (l : list tcase) : list str :=
  map fst (filter (fun e => match snd (snd e) with Matches => Bool.eqb (fst (snd e)) ign
                                                | _ => false end) l).

(* elements of l at 0-based positions congruent to k modulo n, starting the count at [i] *)
Fixpoint stride_from (i k n : N) (l : list str) : list str :=
  match l with
  | [] => []
  | x :: l' => if i mod n =? k then x :: stride_from (i + 1) k n l'
               else stride_from (i + 1) k n l'
  end.
Definition stride (k n : N) (l : list str) : list str := stride_from 0 k n l.
