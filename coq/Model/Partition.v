(* TestList::process_output: two listing passes, each with its own partitioner, over sorted
   names; later entries overwrite earlier ones (BTreeMap::insert). Executable definitions only. *)
From NextestModel Require Import Base.Str Model.Xxh64 Model.Filter.
Open Scope N_scope.

Definition tcase := (str * (bool * fmatch))%type.

(* one listing pass: [pre name ign] is the verdict of all other filters *)
Fixpoint pass (pb : option pbuilder) (pre : str -> bool -> option mismatch) (ign : bool)
         (names : list str) (cur : N) : list tcase :=
  match names with
  | [] => []
  | nm :: rest =>
      let '(fm, cur') := filter_match (pre nm ign) pb cur nm in
      (nm, (ign, fm)) :: pass pb pre ign rest cur'
  end.

(* BTreeMap::insert on a name-sorted association list *)
Fixpoint upsert (m : list tcase) (e : tcase) : list tcase :=
  match m with
  | [] => [e]
  | (k, v) :: m' =>
      match str_cmp (fst e) k with
      | Lt => e :: m
      | Eq => e :: m'
      | Gt => (k, v) :: upsert m' e
      end
  end.

(* names of the first listing that also occur in the ignored listing are skipped in the first
   pass (libtest prints every test when --ignored is not given) *)
Definition process_output (pb : option pbuilder) (pre : str -> bool -> option mismatch)
           (non_ignored ignored : list str) : list tcase :=
  let ign_sorted := sort_str ignored in
  let first := filter (fun nm => negb (mem_str nm ign_sorted)) (sort_str non_ignored) in
  let m1 := fold_left upsert (pass pb pre false first 0) [] in
  fold_left upsert (pass pb pre true ign_sorted 0) m1.

(* the same without the skip: the behaviour before the F4 repair, kept for the regression
   witness *)
Definition process_output_unfixed (pb : option pbuilder) (pre : str -> bool -> option mismatch)
           (non_ignored ignored : list str) : list tcase :=
  let m1 := fold_left upsert (pass pb pre false (sort_str non_ignored) 0) [] in
  fold_left upsert (pass pb pre true (sort_str ignored) 0) m1.

(* parse_shards validation: 1 <= m <= n *)
Definition valid_shards (m n : N) : bool := (1 <=? m) && (m <=? n).

(* specification-side helpers *)
Definition matched (l : list tcase) : list str :=
  map fst (filter (fun e => match snd (snd e) with Matches => true | _ => false end) l).

(* elements of l at 0-based positions congruent to k modulo n, starting the count at [i] *)
Fixpoint stride_from (i k n : N) (l : list str) : list str :=
  match l with
  | [] => []
  | x :: l' => if i mod n =? k then x :: stride_from (i + 1) k n l'
               else stride_from (i + 1) k n l'
  end.
Definition stride (k n : N) (l : list str) : list str := stride_from 0 k n l.
