(* The wait between two attempts: handle_delay_between_attempts
   (nextest-runner/src/runner/executor.rs) over a PausableSleep
   (nextest-runner/src/time/pausable_sleep.rs), as a state machine over the requests the unit can
   receive and the passage of time. Executable definitions only.

   Time is explicit: [Tick dt] lets dt nanoseconds pass. While paused the sleep's deadline is
   parked in the far future, so time does not count. Expiry is its own event, [WFire]: the
   `_ = &mut sleep` branch of the tokio::select! can be taken once the sleep is running and
   nothing remains, but a request that is already queued may be taken first (select! picks among
   the ready branches at random) -- so a Stop can still pause a sleep whose deadline has passed
   (pause() then records `remaining = 0`, and resume() re-arms it for "now"). This is the same
   machine as the retry-delay loop of Model/UnitTimers.v ([dstep], whose Stop / Continue arms are
   the generated pause table): Proofs/DelayTie.v proves that the two agree on every event
   sequence. After the wait ends -- by expiry or cut
   short by a cancellation -- run_test_instance goes on to the RetryStarted handshake of the
   next attempt either way (Model/Backoff.v, [accept]); when the wait was cut short the run is
   being cancelled and the dispatcher refuses that handshake. *)
From NextestModel Require Import Base.Str.
Open Scope N_scope.

Inductive wevent :=
| Tick (dt : N)
| WFire            (* the sleep branch of the select! is taken (only possible when due) *)
| WStop            (* RunUnitRequest::Signal(SignalRequest::Stop) *)
| WContinue        (* RunUnitRequest::Signal(SignalRequest::Continue) *)
| WShutdown        (* RunUnitRequest::Signal(SignalRequest::Shutdown(_)) *)
| WOtherCancel     (* RunUnitRequest::OtherCancel *)
| WQuery.          (* RunUnitRequest::Query(GetInfo) *)

Inductive wend := Expired | CutShort.

Inductive wstate :=
| Waiting (remaining : N) (paused : bool)
| Done (how : wend)
| WPanicked.       (* PausableSleep::pause called while already paused *)

Definition wstep (s : wstate) (e : wevent) : wstate :=
  match s with
  | Waiting rem paused =>
      match e with
      | Tick dt => if paused then s else Waiting (rem - dt) false   (* truncated: stays at 0 *)
      | WFire => if negb paused && (rem =? 0) then Done Expired else s
      | WStop => if paused then WPanicked else Waiting rem true
      | WContinue => Waiting rem false          (* resume only if paused; no-op otherwise *)
      | WShutdown | WOtherCancel => Done CutShort
      | WQuery => s
      end
  | _ => s
  end.

Definition wrun (delay : N) (evs : list wevent) : wstate :=
  fold_left wstep evs (Waiting delay false).

(* specification side: how much unpaused time a history contains, tracking only the pause
   flag (independent of the remaining time) *)
Fixpoint active_time (paused : bool) (evs : list wevent) : N :=
  match evs with
  | [] => 0
  | Tick dt :: rest => (if paused then 0 else dt) + active_time paused rest
  | WStop :: rest => active_time true rest
  | WContinue :: rest => active_time false rest
  | _ :: rest => active_time paused rest
  end.

(* whether the history ends stopped *)
Fixpoint paused_after (paused : bool) (evs : list wevent) : bool :=
  match evs with
  | [] => paused
  | WStop :: rest => paused_after true rest
  | WContinue :: rest => paused_after false rest
  | _ :: rest => paused_after paused rest
  end.

Definition is_cancel (e : wevent) : bool :=
  match e with WShutdown | WOtherCancel => true | _ => false end.

(* no Stop arrives while already stopped (the signal handler debounces) *)
Fixpoint stops_debounced (paused : bool) (evs : list wevent) : bool :=
  match evs with
  | [] => true
  | WStop :: rest => negb paused && stops_debounced true rest
  | WContinue :: rest => stops_debounced false rest
  | _ :: rest => stops_debounced paused rest
  end.
