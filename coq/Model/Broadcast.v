(* DispatcherContext::broadcast_request (C10 / C11 / C12): a request the run loop broadcasts -- OtherCancel when a
   failure or a reporter error begins cancellation, Shutdown for a signal, Stop / Continue for job control -- is sent
   on the request channel of EVERY running unit (the setup script that is running, then every running test); a unit
   whose channel is already closed (it has exited, its exit event has not been handled yet) is skipped, the units after
   it still get the request. The function returns how many units took it. Written from the property text ("signals
   reach every running test", "after cancellation begins ... every running unit is told"). Executable definitions
   only. *)
From Coq Require Import List NArith Bool.
Import ListNotations.
Open Scope N_scope.

(* a running unit as the broadcast sees it: its id and whether its request channel still has a receiver *)
Record unit_chan := mk_unit_chan { u_id : N; u_open : bool }.

(* the units that receive the request *)
Definition delivered (units : list unit_chan) : list N := map u_id (filter u_open units).

(* the return value of broadcast_request *)
Definition delivered_count (units : list unit_chan) : N := N.of_nat (length (delivered units)).

(* the running units in the order the broadcast visits them *)
Definition running_units (script : option unit_chan) (tests : list unit_chan) : list unit_chan :=
  match script with Some s => s :: tests | None => tests end.
