From NextestModel Require Import Base.Str Model.FiltersetAst Model.Filterset.
From NextestModel Require Import Base.Tac.
Open Scope N_scope.
Goal forall E W dt d q,
  leaf_test E dt (compile_set E W d) q = true <-> in_set E W dt d q.
Proof.
  intros. destruct d; cbn [compile_set leaf_test in_set]; try tauto.
  all: match goal with |- ?G => idtac G end.
Abort.
