(* C15 -- Each attempt is a fresh process with the exact argv, directory and environment.
   Statements only; proofs are in Proofs/ShellWords.v and Proofs/Command.v.
   Process-level facts (fresh process, process group, stdin, the real execve through the
   launcher) are not theorems: they are observed end to end. *)
From NextestModel Require Import Base.Str Model.ShellWords Model.Command
     Proofs.ShellWords Proofs.Command.
Open Scope N_scope.

(* The centrepiece: shell-words' split undoes its join for EVERY list of words over EVERY
   character -- empty words, quotes, backslashes, newlines, '#', '$', globs, non-ASCII, control
   characters -- and never reports a parse error on a joined line. *)
Theorem C15_split_join : forall ws : list str, split (join ws) = Some ws.
Proof. exact split_join. Qed.
Print Assumptions C15_split_join.

Theorem C15_split_quote : forall w : str, split (quote w) = Some [w].
Proof. exact split_quote. Qed.
Print Assumptions C15_split_quote.

(* distinct argument vectors never collapse to the same launcher line *)
Theorem C15_join_injective : forall ws ws' : list str, join ws = join ws' -> ws = ws'.
Proof. exact join_injective. Qed.
Print Assumptions C15_join_injective.

(* With or without the double-spawn launcher ([ds] = the launcher executable, if any) the
   process that finally runs is [program] with exactly [args]: the launcher receives
   [__double-spawn -- program (join args)] and execs [program (split (join args))]. *)
Theorem C15_double_spawn_transparent : forall (ds : option str) (program : str) (args : list str),
  final_exec ds program args = Some (program, args).
Proof. exact final_exec_transparent. Qed.
Print Assumptions C15_double_spawn_transparent.

(* The test binary is run with --exact <name> --nocapture, then --ignored iff the test is
   ignored, then the extra arguments -- for any name, launcher or not. *)
Theorem C15_argv_shape : forall ds binary name ignored extra,
  exists argv,
    final_exec ds binary (test_argv name ignored extra) = Some (binary, argv)
    /\ firstn 3 argv = [K.exact; name; K.nocapture]
    /\ skipn 3 argv = (if ignored then K.ignored :: extra else extra).
Proof. exact argv_shape. Qed.
Print Assumptions C15_argv_shape.

(* Under a target runner the same arguments follow the runner's arguments and the binary. *)
Theorem C15_argv_shape_runner : forall ds r binary name ignored extra,
  let pa := program_and_args (Some r) binary name ignored extra in
  final_exec ds (fst pa) (snd pa)
  = Some (r_binary r, r_args r ++ binary :: test_argv name ignored extra).
Proof. exact argv_shape_runner. Qed.
Print Assumptions C15_argv_shape_runner.

(* The command built by TestInstance::make_command (what hook H5 observes) leads to that exec
   and is started in the package directory. *)
Theorem C15_make_command_exec : forall r s ds rn binary name ignored extra inh c,
  make_command r s ds rn binary name ignored extra inh = Some c ->
  match ds with
  | Some _ => launcher_exec (cmd_args c)
  | None => Some (cmd_program c, cmd_args c)
  end = Some (program_and_args rn binary name ignored extra)
  /\ cmd_cwd c = sc_cwd s.
Proof. exact make_command_exec. Qed.
Print Assumptions C15_make_command_exec.

(* Every variable nextest assigns under a fixed key (NEXTEST, NEXTEST_EXECUTION_MODE,
   NEXTEST_PROFILE, CARGO_MANIFEST_DIR, the thirteen CARGO_PKG_ variables, NEXTEST_RUN_ID, the
   attempt / slot / group variables) has nextest's value in the child, for every inherited
   environment, every cargo [env] table (forced or not, relative or not), every build-script
   rustc-env list, every set of LD_/DYLD_ variables and every non-test binary name: those layers
   are applied earlier, or can only assign other keys.  The single layer applied later is the
   setup-script environment (property C18), hence the side condition. *)
Theorem C15_env_fixed : forall r s a inherited e k v,
  test_assignments r s a inherited = Some e ->
  In (k, v) (nextest_fixed r s a) ->
  env_get k (ac_setup_env a) = None ->
  child_env_get k e inherited = Some v.
Proof. exact env_fixed. Qed.
Print Assumptions C15_env_fixed.

(* For the NEXTEST-prefixed variables the side condition is what nextest itself enforces on
   setup scripts (parse_env_file rejects keys starting with NEXTEST). *)
Theorem C15_env_fixed_nextest_keys : forall r s a inherited e k v,
  test_assignments r s a inherited = Some e ->
  (forall k' v', In (k', v') (ac_setup_env a) -> is_prefix K.NEXTEST k' = false) ->
  In (k, v) (nextest_fixed r s a) ->
  is_prefix K.NEXTEST k = true ->
  child_env_get k e inherited = Some v.
Proof. exact env_fixed_nextest_keys. Qed.
Print Assumptions C15_env_fixed_nextest_keys.

(* The part of it that TestInstance::make_command alone establishes (tied by hook H5). *)
Theorem C15_env_fixed_make_command : forall r s inherited e k v,
  make_command_assignments r s inherited = Some e ->
  In (k, v) (nextest_static_layer r s) ->
  child_env_get k e inherited = Some v.
Proof. exact env_fixed_make_command. Qed.
Print Assumptions C15_env_fixed_make_command.

(* NEXTEST_RUN_ID is the run's id in every test attempt and in every setup script of a run,
   whatever the test, attempt, binary or environment. *)
Theorem C15_run_id_constant : forall r,
  (forall s a inherited e,
      test_assignments r s a inherited = Some e ->
      env_get K.NEXTEST_RUN_ID (ac_setup_env a) = None ->
      child_env_get K.NEXTEST_RUN_ID e inherited = Some (rc_run_id r))
  /\ (forall env_path inherited e,
         script_assignments r env_path inherited = Some e ->
         child_env_get K.NEXTEST_RUN_ID e inherited = Some (rc_run_id r)).
Proof. intro r. split; [apply run_id_test | apply run_id_script]. Qed.
Print Assumptions C15_run_id_constant.

(* A non-forced cargo [env] entry never replaces an inherited variable. *)
Theorem C15_cargo_env_respects_inherited : forall inh vars l k,
  cargo_layer inh vars = Some l ->
  (forall v, In v vars -> str_eqb k (cv_name v) = true -> unwrap_or_false (cv_force v) = false) ->
  env_mem k inh = true ->
  env_get k l = None.
Proof. exact cargo_layer_keeps_inherited. Qed.
Print Assumptions C15_cargo_env_respects_inherited.

(* Known finding F15a.  The statement "CARGO_PKG_RUST_VERSION is the package's rust-version as
   written in its manifest (what Cargo sets)" is false for the code as it is: a two-component
   rust-version is padded to three components on its way through cargo_metadata and guppy. *)
Theorem C15_rust_version_refuted :
  exists p, env_get K.CARGO_PKG_RUST_VERSION (package_layer p)
            <> Some (unwrap_or_default (p_rust_version p)).
Proof.
  exists {| p_version := []; p_major := []; p_minor := []; p_patch := []; p_pre := [];
            p_authors := []; p_name := []; p_description := None; p_homepage := None;
            p_license := None; p_license_file := None; p_repository := None;
            p_rust_version := Some [49; 46; 55; 48] (* 1.70 *) |}.
  vm_compute. discriminate.
Qed.
Print Assumptions C15_rust_version_refuted.

(* Outside that class the value is the manifest's. *)
Theorem C15_rust_version_outside_known : forall p,
  rust_version_two_components p = false ->
  env_get K.CARGO_PKG_RUST_VERSION (package_layer p) = Some (unwrap_or_default (p_rust_version p)).
Proof. exact rust_version_outside_known. Qed.
Print Assumptions C15_rust_version_outside_known.

(* ---- Non-vacuity and regression witnesses (closed computations) *)

(* the literals are what they should be *)
Example C15_literals :
  K.exact = [45; 45; 101; 120; 97; 99; 116]
  /\ K.nocapture = [45; 45; 110; 111; 99; 97; 112; 116; 117; 114; 101]
  /\ K.ignored = [45; 45; 105; 103; 110; 111; 114; 101; 100]
  /\ K.NEXTEST_RUN_ID = [78; 69; 88; 84; 69; 83; 84; 95; 82; 85; 78; 95; 73; 68].
Proof. repeat split; vm_compute; reflexivity. Qed.

(* a hostile name: it's "x" $y\ #z<newline>*  followed by an empty word and a non-ASCII word *)
Definition hostile : str := [105; 116; 39; 115; 32; 34; 120; 34; 32; 36; 121; 92; 32; 35; 122; 10; 42].
Definition hostile_args : list str := [hostile; []; [233; 119558]; [35]; [39]; [92]; [39; 39]].

Example C15_split_join_example :
  join [hostile]
  = [39; 105; 116; 39; 92; 39; 39; 115; 32; 34; 120; 34; 32; 36; 121; 92; 32; 35; 122; 10; 42; 39]
  /\ split (join hostile_args) = Some hostile_args
  /\ join hostile_args <> naive_join hostile_args.
Proof. repeat split; vm_compute; try reflexivity; discriminate. Qed.

(* split is not trivial: error cases, comments, line continuations, double-quote escapes *)
Example C15_split_examples :
  split [39; 97] = None                                   (* unterminated single quote *)
  /\ split [34; 97; 92] = None                            (* unterminated double quote *)
  /\ split [97; 32; 35; 98; 10; 99] = Some [[97]; [99]]   (* a #b<nl>c *)
  /\ split [97; 92; 10; 98] = Some [[97; 98]]             (* line continuation *)
  /\ split [34; 92; 36; 92; 120; 34] = Some [[36; 92; 120]] (* "\$\x" *)
  /\ split [97; 92] = Some [[97; 92]].                    (* trailing backslash *)
Proof. repeat split; vm_compute; reflexivity. Qed.

(* what the theorem rules out: a launcher joining with plain spaces would run another command *)
Example C15_naive_join_refuted :
  final_exec_naive [116] (test_argv [97; 32; 98] false [])
  = Some ([116], [K.exact; [97]; [98]; K.nocapture])
  /\ final_exec_naive [116] (test_argv [39] false []) = None.
Proof. split; vm_compute; reflexivity. Qed.

(* string literals for the remaining examples *)
Import Coq.Strings.String.
Local Open Scope string_scope.
Local Open Scope N_scope.

Definition ex_pkg : package :=
  {| p_version := K.s "1.2.3"; p_major := K.s "1"; p_minor := K.s "2"; p_patch := K.s "3";
     p_pre := []; p_authors := [K.s "a"; K.s "b"]; p_name := K.s "pkg";
     p_description := None; p_homepage := None; p_license := None; p_license_file := None;
     p_repository := None; p_rust_version := None |}.
Definition ex_run : run_cfg :=
  {| rc_profile := K.s "ci"; rc_run_id := K.s "id-1"; rc_platform := Linux;
     rc_dylib_path := K.s "/lib"; rc_target_dir := K.s "/t";
     rc_cargo_env := env_map_new
       [ {| ce_source := None; ce_name := K.NEXTEST; ce_value := K.s "evil";
            ce_force := None; ce_relative := None |};
         {| ce_source := Some (K.s "/w/.cargo/config.toml"); ce_name := K.CARGO_PKG_NAME;
            ce_value := K.s "evil"; ce_force := Some true; ce_relative := None |};
         {| ce_source := Some (K.s "/w/.cargo/config.toml"); ce_name := K.s "REL";
            ce_value := K.s "a/b"; ce_force := None; ce_relative := Some true |};
         {| ce_source := Some (K.s "/w/.cargo/config.toml"); ce_name := K.s "HOME";
            ce_value := K.s "h"; ce_force := Some false; ce_relative := None |} ] |}.
Definition ex_suite : suite_cfg :=
  {| sc_cwd := K.s "/w/pkg"; sc_package := ex_pkg;
     sc_build_script := Some {| bs_out_dir := K.s "b/out";
                                bs_env := [(K.NEXTEST_PROFILE, K.s "evil")] |};
     sc_non_test_binaries := [(K.s "x", K.s "/t/x")] |}.
Definition ex_attempt : attempt_cfg :=
  {| ac_attempt := K.s "1"; ac_global_slot := K.s "0"; ac_group := K.s "@global";
     ac_group_slot := None; ac_setup_env := [(K.s "FROM_SCRIPT", K.s "1")] |}.
Definition ex_inherited : env :=
  [(K.NEXTEST_RUN_ID, K.s "evil"); (K.s "HOME", K.s "/root"); (K.s "LD_X", K.s "1");
   (K.CARGO_PKG_VERSION, K.s "evil")].

(* hostile inherited environment, cargo [env] and build script: nextest's values win, the
   other layers behave as documented *)
Example C15_env_example :
  match test_assignments ex_run ex_suite ex_attempt ex_inherited with
  | None => False
  | Some e =>
      child_env_get K.NEXTEST e ex_inherited = Some K.one
      /\ child_env_get K.NEXTEST_PROFILE e ex_inherited = Some (K.s "ci")
      /\ child_env_get K.CARGO_PKG_NAME e ex_inherited = Some (K.s "pkg")
      /\ child_env_get K.CARGO_PKG_VERSION e ex_inherited = Some (K.s "1.2.3")
      /\ child_env_get K.CARGO_PKG_AUTHORS e ex_inherited = Some (K.s "a:b")
      /\ child_env_get K.NEXTEST_RUN_ID e ex_inherited = Some (K.s "id-1")
      /\ child_env_get (K.s "REL") e ex_inherited = Some (K.s "/w/a/b")
      /\ child_env_get (K.s "HOME") e ex_inherited = Some (K.s "/root")
      /\ child_env_get K.OUT_DIR e ex_inherited = Some (K.s "/t/b/out")
      /\ child_env_get (K.s "NEXTEST_LD_X") e ex_inherited = Some (K.s "1")
      /\ child_env_get (K.s "NEXTEST_BIN_EXE_x") e ex_inherited = Some (K.s "/t/x")
      /\ child_env_get (K.s "FROM_SCRIPT") e ex_inherited = Some (K.s "1")
  end.
Proof. vm_compute. repeat split; reflexivity. Qed.

(* the side condition of C15_env_fixed is needed: the setup-script layer is applied last
   (setup scripts may not define NEXTEST-prefixed variables, but may define CARGO_ ones: C18) *)
Example C15_setup_env_is_last :
  match test_assignments ex_run ex_suite
          {| ac_attempt := K.s "1"; ac_global_slot := K.s "0"; ac_group := K.s "@global";
             ac_group_slot := None; ac_setup_env := [(K.CARGO_PKG_NAME, K.s "from-script")] |}
          ex_inherited with
  | None => False
  | Some e => child_env_get K.CARGO_PKG_NAME e ex_inherited = Some (K.s "from-script")
  end.
Proof. vm_compute. reflexivity. Qed.

(* the one configuration on which building any command panics instead (noted, outside C15):
   a --config env.K=V option together with a config-file entry K = { relative = true } *)
Example C15_cli_relative_panics :
  cargo_layer []
    (env_map_new
       [ {| ce_source := None; ce_name := K.s "REL"; ce_value := K.s "x";
            ce_force := None; ce_relative := None |};
         {| ce_source := Some (K.s "/w/.cargo/config.toml"); ce_name := K.s "REL";
            ce_value := K.s "a/b"; ce_force := None; ce_relative := Some true |} ]) = None.
Proof. vm_compute. reflexivity. Qed.
