(* C07 — Failed tests are retried as configured: count, stop on success, backoff.
   Statements only; proofs are in Proofs/{Backoff,RetryResolve,DelayWait,DelayTie}.v. Durations are
   N nanoseconds. *)
From NextestModel Require Import Base.Str Model.Clocks Model.UnitTimers Model.Overrides Model.Backoff
  Model.RetryResolve Model.DelayWait Proofs.Backoff Proofs.RetryResolve Proofs.DelayProps
  Proofs.DelayWait Proofs.DelayTie Proofs.DelayTieCert gen.GenPauseTable.
Open Scope N_scope.

(* The attempt loop of run_test_instance, for every pass/fail pattern [outcome], every policy
   (forced from the command line or the test's own), every jitter draw, when the run is not
   being cancelled (every RetryStarted handshake accepted): the unit ends with Finished after
   exactly n = first_pass attempts, numbered 1..n, whose results are outcome 1 .. outcome n; the
   first attempt starts without delay and attempt i+2 starts after the (jittered) i-th delay
   of the policy. *)
Theorem C07_attempt_count :
  forall (R : Type) (succ : R -> bool) force settings outcome accept js,
    (forall k, accept k = true) ->
    let p := effective_policy force settings in
    let total := p_count p + 1 in
    let n := first_pass R succ total outcome in
    let '(l, e) := run_test_instance R succ force settings outcome accept js in
    e = Finished /\
    N.of_nat (length l) = n /\
    map at_no l = nrange 1 (N.to_nat n) /\
    map at_result l = map outcome (nrange 1 (N.to_nat n)) /\
    (forall i, (i < length l)%nat ->
       nth i (map at_delay_before l) 0 =
       match i with O => 0 | S i' => applied_delay p js i' end).
Proof. exact run_all_accepted. Qed.
Print Assumptions C07_attempt_count.

(* ... where first_pass is min(first passing attempt, count + 1): no attempt before it passed
   (so none follows a passing one), and it passed or the attempts are used up. *)
Theorem C07_first_pass_is_min :
  forall (R : Type) (succ : R -> bool) total outcome, 1 <= total ->
    let r := first_pass R succ total outcome in
    1 <= r /\ r <= total /\
    (forall i, 1 <= i -> i < r -> succ (outcome i) = false) /\
    (succ (outcome r) = true \/ r = total).
Proof. exact first_pass_spec. Qed.
Print Assumptions C07_first_pass_is_min.

(* Whatever the dispatcher answers to the retry handshakes: the loop never panics on an exhausted
   backoff iterator; either it finishes exactly as above, or it stops silently at the first
   refused handshake (run being cancelled) having run a strict, non-empty prefix. *)
Theorem C07_no_retry_after_refusal :
  forall (R : Type) (succ : R -> bool) force settings outcome accept js,
    let '(l, e) := run_test_instance R succ force settings outcome accept js in
    let '(l0, _) := run_test_instance R succ force settings outcome (fun _ => true) js in
    (e = Finished /\ l = l0) \/
    (e = Refused /\ exists rest, l0 = l ++ rest /\ rest <> [] /\ l <> [] /\
                    accept (1 + N.of_nat (length l)) = false).
Proof. exact run_never_panics. Qed.
Print Assumptions C07_no_retry_after_refusal.

(* One delay per retry. *)
Theorem C07_delays_length : forall p, length (delays p) = N.to_nat (p_count p).
Proof. exact delays_length. Qed.
Print Assumptions C07_delays_length.

(* Fixed backoff: the same delay every time. *)
Theorem C07_delay_fixed : forall c d j k, (k < N.to_nat c)%nat ->
  nth k (delays (Fixed c d j)) 0 = d.
Proof. exact delays_fixed_nth. Qed.
Print Assumptions C07_delay_fixed.

(* Exponential backoff: the k-th delay (k = 0 for the first retry) is delay * 2^k, capped at
   max-delay: min (delay * 2^k) max. At the cap the code returns max_delay itself once
   delay * factor > max_delay (strictly) and stops doubling; delay * 2^k = max_delay is returned
   as computed — both are min. *)
Theorem C07_delay_exp : forall c d j m k, (k < N.to_nat c)%nat ->
  nth k (delays (Exponential c d j m)) 0 = min_opt (d * 2 ^ N.of_nat k) m.
Proof. exact delays_exp_nth. Qed.
Print Assumptions C07_delay_exp.

Theorem C07_delay_exp_capped : forall c d j mx k, (k < N.to_nat c)%nat ->
  nth k (delays (Exponential c d j (Some mx))) 0 <= mx.
Proof. exact delays_exp_capped. Qed.
Print Assumptions C07_delay_exp_capped.

Theorem C07_delay_exp_monotone : forall c d j m k1 k2, (k1 <= k2)%nat -> (k2 < N.to_nat c)%nat ->
  nth k1 (delays (Exponential c d j m)) 0 <= nth k2 (delays (Exponential c d j m)) 0.
Proof. exact delays_exp_monotone. Qed.
Print Assumptions C07_delay_exp_monotone.

(* The iterator itself (what hook H3 observes): the k-th call of next() on a fresh BackoffIter
   returns the k-th delay, jittered with that call's draw when jitter is on, while k < count,
   and None afterwards. *)
Theorem C07_iterator : forall p take js k, (k < take)%nat ->
  nth k (iter_take take js (b_new p)) None =
  if (N.of_nat k <? p_count p)
  then Some (jit (p_jitter p) (nth k (delays p) 0) (nth k js no_jitter_sample))
  else None.
Proof. exact iter_new_nth. Qed.
Print Assumptions C07_iterator.

(* Jitter: for every factor num/den in (1/2, 1] the applied delay x, in whole nanoseconds,
   satisfies d <= 2x and x <= d, i.e. lies in jitter_range d = [ceil(d/2), d] ... *)
Theorem C07_jitter : forall d s, valid_sample s = true ->
  in_range (jitter_range d) (apply_jitter d s) = true /\
  d <= 2 * apply_jitter d s /\ apply_jitter d s <= d.
Proof. exact jitter_all. Qed.
Print Assumptions C07_jitter.

(* ... and before the rounding to whole nanoseconds the product d * num/den is strictly above
   d/2 and at most d. *)
Theorem C07_jitter_strict_before_rounding : forall d n m, valid_sample (n, m) = true -> 0 < d ->
  d * m < 2 * (d * n) /\ d * n <= d * m.
Proof. exact jitter_factor_strict. Qed.
Print Assumptions C07_jitter_strict_before_rounding.

(* --retries N / NEXTEST_RETRIES=N (the command line first, the environment when the command line
   gives none: [clap_retries]). Whatever the configuration -- any files, profiles, override lists,
   selected profile, platforms -- says about the test, i.e. for every policy [own_policy dec c t]
   it could have, and for every pass/fail pattern: the unit makes m = min(first passing attempt,
   N + 1) attempts, numbered 1..m, none after a passing one, and *every* attempt starts with a
   delay of 0 -- the configured delays, backoff and jitter are gone. (dec: the deserialization
   of a resolved `retries` value, outside the model.) *)
Theorem C07_forced_replaces_policy :
  forall (dec : option sval -> policy) (R : Type) (succ : R -> bool) cli env n c t outcome accept js,
    clap_retries cli env = Some n -> (forall k, accept k = true) ->
    let m := first_pass R succ (n + 1) outcome in
    let '(l, e) := run_configured dec R succ cli env c t outcome accept js in
    e = Finished /\
    N.of_nat (length l) = m /\ 1 <= m /\ m <= n + 1 /\
    (forall i, 1 <= i -> i < m -> succ (outcome i) = false) /\
    (succ (outcome m) = true \/ m = n + 1) /\
    map at_no l = nrange 1 (N.to_nat m) /\
    map at_result l = map outcome (nrange 1 (N.to_nat m)) /\
    (forall a, In a l -> at_delay_before a = 0).
Proof. exact forced_run. Qed.
Print Assumptions C07_forced_replaces_policy.

(* ... for arbitrary handshake answers too (cancellation): the run is literally the run of the
   policy "N retries, no delay", whatever the test's own policy. *)
Theorem C07_forced_is_plain :
  forall (dec : option sval -> policy) (R : Type) (succ : R -> bool) cli env n c t outcome accept js,
    clap_retries cli env = Some n ->
    run_configured dec R succ cli env c t outcome accept js =
    run_test_instance R succ None (new_without_delay n) outcome accept js.
Proof. exact forced_is_plain. Qed.
Print Assumptions C07_forced_is_plain.

(* Nothing forced: the unit runs the policy C06 resolves -- the first override, in the documented
   order, that matches the test by platform and filter and sets `retries`, else the selected
   profile's value, else the default profile's -- with its count and delays (C07_attempt_count). *)
Theorem C07_unforced_policy :
  forall (dec : option sval -> policy) c t,
    wf_file (rc_repo c) = true -> forallb wf_file (rc_tools c) = true ->
    resolved_policy dec None None c t =
    dec match find (fun o => applies (rc_env c) (rc_bp c) t o && is_some (data_get SRetries (ov_data o)))
                   (ordered_overrides (rc_repo c) (rc_tools c) (rc_sel c)) with
        | Some o => data_get SRetries (ov_data o)
        | None => sel_then_default (custom_profile (rc_builtin c) (rc_repo c) (rc_tools c) (rc_sel c))
                                   (default_profile (rc_builtin c) (rc_repo c) (rc_tools c)) k_retries
        end.
Proof. exact resolved_unforced. Qed.
Print Assumptions C07_unforced_policy.

Theorem C07_unforced_run :
  forall (dec : option sval -> policy) (R : Type) (succ : R -> bool) c t outcome accept js,
    run_configured dec R succ None None c t outcome accept js =
    run_test_instance R succ None (resolved_policy dec None None c t) outcome accept js.
Proof. exact run_unforced. Qed.
Print Assumptions C07_unforced_run.

(* what the command line builds is RetryPolicy::new_without_delay n: n retries, no delay *)
Theorem C07_cli_no_delay : forall n k, (k < N.to_nat n)%nat ->
  p_count (new_without_delay n) = n /\ nth k (delays (new_without_delay n)) 0 = 0.
Proof. exact cli_no_delay_both. Qed.
Print Assumptions C07_cli_no_delay.

(* The wait between two attempts (handle_delay_between_attempts over a PausableSleep), for every
   sequence of time steps, stop / continue / shutdown / cancel requests and info queries: the
   wait expires -- and only then is the next attempt's RetryStarted sent on the normal path --
   only after the whole delay has elapsed in *unpaused* time ... *)
Theorem C07_not_sooner : forall delay evs,
  wrun delay evs = Done Expired -> delay <= active_time false evs.
Proof. exact not_sooner. Qed.
Print Assumptions C07_not_sooner.

(* ... it ends early only through a cancellation (after which the retry handshake is refused:
   C07_no_retry_after_refusal) ... *)
Theorem C07_cut_short_only_by_cancel : forall delay evs,
  wrun delay evs = Done CutShort -> existsb is_cancel evs = true.
Proof. exact cut_short_only_by_cancel. Qed.
Print Assumptions C07_cut_short_only_by_cancel.

(* ... and without a cancellation, with debounced Stop requests, once the delay has elapsed in
   unpaused time and the run is not stopped the sleep branch is enabled: taking it ends the wait
   (before that, a Stop can still pause a sleep whose deadline has already passed -- the select!
   may take a queued request first). The PausableSleep never panics. *)
Theorem C07_wait_expires : forall delay evs,
  stops_debounced false evs = true -> existsb is_cancel evs = false ->
  delay <= active_time false evs -> paused_after false evs = false ->
  wrun delay (evs ++ [WFire]) = Done Expired.
Proof. exact expires. Qed.
Print Assumptions C07_wait_expires.

Theorem C07_wait_no_panic : forall delay evs,
  stops_debounced false evs = true -> wrun delay evs <> WPanicked.
Proof. exact no_panic. Qed.
Print Assumptions C07_wait_no_panic.

(* The machine above is the retry-delay loop of the unit-timer model (Model/UnitTimers.v [dstep],
   C12) whose Stop / Continue arms are not written by hand but regenerated from executor.rs on
   every run (gen/GenPauseTable.v: t_delay_stop, t_delay_cont). For every table that passes the
   finite certificate [dcert2] (Stop pauses both delay clocks and acknowledges, Continue resumes
   them only if paused, a second Stop panics) the two machines agree -- on (remaining delay,
   paused flag, done and how), or on having panicked -- after *every* event sequence, with no
   assumption on the environment ... *)
Theorem C07_delay_machines_agree : forall tbl, dcert2 tbl = true -> forall delay es,
  wabs_out (drun tbl (dinit delay) es) = wrun delay (map wev es).
Proof. exact machines_agree. Qed.
Print Assumptions C07_delay_machines_agree.

(* ... the table generated from the source passes it, so C07_not_sooner and
   C07_cut_short_only_by_cancel are facts about the loop with the generated arms. *)
Theorem C07_not_sooner_generated : forall delay es s o,
  drun pause_table (dinit delay) es = Clocks.Ok (s, o) -> d_done s = true -> d_cancelled s = false ->
  delay <= active_time false (map wev es).
Proof. exact (generated_not_sooner pause_table delay_cert2). Qed.
Print Assumptions C07_not_sooner_generated.

Theorem C07_cut_short_generated : forall delay es s o,
  drun pause_table (dinit delay) es = Clocks.Ok (s, o) -> d_done s = true -> d_cancelled s = true ->
  existsb is_cancel (map wev es) = true.
Proof. exact (generated_cut_short_only_by_cancel pause_table delay_cert2). Qed.
Print Assumptions C07_cut_short_generated.

(* ---- non-vacuity and regression witnesses (closed computations) *)
Example C07_ex_exp_delays :
  delays (Exponential 6 1000 false (Some 5000)) = [1000; 2000; 4000; 5000; 5000; 5000]
  /\ delays (Exponential 4 1000 false (Some 4000)) = [1000; 2000; 4000; 4000]
  /\ delays (Exponential 4 3 true None) = [3; 6; 12; 24]
  /\ delays (Fixed 3 7 false) = [7; 7; 7]
  /\ delays (Fixed 0 7 false) = [].
Proof. repeat split; vm_compute; reflexivity. Qed.

Example C07_ex_iterator :
  iter_take 5 [] (b_new (Exponential 3 10 false (Some 25))) = [Some 10; Some 20; Some 25; None; None]
  /\ iter_take 2 [(3, 4); (1, 1)] (b_new (Fixed 2 100 true)) = [Some 75; Some 100].
Proof. split; vm_compute; reflexivity. Qed.

(* attempts 1 and 2 fail, attempt 3 passes, 5 retries allowed: 3 attempts, delays 0, 10, 20 *)
Example C07_ex_loop :
  run_test_instance bool (fun b => b) None (Exponential 5 10 false None)
                    (fun k => 3 <=? k) (fun _ => true) (fun _ => no_jitter_sample)
  = ([ {| at_no := 1; at_delay_before := 0; at_result := false |};
       {| at_no := 2; at_delay_before := 10; at_result := false |};
       {| at_no := 3; at_delay_before := 20; at_result := true |} ], Finished).
Proof. vm_compute. reflexivity. Qed.

(* never passes, 2 retries: exactly 3 attempts *)
Example C07_ex_loop_exhausted :
  let '(l, e) := run_test_instance bool (fun b => b) None (Fixed 2 5 false)
                   (fun _ => false) (fun _ => true) (fun _ => no_jitter_sample) in
  (map at_no l, map at_delay_before l, e) = ([1; 2; 3], [0; 5; 5], Finished).
Proof. vm_compute. reflexivity. Qed.

(* the handshake of attempt 2 is refused (run being cancelled): one attempt, no Finished *)
Example C07_ex_loop_refused :
  let '(l, e) := run_test_instance bool (fun b => b) None (Fixed 2 5 false)
                   (fun _ => false) (fun k => k <? 2) (fun _ => no_jitter_sample) in
  (map at_no l, e) = ([1], Refused).
Proof. vm_compute. reflexivity. Qed.

(* --retries 1 replaces a policy with 5 retries and delays *)
Example C07_ex_cli :
  let '(l, e) := run_test_instance bool (fun b => b) (Some (new_without_delay 1))
                   (Exponential 5 10 false None)
                   (fun _ => false) (fun _ => true) (fun _ => no_jitter_sample) in
  (map at_no l, map at_delay_before l, e) = ([1; 2], [0; 0], Finished).
Proof. vm_compute. reflexivity. Qed.

(* jitter: the range is tight at the top, and d/2 itself is reachable through rounding *)
Example C07_ex_jitter :
  valid_sample (51, 100) = true /\ apply_jitter 2 (51, 100) = 1 /\ jitter_range 2 = (1, 2)
  /\ apply_jitter 1000 (3, 4) = 750 /\ jitter_range 1000 = (500, 1000)
  /\ jitter_range 3 = (2, 3) /\ apply_jitter 3 (51, 100) = 2
  /\ valid_sample (1, 2) = false /\ valid_sample (5, 4) = false.
Proof. repeat split; vm_compute; reflexivity. Qed.

Example C07_ex_valid_policy :
  valid_policy (Fixed 3 0 false) = true /\ valid_policy (Fixed 3 0 true) = false
  /\ valid_policy (Exponential 0 1 false None) = false
  /\ valid_policy (Exponential 1 0 false None) = false
  /\ valid_policy (Exponential 1 5 false (Some 0)) = false
  /\ valid_policy (Exponential 1 5 false (Some 4)) = false
  /\ valid_policy (Exponential 1 5 true (Some 5)) = true.
Proof. repeat split; vm_compute; reflexivity. Qed.

(* the wait: 100 ns delay; 60 ns pass, stop, 500 ns pass while stopped, continue, 39 ns: still
   waiting; one more ns: due, and the sleep branch ends it. A cancellation cuts it short. A Stop
   taken after the deadline has passed but before the sleep branch still pauses the wait. *)
Example C07_ex_wait :
  wrun 100 [Tick 60; WStop; Tick 500; WContinue; Tick 39] = Waiting 1 false
  /\ wrun 100 [Tick 60; WStop; Tick 500; WContinue; Tick 39; WFire] = Waiting 1 false
  /\ wrun 100 [Tick 60; WStop; Tick 500; WContinue; Tick 39; WQuery; Tick 1; WFire] = Done Expired
  /\ active_time false [Tick 60; WStop; Tick 500; WContinue; Tick 39; WQuery; Tick 1] = 100
  /\ wrun 100 [Tick 60; WOtherCancel; Tick 500] = Done CutShort
  /\ wrun 100 [WStop; WShutdown] = Done CutShort
  /\ wrun 100 [Tick 150; WStop; Tick 500; WFire] = Waiting 0 true
  /\ wrun 100 [Tick 150; WStop; Tick 500; WFire; WContinue; WFire] = Done Expired
  /\ wrun 100 [WStop; WStop] = WPanicked /\ stops_debounced false [WStop; WStop] = false.
Proof. repeat split; vm_compute; reflexivity. Qed.

(* the same histories through the unit-timer model's loop with the generated arms *)
Example C07_ex_generated_loop :
  wabs_out (drun pause_table (dinit 100)
                 [DTick 60; DReq RStop; DTick 500; DReq RContinue; DTick 39; DReq RGetInfo; DTick 1; DFire])
  = Done Expired
  /\ wabs_out (drun pause_table (dinit 100) [DTick 150; DReq RStop; DTick 500; DFire]) = Waiting 0 true
  /\ wabs_out (drun pause_table (dinit 100) [DReq RStop; DReq RStop]) = WPanicked
  /\ wabs_out (drun pause_table (dinit 100) [DTick 60; DReq (RShutdown Twice)]) = Done CutShort
  /\ dcert2 pause_table = true.
Proof. repeat split; vm_compute; reflexivity. Qed.

(* NEXTEST_RETRIES=4 with --retries 1: the command line wins; a test that never passes, whose
   own policy (whatever the configuration resolves: here decoded as 5 retries, exponential,
   1 s, jitter) is replaced: 2 attempts, no delay *)
Example C07_ex_forced :
  clap_retries (Some 1) (Some 4) = Some 1 /\ clap_retries None (Some 4) = Some 4
  /\ clap_retries None None = None
  /\ forall c t,
       let '(l, e) := run_configured (fun _ => Exponential 5 1000000000 true None) bool (fun b => b)
                        (Some 1) (Some 4) c t (fun _ => false) (fun _ => true) (fun _ => (3, 4)) in
       (map at_no l, map at_delay_before l, e) = ([1; 2], [0; 0], Finished).
Proof.
  split; [reflexivity|]. split; [reflexivity|]. split; [reflexivity|].
  intros c t. vm_compute. reflexivity.
Qed.
