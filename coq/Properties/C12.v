(* C12 -- Stop/continue pauses tests and all clocks under every signal interleaving.
   Statements only. The pause table is regenerated from executor.rs / unix.rs on every run
   (gen/GenPauseTable.v); Proofs/PauseCert.v re-establishes the certificate for it. *)
From NextestModel Require Import Base.Str Model.Clocks Model.UnitTimers Model.AbsTimers Model.UnitMonitor
  Proofs.Timers Proofs.UnitProps Proofs.DelayProps Proofs.PauseCert Proofs.StopContinue
  Proofs.UnitHistory Proofs.UnitErase Proofs.DispatcherEnv gen.GenPauseTable.
From NextestModel Require Model.Dispatcher.
From Coq Require Import MSets.MSetPositive.
Open Scope N_scope.

(* Generic soundness of the finite certificate, for any pause table and any set S of abstract
   states: if S contains the initial states and is closed under every event the dispatcher, the
   timers, the child and the pipes can produce, with every transition acceptable, then no run
   of the concrete (numeric) unit model over any event sequence of any length panics. *)
Theorem C12_certificate_sound :
  forall tbl S, cert_with tbl S = true ->
  forall cfg es, env_trace t0 es = true -> urun tbl cfg (uinit cfg) es <> Panicked.
Proof. exact cert_no_panic. Qed.
Print Assumptions C12_certificate_sound.

(* For the table read from the current source: no sequence of stop / continue / shutdown /
   information requests, timer expiries, child exits and pipe events -- in the orders the
   dispatcher can produce them -- makes a unit fail internally. *)
Theorem C12_no_internal_failure :
  forall cfg es, env_trace t0 es = true -> urun pause_table cfg (uinit cfg) es <> Panicked.
Proof. exact (cert_no_panic pause_table pause_reach pause_cert). Qed.
Print Assumptions C12_no_internal_failure.

(* At every state reachable that way, every enabled event satisfies the transition
   postconditions [trans_ok]: a Stop handled in the running or terminating loop leaves every
   clock that loop owns paused, is acknowledged, and SIGTSTP goes to the process group; a
   Continue leaves every such clock running and, if a Stop was outstanding, SIGCONT goes to the
   group. *)
Theorem C12_pause_resume_postconditions :
  forall cfg es r e ae,
    env_trace t0 es = true -> urun pause_table cfg (uinit cfg) es = Ok r ->
    annotate cfg (fst r) e = Some ae -> env_ok (env_after t0 es) ae = true ->
    trans_ok pause_table (A (fst r) (env_after t0 es) (grace cfg =? 0)) (norm_ev ae) = true.
Proof. exact (cert_trans_ok pause_table pause_reach pause_cert). Qed.
Print Assumptions C12_pause_resume_postconditions.

(* Time spent with the owned clocks paused is excluded: a tick of any length changes neither the
   reported time taken nor the remaining slow-timeout interval / grace period. *)
Theorem C12_stopped_time_excluded_running :
  forall tbl cfg s dt, ph s = PRunning -> owned_paused s = true ->
  exists s', ustep tbl cfg s (Tick dt) = Ok (s', []) /\ ph s' = ph s /\
             time_taken s' = time_taken s /\ rem (k_isl (ck s')) = rem (k_isl (ck s)).
Proof. exact stopped_time_excluded_running. Qed.
Print Assumptions C12_stopped_time_excluded_running.

Theorem C12_stopped_time_excluded_terminating :
  forall tbl cfg s x dt, ph s = PTerminating x -> owned_paused s = true ->
  exists s', ustep tbl cfg s (Tick dt) = Ok (s', []) /\ ph s' = ph s /\
             time_taken s' = time_taken s /\ rem (k_gsl (ck s')) = rem (k_gsl (ck s)).
Proof. exact stopped_time_excluded_terminating. Qed.
Print Assumptions C12_stopped_time_excluded_terminating.

(* The stopwatch as coded (start instant, accumulated pause, pause instant): a pause at p resumed
   at q removes exactly q - p from every later snapshot, and a snapshot taken while paused does
   not move with the clock (the F11 repair). *)
Theorem C12_stopwatch_excludes_pause :
  forall w p q now, sw_paused_at w = None -> sw_start w + sw_paused_total w <= p -> p <= q -> q <= now ->
  exists w1 w2, sw_pause p w = Ok w1 /\ sw_resume q w1 = Ok w2 /\
                sw_snapshot now w2 + (q - p) = sw_snapshot now w.
Proof. exact sw_pause_resume_excludes. Qed.
Print Assumptions C12_stopwatch_excludes_pause.

Theorem C12_snapshot_while_paused_is_constant :
  forall now now' w p, sw_paused_at w = Some p -> sw_snapshot now w = sw_snapshot now' w.
Proof. exact sw_snapshot_paused_const. Qed.
Print Assumptions C12_snapshot_while_paused_is_constant.

(* Information requests: one response, tagged with the loop the unit is in (none in the synchronous
   wait after a zero-grace kill and after the end, where requests are not read), and no state change
   at all. *)
Theorem C12_info_once :
  forall tbl cfg s,
  ucore tbl cfg s (AReq RGetInfo) =
  Ok (s, match info_tag (ph s) with Some i => [OInfo i] | None => [] end).
Proof. exact info_once. Qed.
Print Assumptions C12_info_once.

(* Retry-delay loop (handle_delay_between_attempts), for the table read from the current source:
   no sequence of requests the dispatcher can produce makes it fail internally, ... *)
Theorem C12_delay_loop_no_internal_failure :
  forall delay es, denv_trace JNone es = true -> drun pause_table (dinit delay) es <> Panicked.
Proof.
  intros delay es. apply (delay_no_panic pause_table delay_cert es (dinit delay) JNone).
  apply dinit_inv.
Qed.
Print Assumptions C12_delay_loop_no_internal_failure.

(* ... and at every state reachable that way (invariant [dinv]) a Stop pauses both delay clocks and
   is acknowledged, a Continue leaves both running. *)
Theorem C12_delay_loop_pause_resume :
  forall s j e, dinv s j -> denv_ok j e = true ->
  exists r, dstep pause_table s e = Ok r /\ dinv (fst r) (denv_next j e) /\
    (d_done s = false -> e = DReq RStop ->
       lpaused (k_dsl (d_ck (fst r))) = true /\ spaused (k_dwsw (d_ck (fst r))) = true /\
       acked (snd r) = true) /\
    (d_done s = false -> e = DReq RContinue ->
       lpaused (k_dsl (d_ck (fst r))) = false /\ spaused (k_dwsw (d_ck (fst r))) = false).
Proof. exact (dstep_sound pause_table delay_cert). Qed.
Print Assumptions C12_delay_loop_pause_resume.

(* A stop / continue pair is invisible to a running unit: Stop, any amount of stopped time,
   Continue bring it back to exactly the same state (the group sees SIGTSTP, SIGCONT; the stop is
   acknowledged) -- so whatever follows, follows as it would have without the pause: same final
   state, same later outputs, for every continuation of any length. *)
Theorem C12_stop_continue_identity_running :
  forall cfg s dt, ph s = PRunning -> owned_running s = true -> reaped s = false ->
  urun pause_table cfg s [Req RStop; Tick dt; Req RContinue]
  = Ok (s, [OSignal SigTstp; OAck; OSignal SigCont]).
Proof. exact stop_continue_identity_running. Qed.
Print Assumptions C12_stop_continue_identity_running.

Theorem C12_same_results :
  forall cfg s dt es, ph s = PRunning -> owned_running s = true -> reaped s = false ->
  urun pause_table cfg s ([Req RStop; Tick dt; Req RContinue] ++ es) =
  match urun pause_table cfg s es with
  | Ok r => Ok (fst r, [OSignal SigTstp; OAck; OSignal SigCont] ++ snd r)
  | Panicked => Panicked
  end.
Proof. exact stop_continue_same_results. Qed.
Print Assumptions C12_same_results.

(* In the terminating loop the same holds for every clock that loop owns (time taken, grace
   period, waiting time); the slow-timeout interval, which that loop does not own, keeps counting
   unless it was already paused. *)
Theorem C12_stop_continue_identity_terminating :
  forall cfg s x dt, ph s = PTerminating x -> owned_running s = true -> reaped s = false ->
  urun pause_table cfg s [Req RStop; Tick dt; Req RContinue]
  = Ok (with_ck s (set_isl (ck s) (slc_tick dt (k_isl (ck s)))),
        [OSignal SigTstp; OAck; OSignal SigCont]).
Proof. exact stop_continue_identity_terminating. Qed.
Print Assumptions C12_stop_continue_identity_terminating.

(* ================================================================ over whole histories
   As in Properties/C09.v: [mrun true pause_table cfg (minit cfg) es = MOk m] holds exactly for the
   histories [es] the environment can produce -- Stop / Continue alternate, shutdown requests come
   Once then Twice, and nextest stops itself after the Stop: inside a stopped window only time
   passes until the resumption, at which requests sent meanwhile, the child's exit etc. may be
   handled (in any order) with no time passing before the Continue. *)

(* Every environment-valid history of any length runs without internal failure (the monitored run
   exists); this is [C12_no_internal_failure] under the richer environment. *)
Theorem C12_env_valid_history_runs :
  forall cfg es, cfg_valid cfg -> senv_trace senv0 es = true ->
  exists m, mrun true pause_table cfg (minit cfg) es = MOk m.
Proof. intros cfg es Hv Ht. exact (env_valid_runs pause_table pause_reach cfg es pause_cert Hv Ht). Qed.
Print Assumptions C12_env_valid_history_runs.

(* Time spent stopped is excluded from the reported duration: [time_taken] lies between the unpaused
   time spent in the running / terminating loops ([m_rt]) and the whole unpaused time ([m_upt]);
   the difference [m_upt - m_rt] is the unpaused time spent draining leaked handles (<= the leak
   timeout). The upper bound excludes the known class F12 ([m_bad]: a Stop delivered while the
   unit is in a loop that ignores job control); the lower bound is unconditional. *)
Theorem C12_time_excluded :
  forall cfg es m, cfg_valid cfg -> mrun true pause_table cfg (minit cfg) es = MOk m ->
  m_rt m <= time_taken (m_u m) /\ m_rt m <= m_upt m /\
  (m_bad m = false -> time_taken (m_u m) <= m_upt m).
Proof.
  intros cfg es m Hv Hr. exact (time_excluded pause_table pause_reach pause_cert cfg Hv es m Hr).
Qed.
Print Assumptions C12_time_excluded.

(* inside the class the upper bound fails (finding F12): a stop during the leak drain is counted *)
Example C12_time_excluded_refuted_in_known_class_F12 :
  let cfg := {| period := 50; terminate_after := None; grace := 7; leak_timeout := 30 |} in
  let es := [Tick 3; ChildExit true; Req RStop; Tick 20; Req RContinue; FdsDone] in
  exists m, mrun true pause_table cfg (minit cfg) es = MOk m /\ m_bad m = true /\
            time_taken (m_u m) = 23 /\ m_upt m = 3.
Proof. eexists. split; [vm_compute; reflexivity|]. repeat split. Qed.

(* ... and the slow-timeout interval and the grace period only advance on unpaused time: while a
   unit is being terminated its grace sleep still has at least (grace - unpaused time since the
   termination began) to go; while it is running (no shutdown request yet) the time the interval
   sleep has counted is covered by the unpaused running time. *)
Theorem C12_clocks_advance_on_unpaused_time :
  forall cfg es m, cfg_valid cfg -> mrun true pause_table cfg (minit cfg) es = MOk m ->
  (is_terminating (ph (m_u m)) = true -> grace cfg <= rem (k_gsl (ck (m_u m))) + m_gun m) /\
  (no_shutdown_yet (m_x m) = true -> ph (m_u m) = PRunning -> timed_out (m_u m) = false ->
     hits (m_u m) * period cfg + (period cfg - rem_isl (m_u m)) <= m_rt m).
Proof.
  intros cfg es m Hv Hr.
  exact (clocks_advance_on_unpaused_time pause_table pause_reach pause_cert cfg Hv es m Hr).
Qed.
Print Assumptions C12_clocks_advance_on_unpaused_time.

(* The audit's counterexample to "stopped time is excluded from the grace period" is exactly a
   history the self-stop premise excludes (see also C09_kill_not_before_grace_needs_the_self_stop_premise):
   accepted by the alternation-only premise, the whole grace period elapses while stopped. *)
Example C12_grace_counts_stopped_time_without_the_self_stop_premise :
  let cfg := {| period := 50; terminate_after := None; grace := 7; leak_timeout := 1 |} in
  let es := [Tick 1; Req RStop; Req (RShutdown (Once SInt)); Tick 7; FireGrace] in
  env_trace t0 es = true /\ senv_trace senv0 es = false /\
  exists s, urun pause_table cfg (uinit cfg) es =
            Ok (s, [OSignal SigTstp; OAck; OSignal SigInt; OSignal SigKill]).
Proof. split; [reflexivity|]. split; [reflexivity|]. eexists. vm_compute. reflexivity. Qed.

(* "... and the run proceeds to the results it would otherwise have produced", for arbitrary
   histories: erase every pure stop / continue block (Stop, any number of Ticks, Continue) that
   begins before the first shutdown request ([erase_blocks]); outside the class F12 the erased
   history gives the same outputs minus the job-control signals and acknowledgements, and the same
   final state -- up to the remaining time of the slow-timeout interval sleep once the attempt has
   been terminated for a timeout (it is never read again) -- hence the same phase, result, slow
   mark and reported time. Any number of blocks, in the running loop and in terminate_child. *)
Theorem C12_same_results_any_history :
  forall cfg es m, cfg_valid cfg -> mrun true pause_table cfg (minit cfg) es = MOk m -> m_bad m = false ->
  exists o o' sf',
    urun pause_table cfg (uinit cfg) es = Ok (m_u m, o) /\
    urun pause_table cfg (uinit cfg) (erase_blocks es) = Ok (sf', o') /\
    strip_jc o = strip_jc o' /\ req (m_u m) sf' /\
    ph sf' = ph (m_u m) /\ uresult sf' = uresult (m_u m) /\ slow sf' = slow (m_u m) /\
    time_taken sf' = time_taken (m_u m).
Proof.
  intros cfg es m Hv Hr Hb.
  exact (same_results_erased pause_table pause_reach pause_cert pause_block_cert cfg Hv es m Hr Hb).
Qed.
Print Assumptions C12_same_results_any_history.

(* non-vacuity: three blocks (running loop, running loop, terminate_child on the timeout path)
   disappear; what remains is the history without any pause *)
Example C12_same_results_nonvacuous :
  let es := [Tick 3; Req RStop; Tick 60; Req RContinue; Tick 2; FireInterval; Tick 1; Req RStop; Tick 40;
             Req RContinue; Tick 4; FireInterval; Tick 3; Req RStop; Tick 20; Req RContinue;
             Tick 4; FireGrace; ChildExit false; FdsDone] in
  senv_trace senv0 es = true /\
  erase_blocks es = [Tick 3; Tick 2; FireInterval; Tick 1; Tick 4; FireInterval; Tick 3;
                     Tick 4; FireGrace; ChildExit false; FdsDone].
Proof. split; reflexivity. Qed.

(* Stops that land while the unit is being terminated for a *shutdown signal* are outside the
   erasure theorem, and for a reason: terminate_child does not own the slow-timeout interval sleep,
   so it keeps counting while the run is stopped; when the loop is re-entered after the kill, the
   interval may have expired although less than a period of running time has passed, and the
   attempt is marked slow. Finding F17 (known_findings.json), reproduced end to end (3 of 3 runs):
   minor -- the unit is already dead -- but it is stopped time counted by the slow-timeout clock.
   The class: a Stop delivered after a shutdown request; [C12_same_results_any_history] and
   [C09_slow_iff] are the statements outside it. *)
Example C12_same_results_refuted_for_a_stop_during_signal_termination_F17 :
  let cfg := {| period := 50; terminate_after := None; grace := 7; leak_timeout := 1 |} in
  let es := [Req (RShutdown (Once SInt)); Req RStop; Tick 100; Req RContinue; Tick 7; FireGrace;
             FireInterval; ChildExit false; FdsDone] in
  let es' := [Req (RShutdown (Once SInt)); Tick 7; FireGrace; FireInterval; ChildExit false; FdsDone] in
  senv_trace senv0 es = true /\
  (exists m, mrun true pause_table cfg (minit cfg) es = MOk m /\ m_bad m = false /\ slow (m_u m) = true /\ m_rt m = 7) /\
  (exists m, mrun true pause_table cfg (minit cfg) es' = MOk m /\ slow (m_u m) = false).
Proof.
  split; [reflexivity|]. split; eexists; (split; [vm_compute; reflexivity|repeat split]).
Qed.

(* "... in the orders the dispatcher can produce": a theorem about the dispatcher model
   (Model/Dispatcher.v), for every input history: the requests a unit finds in its channel from
   the moment it is registered (its Started handshake accepted) obey [env_ok] -- Stop / Continue
   alternate through the debounce on [d_paused], shutdown requests come Once then Twice. *)
Theorem C12_dispatcher_requests_obey_env :
  forall n mf dbg h1 t h2 d1,
  Dispatcher.final_state (Dispatcher.Live (Dispatcher.init n mf dbg)) h1 = Dispatcher.Live d1 ->
  Dispatcher.r_hs (snd (Dispatcher.dstep (Dispatcher.Live d1) (Dispatcher.Started t))) = Dispatcher.HAccepted ->
  env_trace t0 (map Req (reqs_of t (Dispatcher.next_state (Dispatcher.Live d1) (Dispatcher.Started t)) h2)) = true.
Proof. exact dispatcher_requests_obey_env_from_registration. Qed.
Print Assumptions C12_dispatcher_requests_obey_env.

Example C12_dispatcher_requests_nonvacuous :
  reqs_of 7 (Dispatcher.Live (Dispatcher.init 3 None true))
    [Dispatcher.Started 7; Dispatcher.SigStop; Dispatcher.SigStop; Dispatcher.SigCont; Dispatcher.SigCont;
     Dispatcher.SigInfo Dispatcher.IkUsr1; Dispatcher.SigShutdown Dispatcher.Term;
     Dispatcher.SigShutdown Dispatcher.SInterrupt]
  = [RStop; RContinue; RGetInfo; RShutdown (Once STerm); RShutdown Twice].
Proof. vm_compute. reflexivity. Qed.

(* ---- witnesses *)
(* F11, before the repair: a snapshot taken while paused grew with the clock *)
Example C12_F11_unfixed_witness :
  let w := {| sw_start := 0; sw_paused_total := 0; sw_paused_at := Some 10 |} in
  sw_snapshot_unfixed 1000 w = 1000 /\ sw_snapshot 1000 w = 10.
Proof. split; reflexivity. Qed.

(* F3, before the repair: Continue in the terminating loop tested the negated condition; the
   certificate rejects that table, with the shortest failing request sequence
   [interval expiry with termination; Continue] *)
Definition table_before_F3 : ptable := {|
  t_run_stop := [Do (Pause KSw); Do (Pause KInterval); Do GroupStop; Do Ack];
  t_run_cont := [IfPaused KSw [Resume KSw; Resume KInterval; GroupCont]];
  t_term_stop := [Do (Pause KSw); Do (Pause KGrace); Do (Pause KWait); Do GroupStop; Do Ack];
  t_term_cont := [IfNotPaused KGrace [Resume KSw; Resume KGrace; Resume KWait]; Do GroupCont];
  t_delay_stop := [Do (Pause KDelay); Do (Pause KDelayWait); Do Ack];
  t_delay_cont := [IfPaused KDelay [Resume KDelay; Resume KDelayWait]];
  t_leak_stop := []; t_leak_cont := [] |}.
Example C12_F3_unfixed_refuted :
  first_bad table_before_F3 = Some [AFireInterval true; AReq RContinue] /\
  urun table_before_F3 {| period := 5; terminate_after := Some 1; grace := 7; leak_timeout := 1 |}
       (uinit {| period := 5; terminate_after := Some 1; grace := 7; leak_timeout := 1 |})
       [Tick 5; FireInterval; Req RContinue] = Panicked.
Proof. split; vm_compute; reflexivity. Qed.

(* non-vacuity: a long well-formed history through stop / continue / shutdown on the current table *)
Example C12_nonvacuous :
  let cfg := {| period := 5; terminate_after := Some 2; grace := 7; leak_timeout := 1 |} in
  let es := [Tick 5; FireInterval; Req RStop; Tick 100; Req RContinue; Tick 5; FireInterval;
             Req RStop; Tick 50; Req (RShutdown (Once SInt)); Req RContinue; Req RGetInfo;
             Tick 7; FireGrace; ChildExit false; FdsDone] in
  env_trace t0 es = true /\
  exists s o, urun pause_table cfg (uinit cfg) es = Ok (s, o) /\ ph s = PDone /\
              uresult s = UTimeout /\ time_taken s = 17.
Proof. split; [reflexivity|]. eexists; eexists. split; [vm_compute; reflexivity|]. repeat split. Qed.
