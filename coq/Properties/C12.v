(* C12 -- Stop/continue pauses tests and all clocks under every signal interleaving.
   Statements only. The pause table is regenerated from executor.rs / unix.rs on every run
   (gen/GenPauseTable.v); Proofs/PauseCert.v re-establishes the certificate for it. *)
From NextestModel Require Import Base.Str Model.Clocks Model.UnitTimers Model.AbsTimers
  Proofs.Timers Proofs.UnitProps Proofs.DelayProps Proofs.PauseCert Proofs.StopContinue gen.GenPauseTable.
From Coq Require Import MSets.MSetPositive.
Open Scope N_scope.

(* Generic soundness of the finite certificate, for any pause table and any set S of abstract
   states: if S contains the initial states and is closed under every event the dispatcher, the
   timers, the child and the pipes can produce, with every transition acceptable, then no run
   of the concrete (numeric) unit model over any event sequence of any length panics. *)
Theorem C12_certificate_sound :
  forall tbl S, cert_with tbl S = true ->
  forall cfg es, env_trace t0 es = true -> urun tbl cfg (uinit cfg) es <> Panicked.
Proof. exact cert_no_panic. Qed.
Print Assumptions C12_certificate_sound.

(* For the table read from the current source: no sequence of stop / continue / shutdown /
   information requests, timer expiries, child exits and pipe events -- in the orders the
   dispatcher can produce them -- makes a unit fail internally. *)
Theorem C12_no_internal_failure :
  forall cfg es, env_trace t0 es = true -> urun pause_table cfg (uinit cfg) es <> Panicked.
Proof. exact (cert_no_panic pause_table pause_reach pause_cert). Qed.
Print Assumptions C12_no_internal_failure.

(* At every state reachable that way, every enabled event satisfies the transition
   postconditions [trans_ok]: a Stop handled in the running or terminating loop leaves every
   clock that loop owns paused, is acknowledged, and SIGTSTP goes to the process group; a
   Continue leaves every such clock running and, if a Stop was outstanding, SIGCONT goes to the
   group. *)
Theorem C12_pause_resume_postconditions :
  forall cfg es r e ae,
    env_trace t0 es = true -> urun pause_table cfg (uinit cfg) es = Ok r ->
    annotate cfg (fst r) e = Some ae -> env_ok (env_after t0 es) ae = true ->
    trans_ok pause_table (A (fst r) (env_after t0 es) (grace cfg =? 0)) (norm_ev ae) = true.
Proof. exact (cert_trans_ok pause_table pause_reach pause_cert). Qed.
Print Assumptions C12_pause_resume_postconditions.

(* Time spent with the owned clocks paused is excluded: a tick of any length changes neither the
   reported time taken nor the remaining slow-timeout interval / grace period. *)
Theorem C12_stopped_time_excluded_running :
  forall tbl cfg s dt, ph s = PRunning -> owned_paused s = true ->
  exists s', ustep tbl cfg s (Tick dt) = Ok (s', []) /\ ph s' = ph s /\
             time_taken s' = time_taken s /\ rem (k_isl (ck s')) = rem (k_isl (ck s)).
Proof. exact stopped_time_excluded_running. Qed.
Print Assumptions C12_stopped_time_excluded_running.

Theorem C12_stopped_time_excluded_terminating :
  forall tbl cfg s x dt, ph s = PTerminating x -> owned_paused s = true ->
  exists s', ustep tbl cfg s (Tick dt) = Ok (s', []) /\ ph s' = ph s /\
             time_taken s' = time_taken s /\ rem (k_gsl (ck s')) = rem (k_gsl (ck s)).
Proof. exact stopped_time_excluded_terminating. Qed.
Print Assumptions C12_stopped_time_excluded_terminating.

(* The stopwatch as coded (start instant, accumulated pause, pause instant): a pause at p resumed
   at q removes exactly q - p from every later snapshot, and a snapshot taken while paused does
   not move with the clock (the F11 repair). *)
Theorem C12_stopwatch_excludes_pause :
  forall w p q now, sw_paused_at w = None -> sw_start w + sw_paused_total w <= p -> p <= q -> q <= now ->
  exists w1 w2, sw_pause p w = Ok w1 /\ sw_resume q w1 = Ok w2 /\
                sw_snapshot now w2 + (q - p) = sw_snapshot now w.
Proof. exact sw_pause_resume_excludes. Qed.
Print Assumptions C12_stopwatch_excludes_pause.

Theorem C12_snapshot_while_paused_is_constant :
  forall now now' w p, sw_paused_at w = Some p -> sw_snapshot now w = sw_snapshot now' w.
Proof. exact sw_snapshot_paused_const. Qed.
Print Assumptions C12_snapshot_while_paused_is_constant.

(* Information requests: exactly one response, tagged with the loop the unit is in, and no state
   change at all. *)
Theorem C12_info_once :
  forall tbl cfg s,
  ucore tbl cfg s (AReq RGetInfo) =
  Ok (s, match info_tag (ph s) with Some i => [OInfo i] | None => [] end).
Proof. exact info_once. Qed.
Print Assumptions C12_info_once.

(* Retry-delay loop (handle_delay_between_attempts), for the table read from the current source:
   no sequence of requests the dispatcher can produce makes it fail internally, ... *)
Theorem C12_delay_loop_no_internal_failure :
  forall delay es, denv_trace JNone es = true -> drun pause_table (dinit delay) es <> Panicked.
Proof.
  intros delay es. apply (delay_no_panic pause_table delay_cert es (dinit delay) JNone).
  apply dinit_inv.
Qed.
Print Assumptions C12_delay_loop_no_internal_failure.

(* ... and at every state reachable that way (invariant [dinv]) a Stop pauses both delay clocks and
   is acknowledged, a Continue leaves both running. *)
Theorem C12_delay_loop_pause_resume :
  forall s j e, dinv s j -> denv_ok j e = true ->
  exists r, dstep pause_table s e = Ok r /\ dinv (fst r) (denv_next j e) /\
    (d_done s = false -> e = DReq RStop ->
       lpaused (k_dsl (d_ck (fst r))) = true /\ spaused (k_dwsw (d_ck (fst r))) = true /\
       acked (snd r) = true) /\
    (d_done s = false -> e = DReq RContinue ->
       lpaused (k_dsl (d_ck (fst r))) = false /\ spaused (k_dwsw (d_ck (fst r))) = false).
Proof. exact (dstep_sound pause_table delay_cert). Qed.
Print Assumptions C12_delay_loop_pause_resume.

(* A stop / continue pair is invisible to a running unit: Stop, any amount of stopped time,
   Continue bring it back to exactly the same state (the group sees SIGTSTP, SIGCONT; the stop is
   acknowledged) -- so whatever follows, follows as it would have without the pause: same final
   state, same later outputs, for every continuation of any length. *)
Theorem C12_stop_continue_identity_running :
  forall cfg s dt, ph s = PRunning -> owned_running s = true -> reaped s = false ->
  urun pause_table cfg s [Req RStop; Tick dt; Req RContinue]
  = Ok (s, [OSignal SigTstp; OAck; OSignal SigCont]).
Proof. exact stop_continue_identity_running. Qed.
Print Assumptions C12_stop_continue_identity_running.

Theorem C12_same_results :
  forall cfg s dt es, ph s = PRunning -> owned_running s = true -> reaped s = false ->
  urun pause_table cfg s ([Req RStop; Tick dt; Req RContinue] ++ es) =
  match urun pause_table cfg s es with
  | Ok r => Ok (fst r, [OSignal SigTstp; OAck; OSignal SigCont] ++ snd r)
  | Panicked => Panicked
  end.
Proof. exact stop_continue_same_results. Qed.
Print Assumptions C12_same_results.

(* In the terminating loop the same holds for every clock that loop owns (time taken, grace
   period, waiting time); the slow-timeout interval, which that loop does not own, keeps counting
   unless it was already paused. *)
Theorem C12_stop_continue_identity_terminating :
  forall cfg s x dt, ph s = PTerminating x -> owned_running s = true -> reaped s = false ->
  urun pause_table cfg s [Req RStop; Tick dt; Req RContinue]
  = Ok (with_ck s (set_isl (ck s) (slc_tick dt (k_isl (ck s)))),
        [OSignal SigTstp; OAck; OSignal SigCont]).
Proof. exact stop_continue_identity_terminating. Qed.
Print Assumptions C12_stop_continue_identity_terminating.

(* ---- witnesses *)
(* F11, before the repair: a snapshot taken while paused grew with the clock *)
Example C12_F11_unfixed_witness :
  let w := {| sw_start := 0; sw_paused_total := 0; sw_paused_at := Some 10 |} in
  sw_snapshot_unfixed 1000 w = 1000 /\ sw_snapshot 1000 w = 10.
Proof. split; reflexivity. Qed.

(* F3, before the repair: Continue in the terminating loop tested the negated condition; the
   certificate rejects that table, with the shortest failing request sequence
   [interval expiry with termination; Continue] *)
Definition table_before_F3 : ptable := {|
  t_run_stop := [Do (Pause KSw); Do (Pause KInterval); Do GroupStop; Do Ack];
  t_run_cont := [IfPaused KSw [Resume KSw; Resume KInterval; GroupCont]];
  t_term_stop := [Do (Pause KSw); Do (Pause KGrace); Do (Pause KWait); Do GroupStop; Do Ack];
  t_term_cont := [IfNotPaused KGrace [Resume KSw; Resume KGrace; Resume KWait]; Do GroupCont];
  t_delay_stop := [Do (Pause KDelay); Do (Pause KDelayWait); Do Ack];
  t_delay_cont := [IfPaused KDelay [Resume KDelay; Resume KDelayWait]];
  t_leak_stop := []; t_leak_cont := [] |}.
Example C12_F3_unfixed_refuted :
  first_bad table_before_F3 = Some [AFireInterval true; AReq RContinue] /\
  urun table_before_F3 {| period := 5; terminate_after := Some 1; grace := 7; leak_timeout := 1 |}
       (uinit {| period := 5; terminate_after := Some 1; grace := 7; leak_timeout := 1 |})
       [Tick 5; FireInterval; Req RContinue] = Panicked.
Proof. split; vm_compute; reflexivity. Qed.

(* non-vacuity: a long well-formed history through stop / continue / shutdown on the current table *)
Example C12_nonvacuous :
  let cfg := {| period := 5; terminate_after := Some 2; grace := 7; leak_timeout := 1 |} in
  let es := [Tick 5; FireInterval; Req RStop; Tick 100; Req RContinue; Tick 5; FireInterval;
             Req RStop; Tick 50; Req (RShutdown (Once SInt)); Req RContinue; Req RGetInfo;
             Tick 7; FireGrace; ChildExit false; FdsDone] in
  env_trace t0 es = true /\
  exists s o, urun pause_table cfg (uinit cfg) es = Ok (s, o) /\ ph s = PDone /\
              uresult s = UTimeout /\ time_taken s = 17.
Proof. split; [reflexivity|]. eexists; eexists. split; [vm_compute; reflexivity|]. repeat split. Qed.
