(* C17 -- Summary counts, run statistics and the JUnit report all tell the same story.
   Statements only; proofs are in Proofs/Junit.v. The model (Model/Junit.v) consumes the emitted
   event stream: RunStats::on_test_finished / on_setup_script_finished, ExecutionStatuses::describe,
   MetadataJunit::write_event, the final summary line. *)
From NextestModel Require Import Base.Str Model.Junit Proofs.Junit.
Open Scope N_scope.

(* passed + failed + exec_failed + timed_out = finished; flaky, leaky, slow are sub-counts; the
   same identity for setup scripts -- for ANY stream of events and any number of selected tests *)
Theorem stats_partition :
  forall n evs,
    let s := run_stats n evs in
    passed s + failed s + exec_failed s + timed_out s = finished_count s
    /\ flaky s <= passed s /\ leaky s <= passed s /\ passed_slow s <= passed s
    /\ failed_slow s <= failed s
    /\ ss_passed s + ss_failed s + ss_exec_failed s + ss_timed_out s = ss_finished_count s.
Proof. exact stats_partition_lemma. Qed.
Print Assumptions stats_partition.

(* finished <= selected: the hypothesis is what C02 proves of the dispatcher (a selected test
   finishes at most once, nothing else finishes); it is validated on every real event stream *)
Theorem C17_finished_le_selected :
  forall (sel : list (str * str)) evs,
    NoDup (finished_ids evs) -> incl (finished_ids evs) sel ->
    finished_count (run_stats (len sel) evs) <= initial_run_count (run_stats (len sel) evs).
Proof. exact finished_le_selected. Qed.
Print Assumptions C17_finished_le_selected.

Theorem C17_finished_counts_events :
  forall n evs, finished_count (run_stats n evs) = len (finished_ids evs)
                /\ initial_run_count (run_stats n evs) = n.
Proof. exact finished_counts_events. Qed.
Print Assumptions C17_finished_counts_events.

(* exactly one testcase per finished test / setup script, in the suite of its binary /
   @setup-script:id, suites in order of first arrival, testcases in event order *)
Theorem C17_one_testcase_per_finished :
  forall evs rep n,
    junit_report evs = Some rep ->
    (forall k, lookup_suite k rep = cases_for k (cases_of evs))
    /\ NoDup (map fst rep)
    /\ (forall k tcs, In (k, tcs) rep -> tcs = cases_for k (cases_of evs) /\ tcs <> [])
    /\ map fst rep = fold_left (fun ks c => add_key (fst c) ks) (cases_of evs) []
    /\ len (test_cases rep) = finished_count (run_stats n evs)
    /\ len (script_cases rep) = ss_finished_count (run_stats n evs)
    /\ len (all_cases rep) = len (cases_of evs).
Proof. exact one_testcase_per_finished. Qed.
Print Assumptions C17_one_testcase_per_finished.

Theorem C17_testcase_placement :
  forall e k tc,
    convert e = CCase k tc ->
    match e with
    | JTestFinished bin name _ _ _ _ =>
        k = KBinary bin /\ tc_name tc = name /\ tc_classname tc = bin
    | JScriptFinished id _ _ _ =>
        k = KScript id /\ tc_name tc = id /\ tc_classname tc = setup_script_prefix ++ id
    | _ => False
    end.
Proof. exact testcase_placement. Qed.
Print Assumptions C17_testcase_placement.

(* a testcase carries <failure>/<error> iff the test's last attempt is not a success ... *)
Theorem C17_failure_iff :
  forall bin name first rest ss sf k tc,
    convert_test bin name first rest ss sf = CCase k tc ->
    (is_nonsuccess tc = true <-> jis_success (ja_res (last_attempt first rest)) = false).
Proof. exact failure_iff. Qed.
Print Assumptions C17_failure_iff.

(* ... so the number of such testcases is failed_count (the number that decides the exit status),
   the number of failed script testcases is failed_setup_script_count, and the number of
   successes with flaky reruns is the flaky count *)
Theorem C17_failure_counts :
  forall evs rep n,
    junit_report evs = Some rep ->
    count_if is_nonsuccess (test_cases rep) = failed_count (run_stats n evs)
    /\ count_if is_nonsuccess (script_cases rep) = failed_script_count (run_stats n evs)
    /\ count_if is_flaky_case (test_cases rep) = flaky (run_stats n evs).
Proof. exact failure_counts. Qed.
Print Assumptions C17_failure_counts.

(* which of the two elements: named after the FIRST attempt's result (the statistics classify by
   the last one) *)
Theorem C17_failure_kind :
  forall bin name first rest ss sf k tc,
    convert_test bin name first rest ss sf = CCase k tc ->
    jis_success (ja_res (last_attempt first rest)) = false ->
    exists kd, non_success_kind (ja_res first) = Some kd /\ has_kind kd tc = true.
Proof. exact failure_kind. Qed.
Print Assumptions C17_failure_kind.

(* one rerun element per additional attempt; they are flaky* elements (status Success) iff the
   last attempt passed; the testcase reports the last attempt of a flaky test and the first
   attempt of a failed one, the reruns report the others in order *)
Theorem C17_reruns :
  forall bin name first rest ss sf k tc,
    convert_test bin name first rest ss sf = CCase k tc ->
    len (tc_reruns tc) + 1 = len (attempts first rest)
    /\ ((exists rs, tc_status tc = TSuccess rs)
        <-> jis_success (ja_res (last_attempt first rest)) = true)
    /\ (if jis_success (ja_res (last_attempt first rest))
        then tc_main_attempt tc = len (attempts first rest)
             /\ map rr_attempt (tc_reruns tc) = nseq 1 (length rest)
        else tc_main_attempt tc = 1 /\ map rr_attempt (tc_reruns tc) = nseq 2 (length rest)).
Proof. exact reruns_spec. Qed.
Print Assumptions C17_reruns.

(* stored output: main element iff (store-success-output and success) or (store-failure-output
   and not success); every rerun element iff store-failure-output *)
Theorem C17_store_iff :
  forall bin name first rest ss sf k tc,
    wf_attempts first rest = true ->
    convert_test bin name first rest ss sf = CCase k tc ->
    (tc_stored tc = true <->
       (ss = true /\ jis_success (ja_res (last_attempt first rest)) = true)
       \/ (sf = true /\ jis_success (ja_res (last_attempt first rest)) = false))
    /\ Forall (fun r => rr_stored r = sf) (tc_reruns tc).
Proof. exact store_iff. Qed.
Print Assumptions C17_store_iff.

Theorem C17_store_iff_script :
  forall id r ss sf k tc,
    convert_script id r ss sf = CCase k tc ->
    (tc_stored tc = true <->
       (ss = true /\ jis_success r = true) \/ (sf = true /\ jis_success r = false)).
Proof. exact store_iff_script. Qed.
Print Assumptions C17_store_iff_script.

(* the aggregator never hits its unreachable!() on streams the retry loop can produce *)
Theorem C17_report_exists :
  forall evs, forallb wf_event evs = true -> exists rep, junit_report evs = Some rep.
Proof. exact wf_report_exists. Qed.
Print Assumptions C17_report_exists.

(* the three consumers agree: given that every snapshot carried by an event is the running fold
   (attached), the statistics carried by RunFinished -- from which the summary line and the exit
   status are computed -- equal the statistics recomputed from the stream, and the JUnit report
   built from the same stream has the matching counts *)
Theorem C17_consumers_agree :
  forall n (l : list sevent) final rep,
    attached (initial_stats n) (l ++ [(JOther, Some final)]) = true ->
    junit_report (map fst l) = Some rep ->
    let evs := map fst l in
    final = run_stats n evs
    /\ summary_counts final = summary_counts (run_stats n evs)
    /\ len (test_cases rep) = finished_count final
    /\ count_if is_nonsuccess (test_cases rep) = failed_count final
    /\ count_if is_flaky_case (test_cases rep) = flaky final
    /\ len (script_cases rep) = ss_finished_count final
    /\ count_if is_nonsuccess (script_cases rep) = failed_script_count final
    /\ (has_failures final = false <-> count_if is_nonsuccess (all_cases rep) = 0)
    /\ part_inv final.
Proof. exact consumers_agree. Qed.
Print Assumptions C17_consumers_agree.

(* well-formedness of the XML text: quick-junit's XmlString filter versus the XML 1.0 Char
   production. The full statement is refuted (finding F13); outside the two BMP non-characters
   every kept scalar value is a legal XML character *)
Theorem C17_xml_chars_refuted :
  exists c, is_scalar c = true /\ xmlstring_keeps c = true /\ xml_char c = false.
Proof. exact xmlstring_not_wellformed_witness. Qed.
Print Assumptions C17_xml_chars_refuted.

Theorem C17_xml_chars_outside_known :
  forall c, is_scalar c = true -> known_nonchar c = false ->
            xmlstring_keeps c = true -> xml_char c = true.
Proof. exact xmlstring_outside_known. Qed.
Print Assumptions C17_xml_chars_outside_known.

(* exactly what the filter keeps, and the legal characters it loses (TAB and CR: removed by the
   escape stripper before the replace() filter that would have kept them sees them) *)
Theorem C17_xml_chars_kept :
  forall c, xmlstring_keeps c = true <-> (32 <= c \/ c = 10).
Proof. exact xmlstring_keeps_spec. Qed.
Print Assumptions C17_xml_chars_kept.

Theorem C17_xml_chars_lost :
  forall c, (xml_char c = true /\ xmlstring_keeps c = false) <-> (c = 9 \/ c = 13).
Proof. exact xmlstring_lost_chars. Qed.
Print Assumptions C17_xml_chars_lost.

(* ------------------------------------------------------------------ non-vacuity (closed) *)

Definition a_pass := mk_att JPass false.
Definition a_pass_slow := mk_att JPass true.
Definition a_leak := mk_att JLeak false.
Definition a_fail := mk_att (JFail false false) false.
Definition a_segv := mk_att (JFail true false) true.
Definition a_exec := mk_att JExecFail false.
Definition a_timeout := mk_att JTimeout true.
Definition bA : str := [97]. Definition bB : str := [98].
Definition t1 : str := [49]. Definition t2 : str := [50]. Definition t3 : str := [51].
Definition sid : str := [115].

(* a run: script passes; b::1 passes; a::1 flaky after two failures; a::2 fails three times
   (exec-fail first); b::2 leaks; one test skipped; b::3 times out *)
Definition ex_stream : list jevent :=
  [ JScriptFinished sid JPass true true;
    JTestFinished bB t1 a_pass_slow [] false true;
    JOther;
    JTestFinished bA t1 a_fail [a_segv; a_pass] true false;
    JTestFinished bA t2 a_exec [a_fail; a_fail] false true;
    JTestSkipped;
    JTestFinished bB t2 a_leak [] true true;
    JTestFinished bB t3 a_timeout [] false false ].

Example C17_example_wf : forallb wf_event ex_stream = true.
Proof. vm_compute. reflexivity. Qed.

Example C17_example_stats :
  run_stats 6 ex_stream = mk_stats 6 5 0 1 1 0 0 0 3 1 1 1 0 1 1 0 1
  /\ summary_counts (run_stats 6 ex_stream)
     = [(0, 5); (1, 6); (2, 3); (3, 1); (4, 1); (5, 1); (6, 1); (8, 1); (9, 1)]
  /\ exit_code (summarize_final (run_stats 6 ex_stream)) = 100.
Proof. vm_compute. auto. Qed.

Example C17_example_report :
  junit_report ex_stream = Some
    [ (KScript sid, [mk_tc sid (setup_script_prefix ++ sid) (TSuccess []) 1 true]);
      (KBinary bB, [mk_tc t1 bB (TSuccess []) 1 false;
                    mk_tc t2 bB (TSuccess []) 1 true;
                    mk_tc t3 bB (TNonSuccess KFailure []) 1 false]);
      (KBinary bA, [mk_tc t1 bA (TSuccess [mk_rerun KFailure 1 false; mk_rerun KFailure 2 false]) 3 true;
                    mk_tc t2 bA (TNonSuccess KError [mk_rerun KFailure 2 true; mk_rerun KFailure 3 true])
                          1 true]) ].
Proof. vm_compute. reflexivity. Qed.

(* the hypothesis of C17_consumers_agree is satisfiable by a non-trivial stream *)
Example C17_example_attached :
  let l := map (fun e => (e, @None stats)) ex_stream in
  attached (initial_stats 6) (l ++ [(JOther, Some (run_stats 6 ex_stream))]) = true.
Proof. vm_compute. reflexivity. Qed.

Example C17_example_attached_snapshots :
  attached (initial_stats 2)
    [ (JTestFinished bA t1 a_pass [] true true, Some (mk_stats 2 1 0 0 0 0 0 0 1 0 0 0 0 0 0 0 0));
      (JTestFinished bA t2 a_fail [] true true, Some (mk_stats 2 2 0 0 0 0 0 0 1 0 0 1 0 0 0 0 0));
      (JOther, Some (mk_stats 2 2 0 0 0 0 0 0 1 0 0 1 0 0 0 0 0)) ] = true
  /\ attached (initial_stats 2)
       [ (JTestFinished bA t1 a_pass [] true true, Some (mk_stats 2 1 0 0 0 0 0 0 0 0 0 1 0 0 0 0 0)) ]
     = false.
Proof. vm_compute. auto. Qed.

(* streams the retry loop cannot produce: the aggregator's unreachable!() *)
Example C17_example_panic :
  junit_report [JTestFinished bA t1 a_pass [a_fail] true true] = None
  /\ wf_event (JTestFinished bA t1 a_pass [a_fail] true true) = false.
Proof. vm_compute. auto. Qed.

(* why C17_store_iff needs wf_attempts: a leaky first attempt followed by a failure would be
   stored under store-success-output *)
Example C17_example_store_needs_wf :
  convert_test bA t1 a_leak [a_fail] true false
  = CCase (KBinary bA) (mk_tc t1 bA (TNonSuccess KError [mk_rerun KFailure 2 false]) 1 true).
Proof. vm_compute. reflexivity. Qed.

(* error vs failure follows the first attempt, the statistics follow the last *)
Example C17_example_kind_vs_stats :
  has_kind KError (mk_tc t2 bA (TNonSuccess KError []) 1 true) = true
  /\ exec_failed (run_stats 1 [JTestFinished bA t2 a_exec [a_fail] false true]) = 0
  /\ failed (run_stats 1 [JTestFinished bA t2 a_exec [a_fail] false true]) = 1.
Proof. vm_compute. auto. Qed.
