(* C17 -- Summary counts, run statistics and the JUnit report all tell the same story.
   Statements only; proofs are in Proofs/Junit.v. The model (Model/Junit.v) consumes the emitted
   event stream: RunStats::on_test_finished / on_setup_script_finished, ExecutionStatuses::describe,
   MetadataJunit::write_event, the final summary line. *)
From NextestModel Require Import Base.Str Model.Junit Proofs.Junit.
Open Scope N_scope.

(* passed + failed + exec_failed + timed_out = finished; flaky, leaky, slow are sub-counts; the
   same identity for setup scripts -- for ANY stream of events and any number of selected tests *)
Theorem stats_partition :
  forall n evs,
    let s := run_stats n evs in
    passed s + failed s + exec_failed s + timed_out s = finished_count s
    /\ flaky s <= passed s /\ leaky s <= passed s /\ passed_slow s <= passed s
    /\ failed_slow s <= failed s
    /\ ss_passed s + ss_failed s + ss_exec_failed s + ss_timed_out s = ss_finished_count s.
Proof. exact stats_partition_lemma. Qed.
Print Assumptions stats_partition.

(* finished <= selected: the hypothesis is what C02 proves of the dispatcher (a selected test
   finishes at most once, nothing else finishes); it is validated on every real event stream *)
Theorem C17_finished_le_selected :
  forall (sel : list (str * str)) evs,
    NoDup (finished_ids evs) -> incl (finished_ids evs) sel ->
    finished_count (run_stats (len sel) evs) <= initial_run_count (run_stats (len sel) evs).
Proof. exact finished_le_selected. Qed.
Print Assumptions C17_finished_le_selected.

Theorem C17_finished_counts_events :
  forall n evs, finished_count (run_stats n evs) = len (finished_ids evs)
                /\ initial_run_count (run_stats n evs) = n.
Proof. exact finished_counts_events. Qed.
Print Assumptions C17_finished_counts_events.

(* exactly one testcase per finished test / setup script, in the suite of its binary /
   @setup-script:id, suites in order of first arrival, testcases in event order *)
Theorem C17_one_testcase_per_finished :
  forall evs rep n,
    junit_report evs = Some rep ->
    (forall k, lookup_suite k rep = cases_for k (cases_of evs))
    /\ NoDup (map fst rep)
    /\ (forall k tcs, In (k, tcs) rep -> tcs = cases_for k (cases_of evs) /\ tcs <> [])
    /\ map fst rep = fold_left (fun ks c => add_key (fst c) ks) (cases_of evs) []
    /\ len (test_cases rep) = finished_count (run_stats n evs)
    /\ len (script_cases rep) = ss_finished_count (run_stats n evs)
    /\ len (all_cases rep) = len (cases_of evs).
Proof. exact one_testcase_per_finished. Qed.
Print Assumptions C17_one_testcase_per_finished.

Theorem C17_testcase_placement :
  forall e k tc,
    convert e = CCase k tc ->
    match e with
    | JTestFinished bin name _ _ _ _ =>
        k = KBinary bin /\ tc_name tc = name /\ tc_classname tc = bin
    | JScriptFinished id _ _ _ =>
        k = KScript id /\ tc_name tc = id /\ tc_classname tc = setup_script_prefix ++ id
    | _ => False
    end.
Proof. exact testcase_placement. Qed.
Print Assumptions C17_testcase_placement.

(* a testcase carries <failure>/<error> iff the test's last attempt is not a success ... *)
Theorem C17_failure_iff :
  forall bin name first rest ss sf k tc,
    convert_test bin name first rest ss sf = CCase k tc ->
    (is_nonsuccess tc = true <-> jis_success (ja_res (last_attempt first rest)) = false).
Proof. exact failure_iff. Qed.
Print Assumptions C17_failure_iff.

(* ... so the number of such testcases is failed_count (the number that decides the exit status),
   the number of failed script testcases is failed_setup_script_count, and the number of
   successes with flaky reruns is the flaky count *)
Theorem C17_failure_counts :
  forall evs rep n,
    junit_report evs = Some rep ->
    count_if is_nonsuccess (test_cases rep) = failed_count (run_stats n evs)
    /\ count_if is_nonsuccess (script_cases rep) = failed_script_count (run_stats n evs)
    /\ count_if is_flaky_case (test_cases rep) = flaky (run_stats n evs).
Proof. exact failure_counts. Qed.
Print Assumptions C17_failure_counts.

(* which of the two elements: named after the FIRST attempt's result (the statistics classify by
   the last one) *)
Theorem C17_failure_kind :
  forall bin name first rest ss sf k tc,
    convert_test bin name first rest ss sf = CCase k tc ->
    jis_success (ja_res (last_attempt first rest)) = false ->
    exists kd, non_success_kind (ja_res first) = Some kd /\ has_kind kd tc = true.
Proof. exact failure_kind. Qed.
Print Assumptions C17_failure_kind.

(* one rerun element per additional attempt; they are flaky* elements (status Success) iff the
   last attempt passed; the testcase reports the last attempt of a flaky test and the first
   attempt of a failed one, the reruns report the others in order *)
Theorem C17_reruns :
  forall bin name first rest ss sf k tc,
    convert_test bin name first rest ss sf = CCase k tc ->
    len (tc_reruns tc) + 1 = len (attempts first rest)
    /\ ((exists rs, tc_status tc = TSuccess rs)
        <-> jis_success (ja_res (last_attempt first rest)) = true)
    /\ (if jis_success (ja_res (last_attempt first rest))
        then tc_main_attempt tc = len (attempts first rest)
             /\ map rr_attempt (tc_reruns tc) = nseq 1 (length rest)
        else tc_main_attempt tc = 1 /\ map rr_attempt (tc_reruns tc) = nseq 2 (length rest)).
Proof. exact reruns_spec. Qed.
Print Assumptions C17_reruns.

(* stored output: main element iff (store-success-output and success) or (store-failure-output
   and not success); every rerun element iff store-failure-output *)
Theorem C17_store_iff :
  forall bin name first rest ss sf k tc,
    wf_attempts first rest = true ->
    convert_test bin name first rest ss sf = CCase k tc ->
    (tc_stored tc = true <->
       (ss = true /\ jis_success (ja_res (last_attempt first rest)) = true)
       \/ (sf = true /\ jis_success (ja_res (last_attempt first rest)) = false))
    /\ Forall (fun r => rr_stored r = sf) (tc_reruns tc).
Proof. exact store_iff. Qed.
Print Assumptions C17_store_iff.

Theorem C17_store_iff_script :
  forall id r ss sf k tc,
    convert_script id r ss sf = CCase k tc ->
    (tc_stored tc = true <->
       (ss = true /\ jis_success r = true) \/ (sf = true /\ jis_success r = false)).
Proof. exact store_iff_script. Qed.
Print Assumptions C17_store_iff_script.

(* the aggregator never hits its unreachable!() on streams the retry loop can produce *)
Theorem C17_report_exists :
  forall evs, forallb wf_event evs = true -> exists rep, junit_report evs = Some rep.
Proof. exact wf_report_exists. Qed.
Print Assumptions C17_report_exists.

(* the three consumers agree: given that every snapshot carried by an event is the running fold
   (attached), the statistics carried by RunFinished -- from which the summary line and the exit
   status are computed -- equal the statistics recomputed from the stream, and the JUnit report
   built from the same stream has the matching counts *)
Theorem C17_consumers_agree :
  forall n (l : list sevent) final rep,
    attached (initial_stats n) (l ++ [(JOther, Some final)]) = true ->
    junit_report (map fst l) = Some rep ->
    let evs := map fst l in
    final = run_stats n evs
    /\ summary_counts final = summary_counts (run_stats n evs)
    /\ len (test_cases rep) = finished_count final
    /\ count_if is_nonsuccess (test_cases rep) = failed_count final
    /\ count_if is_flaky_case (test_cases rep) = flaky final
    /\ len (script_cases rep) = ss_finished_count final
    /\ count_if is_nonsuccess (script_cases rep) = failed_script_count final
    /\ (has_failures final = false <-> count_if is_nonsuccess (all_cases rep) = 0)
    /\ part_inv final.
Proof. exact consumers_agree. Qed.
Print Assumptions C17_consumers_agree.

(* well-formedness of the XML text. Every stored string goes through xml_safe (junit.rs, the
   repair of finding F13): quick-junit's XmlString::new (strip_ansi_escapes::strip_str -- the vte
   state machine, modelled byte for byte --, then the C0 filter), then removal of U+FFFE/U+FFFF
   and XmlString::new again. For EVERY Rust string (any length; escape sequences complete or not,
   controls, non-characters, U+FFFD from invalid UTF-8) every character of the stored text is an
   XML 1.0 Char:  #x9 | #xA | #xD | [#x20-#xD7FF] | [#xE000-#xFFFD] | [#x10000-#x10FFFF] *)
Theorem C17_stored_text_xml_chars :
  forall s : str, forallb is_scalar s = true -> forallb xml_char (stored_text s) = true.
Proof. exact stored_text_xml_chars. Qed.
Print Assumptions C17_stored_text_xml_chars.

(* the stored text consists of characters of the captured string (and possibly U+FFFD, which the
   escape stripper writes for a character cut in two by the byte 0x9C ending a DCS string), each
   of which the per-character filter keeps; and it never contains U+FFFE / U+FFFF, whatever
   (scalar or not) the input is made of *)
Theorem C17_stored_text_only_deletes :
  forall s x, In x (stored_text s) -> (x = 65533 \/ In x s) /\ nextest_keeps x = true.
Proof. exact stored_text_out. Qed.
Print Assumptions C17_stored_text_only_deletes.

Theorem C17_stored_text_no_nonchar :
  forall s, existsb known_nonchar (stored_text s) = false.
Proof. exact stored_text_no_nonchar. Qed.
Print Assumptions C17_stored_text_no_nonchar.

(* the order of the stages is harmless: no ESC survives the first XmlString::new, so removing
   the two non-characters cannot assemble a new escape sequence, and the second XmlString::new
   changes nothing *)
Theorem C17_stored_text_is_filter :
  forall s, stored_text s = filter (fun c => negb (known_nonchar c)) (xmlstring_new s).
Proof. exact stored_text_is_filter. Qed.
Print Assumptions C17_stored_text_is_filter.

(* on text without ESC the whole pipeline is the per-character filter nextest_keeps *)
Theorem C17_stored_text_esc_free :
  forall s, forallb (fun c => negb (c =? 27)) s = true -> stored_text s = filter nextest_keeps s.
Proof. exact stored_text_esc_free. Qed.
Print Assumptions C17_stored_text_esc_free.

(* regression witnesses, about quick-junit's XmlString::new ALONE (what nextest relied on before
   a19c0df; formerly finding F13): it keeps U+FFFF, which is not an XML 1.0 Char; outside the two
   BMP non-characters every scalar it keeps is legal *)
Theorem C17_xmlstring_alone_refuted :
  (exists c, is_scalar c = true /\ xmlstring_keeps c = true /\ xml_char c = false)
  /\ (exists s, forallb is_scalar s = true /\ forallb xml_char (xmlstring_new s) = false
                /\ forallb xml_char (stored_text s) = true).
Proof. exact (conj xmlstring_alone_not_wellformed_witness xmlstring_alone_not_wellformed_text). Qed.
Print Assumptions C17_xmlstring_alone_refuted.

Theorem C17_xmlstring_alone_outside_nonchars :
  forall c, is_scalar c = true -> known_nonchar c = false ->
            xmlstring_keeps c = true -> xml_char c = true.
Proof. exact xmlstring_outside_known. Qed.
Print Assumptions C17_xmlstring_alone_outside_nonchars.

(* exactly what the repaired pipeline keeps outside escape sequences, and the legal characters it
   loses (TAB, CR, C1 controls: removed by the escape stripper before the replace() filter that
   would have kept them sees them) *)
Theorem C17_xml_chars_kept :
  forall c, nextest_keeps c = true <->
            (c = 10 \/ (32 <= c /\ ~ (128 <= c <= 159) /\ c <> 65534 /\ c <> 65535)).
Proof. exact nextest_keeps_spec. Qed.
Print Assumptions C17_xml_chars_kept.

Theorem C17_xml_chars_lost :
  forall c, (xml_char c = true /\ nextest_keeps c = false) <-> (c = 9 \/ c = 13 \/ 128 <= c <= 159).
Proof. exact nextest_lost_chars. Qed.
Print Assumptions C17_xml_chars_lost.

(* ------------------------------------------------------------------ non-vacuity (closed) *)

Definition a_pass := mk_att JPass false.
Definition a_pass_slow := mk_att JPass true.
Definition a_leak := mk_att JLeak false.
Definition a_fail := mk_att (JFail false false) false.
Definition a_segv := mk_att (JFail true false) true.
Definition a_exec := mk_att JExecFail false.
Definition a_timeout := mk_att JTimeout true.
Definition bA : str := [97]. Definition bB : str := [98].
Definition t1 : str := [49]. Definition t2 : str := [50]. Definition t3 : str := [51].
Definition sid : str := [115].

(* a run: script passes; b::1 passes; a::1 flaky after two failures; a::2 fails three times
   (exec-fail first); b::2 leaks; one test skipped; b::3 times out *)
Definition ex_stream : list jevent :=
  [ JScriptFinished sid JPass true true;
    JTestFinished bB t1 a_pass_slow [] false true;
    JOther;
    JTestFinished bA t1 a_fail [a_segv; a_pass] true false;
    JTestFinished bA t2 a_exec [a_fail; a_fail] false true;
    JTestSkipped;
    JTestFinished bB t2 a_leak [] true true;
    JTestFinished bB t3 a_timeout [] false false ].

Example C17_example_wf : forallb wf_event ex_stream = true.
Proof. vm_compute. reflexivity. Qed.

Example C17_example_stats :
  run_stats 6 ex_stream = mk_stats 6 5 0 1 1 0 0 0 3 1 1 1 0 1 1 0 1
  /\ summary_counts (run_stats 6 ex_stream)
     = [(0, 5); (1, 6); (2, 3); (3, 1); (4, 1); (5, 1); (6, 1); (8, 1); (9, 1)]
  /\ exit_code (summarize_final (run_stats 6 ex_stream)) = 100.
Proof. vm_compute. auto. Qed.

Example C17_example_report :
  junit_report ex_stream = Some
    [ (KScript sid, [mk_tc sid (setup_script_prefix ++ sid) (TSuccess []) 1 true]);
      (KBinary bB, [mk_tc t1 bB (TSuccess []) 1 false;
                    mk_tc t2 bB (TSuccess []) 1 true;
                    mk_tc t3 bB (TNonSuccess KFailure []) 1 false]);
      (KBinary bA, [mk_tc t1 bA (TSuccess [mk_rerun KFailure 1 false; mk_rerun KFailure 2 false]) 3 true;
                    mk_tc t2 bA (TNonSuccess KError [mk_rerun KFailure 2 true; mk_rerun KFailure 3 true])
                          1 true]) ].
Proof. vm_compute. reflexivity. Qed.

(* the hypothesis of C17_consumers_agree is satisfiable by a non-trivial stream *)
Example C17_example_attached :
  let l := map (fun e => (e, @None stats)) ex_stream in
  attached (initial_stats 6) (l ++ [(JOther, Some (run_stats 6 ex_stream))]) = true.
Proof. vm_compute. reflexivity. Qed.

Example C17_example_attached_snapshots :
  attached (initial_stats 2)
    [ (JTestFinished bA t1 a_pass [] true true, Some (mk_stats 2 1 0 0 0 0 0 0 1 0 0 0 0 0 0 0 0));
      (JTestFinished bA t2 a_fail [] true true, Some (mk_stats 2 2 0 0 0 0 0 0 1 0 0 1 0 0 0 0 0));
      (JOther, Some (mk_stats 2 2 0 0 0 0 0 0 1 0 0 1 0 0 0 0 0)) ] = true
  /\ attached (initial_stats 2)
       [ (JTestFinished bA t1 a_pass [] true true, Some (mk_stats 2 1 0 0 0 0 0 0 0 0 0 1 0 0 0 0 0)) ]
     = false.
Proof. vm_compute. auto. Qed.

(* streams the retry loop cannot produce: the aggregator's unreachable!() *)
Example C17_example_panic :
  junit_report [JTestFinished bA t1 a_pass [a_fail] true true] = None
  /\ wf_event (JTestFinished bA t1 a_pass [a_fail] true true) = false.
Proof. vm_compute. auto. Qed.

(* why C17_store_iff needs wf_attempts: a leaky first attempt followed by a failure would be
   stored under store-success-output *)
Example C17_example_store_needs_wf :
  convert_test bA t1 a_leak [a_fail] true false
  = CCase (KBinary bA) (mk_tc t1 bA (TNonSuccess KError [mk_rerun KFailure 2 false]) 1 true).
Proof. vm_compute. reflexivity. Qed.

(* error vs failure follows the first attempt, the statistics follow the last *)
Example C17_example_kind_vs_stats :
  has_kind KError (mk_tc t2 bA (TNonSuccess KError []) 1 true) = true
  /\ exec_failed (run_stats 1 [JTestFinished bA t2 a_exec [a_fail] false true]) = 0
  /\ failed (run_stats 1 [JTestFinished bA t2 a_exec [a_fail] false true]) = 1.
Proof. vm_compute. auto. Qed.

(* the escape stripper on strings: a colour sequence, an OSC title, an unterminated CSI that
   swallows the rest, LF executed inside a sequence, and the byte 0x9C of U+1720 (E1 9C A0) ending
   a DCS passthrough in the middle of the character: the orphaned A0 is written as U+FFFD *)
Example C17_example_ansi_strip :
  ansi_strip [27; 91; 51; 49; 109; 114; 101; 100; 27; 91; 48; 109; 33] = [114; 101; 100; 33]
  /\ ansi_strip [97; 27; 93; 48; 59; 116; 7; 98] = [97; 98]
  /\ ansi_strip [97; 27; 91; 98; 99] = [97; 99]
  /\ ansi_strip [97; 27; 91; 51; 10; 49] = [97; 10]
  /\ ansi_strip [27; 80; 113; 5920; 65] = [65533; 65]
  /\ ansi_strip [9; 65; 13; 155; 66; 10] = [65; 66; 10].
Proof. vm_compute. repeat split. Qed.

(* the repaired pipeline on a string with both non-characters, one of them inside an escape sequence *)
Example C17_example_stored_text :
  xmlstring_new [65; 65535; 27; 65534; 91; 51; 49; 109; 66] = [65; 65535; 66]
  /\ stored_text [65; 65535; 27; 65534; 91; 51; 49; 109; 66] = [65; 66]
  /\ forallb xml_char (stored_text [65; 65535; 27; 65534; 91; 51; 49; 109; 66]) = true.
Proof. vm_compute. repeat split. Qed.
