(* C17 -- Summary counts, run statistics and the JUnit report all tell the same story.
   Statements only; proofs are in Proofs/Junit.v. The model (Model/Junit.v) consumes the emitted
   event stream: RunStats::on_test_finished / on_setup_script_finished, ExecutionStatuses::describe,
   MetadataJunit::write_event, the final summary line. *)
From Coq Require Import ZArith.
From NextestModel Require Model.Result Model.Unit.
From NextestModel Require Import Model.Dispatcher.
From NextestModel Require Import Base.Str Model.Junit Proofs.Junit Proofs.JunitLink.
Open Scope N_scope.

(* passed + failed + exec_failed + timed_out = finished; flaky, leaky, slow are sub-counts; the
   same identity for setup scripts -- for ANY stream of events and any number of selected tests *)
Theorem stats_partition :
  forall n evs,
    let s := run_stats n evs in
    passed s + failed s + exec_failed s + timed_out s = finished_count s
    /\ flaky s <= passed s /\ leaky s <= passed s /\ passed_slow s <= passed s
    /\ failed_slow s <= failed s
    /\ ss_passed s + ss_failed s + ss_exec_failed s + ss_timed_out s = ss_finished_count s.
Proof. exact stats_partition_lemma. Qed.
Print Assumptions stats_partition.

(* finished <= selected: the hypothesis is what C02 proves of the dispatcher (a selected test
   finishes at most once, nothing else finishes); it is validated on every real event stream *)
Theorem C17_finished_le_selected :
  forall (sel : list (str * str)) evs,
    NoDup (finished_ids evs) -> incl (finished_ids evs) sel ->
    finished_count (run_stats (len sel) evs) <= initial_run_count (run_stats (len sel) evs).
Proof. exact finished_le_selected. Qed.
Print Assumptions C17_finished_le_selected.

Theorem C17_finished_counts_events :
  forall n evs, finished_count (run_stats n evs) = len (finished_ids evs)
                /\ initial_run_count (run_stats n evs) = n.
Proof. exact finished_counts_events. Qed.
Print Assumptions C17_finished_counts_events.

(* exactly one testcase per finished test / setup script, in the suite of its binary /
   @setup-script:id, suites in order of first arrival, testcases in event order *)
Theorem C17_one_testcase_per_finished :
  forall evs rep n,
    junit_report evs = Some rep ->
    (forall k, lookup_suite k rep = cases_for k (cases_of evs))
    /\ NoDup (map fst rep)
    /\ (forall k tcs, In (k, tcs) rep -> tcs = cases_for k (cases_of evs) /\ tcs <> [])
    /\ map fst rep = fold_left (fun ks c => add_key (fst c) ks) (cases_of evs) []
    /\ len (test_cases rep) = finished_count (run_stats n evs)
    /\ len (script_cases rep) = ss_finished_count (run_stats n evs)
    /\ len (all_cases rep) = len (cases_of evs).
Proof. exact one_testcase_per_finished. Qed.
Print Assumptions C17_one_testcase_per_finished.

Theorem C17_testcase_placement :
  forall e k tc,
    convert e = CCase k tc ->
    match e with
    | JTestFinished bin name _ _ _ _ =>
        k = KBinary bin /\ tc_name tc = name /\ tc_classname tc = bin
    | JScriptFinished id _ _ _ =>
        k = KScript id /\ tc_name tc = id /\ tc_classname tc = setup_script_prefix ++ id
    | _ => False
    end.
Proof. exact testcase_placement. Qed.
Print Assumptions C17_testcase_placement.

(* a testcase carries <failure>/<error> iff the test's last attempt is not a success ... *)
Theorem C17_failure_iff :
  forall bin name first rest ss sf k tc,
    convert_test bin name first rest ss sf = CCase k tc ->
    (is_nonsuccess tc = true <-> jis_success (ja_res (last_attempt first rest)) = false).
Proof. exact failure_iff. Qed.
Print Assumptions C17_failure_iff.

(* ... so the number of such testcases is failed_count (the number that decides the exit status),
   the number of failed script testcases is failed_setup_script_count, and the number of
   successes with flaky reruns is the flaky count *)
Theorem C17_failure_counts :
  forall evs rep n,
    junit_report evs = Some rep ->
    count_if is_nonsuccess (test_cases rep) = failed_count (run_stats n evs)
    /\ count_if is_nonsuccess (script_cases rep) = failed_script_count (run_stats n evs)
    /\ count_if is_flaky_case (test_cases rep) = flaky (run_stats n evs).
Proof. exact failure_counts. Qed.
Print Assumptions C17_failure_counts.

(* which of the two elements: named after the FIRST attempt's result (the statistics classify by
   the last one) *)
Theorem C17_failure_kind :
  forall bin name first rest ss sf k tc,
    convert_test bin name first rest ss sf = CCase k tc ->
    jis_success (ja_res (last_attempt first rest)) = false ->
    exists kd, non_success_kind (ja_res first) = Some kd /\ has_kind kd tc = true.
Proof. exact failure_kind. Qed.
Print Assumptions C17_failure_kind.

(* one rerun element per additional attempt; they are flaky* elements (status Success) iff the
   last attempt passed; the testcase reports the last attempt of a flaky test and the first
   attempt of a failed one, the reruns report the others in order *)
Theorem C17_reruns :
  forall bin name first rest ss sf k tc,
    convert_test bin name first rest ss sf = CCase k tc ->
    len (tc_reruns tc) + 1 = len (attempts first rest)
    /\ ((exists rs, tc_status tc = TSuccess rs)
        <-> jis_success (ja_res (last_attempt first rest)) = true)
    /\ (if jis_success (ja_res (last_attempt first rest))
        then tc_main_attempt tc = len (attempts first rest)
             /\ map rr_attempt (tc_reruns tc) = nseq 1 (length rest)
        else tc_main_attempt tc = 1 /\ map rr_attempt (tc_reruns tc) = nseq 2 (length rest)).
Proof. exact reruns_spec. Qed.
Print Assumptions C17_reruns.

(* stored output: main element iff (store-success-output and success) or (store-failure-output
   and not success); every rerun element iff store-failure-output *)
Theorem C17_store_iff :
  forall bin name first rest ss sf k tc,
    wf_attempts first rest = true ->
    convert_test bin name first rest ss sf = CCase k tc ->
    (tc_stored tc = true <->
       (ss = true /\ jis_success (ja_res (last_attempt first rest)) = true)
       \/ (sf = true /\ jis_success (ja_res (last_attempt first rest)) = false))
    /\ Forall (fun r => rr_stored r = sf) (tc_reruns tc).
Proof. exact store_iff. Qed.
Print Assumptions C17_store_iff.

Theorem C17_store_iff_script :
  forall id r ss sf k tc,
    convert_script id r ss sf = CCase k tc ->
    (tc_stored tc = true <->
       (ss = true /\ jis_success r = true) \/ (sf = true /\ jis_success r = false)).
Proof. exact store_iff_script. Qed.
Print Assumptions C17_store_iff_script.

(* the aggregator never hits its unreachable!() on streams the retry loop can produce *)
Theorem C17_report_exists :
  forall evs, forallb wf_event evs = true -> exists rep, junit_report evs = Some rep.
Proof. exact wf_report_exists. Qed.
Print Assumptions C17_report_exists.

(* the three consumers agree, from the event stream alone. [tally_stats n evs] is the record of
   plain counts over the stream: how many tests finished, how many of them with a final (last)
   attempt that passed / failed / could not start / timed out / leaked / was slow / needed a
   retry, how many scripts finished with which result, how many tests were skipped (Proofs/Junit.v;
   no fold, no testcase). Then, for ANY stream on which the aggregator does not panic (every
   well-formed one: C17_report_exists) and any number n of selected tests:
   - the RunStats record the dispatcher folds event by event is that record of tallies, all 17
     counters; the summary line ([summary_counts]) and the exit status ([exit_code] of
     [summarize_final]) are functions of it;
   - the tests / failures / errors attributes of the JUnit report are tallies of the same stream
     (failures vs errors: by the first attempt of an ultimately failed test);
   - tests = finished tests + finished scripts; failures + errors = failed_count + failed setup
     scripts, the two numbers that decide the exit status;
   - exit status 0 iff the report has no failure or error element and every selected test
     finished and at least one did. *)
Theorem C17_consumers_agree :
  forall n evs rep,
    junit_report evs = Some rep ->
    let s := run_stats n evs in
    s = tally_stats n evs
    /\ report_counts rep = (count_if ev_case evs,
                            (count_if (ev_kind KFailure) evs, count_if (ev_kind KError) evs))
    /\ fst (report_counts rep) = finished_count s + ss_finished_count s
    /\ fst (snd (report_counts rep)) + snd (snd (report_counts rep))
       = failed_count s + failed_script_count s
    /\ (exit_code (summarize_final s) = 0 <->
        fst (snd (report_counts rep)) + snd (snd (report_counts rep)) = 0
        /\ n <= count_if (test_where (on_res r_any)) evs
        /\ count_if (test_where (on_res r_any)) evs <> 0).
Proof. exact consumers_agree. Qed.
Print Assumptions C17_consumers_agree.

(* the summary line: every number it shows is a tally of the per-test final results of the stream,
   and each optional token is shown exactly when its tally is positive (the "/I" part: when not
   every selected test finished) *)
Theorem C17_summary_tokens :
  forall n evs tag v,
    let T p := count_if (test_where p) evs in
    In (tag, v) (summary_counts (run_stats n evs)) <->
    (tag = 0 /\ v = T (on_res r_any))
    \/ (tag = 1 /\ v = n /\ T (on_res r_any) <> n)
    \/ (tag = 2 /\ v = T (on_res jis_success))
    \/ (tag = 3 /\ v = T (fun a => jis_success (ja_res a) && ja_slow a) /\ 0 < v)
    \/ (tag = 4 /\ v = count_if (fun e => test_where (on_res jis_success) e && retried e) evs /\ 0 < v)
    \/ (tag = 5 /\ v = T (on_res r_leak) /\ 0 < v)
    \/ (tag = 6 /\ v = T (on_res r_fail) /\ 0 < v)
    \/ (tag = 7 /\ v = T (on_res r_exec) /\ 0 < v)
    \/ (tag = 8 /\ v = T (on_res r_timeout) /\ 0 < v)
    \/ (tag = 9 /\ v = count_if is_skipped_event evs).
Proof. exact summary_tokens_are_tallies. Qed.
Print Assumptions C17_summary_tokens.

(* the statistics are tallies for every stream, report or not *)
Theorem C17_stats_are_tallies :
  forall n evs, run_stats n evs = tally_stats n evs.
Proof. exact run_stats_is_tally. Qed.
Print Assumptions C17_stats_are_tallies.

(* the snapshots carried by the events (TestStarted / TestFinished current_stats, RunFinished
   run_stats): under the decidable predicate [attached] -- checked on every real tap, and proved
   of the dispatcher model for all its histories below -- EVERY snapshot is the tally of the stream
   up to and including the event that carries it *)
Theorem C17_snapshots_are_tallies :
  forall n l,
    attached (initial_stats n) l = true ->
    forall pre e snap post, l = pre ++ (e, Some snap) :: post ->
      snap = tally_stats n (map fst pre ++ [e]).
Proof. exact snapshots_are_tallies. Qed.
Print Assumptions C17_snapshots_are_tallies.

(* ---- the link to Model/Result.v, the model C01's theorems are about *)

(* for ALL statistics: the verdict (FinalRunStats) and the exit status Model/Junit.v computes are
   those Model/Result.v computes (conversion [to_stats] / [of_stats] / [of_final]: field by field) *)
Theorem C17_stats_are_C01_stats :
  forall s : stats,
    summarize_final s = of_final (Result.summarize_final (to_stats s))
    /\ Z.of_N (exit_code (summarize_final s))
       = Result.exit_code (Result.summarize_final (to_stats s)) None
    /\ failed_count s = Result.failed_count (to_stats s)
    /\ failed_script_count s = Result.failed_setup_script_count (to_stats s).
Proof. exact stats_are_result_stats. Qed.
Print Assumptions C17_stats_are_C01_stats.

(* ... and the update functions are the same functions: RunStats::on_test_finished,
   on_setup_script_finished, the skipped bump, the initial value; the conversion is a bijection *)
Theorem C17_update_functions_are_C01s :
  (forall n, of_stats (Result.stats0 n) = initial_stats n)
  /\ (forall s st, of_stats (Result.on_test_finished s st)
                   = on_test_finished (of_stats s) (fst (of_statuses st)) (snd (of_statuses st)))
  /\ (forall s r, of_stats (Result.on_script_finished s r)
                  = on_script_finished (of_stats s) (of_result r))
  /\ (forall s, of_stats (Result.bump Result.FSkipped s) = stats_add (of_stats s) skipped_delta)
  /\ (forall s, to_stats (of_stats s) = s) /\ (forall s, of_stats (to_stats s) = s).
Proof. exact update_functions_agree. Qed.
Print Assumptions C17_update_functions_are_C01s.

(* the stream emitted by the dispatcher model of C01/C02/C10 (Model/Dispatcher.v), for EVERY
   history that does not panic, seen through any naming of tests / scripts and any store flags:
   every event carries the running fold of the stream ([attached]), RunFinished included, and
   the dispatcher's final RunStats are the statistics folded over the stream *)
Theorem C17_dispatcher_stream_attached :
  forall tname tflags sname sflags n mf dbg h d,
    final_state (Live (init n mf dbg)) h = Live d ->
    attached (initial_stats n) (emitted tname tflags sname sflags n mf dbg h (d_stats d)) = true
    /\ of_stats (d_stats d)
       = run_stats n (map fst (tr_stream tname tflags sname sflags (out (Live (init n mf dbg)) h))).
Proof. exact dispatcher_stream_attached. Qed.
Print Assumptions C17_dispatcher_stream_attached.

(* "the statistics that determine the exit status" are one object: the exit status of C01
   ([Unit.run_exit], computed from the dispatcher's RunStats) is the exit status computed from
   the statistics folded over the emitted stream, which are the tallies of the final results *)
Theorem C17_exit_status_is_C01s :
  forall tname tflags sname sflags c mf dbg h code,
    Unit.run_exit c mf dbg h None = Some code ->
    let n := N.of_nat (length (Unit.c_sel c)) in
    exists d,
      final_state (Live (init n mf dbg)) h = Live d
      /\ let evs := map fst (tr_stream tname tflags sname sflags (out (Live (init n mf dbg)) h)) in
         of_stats (d_stats d) = run_stats n evs
         /\ run_stats n evs = tally_stats n evs
         /\ code = Z.of_N (exit_code (summarize_final (run_stats n evs)))
         /\ attached (initial_stats n)
                     (emitted tname tflags sname sflags n mf dbg h (d_stats d)) = true.
Proof. exact exit_status_is_result_exit. Qed.
Print Assumptions C17_exit_status_is_C01s.

(* well-formedness of the XML text. Every stored string goes through xml_safe (junit.rs, the
   repair of finding F13): quick-junit's XmlString::new (strip_ansi_escapes::strip_str -- the vte
   state machine, modelled byte for byte --, then the C0 filter), then removal of U+FFFE/U+FFFF
   and XmlString::new again. For EVERY Rust string (any length; escape sequences complete or not,
   controls, non-characters, U+FFFD from invalid UTF-8) every character of the stored text is an
   XML 1.0 Char:  #x9 | #xA | #xD | [#x20-#xD7FF] | [#xE000-#xFFFD] | [#x10000-#x10FFFF] *)
Theorem C17_stored_text_xml_chars :
  forall s : str, forallb is_scalar s = true -> forallb xml_char (stored_text s) = true.
Proof. exact stored_text_xml_chars. Qed.
Print Assumptions C17_stored_text_xml_chars.

(* the stored text consists of characters of the captured string (and possibly U+FFFD, which the
   escape stripper writes for a character cut in two by the byte 0x9C ending a DCS string), each
   of which the per-character filter keeps; and it never contains U+FFFE / U+FFFF, whatever
   (scalar or not) the input is made of *)
Theorem C17_stored_text_only_deletes :
  forall s x, In x (stored_text s) -> (x = 65533 \/ In x s) /\ nextest_keeps x = true.
Proof. exact stored_text_out. Qed.
Print Assumptions C17_stored_text_only_deletes.

Theorem C17_stored_text_no_nonchar :
  forall s, existsb known_nonchar (stored_text s) = false.
Proof. exact stored_text_no_nonchar. Qed.
Print Assumptions C17_stored_text_no_nonchar.

(* the order of the stages is harmless: no ESC survives the first XmlString::new, so removing
   the two non-characters cannot assemble a new escape sequence, and the second XmlString::new
   changes nothing *)
Theorem C17_stored_text_is_filter :
  forall s, stored_text s = filter (fun c => negb (known_nonchar c)) (xmlstring_new s).
Proof. exact stored_text_is_filter. Qed.
Print Assumptions C17_stored_text_is_filter.

(* on text without ESC the whole pipeline is the per-character filter nextest_keeps *)
Theorem C17_stored_text_esc_free :
  forall s, forallb (fun c => negb (c =? 27)) s = true -> stored_text s = filter nextest_keeps s.
Proof. exact stored_text_esc_free. Qed.
Print Assumptions C17_stored_text_esc_free.

(* regression witnesses, about quick-junit's XmlString::new ALONE (what nextest relied on before
   a19c0df; formerly finding F13): it keeps U+FFFF, which is not an XML 1.0 Char; outside the two
   BMP non-characters every scalar it keeps is legal *)
Theorem C17_xmlstring_alone_refuted :
  (exists c, is_scalar c = true /\ xmlstring_keeps c = true /\ xml_char c = false)
  /\ (exists s, forallb is_scalar s = true /\ forallb xml_char (xmlstring_new s) = false
                /\ forallb xml_char (stored_text s) = true).
Proof. exact (conj xmlstring_alone_not_wellformed_witness xmlstring_alone_not_wellformed_text). Qed.
Print Assumptions C17_xmlstring_alone_refuted.

Theorem C17_xmlstring_alone_outside_nonchars :
  forall c, is_scalar c = true -> known_nonchar c = false ->
            xmlstring_keeps c = true -> xml_char c = true.
Proof. exact xmlstring_outside_known. Qed.
Print Assumptions C17_xmlstring_alone_outside_nonchars.

(* exactly what the repaired pipeline keeps outside escape sequences, and the legal characters it
   loses (TAB, CR, C1 controls: removed by the escape stripper before the replace() filter that
   would have kept them sees them) *)
Theorem C17_xml_chars_kept :
  forall c, nextest_keeps c = true <->
            (c = 10 \/ (32 <= c /\ ~ (128 <= c <= 159) /\ c <> 65534 /\ c <> 65535)).
Proof. exact nextest_keeps_spec. Qed.
Print Assumptions C17_xml_chars_kept.

Theorem C17_xml_chars_lost :
  forall c, (xml_char c = true /\ nextest_keeps c = false) <-> (c = 9 \/ c = 13 \/ 128 <= c <= 159).
Proof. exact nextest_lost_chars. Qed.
Print Assumptions C17_xml_chars_lost.

(* ------------------------------------------------------------------ non-vacuity (closed) *)

Definition a_pass := mk_att JPass false.
Definition a_pass_slow := mk_att JPass true.
Definition a_leak := mk_att JLeak false.
Definition a_fail := mk_att (JFail false false) false.
Definition a_segv := mk_att (JFail true false) true.
Definition a_exec := mk_att JExecFail false.
Definition a_timeout := mk_att JTimeout true.
Definition bA : str := [97]. Definition bB : str := [98].
Definition t1 : str := [49]. Definition t2 : str := [50]. Definition t3 : str := [51].
Definition sid1 : str := [115].

(* a run: script passes; b::1 passes; a::1 flaky after two failures; a::2 fails three times
   (exec-fail first); b::2 leaks; one test skipped; b::3 times out *)
Definition ex_stream : list jevent :=
  [ JScriptFinished sid1 JPass true true;
    JTestFinished bB t1 a_pass_slow [] false true;
    JOther;
    JTestFinished bA t1 a_fail [a_segv; a_pass] true false;
    JTestFinished bA t2 a_exec [a_fail; a_fail] false true;
    JTestSkipped;
    JTestFinished bB t2 a_leak [] true true;
    JTestFinished bB t3 a_timeout [] false false ].

Example C17_example_wf : forallb wf_event ex_stream = true.
Proof. vm_compute. reflexivity. Qed.

Example C17_example_stats :
  run_stats 6 ex_stream = mk_stats 6 5 0 1 1 0 0 0 3 1 1 1 0 1 1 0 1
  /\ summary_counts (run_stats 6 ex_stream)
     = [(0, 5); (1, 6); (2, 3); (3, 1); (4, 1); (5, 1); (6, 1); (8, 1); (9, 1)]
  /\ exit_code (summarize_final (run_stats 6 ex_stream)) = 100.
Proof. vm_compute. auto. Qed.

Example C17_example_report :
  junit_report ex_stream = Some
    [ (KScript sid1, [mk_tc sid1 (setup_script_prefix ++ sid1) (TSuccess []) 1 true]);
      (KBinary bB, [mk_tc t1 bB (TSuccess []) 1 false;
                    mk_tc t2 bB (TSuccess []) 1 true;
                    mk_tc t3 bB (TNonSuccess KFailure []) 1 false]);
      (KBinary bA, [mk_tc t1 bA (TSuccess [mk_rerun KFailure 1 false; mk_rerun KFailure 2 false]) 3 true;
                    mk_tc t2 bA (TNonSuccess KError [mk_rerun KFailure 2 true; mk_rerun KFailure 3 true])
                          1 true]) ].
Proof. vm_compute. reflexivity. Qed.

(* the hypothesis of C17_snapshots_are_tallies is satisfiable by a non-trivial stream *)
Example C17_example_attached :
  let l := map (fun e => (e, @None stats)) ex_stream in
  attached (initial_stats 6) (l ++ [(JOther, Some (run_stats 6 ex_stream))]) = true.
Proof. vm_compute. reflexivity. Qed.

Example C17_example_attached_snapshots :
  attached (initial_stats 2)
    [ (JTestFinished bA t1 a_pass [] true true, Some (mk_stats 2 1 0 0 0 0 0 0 1 0 0 0 0 0 0 0 0));
      (JTestFinished bA t2 a_fail [] true true, Some (mk_stats 2 2 0 0 0 0 0 0 1 0 0 1 0 0 0 0 0));
      (JOther, Some (mk_stats 2 2 0 0 0 0 0 0 1 0 0 1 0 0 0 0 0)) ] = true
  /\ attached (initial_stats 2)
       [ (JTestFinished bA t1 a_pass [] true true, Some (mk_stats 2 1 0 0 0 0 0 0 0 0 0 1 0 0 0 0 0)) ]
     = false.
Proof. vm_compute. auto. Qed.

(* streams the retry loop cannot produce: the aggregator's unreachable!() *)
Example C17_example_panic :
  junit_report [JTestFinished bA t1 a_pass [a_fail] true true] = None
  /\ wf_event (JTestFinished bA t1 a_pass [a_fail] true true) = false.
Proof. vm_compute. auto. Qed.

(* why C17_store_iff needs wf_attempts: a leaky first attempt followed by a failure would be
   stored under store-success-output *)
Example C17_example_store_needs_wf :
  convert_test bA t1 a_leak [a_fail] true false
  = CCase (KBinary bA) (mk_tc t1 bA (TNonSuccess KError [mk_rerun KFailure 2 false]) 1 true).
Proof. vm_compute. reflexivity. Qed.

(* error vs failure follows the first attempt, the statistics follow the last *)
Example C17_example_kind_vs_stats :
  has_kind KError (mk_tc t2 bA (TNonSuccess KError []) 1 true) = true
  /\ exec_failed (run_stats 1 [JTestFinished bA t2 a_exec [a_fail] false true]) = 0
  /\ failed (run_stats 1 [JTestFinished bA t2 a_exec [a_fail] false true]) = 1.
Proof. vm_compute. auto. Qed.

(* the escape stripper on strings: a colour sequence, an OSC title, an unterminated CSI that
   swallows the rest, LF executed inside a sequence, and the byte 0x9C of U+1720 (E1 9C A0) ending
   a DCS passthrough in the middle of the character: the orphaned A0 is written as U+FFFD *)
Example C17_example_ansi_strip :
  ansi_strip [27; 91; 51; 49; 109; 114; 101; 100; 27; 91; 48; 109; 33] = [114; 101; 100; 33]
  /\ ansi_strip [97; 27; 93; 48; 59; 116; 7; 98] = [97; 98]
  /\ ansi_strip [97; 27; 91; 98; 99] = [97; 99]
  /\ ansi_strip [97; 27; 91; 51; 10; 49] = [97; 10]
  /\ ansi_strip [27; 80; 113; 5920; 65] = [65533; 65]
  /\ ansi_strip [9; 65; 13; 155; 66; 10] = [65; 66; 10].
Proof. vm_compute. repeat split. Qed.

(* the repaired pipeline on a string with both non-characters, one of them inside an escape sequence *)
Example C17_example_stored_text :
  xmlstring_new [65; 65535; 27; 65534; 91; 51; 49; 109; 66] = [65; 65535; 66]
  /\ stored_text [65; 65535; 27; 65534; 91; 51; 49; 109; 66] = [65; 66]
  /\ forallb xml_char (stored_text [65; 65535; 27; 65534; 91; 51; 49; 109; 66]) = true.
Proof. vm_compute. repeat split. Qed.

(* the example run through C17_consumers_agree: the tallies and the report attributes (6
   testcases; 1 failure element: b::3 timed out; 1 error element: a::2 failed, exec-fail first) *)
Example C17_example_tallies :
  tally_stats 6 ex_stream = mk_stats 6 5 0 1 1 0 0 0 3 1 1 1 0 1 1 0 1
  /\ option_map report_counts (junit_report ex_stream) = Some (6, (1, 1))
  /\ count_if ev_case ex_stream = 6
  /\ count_if (ev_kind KFailure) ex_stream = 1 /\ count_if (ev_kind KError) ex_stream = 1.
Proof. vm_compute. repeat split. Qed.

(* a dispatcher history (script 0 passes, test 7 starts, fails, is retried and passes; test 8 is
   skipped): the emitted stream carries the running fold, and C01's exit status is C17's *)
Definition ex_hist : list devent :=
  [ ScriptStarted 0; ScriptFinished 0 Result.Pass; Started 7;
    AttemptFailedWillRetry 7 (Result.mk_attempt (Result.Fail None false) false 1 2);
    RetryStarted 7 2 2; Finished 7 (Result.mk_attempt Result.Pass true 2 2); Skipped 8 ].
Definition ex_names (t : tid) : str * str := (bA, [t]).
Definition ex_flags (_ : N) : bool * bool := (true, false).
Definition ex_sname (s : N) : str := [s].

Example C17_example_dispatcher_stream :
  Unit.run_exit (Unit.mk_cfg [7] [8] (fun _ => 2) 1) None true ex_hist None = Some 0%Z
  /\ (let d := final_state (Live (init 1 None true)) ex_hist in
      match d with
      | Live d =>
          attached (initial_stats 1)
                   (emitted ex_names ex_flags ex_sname ex_flags 1 None true ex_hist (d_stats d)) = true
          /\ of_stats (d_stats d) = mk_stats 1 1 0 1 1 0 0 0 1 1 1 0 0 0 0 0 1
      | Panicked => False
      end).
Proof. vm_compute. repeat split. Qed.
