(* C14 -- Slot numbers are unique among concurrent tests, stable while a test runs, compact.
   Statements only; proofs are in Proofs/FutureQueue.v. Same model as C08. *)
From NextestModel Require Import Base.Str Model.FutureQueue.
From NextestModel Require Import Proofs.FutureQueue.
Open Scope N_scope.

(* In every reachable state the global slots of the futures in progress are pairwise distinct,
   and so are the group slots of the futures of one group. *)
Theorem C14_unique :
  forall gm grps items ops,
    let q := fst (fq_run (fq_new gm grps items) ops) in
    NoDup (map r_gslot (running q)) /\
    forall k m, assoc_first k grps = Some m -> NoDup (group_slots_held k (running q)).
Proof. exact c14_unique. Qed.
Print Assumptions C14_unique.

Theorem C14_unique_pairwise :
  forall gm grps items ops i j ri rj,
    let q := fst (fq_run (fq_new gm grps items) ops) in
    i <> j -> nth_error (running q) i = Some ri -> nth_error (running q) j = Some rj ->
    r_gslot ri <> r_gslot rj.
Proof. exact c14_unique_pairwise. Qed.
Print Assumptions C14_unique_pairwise.

(* The invariant behind it: free and held slots partition [0, next), globally and per group. *)
Theorem C14_slot_partition :
  forall gm grps items ops,
    let q := fst (fq_run (fq_new gm grps items) ops) in
    slots_ok (gslots q) (map r_gslot (running q)) /\
    forall k g, glookup k (groups q) = Some g ->
                slots_ok (g_slots g) (group_slots_held k (running q)).
Proof. exact c14_slot_partition. Qed.
Print Assumptions C14_slot_partition.

(* Replaying the whole trace of any run from the empty set: at every start the global slot is
   the least number not held by a future in progress at that moment, the group slot the least
   not held within the group; every completion is of a future in progress. *)
Theorem C14_least_free :
  forall gm grps items ops,
    trace_least [] (snd (fq_run (fq_new gm grps items) ops)).
Proof. exact c14_least_free_trace. Qed.
Print Assumptions C14_least_free.

(* Compactness: with every weight >= 1 and every limit >= 1, a global slot is below the
   test-thread count and a group slot below the group's max-threads. *)
Theorem C14_bounded :
  forall gm grps items ops r,
    1 <= gm -> Forall (fun kg : N * N => 1 <= snd kg) grps ->
    Forall (fun it => 1 <= it_w it) items ->
    In r (running (fst (fq_run (fq_new gm grps items) ops))) ->
    r_gslot r < gm /\
    forall k t m, r_grp r = Some (k, t) -> assoc_first k grps = Some m -> t < m.
Proof. exact c14_bounded. Qed.
Print Assumptions C14_bounded.

(* A future keeps its context (hence every attempt of the test sees the same slots: the
   FutureQueueContext is handed to the per-test future once) until its own completion. *)
Theorem C14_stable_while_running :
  forall gm grps items ops o r,
    let q := fst (fq_run (fq_new gm grps items) ops) in
    In r (running q) ->
    o <> OpComplete (it_id (r_item r)) -> o <> OpCompleteNoFill (it_id (r_item r)) ->
    In r (running (fst (fq_step q o))).
Proof.
  intros gm grps items ops o r q. apply c14_stable_while_running. apply reachable_inv.
Qed.
Print Assumptions C14_stable_while_running.

(* The environment of a test process: NEXTEST_TEST_GLOBAL_SLOT is the decimal global slot,
   NEXTEST_TEST_GROUP the group name or "@global", NEXTEST_TEST_GROUP_SLOT the decimal group slot
   or "none". *)
Theorem C14_env :
  forall gname r,
    slot_env gname r =
    [ (s_GLOBAL_SLOT, dec_str (r_gslot r));
      (s_GROUP, match gname with Some n => n | None => s_at_global end);
      (s_GROUP_SLOT, match r_grp r with Some (_, t) => dec_str t | None => s_none end) ].
Proof. reflexivity. Qed.
Print Assumptions C14_env.

(* ---- closed examples (non-vacuity) *)

(* slots are reused least-first: 0,1,2 handed out; 0 and 1 released; the next start gets 0 *)
Example C14_example_reuse :
  map enc_event (snd (fq_run (fq_new 3 [] [mkitem 0 1 None; mkitem 1 1 None; mkitem 2 1 None;
                                           mkitem 3 1 None; mkitem 4 1 None])
                             [OpFill; OpCompleteNoFill 1; OpComplete 0])) =
  [[0;0];[1;0;0;0];[0;1];[1;1;1;0];[0;2];[1;2;2;0];[2;1];[2;0];[0;3];[1;3;0;0];[0;4];[1;4;1;0]].
Proof. vm_compute. reflexivity. Qed.

(* group slots are counted per group *)
Example C14_example_group_slots :
  map (fun r => (it_id (r_item r), r_gslot r, r_grp r))
      (running (fst (fq_run (fq_new 4 [(7, 2)] [mkitem 0 1 None; mkitem 1 1 (Some 7); mkitem 2 1 (Some 7)])
                            [OpFill]))) =
  [(0, 0, None); (1, 1, Some (7, 0)); (2, 2, Some (7, 1))].
Proof. vm_compute. reflexivity. Qed.

(* without the weight hypothesis the bound fails: weight 0 items take slots beyond the limit *)
Example C14_example_weight_zero :
  map r_gslot (running (fst (fq_run (fq_new 1 [] [mkitem 0 0 None; mkitem 1 0 None; mkitem 2 1 None])
                                    [OpFill]))) = [0; 1; 2].
Proof. vm_compute. reflexivity. Qed.

Example C14_example_env :
  slot_env (Some [103]) (mkrun (mkitem 0 1 (Some 7)) 12 (Some (7, 0))) =
  [(s_GLOBAL_SLOT, [49; 50]); (s_GROUP, [103]); (s_GROUP_SLOT, [48])]
  /\ slot_env None (mkrun (mkitem 0 1 None) 3 None) =
  [(s_GLOBAL_SLOT, [51]); (s_GROUP, s_at_global); (s_GROUP_SLOT, s_none)].
Proof. vm_compute. split; reflexivity. Qed.

(* ---- additions -----------------------------------------------------------------------------
   (i) the environment as a function of the future in progress alone, with the iffs proved;
   (ii) the group tag of a future is the group of its item, over all operation sequences;
   (iii) all attempts of one test find the same context, over the composed run model.
   Proofs: Proofs/FutureQueueGroups.v, Proofs/RunSlots.v. *)
From NextestModel Require Import Proofs.FutureQueueGroups.

(* (ii) every future in progress and every future ever started carries, as its group tag, the
   group its test is configured into *)
Theorem C14_group_tag_is_item_group :
  forall gm grps items ops,
    let res := fq_run (fq_new gm grps items) ops in
    Forall (fun r => rgroup r = it_grp (r_item r)) (running (fst res)) /\
    Forall (fun r => rgroup r = it_grp (r_item r)) (starts (snd res)).
Proof. exact group_tag_is_item_group. Qed.
Print Assumptions C14_group_tag_is_item_group.

(* hence: two tests alive together that are configured into the same group both have a group
   slot, in that group, and the two differ *)
Theorem C14_unique_in_item_group :
  forall gm grps items ops i j ri rj k m,
    let q := fst (fq_run (fq_new gm grps items) ops) in
    assoc_first k grps = Some m -> i <> j ->
    nth_error (running q) i = Some ri -> nth_error (running q) j = Some rj ->
    it_grp (r_item ri) = Some k -> it_grp (r_item rj) = Some k ->
    exists ti tj, r_grp ri = Some (k, ti) /\ r_grp rj = Some (k, tj) /\ ti <> tj.
Proof. exact c14_group_slots_by_item. Qed.
Print Assumptions C14_unique_in_item_group.

(* (i) [test_env names r]: the three variables computed from the record [r] alone -- the group
   name from the item's group (test.settings.test_group()), the slots from the context.  [names]
   is the naming of the groups; a configured name is never "@global" (custom group names are
   identifiers; the '@' prefix is reserved).  For every future in progress and every future ever
   started: NEXTEST_TEST_GROUP is "@global" iff the test has no group, and then
   NEXTEST_TEST_GROUP_SLOT is "none"; it is "none" only then; a test of group k gets the name of k
   and the decimal slot it holds in k. *)
Theorem C14_env_of_record :
  forall gm grps items ops names r,
    (forall k, names k <> s_at_global) ->
    let res := fq_run (fq_new gm grps items) ops in
    In r (running (fst res)) \/ In r (starts (snd res)) ->
    test_env names r =
      [ (s_GLOBAL_SLOT, dec_str (r_gslot r)); (s_GROUP, env_group names r);
        (s_GROUP_SLOT, env_group_slot r) ] /\
    (env_group names r = s_at_global <-> it_grp (r_item r) = None) /\
    (env_group_slot r = s_none <-> it_grp (r_item r) = None) /\
    (forall k, it_grp (r_item r) = Some k ->
       env_group names r = names k /\
       exists t, r_grp r = Some (k, t) /\ env_group_slot r = dec_str t).
Proof. exact env_of_started. Qed.
Print Assumptions C14_env_of_record.

(* without the link (ii) the second iff is false of an arbitrary record: the legal model value the
   audit pointed at, "@global" together with a numeric group slot *)
Example C14_env_needs_link :
  let r := mkrun (mkitem 0 1 None) 0 (Some (7, 3)) in
  env_group (fun _ => [103]) r = s_at_global /\ env_group_slot r = [51].
Proof. vm_compute. split; reflexivity. Qed.

Example C14_example_test_env :
  let res := fq_run (fq_new 4 [(7, 2)] [mkitem 0 1 None; mkitem 1 1 (Some 7); mkitem 2 1 (Some 7)]) [OpFill] in
  map (test_env (fun _ => [103])) (running (fst res)) =
  [ [(s_GLOBAL_SLOT, [48]); (s_GROUP, s_at_global); (s_GROUP_SLOT, s_none)];
    [(s_GLOBAL_SLOT, [49]); (s_GROUP, [103]); (s_GROUP_SLOT, [48])];
    [(s_GLOBAL_SLOT, [50]); (s_GROUP, [103]); (s_GROUP_SLOT, [49])] ].
Proof. vm_compute. reflexivity. Qed.

(* (iii) over the composed run model (Model/Run.v: scheduler x executor protocol x dispatcher).
   [ctx_of q t] is the context the scheduler holds for test t; an attempt event of t is Started,
   Slow, AttemptFailedWillRetry, RetryStarted or Finished of t.  In every run the composed machine
   accepts, any two attempt events of one test -- the first attempt's Started and a retry's
   RetryStarted or the final Finished, say -- find the same context, and it is the record of a
   start event the scheduler had emitted before the first of them (so its slots are the
   least-free ones of C14_least_free, fixed at dispatch). *)
From NextestModel Require Import Model.Dispatcher Model.Unit Model.Run Proofs.Unit Proofs.Run Proofs.RunSlots.

Theorem C14_attempts_same_slots :
  forall r mf dbg xs1 e1 xs2 e2 xs3 sf t,
    rrun r (rinit r mf dbg) (xs1 ++ REvent e1 :: xs2 ++ REvent e2 :: xs3) = Some sf ->
    attempt_event t e1 -> attempt_event t e2 ->
    exists s1 s2 cx,
      rrun r (rinit r mf dbg) xs1 = Some s1 /\
      rrun r (rinit r mf dbg) (xs1 ++ REvent e1 :: xs2) = Some s2 /\
      ctx_of (r_q s1) t = Some cx /\ ctx_of (r_q s2) t = Some cx /\
      it_id (r_item cx) = t /\
      In (EvStart cx)
         (snd (fq_run (fq_new (rc_gm r) (rc_grps r) (rc_items r)) (ops_of xs1))).
Proof. exact attempts_same_context. Qed.
Print Assumptions C14_attempts_same_slots.

(* the example run of Properties/Run.v: test 1 (group 0) is retried once; its context at Started,
   at AttemptFailedWillRetry, at RetryStarted and at Finished is global slot 1, group slot 0, while
   test 0 comes and goes and slot 0 is free again *)
Definition ctx_before (n : nat) (t : N) : option (N * option (N * N)) :=
  match rrun ex_rcfg (rinit ex_rcfg None true) (firstn n ex_schedule) with
  | Some s => option_map (fun cx => (r_gslot cx, r_grp cx)) (ctx_of (r_q s) t)
  | None => None
  end.

Example C14_example_attempts :
  map (fun n => ctx_before n 1) [3; 6; 7; 8]%nat = repeat (Some (1, Some (0, 0))) 4
  /\ map (fun n => nth_error ex_schedule n) [3; 6; 7; 8]%nat
     = [Some (REvent (Started 1)); Some (REvent (AttemptFailedWillRetry 1 (f_att 1 2)));
        Some (REvent (RetryStarted 1 2 2)); Some (REvent (Finished 1 (p_att 2 2)))]
  /\ ctx_before 10 1 = None /\ ctx_before 10 2 = Some (0, Some (0, 0)).
Proof. repeat split; vm_compute; reflexivity. Qed.
