(* C14 -- Slot numbers are unique among concurrent tests, stable while a test runs, compact.
   Statements only; proofs are in Proofs/FutureQueue.v. Same model as C08. *)
From NextestModel Require Import Base.Str Model.FutureQueue.
From NextestModel Require Import Proofs.FutureQueue.
Open Scope N_scope.

(* In every reachable state the global slots of the futures in progress are pairwise distinct,
   and so are the group slots of the futures of one group. *)
Theorem C14_unique :
  forall gm grps items ops,
    let q := fst (fq_run (fq_new gm grps items) ops) in
    NoDup (map r_gslot (running q)) /\
    forall k m, assoc_first k grps = Some m -> NoDup (group_slots_held k (running q)).
Proof. exact c14_unique. Qed.
Print Assumptions C14_unique.

Theorem C14_unique_pairwise :
  forall gm grps items ops i j ri rj,
    let q := fst (fq_run (fq_new gm grps items) ops) in
    i <> j -> nth_error (running q) i = Some ri -> nth_error (running q) j = Some rj ->
    r_gslot ri <> r_gslot rj.
Proof. exact c14_unique_pairwise. Qed.
Print Assumptions C14_unique_pairwise.

(* The invariant behind it: free and held slots partition [0, next), globally and per group. *)
Theorem C14_slot_partition :
  forall gm grps items ops,
    let q := fst (fq_run (fq_new gm grps items) ops) in
    slots_ok (gslots q) (map r_gslot (running q)) /\
    forall k g, glookup k (groups q) = Some g ->
                slots_ok (g_slots g) (group_slots_held k (running q)).
Proof. exact c14_slot_partition. Qed.
Print Assumptions C14_slot_partition.

(* Replaying the whole trace of any run from the empty set: at every start the global slot is
   the least number not held by a future in progress at that moment, the group slot the least
   not held within the group; every completion is of a future in progress. *)
Theorem C14_least_free :
  forall gm grps items ops,
    trace_least [] (snd (fq_run (fq_new gm grps items) ops)).
Proof. exact c14_least_free_trace. Qed.
Print Assumptions C14_least_free.

(* Compactness: with every weight >= 1 and every limit >= 1, a global slot is below the
   test-thread count and a group slot below the group's max-threads. *)
Theorem C14_bounded :
  forall gm grps items ops r,
    1 <= gm -> Forall (fun kg : N * N => 1 <= snd kg) grps ->
    Forall (fun it => 1 <= it_w it) items ->
    In r (running (fst (fq_run (fq_new gm grps items) ops))) ->
    r_gslot r < gm /\
    forall k t m, r_grp r = Some (k, t) -> assoc_first k grps = Some m -> t < m.
Proof. exact c14_bounded. Qed.
Print Assumptions C14_bounded.

(* A future keeps its context (hence every attempt of the test sees the same slots: the
   FutureQueueContext is handed to the per-test future once) until its own completion. *)
Theorem C14_stable_while_running :
  forall gm grps items ops o r,
    let q := fst (fq_run (fq_new gm grps items) ops) in
    In r (running q) ->
    o <> OpComplete (it_id (r_item r)) -> o <> OpCompleteNoFill (it_id (r_item r)) ->
    In r (running (fst (fq_step q o))).
Proof.
  intros gm grps items ops o r q. apply c14_stable_while_running. apply reachable_inv.
Qed.
Print Assumptions C14_stable_while_running.

(* The environment of a test process: NEXTEST_TEST_GLOBAL_SLOT is the decimal global slot,
   NEXTEST_TEST_GROUP the group name or "@global", NEXTEST_TEST_GROUP_SLOT the decimal group slot
   or "none". *)
Theorem C14_env :
  forall gname r,
    slot_env gname r =
    [ (s_GLOBAL_SLOT, dec_str (r_gslot r));
      (s_GROUP, match gname with Some n => n | None => s_at_global end);
      (s_GROUP_SLOT, match r_grp r with Some (_, t) => dec_str t | None => s_none end) ].
Proof. reflexivity. Qed.
Print Assumptions C14_env.

(* ---- closed examples (non-vacuity) *)

(* slots are reused least-first: 0,1,2 handed out; 0 and 1 released; the next start gets 0 *)
Example C14_example_reuse :
  map enc_event (snd (fq_run (fq_new 3 [] [mkitem 0 1 None; mkitem 1 1 None; mkitem 2 1 None;
                                           mkitem 3 1 None; mkitem 4 1 None])
                             [OpFill; OpCompleteNoFill 1; OpComplete 0])) =
  [[0;0];[1;0;0;0];[0;1];[1;1;1;0];[0;2];[1;2;2;0];[2;1];[2;0];[0;3];[1;3;0;0];[0;4];[1;4;1;0]].
Proof. vm_compute. reflexivity. Qed.

(* group slots are counted per group *)
Example C14_example_group_slots :
  map (fun r => (it_id (r_item r), r_gslot r, r_grp r))
      (running (fst (fq_run (fq_new 4 [(7, 2)] [mkitem 0 1 None; mkitem 1 1 (Some 7); mkitem 2 1 (Some 7)])
                            [OpFill]))) =
  [(0, 0, None); (1, 1, Some (7, 0)); (2, 2, Some (7, 1))].
Proof. vm_compute. reflexivity. Qed.

(* without the weight hypothesis the bound fails: weight 0 items take slots beyond the limit *)
Example C14_example_weight_zero :
  map r_gslot (running (fst (fq_run (fq_new 1 [] [mkitem 0 0 None; mkitem 1 0 None; mkitem 2 1 None])
                                    [OpFill]))) = [0; 1; 2].
Proof. vm_compute. reflexivity. Qed.

Example C14_example_env :
  slot_env (Some [103]) (mkrun (mkitem 0 1 (Some 7)) 12 (Some (7, 0))) =
  [(s_GLOBAL_SLOT, [49; 50]); (s_GROUP, [103]); (s_GROUP_SLOT, [48])]
  /\ slot_env None (mkrun (mkitem 0 1 None) 3 None) =
  [(s_GLOBAL_SLOT, [51]); (s_GROUP, s_at_global); (s_GROUP_SLOT, s_none)].
Proof. vm_compute. split; reflexivity. Qed.
