(* C13 — Partition shards are disjoint, cover the selection, and are stable as documented.
   Statements only; proofs are in Proofs/Partition.v (one listing pass) and
   Proofs/PartitionWhole.v (the whole two-pass listing TestList::process_output).

   Vocabulary.
     process_output pb pre ni ig   the model of TestList::process_output for one binary:
                                   [ni]/[ig] are the names printed by `--list` without / with
                                   `--ignored` (any order), [pre nm ign] is the verdict of all other
                                   filters on (name, ignored flag), [pb] the partition (None = no
                                   --partition). It sorts both listings, drops from the first the
                                   names of the second (repair c4776a2), walks each with its own
                                   partitioner and inserts into a name-ordered map.
     matched l                     the selected names of a listing (in name order)
     matched_class c l             those of them whose ignored flag is c
     class_names c ni ig           the names walked by the non-ignored (c = false) / ignored
                                   (c = true) pass; characterised by C13_listing_names
     accepted pre c names          the names of [names] that pass all other filters
     stride k n l                  the elements of l at 0-based positions = k (mod n)
     hash_shard n nm               xxh64 (utf8 nm) 0 mod n + 1
     valid_shards m n = true       1 <= m <= n, what parse_shards enforces (C13_parse_valid);
                                   every statement that mentions m - 1 or mod n carries it, so none
                                   relies on truncating subtraction or on x mod 0.
   The count statements about the whole listing assume the two listings duplicate-free (a test
   binary never prints a name twice; with a repeated name the later call overwrites the earlier
   one in the map while both advance the counter — C13_listing_count_needs_nodup). The hash
   statements need no such assumption. *)
From Coq Require Import Sorting.Sorted.
From NextestModel Require Import Base.Str Model.Xxh64 Model.Filter Model.Partition Proofs.Partition
     Proofs.PartitionWhole.
Open Scope N_scope.

(* ================================================================== one listing pass *)

(* Disjoint + cover, per listing pass, for both partitioner kinds: a name that passes all other
   filters is selected by exactly one shard m in [1,n] (its [owner]); ... *)
Theorem C13_disjoint_cover :
  forall (k : pkind) (m n : N) pre ign names i nm,
    1 <= n -> 1 <= m <= n ->
    nth_error names i = Some nm -> pre nm ign = None ->
    (nth_error (pass (Some (mkpb k m n)) pre ign names 0) i = Some (nm, (ign, Matches))
     <-> m = owner k pre ign n names i nm).
Proof. exact pass_selected_iff_owner. Qed.
Print Assumptions C13_disjoint_cover.

Theorem C13_owner_is_a_shard :
  forall k pre ign n names i nm, 1 <= n -> 1 <= owner k pre ign n names i nm <= n.
Proof. exact owner_in_range. Qed.
Print Assumptions C13_owner_is_a_shard.

(* ... and a name rejected by another filter is in no shard, keeping that filter's reason. *)
Theorem C13_rejected_in_no_shard :
  forall k m n pre ign names i nm r,
    0 < n -> nth_error names i = Some nm -> pre nm ign = Some r ->
    nth_error (pass (Some (mkpb k m n)) pre ign names 0) i = Some (nm, (ign, Mismatch r)).
Proof. exact pass_rejected_everywhere. Qed.
Print Assumptions C13_rejected_in_no_shard.

(* Hash sharding: the verdict for a name is a function of (name, m, n) and of the other
   filters' verdict on that name alone -- whatever else is in the list, in whatever state. *)
Theorem C13_hash_stable :
  forall pre ign m n names cur,
    valid_shards m n = true ->
    pass (Some (mkpb PHash m n)) pre ign names cur =
    map (fun nm => (nm, (ign, match pre nm ign with
                              | Some r => Mismatch r
                              | None => if hash_shard n nm =? m then Matches
                                        else Mismatch MPartition
                              end))) names.
Proof. exact pass_hash_valid. Qed.
Print Assumptions C13_hash_stable.

Theorem C13_hash_is_xxh64_mod_n :
  forall pre ign n nm, 1 <= n -> pre nm ign = None ->
  forall m, 1 <= m <= n ->
    (hash_verdict pre ign m n nm = Matches <-> m = xxh64 (utf8 nm) 0 mod n + 1).
Proof. exact hash_unique_shard. Qed.
Print Assumptions C13_hash_is_xxh64_mod_n.

(* Count sharding: shard m of one pass is every n-th accepted name, in list order, beginning
   with the m-th. *)
Theorem C13_count_stride :
  forall pre ign m n names,
    valid_shards m n = true ->
    matched (pass (Some (mkpb PCount m n)) pre ign names 0) =
    stride (m - 1) n (accepted pre ign names).
Proof. exact pass_count_stride_valid. Qed.
Print Assumptions C13_count_stride.

Theorem C13_count_sizes :
  forall n l i j, 0 < n -> i < n -> j < n ->
    N.of_nat (length (stride i n l)) <= N.of_nat (length (stride j n l)) + 1.
Proof. exact stride_sizes_differ_by_at_most_one. Qed.
Print Assumptions C13_count_sizes.

(* exact size of a stride: floor(len/n), plus one for the first (len mod n) of them *)
Theorem C13_stride_length :
  forall k n l, 0 < n -> k < n ->
    N.of_nat (length (stride k n l)) =
    N.of_nat (length l) / n + (if k <? N.of_nat (length l) mod n then 1 else 0).
Proof. exact stride_length. Qed.
Print Assumptions C13_stride_length.

(* ================================================================== the whole listing *)

(* the result is a map keyed by name (strictly increasing names) *)
Theorem C13_listing_is_a_map :
  forall pb pre ni ig, StronglySorted slt (map fst (process_output pb pre ni ig)).
Proof. exact process_output_ksorted. Qed.
Print Assumptions C13_listing_is_a_map.

(* the names walked by each pass, independently of how the implementation computes them: the
   ignored pass sees the ignored listing, the non-ignored pass the names of the first listing
   that are not in the ignored listing (c4776a2); each in strictly increasing name order *)
Theorem C13_listing_names :
  forall c ni ig,
    (forall nm, In nm (class_names c ni ig) <-> if c then In nm ig else In nm ni /\ ~ In nm ig) /\
    (NoDup ni -> NoDup ig -> StronglySorted slt (class_names c ni ig)).
Proof. exact class_names_spec. Qed.
Print Assumptions C13_listing_names.

(* the selection of a listing is the disjoint union of its two classes *)
Theorem C13_listing_selected_split :
  forall l,
    (forall nm, In nm (matched l) <-> In nm (matched_class false l) \/ In nm (matched_class true l)) /\
    length (matched l) = (length (matched_class false l) + length (matched_class true l))%nat.
Proof. exact matched_split. Qed.
Print Assumptions C13_listing_selected_split.

(* for any partition: the selected names of each class are those selected by that class's own
   pass (no interference between the passes; false for the pre-repair listing, see
   C13_listing_unfixed_refuted) *)
Theorem C13_listing_classes :
  forall pb pre ni ig, NoDup ni -> NoDup ig -> forall c,
    matched_class c (process_output pb pre ni ig) =
    matched (pass pb pre c (class_names c ni ig) 0).
Proof. exact process_output_classes. Qed.
Print Assumptions C13_listing_classes.

(* without --partition: per class, exactly the names that pass all other filters *)
Theorem C13_listing_unpartitioned :
  forall pre ni ig c, NoDup ni -> NoDup ig ->
    matched_class c (process_output None pre ni ig) = accepted pre c (class_names c ni ig).
Proof. exact listing_none_classes. Qed.
Print Assumptions C13_listing_unpartitioned.

Theorem C13_listing_unpartitioned_In :
  forall pre ni ig nm,
    In nm (matched (process_output None pre ni ig)) <->
    exists c, In nm (class_names c ni ig) /\ pre nm c = None.
Proof. exact listing_none_In. Qed.
Print Assumptions C13_listing_unpartitioned_In.

(* COUNT, whole listing: within the binary, separately for the non-ignored and the ignored
   tests, shard m is every n-th test in name order, beginning with the m-th, of those that
   pass all other filters *)
Theorem C13_listing_count :
  forall pre ni ig m n c,
    valid_shards m n = true -> NoDup ni -> NoDup ig ->
    matched_class c (process_output (Some (mkpb PCount m n)) pre ni ig) =
    stride (m - 1) n (matched_class c (process_output None pre ni ig)).
Proof. exact listing_count_classes. Qed.
Print Assumptions C13_listing_count.

(* HASH, whole listing: exactly the tests passing all other filters whose
   xxh64(name, 0) mod n + 1 is m (as lists, in name order; duplicates allowed) *)
Theorem C13_listing_hash :
  forall pre ni ig m n,
    valid_shards m n = true ->
    matched (process_output (Some (mkpb PHash m n)) pre ni ig) =
    filter (fun nm => hash_shard n nm =? m) (matched (process_output None pre ni ig)).
Proof. exact listing_hash_eq. Qed.
Print Assumptions C13_listing_hash.

(* adding, removing or filtering other tests never moves a test to another hash shard *)
Theorem C13_listing_hash_never_moves :
  forall pre ni ig pre' ni' ig' m n nm,
    valid_shards m n = true ->
    In nm (matched (process_output None pre ni ig)) ->
    In nm (matched (process_output None pre' ni' ig')) ->
    (In nm (matched (process_output (Some (mkpb PHash m n)) pre ni ig)) <->
     In nm (matched (process_output (Some (mkpb PHash m n)) pre' ni' ig'))).
Proof. exact listing_hash_never_moves. Qed.
Print Assumptions C13_listing_hash_never_moves.

(* shards 1..n of the two-pass listing: union = the selection without partitioning ... *)
Theorem C13_listing_cover :
  forall k pre ni ig n nm, 1 <= n -> NoDup ni -> NoDup ig ->
    (In nm (matched (process_output None pre ni ig)) <->
     exists m, 1 <= m <= n /\ In nm (matched (process_output (Some (mkpb k m n)) pre ni ig))).
Proof. exact listing_shard_union. Qed.
Print Assumptions C13_listing_cover.

(* ... and pairwise disjoint *)
Theorem C13_listing_disjoint :
  forall k pre ni ig m1 m2 n nm,
    valid_shards m1 n = true -> valid_shards m2 n = true -> NoDup ni -> NoDup ig ->
    In nm (matched (process_output (Some (mkpb k m1 n)) pre ni ig)) ->
    In nm (matched (process_output (Some (mkpb k m2 n)) pre ni ig)) ->
    m1 = m2.
Proof. exact listing_shard_disjoint. Qed.
Print Assumptions C13_listing_disjoint.

(* sizes of the count shards of one binary. [class_total pre ni ig c] is the number of tests of
   class c that pass all other filters. Exact: *)
Theorem C13_listing_count_class_size :
  forall pre ni ig m n c,
    valid_shards m n = true -> NoDup ni -> NoDup ig ->
    N.of_nat (length (matched_class c (process_output (Some (mkpb PCount m n)) pre ni ig))) =
    class_total pre ni ig c / n + (if m <=? class_total pre ni ig c mod n then 1 else 0).
Proof. exact listing_count_class_size. Qed.
Print Assumptions C13_listing_count_class_size.

(* per (binary, ignored class): any two shards differ by at most one *)
Theorem C13_listing_count_sizes_per_class :
  forall pre ni ig m1 m2 n c,
    valid_shards m1 n = true -> valid_shards m2 n = true -> NoDup ni -> NoDup ig ->
    N.of_nat (length (matched_class c (process_output (Some (mkpb PCount m1 n)) pre ni ig))) <=
    N.of_nat (length (matched_class c (process_output (Some (mkpb PCount m2 n)) pre ni ig))) + 1.
Proof. exact listing_count_class_balance. Qed.
Print Assumptions C13_listing_count_sizes_per_class.

(* per binary: at most two (both classes restart at shard 1) ... *)
Theorem C13_listing_count_sizes_per_binary_le2 :
  forall pre ni ig m1 m2 n,
    valid_shards m1 n = true -> valid_shards m2 n = true -> NoDup ni -> NoDup ig ->
    N.of_nat (length (matched (process_output (Some (mkpb PCount m1 n)) pre ni ig))) <=
    N.of_nat (length (matched (process_output (Some (mkpb PCount m2 n)) pre ni ig))) + 2.
Proof. exact listing_count_binary_balance2. Qed.
Print Assumptions C13_listing_count_sizes_per_binary_le2.

(* ... and "at most one per binary" (the property's wording) holds exactly outside the class
   F21 = both classes have a non-zero remainder modulo n (known_findings.json): *)
Theorem C13_count_sizes_per_binary_outside_known :
  forall pre ni ig m1 m2 n,
    f21_class pre ni ig n = false ->
    valid_shards m1 n = true -> valid_shards m2 n = true -> NoDup ni -> NoDup ig ->
    N.of_nat (length (matched (process_output (Some (mkpb PCount m1 n)) pre ni ig))) <=
    N.of_nat (length (matched (process_output (Some (mkpb PCount m2 n)) pre ni ig))) + 1.
Proof. exact listing_count_binary_outside_known. Qed.
Print Assumptions C13_count_sizes_per_binary_outside_known.

(* inside the class shard 1 has exactly two tests more than shard n *)
Theorem C13_count_sizes_per_binary_known_is_two :
  forall pre ni ig n,
    1 <= n -> f21_class pre ni ig n = true -> NoDup ni -> NoDup ig ->
    valid_shards 1 n = true /\ valid_shards n n = true /\
    N.of_nat (length (matched (process_output (Some (mkpb PCount 1 n)) pre ni ig))) =
    N.of_nat (length (matched (process_output (Some (mkpb PCount n n)) pre ni ig))) + 2.
Proof. exact listing_count_binary_known. Qed.
Print Assumptions C13_count_sizes_per_binary_known_is_two.

(* the class is empty whenever the other filters reject one ignored class altogether, which is
   the case under --run-ignored default (c0 = true) and --run-ignored only (c0 = false) *)
Theorem C13_known_class_needs_both_classes :
  forall pre ni ig n c0, (forall nm, pre nm c0 <> None) -> f21_class pre ni ig n = false.
Proof. exact f21_single_class. Qed.
Print Assumptions C13_known_class_needs_both_classes.

(* ================================================================== M/N *)

Theorem C13_valid_shards_iff : forall m n, valid_shards m n = true <-> 1 <= m <= n.
Proof. exact valid_shards_iff. Qed.
Print Assumptions C13_valid_shards_iff.

(* whatever PartitionerBuilder::from_str accepts satisfies 1 <= m <= n < 2^64; in particular
   n = 0 never reaches a partitioner (the real `% total_shards` would panic on it) *)
Theorem C13_parse_valid :
  forall s pb, parse_partition s = Some pb ->
    valid_shards (pb_shard pb) (pb_total pb) = true /\ pb_shard pb < M64 /\ pb_total pb < M64.
Proof. exact parse_partition_valid. Qed.
Print Assumptions C13_parse_valid.

Theorem C13_parse_never_zero_shards :
  forall s pb, parse_partition s = Some pb ->
    1 <= pb_shard pb <= pb_total pb /\ pb_total pb <> 0.
Proof. exact parse_partition_total_nonzero. Qed.
Print Assumptions C13_parse_never_zero_shards.

(* ================================================================== closed witnesses *)

Definition pre_default : str -> bool -> option mismatch := fun _ ign => filter_ignored RIDefault ign.
Definition pre_all : str -> bool -> option mismatch := fun _ ign => filter_ignored RIAll ign.
Definition nA : str := [97; 95; 105]. (* a_i *)
Definition nB : str := [98].
Definition nC : str := [99; 95; 105]. (* c_i *)
Definition nD : str := [100].

Example C13_count_example :
  matched (process_output (Some (mkpb PCount 1 2)) pre_default [nA; nB; nC; nD] [nA; nC]) = [nB]
  /\ matched (process_output (Some (mkpb PCount 2 2)) pre_default [nA; nB; nC; nD] [nA; nC]) = [nD].
Proof. split; vm_compute; reflexivity. Qed.

(* F4: before the repair the first pass also counted the ignored names *)
Example C13_F4_unfixed_witness :
  matched (process_output_unfixed (Some (mkpb PCount 1 2)) pre_default [nA; nB; nC; nD] [nA; nC]) = []
  /\ matched (process_output_unfixed (Some (mkpb PCount 2 2)) pre_default [nA; nB; nC; nD] [nA; nC])
     = [nB; nD].
Proof. split; vm_compute; reflexivity. Qed.

(* the statement of C13_listing_count is false for the pre-repair listing (on the F4 witness,
   shard 1 of 2, non-ignored class: nothing instead of [b]) -- although every theorem about a
   single pass holds for its passes *)
Example C13_listing_unfixed_refuted :
  ~ (forall pre ni ig m n c,
        valid_shards m n = true -> NoDup ni -> NoDup ig ->
        matched_class c (process_output_unfixed (Some (mkpb PCount m n)) pre ni ig) =
        stride (m - 1) n (matched_class c (process_output_unfixed None pre ni ig))).
Proof.
  intros H.
  specialize (H pre_default [nA; nB; nC; nD] [nA; nC] 1 2 false eq_refl).
  assert (D4 : NoDup [nA; nB; nC; nD]).
  { repeat constructor; cbn [In]; intros F; repeat destruct F as [F|F]; try discriminate F; exact F. }
  assert (D2 : NoDup [nA; nC]).
  { repeat constructor; cbn [In]; intros F; repeat destruct F as [F|F]; try discriminate F; exact F. }
  specialize (H D4 D2). vm_compute in H. discriminate H.
Qed.

(* so is the statement of C13_listing_classes (the passes interfere) *)
Example C13_listing_classes_unfixed_refuted :
  matched_class false
    (process_output_unfixed (Some (mkpb PCount 1 2)) pre_default [nA; nB; nC; nD] [nA; nC]) = [] /\
  stride (1 - 1) 2
    (matched_class false (process_output_unfixed None pre_default [nA; nB; nC; nD] [nA; nC])) = [nB].
Proof. split; vm_compute; reflexivity. Qed.

(* the seeded shape "one count partitioner shared by both passes" is told apart as well: under
   --run-ignored all with tests a, b(ignored), nextest's shard 1 of 2 holds both; the shared
   counter would move b to shard 2 *)
Example C13_listing_shared_partitioner_refuted :
  matched_class true (process_output (Some (mkpb PCount 1 2)) pre_all [[97]; [98]] [[98]]) = [[98]] /\
  stride (1 - 1) 2 (matched_class true (process_output None pre_all [[97]; [98]] [[98]])) = [[98]] /\
  matched_class true (process_output_shared (Some (mkpb PCount 1 2)) pre_all [[97]; [98]] [[98]]) = [].
Proof. repeat split; vm_compute; reflexivity. Qed.

(* F21: "shard sizes differ by at most one per binary" is false under --run-ignored all: tests a
   and b(ignored), count:1/2 selects both, count:2/2 none *)
Example C13_count_sizes_per_binary_refuted :
  ~ (forall pre ni ig m1 m2 n,
        valid_shards m1 n = true -> valid_shards m2 n = true -> NoDup ni -> NoDup ig ->
        N.of_nat (length (matched (process_output (Some (mkpb PCount m1 n)) pre ni ig))) <=
        N.of_nat (length (matched (process_output (Some (mkpb PCount m2 n)) pre ni ig))) + 1).
Proof.
  intros H.
  assert (D2 : NoDup [[97]; [98]]).
  { repeat constructor; cbn [In]; intros F; repeat destruct F as [F|F]; try discriminate F; exact F. }
  assert (D1 : NoDup [[98]]).
  { repeat constructor; cbn [In]; intros F; exact F. }
  specialize (H pre_all [[97]; [98]] [[98]] 1 2 2 eq_refl eq_refl D2 D1).
  vm_compute in H. apply H. reflexivity.
Qed.

Example C13_count_sizes_per_binary_witness :
  matched (process_output (Some (mkpb PCount 1 2)) pre_all [[97]; [98]] [[98]]) = [[97]; [98]] /\
  matched (process_output (Some (mkpb PCount 2 2)) pre_all [[97]; [98]] [[98]]) = [] /\
  f21_class pre_all [[97]; [98]] [[98]] 2 = true /\
  f21_class pre_default [[97]; [98]] [[98]] 2 = false.
Proof. repeat split; vm_compute; reflexivity. Qed.

(* the duplicate-free hypothesis of the count statements is needed: a name printed twice is
   counted twice and stored once *)
Example C13_listing_count_needs_nodup :
  matched_class false (process_output (Some (mkpb PCount 1 2)) pre_default [[97]; [97]; [98]] []) = [[98]] /\
  stride (1 - 1) 2 (matched_class false (process_output None pre_default [[97]; [97]; [98]] [])) = [[97]] /\
  matched_class false (process_output (Some (mkpb PCount 2 2)) pre_default [[97]; [97]; [98]] []) = [[97]] /\
  stride (2 - 1) 2 (matched_class false (process_output None pre_default [[97]; [97]; [98]] [])) = [[98]].
Proof. repeat split; vm_compute; reflexivity. Qed.

(* without the hypothesis 1 <= m <= n the model's arithmetic is not the code's: shard 0 would
   behave as shard 1 (truncating subtraction) and n = 0 would be total (x mod 0 = x in N) where
   the code panics; parse_shards rejects both *)
Example C13_invalid_shards_are_rejected :
  parse_partition [99; 111; 117; 110; 116; 58; 48; 47; 50] = None /\       (* count:0/2 *)
  parse_partition [99; 111; 117; 110; 116; 58; 49; 47; 48] = None /\       (* count:1/0 *)
  parse_partition [104; 97; 115; 104; 58; 51; 47; 50] = None /\            (* hash:3/2 *)
  parse_partition [104; 97; 115; 104; 58; 48; 47; 48] = None /\            (* hash:0/0 *)
  parse_partition [99; 111; 117; 110; 116; 58; 50; 47; 51]
    = Some (mkpb PCount 2 3) /\                                            (* count:2/3 *)
  parse_partition [104; 97; 115; 104; 58; 43; 49; 47; 48; 50]
    = Some (mkpb PHash 1 2) /\                                             (* hash:+1/02 *)
  parse_partition [99; 111; 117; 110; 116; 58; 49; 47; 50; 47; 51] = None /\ (* count:1/2/3 *)
  parse_partition [99; 111; 117; 110; 116; 58; 49; 47; 49; 56; 52; 52; 54; 55; 52; 52; 48; 55; 51;
                   55; 48; 57; 53; 53; 49; 54; 49; 54] = None /\           (* count:1/2^64 *)
  parse_partition [99; 111; 117; 110; 116; 58; 49; 47; 49; 56; 52; 52; 54; 55; 52; 52; 48; 55; 51;
                   55; 48; 57; 53; 53; 49; 54; 49; 53]
    = Some (mkpb PCount 1 18446744073709551615).                           (* count:1/(2^64-1) *)
Proof. repeat split; vm_compute; reflexivity. Qed.

(* xxHash64 with seed 0, pinned on reference vectors (the first three are the published XXH64
   test values; the last two were computed with the xxhash-rust crate nextest links, through the
   harness): "", "a", "abc", "The quick brown fox jumps over the lazy dog" (43 bytes: one
   32-byte stripe, one 8-byte lane, three tail bytes), and a 66-byte test path (two stripes and
   a 2-byte tail) *)
Example C13_xxh64_vectors :
  xxh64 [] 0 = 17241709254077376921 /\                                      (* 0xEF46DB3751D8E999 *)
  xxh64 [97] 0 = 15154266338359012955 /\                                    (* 0xD24EC4F1A98C6E5B *)
  xxh64 [97; 98; 99] 0 = 4952883123889572249 /\                             (* 0x44BC2CF5AD770999 *)
  xxh64 [84; 104; 101; 32; 113; 117; 105; 99; 107; 32; 98; 114; 111; 119; 110; 32; 102; 111; 120;
         32; 106; 117; 109; 112; 115; 32; 111; 118; 101; 114; 32; 116; 104; 101; 32; 108; 97; 122;
         121; 32; 100; 111; 103] 0 = 802816344064684476 /\                  (* 0x0B242D361FDA71BC *)
  xxh64 (utf8 [110; 101; 120; 116; 101; 115; 116; 95; 114; 117; 110; 110; 101; 114; 58; 58; 112;
               97; 114; 116; 105; 116; 105; 111; 110; 58; 58; 116; 101; 115; 116; 115; 58; 58; 99;
               111; 117; 110; 116; 95; 97; 110; 100; 95; 104; 97; 115; 104; 95; 115; 104; 97; 114;
               100; 115; 95; 97; 114; 101; 95; 115; 116; 97; 98; 108; 101]) 0
    = 2577100650569099888.                                                  (* 0x23C3B3633B996A70 *)
Proof. repeat split; vm_compute; reflexivity. Qed.

(* and the hash shard of a name is that value modulo n, plus one *)
Example C13_hash_shard_example :
  hash_shard 3 [97; 98; 99] = 4952883123889572249 mod 3 + 1 /\
  matched (process_output (Some (mkpb PHash (hash_shard 3 [97; 98; 99]) 3)) pre_default [[97; 98; 99]] [])
    = [[97; 98; 99]].
Proof. split; vm_compute; reflexivity. Qed.
