(* C13 — Partition shards are disjoint, cover the selection, and are stable as documented.
   Statements only; proofs are in Proofs/Partition.v. *)
From NextestModel Require Import Base.Str Model.Xxh64 Model.Filter Model.Partition Proofs.Partition.
Open Scope N_scope.

(* Disjoint + cover, per listing pass, for both partitioner kinds: a name that passes all other
   filters is selected by exactly one shard m in [1,n] (its [owner]); ... *)
Theorem C13_disjoint_cover :
  forall (k : pkind) (m n : N) pre ign names i nm,
    1 <= n -> 1 <= m <= n ->
    nth_error names i = Some nm -> pre nm ign = None ->
    (nth_error (pass (Some (mkpb k m n)) pre ign names 0) i = Some (nm, (ign, Matches))
     <-> m = owner k pre ign n names i nm).
Proof. exact pass_selected_iff_owner. Qed.
Print Assumptions C13_disjoint_cover.

Theorem C13_owner_is_a_shard :
  forall k pre ign n names i nm, 1 <= n -> 1 <= owner k pre ign n names i nm <= n.
Proof. exact owner_in_range. Qed.
Print Assumptions C13_owner_is_a_shard.

(* ... and a name rejected by another filter is in no shard, keeping that filter's reason. *)
Theorem C13_rejected_in_no_shard :
  forall k m n pre ign names i nm r,
    0 < n -> nth_error names i = Some nm -> pre nm ign = Some r ->
    nth_error (pass (Some (mkpb k m n)) pre ign names 0) i = Some (nm, (ign, Mismatch r)).
Proof. exact pass_rejected_everywhere. Qed.
Print Assumptions C13_rejected_in_no_shard.

(* Hash sharding: the verdict for a name is a function of (name, m, n) and of the other
   filters' verdict on that name alone -- whatever else is in the list, in whatever state. *)
Theorem C13_hash_stable :
  forall pre ign m n names cur,
    pass (Some (mkpb PHash m n)) pre ign names cur =
    map (fun nm => (nm, (ign, hash_verdict pre ign m n nm))) names.
Proof. exact pass_hash_map. Qed.
Print Assumptions C13_hash_stable.

Theorem C13_hash_is_xxh64_mod_n :
  forall pre ign n nm, 1 <= n -> pre nm ign = None ->
  forall m, 1 <= m <= n ->
    (hash_verdict pre ign m n nm = Matches <-> m = xxh64 (utf8 nm) 0 mod n + 1).
Proof. exact hash_unique_shard. Qed.
Print Assumptions C13_hash_is_xxh64_mod_n.

(* Count sharding: shard m is every n-th accepted name, in list (= name) order, beginning with
   the m-th. *)
Theorem C13_count_stride :
  forall pre ign m n names, 0 < n ->
    matched (pass (Some (mkpb PCount m n)) pre ign names 0) =
    stride (m - 1) n (accepted pre ign names).
Proof.
  intros pre ign m n names Hn.
  rewrite pass_count_eq by assumption. rewrite matched_pass_count.
  unfold stride. rewrite stride_from_c by assumption. rewrite N.mod_0_l by lia. reflexivity.
Qed.
Print Assumptions C13_count_stride.

Theorem C13_count_sizes :
  forall n l i j, 0 < n -> i < n -> j < n ->
    N.of_nat (length (stride i n l)) <= N.of_nat (length (stride j n l)) + 1.
Proof. exact stride_sizes_differ_by_at_most_one. Qed.
Print Assumptions C13_count_sizes.

(* Non-vacuity and regression witnesses (closed computations). *)
Definition pre_default : str -> bool -> option mismatch := fun _ ign => filter_ignored RIDefault ign.
Definition nA : str := [97; 95; 105]. (* a_i *)
Definition nB : str := [98].
Definition nC : str := [99; 95; 105]. (* c_i *)
Definition nD : str := [100].

Example C13_count_example :
  matched (process_output (Some (mkpb PCount 1 2)) pre_default [nA; nB; nC; nD] [nA; nC]) = [nB]
  /\ matched (process_output (Some (mkpb PCount 2 2)) pre_default [nA; nB; nC; nD] [nA; nC]) = [nD].
Proof. split; vm_compute; reflexivity. Qed.

(* F4: before the repair the first pass also counted the ignored names *)
Example C13_F4_unfixed_witness :
  matched (process_output_unfixed (Some (mkpb PCount 1 2)) pre_default [nA; nB; nC; nD] [nA; nC]) = []
  /\ matched (process_output_unfixed (Some (mkpb PCount 2 2)) pre_default [nA; nB; nC; nD] [nA; nC])
     = [nB; nD].
Proof. split; vm_compute; reflexivity. Qed.
