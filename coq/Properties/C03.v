(* C03 — An attempt's reported result reflects what the test process actually did.
   Statements only; proofs are in Proofs/Classify.v, Proofs/Retry.v and Proofs/ClassifyUnit.v
   (the tie to the unit state machine of Model/UnitTimers.v).

   One attempt is [attempt_result spawn_failed timed_out st child_errors leaked]:
   spawn_failed = the process could not be started; timed_out = nextest took the
   terminate-for-timeout path; st = the wait status; child_errors = reading the child's
   stdout/stderr failed; leaked = detect_fd_leaks' verdict. *)
From NextestModel Require Import Base.Str Model.Clocks Model.UnitTimers Proofs.UnitProps
     Model.Backoff Model.Classify Proofs.Backoff Proofs.Classify Proofs.Retry Proofs.ClassifyUnit.
Open Scope N_scope.

(* success (PASS or LEAK) iff the process was started, was not terminated for a timeout, its
   output could be read, and it exited with status 0 *)
Theorem C03_success_iff : forall sf to st errs leaked,
  is_success (attempt_result sf to st errs leaked) = true <->
  sf = false /\ to = false /\ errs = false /\ st = Exited 0.
Proof. exact attempt_success_iff. Qed.
Print Assumptions C03_success_iff.

Theorem C03_pass_iff : forall sf to st errs leaked,
  attempt_result sf to st errs leaked = Pass <->
  sf = false /\ to = false /\ errs = false /\ st = Exited 0 /\ leaked = false.
Proof. exact attempt_pass_iff. Qed.
Print Assumptions C03_pass_iff.

(* leak iff, in addition, a handle was still held open past the leak timeout *)
Theorem C03_leak_iff : forall sf to st errs leaked,
  attempt_result sf to st errs leaked = Leak <->
  sf = false /\ to = false /\ errs = false /\ st = Exited 0 /\ leaked = true.
Proof. exact attempt_leak_iff. Qed.
Print Assumptions C03_leak_iff.

(* failure iff it ended any other way on its own; it carries the terminating signal exactly when
   a signal ended it, and the leak verdict *)
Theorem C03_fail_iff : forall sf to st errs leaked sg lk,
  attempt_result sf to st errs leaked = Fail sg lk <->
  sf = false /\ to = false /\ errs = false /\ st <> Exited 0 /\
  sg = abort_status st /\ lk = leaked.
Proof. exact attempt_fail_iff. Qed.
Print Assumptions C03_fail_iff.

Theorem C03_fail_signal : forall s leaked,
  attempt_result false false (Signaled s) false leaked = Fail (Some s) leaked.
Proof. exact attempt_fail_signal. Qed.
Print Assumptions C03_fail_signal.

Theorem C03_fail_code : forall c leaked, c <> 0 ->
  attempt_result false false (Exited c) false leaked = Fail None leaked.
Proof. exact attempt_fail_code. Qed.
Print Assumptions C03_fail_code.

(* timeout iff nextest terminated it for exceeding its time limit: the timeout status overrides
   whatever the wait status, the read errors and the leak verdict are *)
Theorem C03_timeout_iff : forall sf to st errs leaked,
  attempt_result sf to st errs leaked = Timeout <-> sf = false /\ to = true.
Proof. exact attempt_timeout_iff. Qed.
Print Assumptions C03_timeout_iff.

(* execution failure iff the process could not be started, or (documented second case) reading
   its output failed and it was not timed out *)
Theorem C03_execfail_iff : forall sf to st errs leaked,
  attempt_result sf to st errs leaked = ExecFail <->
  sf = true \/ (to = false /\ errs = true).
Proof. exact attempt_execfail_iff. Qed.
Print Assumptions C03_execfail_iff.

(* in terms of what the test binary did: with a direct spawn, and no read error, EXECFAIL iff
   the binary could not be exec'd *)
Theorem C03_execfail_iff_spawn : forall b to leaked,
  attempt_of Direct b to false leaked = ExecFail <-> b = CannotExec.
Proof. exact execfail_iff_spawn_direct. Qed.
Print Assumptions C03_execfail_iff_spawn.

(* F9: under the double-spawn launcher (the Unix default) the same statement fails: the
   launcher starts, cannot exec the test binary and exits 70, which is reported as FAIL *)
Theorem C03_execfail_iff_spawn_refuted :
  exists m b to leaked, ~ (attempt_of m b to false leaked = ExecFail <-> b = CannotExec).
Proof. exact execfail_iff_spawn_refuted. Qed.
Print Assumptions C03_execfail_iff_spawn_refuted.

Theorem C03_execfail_iff_spawn_outside_known : forall m b to leaked,
  known_F9 m b = false ->
  (attempt_of m b to false leaked = ExecFail <-> b = CannotExec).
Proof. exact execfail_iff_spawn_outside_known. Qed.
Print Assumptions C03_execfail_iff_spawn_outside_known.

(* a binary that did run is classified identically under both spawn modes *)
Theorem C03_spawn_mode_irrelevant_when_ran : forall m st to errs leaked,
  attempt_of m (Ran st) to errs leaked = attempt_result false to st errs leaked.
Proof. exact spawn_mode_irrelevant_when_ran. Qed.
Print Assumptions C03_spawn_mode_irrelevant_when_ran.

(* the raw wait statuses the correspondence check feeds to the real code denote these
   exit statuses (core-dump bit irrelevant) *)
Theorem C03_raw_status : forall core,
  (forall c, c < 256 -> decode_raw (encode_raw (Exited c) core) = Some (Exited c)) /\
  (forall s, 1 <= s -> s < 127 -> decode_raw (encode_raw (Signaled s) core) = Some (Signaled s)).
Proof. exact raw_status_roundtrip. Qed.
Print Assumptions C03_raw_status.

(* a test's final result is that of its last attempt: whatever describe returns, the status it
   calls last_status is the last element of the list, and it is what last_status() returns *)
Theorem C03_final_is_last : forall l d r,
  describe l = Some d -> last_status l = Some r ->
  d_last d = (length l - 1)%nat /\ nth (d_last d) l Pass = r.
Proof. exact final_is_last. Qed.
Print Assumptions C03_final_is_last.

(* describe on any non-empty list of attempt results: flaky iff the last attempt succeeded and
   there was more than one attempt ... *)
Theorem C03_describe_flaky_iff : forall l d r,
  describe l = Some d -> last_status l = Some r ->
  (kind_of d = KFlaky <-> is_success r = true /\ (1 < length l)%nat).
Proof. exact describe_flaky_iff. Qed.
Print Assumptions C03_describe_flaky_iff.

Theorem C03_describe_total : forall l, l <> [] -> exists d, describe l = Some d.
Proof. exact describe_total. Qed.
Print Assumptions C03_describe_total.

(* ... and on the lists the attempt loop produces (any policy, any outcome pattern, run not
   cancelled) every attempt before the last failed, so: flaky iff the last attempt passed after
   at least one failed attempt; success iff the only attempt passed; failure iff the last
   attempt failed. *)
Theorem C03_flaky_iff : forall force settings outcome js,
  let '(rs, e) := run_results force settings outcome (fun _ => true) js in
  exists d r,
    describe rs = Some d /\ last_status rs = Some r /\
    r = nth (length rs - 1) rs Pass /\
    d_last d = (length rs - 1)%nat /\
    (forall i, (S i < length rs)%nat -> is_success (nth i rs Pass) = false) /\
    (kind_of d = KFlaky <->
       is_success r = true /\
       exists i, (S i < length rs)%nat /\ is_success (nth i rs Pass) = false) /\
    (kind_of d = KSuccess <-> is_success r = true /\ length rs = 1%nat) /\
    (kind_of d = KFailure <-> is_success r = false).
Proof. exact run_results_described. Qed.
Print Assumptions C03_flaky_iff.

(* leak detection (after the F2 repair): for event times non-decreasing from [from], the loop
   reports a leak iff the handles were still open when the leak timeout expired *)
Theorem C03_detect_leak_spec : forall t evs from,
  times_sorted from evs = true ->
  (detect_leak t evs = true <->
   match time_to_eof evs with Some te => t <= te | None => True end).
Proof. exact detect_leak_spec. Qed.
Print Assumptions C03_detect_leak_spec.

(* F2 (repaired): the loop as it was, re-arming the timer on every event, violates that
   statement: a descendant writing every 50 ms is never flagged with a 100 ms timeout *)
Theorem C03_detect_leak_unfixed_refuted :
  exists t evs, times_sorted 0 evs = true /\
    ~ (detect_leak_unfixed t 0 evs = true <->
       match time_to_eof evs with Some te => t <= te | None => True end).
Proof. exact detect_leak_unfixed_refuted. Qed.
Print Assumptions C03_detect_leak_unfixed_refuted.

(* ---- the flags are not inputs: over histories of the unit state machine (Model/UnitTimers.v:
   the wait loops of run_test_inner, terminate_child and detect_fd_leaks) ---------------------- *)

(* Whatever the history (any pause table, any configuration, any event sequence from the spawn)
   and whatever wait status [st] has the success bit the machine recorded, the result the machine
   reports is [attempt_result] applied to the machine's own timed-out and leak flags; it is
   TIMEOUT iff the terminate-for-timeout path was entered somewhere in the history; LEAK iff exit
   0, no timeout termination, and the leak timer fired with a pipe still open; success iff exit 0
   and no timeout termination. ([ph <> PTerminating TTimeout]: every state outside the timeout
   call of terminate_child, in particular every final state.) *)
Theorem C03_unit_result : forall tbl cfg es r st,
  urun tbl cfg (uinit cfg) es = Ok r -> ph (fst r) <> PTerminating TTimeout ->
  st_success st = exit_ok (fst r) ->
  let res := attempt_result false (timed_out (fst r)) st false (UnitTimers.leaked (fst r)) in
  ures_of res = Some (uresult (fst r)) /\
  (res = Timeout <-> timeout_path tbl cfg (uinit cfg) es) /\
  (res = Leak <->
   st = Exited 0 /\ ~ timeout_path tbl cfg (uinit cfg) es /\ leak_path tbl cfg (uinit cfg) es) /\
  (is_success res = true <-> st = Exited 0 /\ ~ timeout_path tbl cfg (uinit cfg) es).
Proof. exact unit_result_classified. Qed.
Print Assumptions C03_unit_result.

(* "timeout iff nextest terminated it for exceeding its time limit": the timed-out flag is set
   exactly when some prefix of the history ends in the running loop with the slow-timeout interval
   due, the unit not yet timed out, and the expiry count reaching terminate-after ... *)
Theorem C03_timeout_iff_unit : forall tbl cfg es r,
  urun tbl cfg (uinit cfg) es = Ok r -> ph (fst r) <> PTerminating TTimeout ->
  (timed_out (fst r) = true <->
   exists es1 e es2 r1, es = es1 ++ e :: es2 /\ urun tbl cfg (uinit cfg) es1 = Ok r1 /\
     e = FireInterval /\ ph (fst r1) = PRunning /\ slc_due (k_isl (ck (fst r1))) = true /\
     timed_out (fst r1) = false /\ will_terminate cfg (hits (fst r1) + 1) = true).
Proof. exact timed_out_iff_split. Qed.
Print Assumptions C03_timeout_iff_unit.

(* ... that step signals the process group with the configured method (SIGKILL for a zero grace
   period, else SIGTERM) unless the child had already been reaped ... *)
Theorem C03_timeout_path_terminates : forall tbl cfg s e r,
  ustep tbl cfg s e = Ok r -> timeout_fire cfg s e ->
  timeout_pending (fst r) /\
  (reaped s = false -> In (OSignal (timeout_method cfg)) (snd r)) /\
  (reaped s = true -> timed_out (fst r) = true).
Proof. exact timeout_fire_signals. Qed.
Print Assumptions C03_timeout_path_terminates.

(* ... and it happens only with a time limit configured and after at least that much time *)
Theorem C03_timeout_exceeded_limit : forall tbl cfg es r,
  cfg_valid cfg -> urun tbl cfg (uinit cfg) es = Ok r ->
  timeout_path tbl cfg (uinit cfg) es ->
  exists ta, terminate_after cfg = Some ta /\ ta * period cfg <= real_time es.
Proof. exact timeout_path_exceeds_limit. Qed.
Print Assumptions C03_timeout_exceeded_limit.

(* the leak flag: set exactly by the leak timer completing in detect_fd_leaks with a pipe still
   open, which is never before the whole leak timeout has been spent there *)
Theorem C03_unit_leaked_iff : forall tbl cfg es r,
  urun tbl cfg (uinit cfg) es = Ok r ->
  (UnitTimers.leaked (fst r) = true <->
   exists es1 e es2 r1, es = es1 ++ e :: es2 /\ urun tbl cfg (uinit cfg) es1 = Ok r1 /\
     e = FireLeak /\ ph (fst r1) = PExiting /\ slc_due (lsl (fst r1)) = true /\
     fds_done (fst r1) = false).
Proof. exact leaked_iff_split. Qed.
Print Assumptions C03_unit_leaked_iff.

Theorem C03_unit_leak_not_early : forall tbl cfg es r,
  urun tbl cfg (uinit cfg) es = Ok r -> UnitTimers.leaked (fst r) = true ->
  leak_timeout cfg <= exiting_time tbl cfg (uinit cfg) es.
Proof. exact leaked_not_early. Qed.
Print Assumptions C03_unit_leak_not_early.

(* the success bit comes from a child-exit event of the history; a finished unit has reaped *)
Theorem C03_unit_status_from_history : forall tbl cfg es r,
  urun tbl cfg (uinit cfg) es = Ok r -> ph (fst r) = PDone ->
  reaped (fst r) = true /\ In (ChildExit (exit_ok (fst r))) es.
Proof. exact final_status_from_history. Qed.
Print Assumptions C03_unit_status_from_history.

(* ---- the two leak halves composed, over Classify's timed fd-event histories after the exit:
   LEAK iff exit 0 (started, not timed out, output readable) and a handle is still open when the
   leak timer fires; PASS iff exit 0 and all handles closed before it *)
Theorem C03_leak_iff_history : forall sf to st errs timeout evs,
  times_sorted 0 evs = true ->
  (attempt_result sf to st errs (detect_leak timeout evs) = Leak <->
   sf = false /\ to = false /\ errs = false /\ st = Exited 0 /\ open_at timeout evs).
Proof. exact leak_iff_history. Qed.
Print Assumptions C03_leak_iff_history.

Theorem C03_pass_iff_history : forall sf to st errs timeout evs,
  times_sorted 0 evs = true ->
  (attempt_result sf to st errs (detect_leak timeout evs) = Pass <->
   sf = false /\ to = false /\ errs = false /\ st = Exited 0 /\ ~ open_at timeout evs).
Proof. exact pass_iff_history. Qed.
Print Assumptions C03_pass_iff_history.

(* ---- non-vacuity and regression witnesses (closed computations) *)
Example C03_ex_results :
  attempt_result false false (Exited 0) false false = Pass
  /\ attempt_result false false (Exited 0) false true = Leak
  /\ attempt_result false false (Exited 101) false false = Fail None false
  /\ attempt_result false false (Signaled 11) false true = Fail (Some 11) true
  /\ attempt_result false true (Exited 0) false false = Timeout
  /\ attempt_result false true (Signaled 9) true true = Timeout
  /\ attempt_result true false (Exited 0) false false = ExecFail
  /\ attempt_result false false (Exited 0) true false = ExecFail.
Proof. repeat split; vm_compute; reflexivity. Qed.

Example C03_ex_raw :
  decode_raw 0 = Some (Exited 0) /\ decode_raw 25856 = Some (Exited 101)
  /\ decode_raw 11 = Some (Signaled 11) /\ decode_raw 139 = Some (Signaled 11)
  /\ decode_raw 127 = None /\ decode_raw 128 = None /\ decode_raw 65535 = None.
Proof. repeat split; vm_compute; reflexivity. Qed.

Example C03_ex_describe :
  describe [Pass] = Some (DSuccess 0)
  /\ describe [Fail None false; Timeout; Leak] = Some (DFlaky 2 [0%nat; 1%nat])
  /\ describe [Fail None false; ExecFail] = Some (DFailure 0 1 [1%nat])
  /\ describe [Pass; Fail None false] = Some (DFailure 0 1 [1%nat])
  /\ describe [] = None.
Proof. repeat split; vm_compute; reflexivity. Qed.

(* the loop with results: fails with SIGSEGV, times out, then passes => flaky *)
Example C03_ex_flaky :
  run_results None (Fixed 3 0 false)
    (fun k => if k =? 1 then Fail (Some 11) false else if k =? 2 then Timeout else Pass)
    (fun _ => true) (fun _ => no_jitter_sample)
  = ([Fail (Some 11) false; Timeout; Pass], Finished).
Proof. vm_compute. reflexivity. Qed.

(* F9 witness *)
Example C03_ex_F9 :
  attempt_of ViaLauncher CannotExec false false false = Fail None false
  /\ attempt_of Direct CannotExec false false false = ExecFail.
Proof. split; vm_compute; reflexivity. Qed.

(* F2 witness and its repair: exit at 0, data every 50 ms, EOF at 2 s, leak timeout 100 ms *)
Example C03_ex_F2 :
  let evs := [(50, FdData); (100, FdData); (150, FdData); (200, FdData); (250, FdEof)] in
  detect_leak_unfixed 100 0 evs = false /\ detect_leak 100 evs = true
  /\ detect_leak 100 [(30, FdData); (60, FdEof)] = false
  /\ detect_leak 100 [(300, FdEof)] = true /\ detect_leak 100 [] = true.
Proof. repeat split; vm_compute; reflexivity. Qed.

(* unit histories (empty pause table: no Stop/Continue in these histories).
   period 10 ns x terminate-after 1, grace 0, leak timeout 5. *)
Definition ex_tbl : ptable :=
  {| t_run_stop := []; t_run_cont := []; t_term_stop := []; t_term_cont := [];
     t_delay_stop := []; t_delay_cont := []; t_leak_stop := []; t_leak_cont := [] |}.
Definition ex_cfg : ucfg := {| period := 10; terminate_after := Some 1; grace := 0; leak_timeout := 5 |}.
Definition ex_final (es : list uevent) : option (phase * ures * bool * bool) :=
  match urun ex_tbl ex_cfg (uinit ex_cfg) es with
  | Ok r => Some (ph (fst r), uresult (fst r), timed_out (fst r), UnitTimers.leaked (fst r))
  | Clocks.Panicked => None
  end.

Example C03_ex_unit_histories :
  (* sleeps past the limit: SIGKILL, then reaped, pipes close => TIMEOUT *)
  ex_final [Tick 10; FireInterval; ChildExit false; FdsDone] = Some (PDone, UTimeout, true, false)
  (* the interval event before it is due is ignored; exit 0, pipes closed at once => PASS *)
  /\ ex_final [Tick 9; FireInterval; FdsDone; ChildExit true] = Some (PDone, UPass, false, false)
  (* exit 0, a descendant holds the pipe past the 5 ns leak timeout => LEAK *)
  /\ ex_final [ChildExit true; Tick 5; FireLeak] = Some (PDone, ULeak, false, true)
  (* the leak timer cannot fire early, and EOF before it => PASS *)
  /\ ex_final [ChildExit true; Tick 4; FireLeak; FdsDone] = Some (PDone, UPass, false, false)
  (* non-zero exit with a leak => FAIL (leak flag set) *)
  /\ ex_final [ChildExit false; Tick 7; FireLeak] = Some (PDone, UFail, false, true).
Proof. repeat split; vm_compute; reflexivity. Qed.

Example C03_ex_unit_paths :
  timeout_path ex_tbl ex_cfg (uinit ex_cfg) [Tick 10; FireInterval; ChildExit false; FdsDone]
  /\ ~ timeout_path ex_tbl ex_cfg (uinit ex_cfg) [Tick 9; FireInterval; FdsDone; ChildExit true]
  /\ leak_path ex_tbl ex_cfg (uinit ex_cfg) [ChildExit true; Tick 5; FireLeak]
  /\ ~ leak_path ex_tbl ex_cfg (uinit ex_cfg) [ChildExit true; Tick 4; FireLeak; FdsDone].
Proof.
  unfold timeout_path, leak_path, timeout_fire, leak_fire. cbn.
  repeat split; try (right; left; repeat split; reflexivity);
    try (right; right; left; repeat split; reflexivity);
    intuition discriminate.
Qed.

Example C03_ex_leak_history :
  attempt_result false false (Exited 0) false (detect_leak 100 [(30, FdData); (60, FdEof)]) = Pass
  /\ attempt_result false false (Exited 0) false (detect_leak 100 [(30, FdData); (160, FdEof)]) = Leak
  /\ attempt_result false false (Exited 3) false (detect_leak 100 [(30, Classify.Req)]) = Fail None true
  /\ open_at 100 [(30, FdData); (160, FdEof)] /\ ~ open_at 100 [(30, FdData); (60, FdEof)].
Proof. repeat split; try (vm_compute; reflexivity). cbn. lia. cbn. lia. Qed.
